#!/bin/bash
# Offline bootstrap of /verif/.venv: a venv of /venv's interpreter that sees /venv's
# site-packages and /repo, plus crosshair-tool and z3-solver from the local wheelhouse.
set -e
cd "$(dirname "$0")"
V=/verif/.venv
exec 9>/verif/.setup.lock
flock 9
if [ -x "$V/bin/python" ] && "$V/bin/python" -c "import crosshair, z3, liquid" 2>/dev/null; then exit 0; fi
rm -rf "$V"
/venv/bin/python -m venv "$V"
SP=$("$V/bin/python" -c "import sysconfig; print(sysconfig.get_paths()['purelib'])")
printf "import site; site.addsitedir('/venv/lib/python3.12/site-packages')\n/repo\n" > "$SP/verif_overlay.pth"
PIP_NO_INDEX=1 "$V/bin/pip" install -q --no-index --find-links /opt/veriftools/wheels crosshair-tool z3-solver
"$V/bin/python" -c "import crosshair, z3, liquid; print('ok', crosshair.__version__)"
