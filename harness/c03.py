"""C03 Lax and warn modes suppress errors without changing correct output.

R1 (relational, symbolic data): a family of VALID skeleton templates covering every tag and
   expression form is parsed once in three environments that differ only in `tolerance`.
   For symbolic data: LAX and WARN renders never raise a Liquid error; IF the STRICT render
   completes THEN the LAX and WARN renders give the identical string and WARN records no warning.
R2 mode-dispatch kernels, one step each, from a selector over every LiquidError subclass of
   liquid/exceptions.py and a symbolic mode: Environment.error, RenderContext.error,
   Tag.get_node (stub tags whose parse raises), the Parser loops (stub tags raising through and
   around Tag.get_node, top level and inside a block) and BoundTemplate.render_with_context
   (stub nodes writing symbolic text / raising an error, a loop interrupt or StopRender at a
   selector position; `partial` / `block_scope` flags).
   Oracle: STRICT re-raises the same object; WARN returns and emits exactly one warning whose
   category is lookup_warning(type(exc)); LAX returns silently; the nodes after the failing one
   are still parsed / rendered (nothing after StopRender; an interrupt in a partial that shares
   its parent's scope is re-raised in every mode, as documented in template.py).
R3 (selector-only enumeration) a family of lexer-accepted MALFORMED sources: in LAX and WARN
   from_string and render raise nothing, and LAX and WARN give the same output ("warn mode
   behaves the same except that each suppressed error is reported as a warning").
"""
import inspect
import warnings
from io import StringIO
from typing import Union

from liquid import CachingDictLoader, DictLoader, Environment, Mode
from liquid import exceptions as EXC_MOD
from liquid.ast import IllegalNode, Node
from liquid.context import RenderContext
from liquid.exceptions import (BreakLoop, ContextDepthError, ContinueLoop, LiquidError, LiquidInterrupt, LiquidSyntaxError,
                               LiquidSyntaxWarning, StopRender, lookup_warning)
from liquid.stream import TokenStream
from liquid.tag import Tag
from liquid.template import BoundTemplate
from liquid.token import TOKEN_EOF, TOKEN_TAG, Token

from vf.hx import drive, excluded, finish

PROPERTY = "C03"
CONDITIONS = []
DETAIL = {}

MODES = (Mode.LAX, Mode.WARN, Mode.STRICT)

PARTIALS = {
    "p": "<{{ v }}{{ w }}>",
    "pl": "({{ forloop.index }}/{{ forloop.length }}:{{ v }})",
    "brk": "{% if v %}{% break %}{% endif %}c",
    "cont": "{% if v %}{% continue %}{% endif %}c",
    "base": "[{% block b %}B{{ y }}{% endblock %}|{% block c %}C{% endblock %}]",
    "mid": "{% extends 'base' %}{% block b %}M{{ block.super }}{% endblock %}",
    "bad": "{% if %}x{% endif %}{{ y | nosuch }}z",
    "inc": "{% include 'p' %}",
    "rec": "{% include 'rec' %}",
    "req": "{% block b required %}{% endblock %}",
}


def _mkenv(mode):
    env = Environment(extra=True, tolerance=mode, loader=CachingDictLoader(PARTIALS, auto_reload=False))
    return env


ENVS = {m: _mkenv(m) for m in MODES}


def pick(seq, k):
    """seq[k] by comparison (keeps k symbolic, one branch per element)."""
    for i in range(len(seq)):
        if k == i:
            return seq[i]
    return seq[len(seq) - 1]


def untraced(thunk):
    """Run thunk on the plain interpreter even inside a CrossHair run: used by the selector-only
    conditions, whose bodies are concrete once the selectors are decided by comparisons."""
    try:
        from crosshair.tracers import NoTracing, is_tracing
    except ImportError:
        return thunk()
    if is_tracing():
        with NoTracing():
            return thunk()
    return thunk()


def conc(k, n):
    """The concrete int equal to selector k (0 <= k < n), decided by comparisons."""
    for i in range(n):
        if k == i:
            return i
    return n - 1


def mode_of(m):
    return Mode.LAX if m == 1 else Mode.WARN if m == 2 else Mode.STRICT


def watch(thunk):
    """Run thunk recording warnings. -> (('ok', value) | ('raise', exc), [(category, text)])."""
    with warnings.catch_warnings(record=True) as log:
        warnings.simplefilter("always")
        try:
            r = ("ok", thunk())
        except Exception as e:
            r = ("raise", e)
        seen = [(w.category, str(w.message)) for w in log]
    return r, seen


# =====================================================================================
# R2  mode-dispatch kernels
# =====================================================================================
ERRORS = sorted((c for c in vars(EXC_MOD).values() if inspect.isclass(c) and issubclass(c, LiquidError)),
                key=lambda c: c.__name__)
NERR = len(ERRORS)
SRC0 = "line one\n{% stub %} two\nthree"
TOK_A = Token(TOKEN_TAG, "stub", 12, SRC0)
TOK_B = Token(TOKEN_TAG, "other", 0, SRC0)


def dispatch_oracle(mode, res, seen, exc):
    """The outcome of handing `exc` to the mode dispatcher."""
    if mode == Mode.STRICT:
        return res[0] == "raise" and res[1] is exc and seen == []
    if res[0] != "ok":
        return False
    if mode == Mode.WARN:
        return len(seen) == 1 and seen[0][0] is lookup_warning(type(exc)) and seen[0][1] == str(exc)
    return seen == []


def c03_k_env_error(k: int, m: int, form: int) -> bool:
    """
    pre: 0 <= k < NERR
    pre: 1 <= m <= 3
    pre: 0 <= form <= 2
    post: _
    """
    # form 0: error without token, none given; 1: error with its own token, another offered
    # (own token kept); 2: error without token, one offered (attached)
    if excluded("c03_k_env_error", locals()):
        return True
    mode = mode_of(m)
    env = ENVS[mode]
    cls = pick(ERRORS, k)
    exc = cls("boom", token=TOK_A if form == 1 else None)
    offered = None if form == 0 else TOK_B
    res, seen = watch(lambda: env.error(exc, token=offered))
    ok = dispatch_oracle(mode, res, seen, exc)
    want_tok = None if form == 0 else TOK_A if form == 1 else TOK_B
    ok = ok and exc.token is want_tok
    if res[0] == "ok":
        ok = ok and res[1] is None
    return finish(ok)


def c03_k_env_error_class(k: int, m: int, with_tok: bool) -> bool:
    """
    pre: 0 <= k < NERR
    pre: 1 <= m <= 3
    post: _
    """
    # Environment.error(ExceptionClass, msg, token): the instance is built by the dispatcher
    if excluded("c03_k_env_error_class", locals()):
        return True
    mode = mode_of(m)
    env = ENVS[mode]
    cls = pick(ERRORS, k)
    tok = TOK_A if with_tok else None
    res, seen = watch(lambda: env.error(cls, msg="boom", token=tok))
    ref = cls("boom", token=tok)
    if mode == Mode.STRICT:
        ok = res[0] == "raise" and type(res[1]) is cls and res[1].token is tok and res[1].args == ("boom",) and seen == []
    elif mode == Mode.WARN:
        ok = res[0] == "ok" and len(seen) == 1 and seen[0][0] is lookup_warning(cls) and seen[0][1] == str(ref)
    else:
        ok = res[0] == "ok" and seen == []
    return finish(ok)


ROOT = {m: ENVS[m].from_string("") for m in MODES}


def c03_k_ctx_error(k: int, m: int, with_tok: bool) -> bool:
    """
    pre: 0 <= k < NERR
    pre: 1 <= m <= 3
    post: _
    """
    if excluded("c03_k_ctx_error", locals()):
        return True
    mode = mode_of(m)
    ctx = RenderContext(ROOT[mode])
    cls = pick(ERRORS, k)
    exc = cls("boom", token=TOK_A if with_tok else None)
    res, seen = watch(lambda: ctx.error(exc))
    ok = dispatch_oracle(mode, res, seen, exc)
    if res[0] == "ok":
        ok = ok and res[1] is None
    return finish(ok)


# ---- stub tags ------------------------------------------------------------------------
BOX = {"cls": LiquidSyntaxError, "tok": False, "raised": []}


def _boom(stream):
    exc = BOX["cls"]("boom", token=stream.current if BOX["tok"] else None)
    BOX["raised"].append(exc)
    return exc


class StubTag(Tag):
    """An inline tag whose parse always fails."""
    name = "stub"
    block = False

    def parse(self, stream):
        raise _boom(stream)


class StubBlockTag(Tag):
    """A block tag whose parse fails on its opening tag."""
    name = "stubb"
    end = "endstubb"
    block = True

    def parse(self, stream):
        raise _boom(stream)


class RawStubTag(Tag):
    """A tag that bypasses Tag.get_node's recovery: the error reaches the parser loop."""
    name = "rawstub"
    block = False

    def get_node(self, stream):
        raise _boom(stream)

    def parse(self, stream):
        raise _boom(stream)


for _m in MODES:
    for _t in (StubTag, StubBlockTag, RawStubTag):
        ENVS[_m].add_tag(_t)

GN_SRC = {False: "{% stub %}x{% endstub %}y", True: "{% stubb %}x{{ 1 }}{% if a %}{% endstubb %}y{% endstubb %}z"}
GN_TOKENS = {b: list(ENVS[Mode.STRICT].tokenizer()(s)) for b, s in GN_SRC.items()}


def c03_k_get_node(k: int, m: int, block: bool, with_tok: bool) -> bool:
    """
    pre: 0 <= k < NERR
    pre: 1 <= m <= 3
    post: _
    """
    # Tag.get_node: STRICT raises; otherwise an IllegalNode for the tag is returned, the
    # error carries a token, and a block tag's body is skipped up to its end tag
    if excluded("c03_k_get_node", locals()):
        return True
    mode = mode_of(m)
    BOX["cls"] = pick(ERRORS, k)
    BOX["tok"] = with_tok
    del BOX["raised"][:]
    tag = ENVS[mode].tags["stubb" if block else "stub"]
    stream = TokenStream(iter(GN_TOKENS[block]))
    first = stream.current
    res, seen = watch(lambda: tag.get_node(stream))
    if len(BOX["raised"]) != 1:
        return finish(False)
    exc = BOX["raised"][0]
    ok = dispatch_oracle(mode, res, seen, exc) and exc.token is first
    if res[0] == "ok":
        node = res[1]
        ok = ok and isinstance(node, IllegalNode) and node.token is first
        if block:
            ok = ok and stream.current.kind == TOKEN_TAG and stream.current.value == "endstubb" and stream.peek.value == "y"
        else:
            ok = ok and stream.current is first
    return finish(ok)


# ---- parser loops ---------------------------------------------------------------------
# (source, expected LAX/WARN output of the recovered template)
PARSE_CASES = [
    ("a{% stub %}b{{ 1 }}", "ab1"),
    ("a{% stubb %}x{{ 2 }}{% endstubb %}b{{ 1 }}", "ab1"),
    ("a{% rawstub %}b{{ 1 }}", "ab1"),
    ("{% if true %}a{% stub %}b{% endif %}c", "abc"),
    ("{% if true %}a{% rawstub %}b{% endif %}c", "abc"),
    ("{% for i in (1..2) %}a{% stubb %}x{% endstubb %}{{ i }}{% endfor %}c", "a1a2c"),
    ("{% capture z %}a{% rawstub %}b{% endcapture %}{{ z }}c{% stub %}", "abc"),
    ("{% liquid echo 'a'\n stub\n echo 'b' %}c", "abc"),
    ("{% liquid echo 'a'\n rawstub\n echo 'b' %}c", "abc"),
]
NPARSE = len(PARSE_CASES)
# number of times the stub's parse runs: a top-level or nested failure is reported once
PARSE_RAISES = [1, 1, 1, 1, 1, 1, 2, 1, 1]


def parser_kernel(k, m, c, with_tok):
    mode = mode_of(m)
    BOX["cls"] = pick(ERRORS, k)
    BOX["tok"] = with_tok
    del BOX["raised"][:]
    src, want = PARSE_CASES[c]
    nraise = PARSE_RAISES[c]
    env = ENVS[mode]
    # Parser.parse on the real token stream (Environment.from_string additionally wraps errors
    # that are not syntax errors into a generic LiquidError; that wrapper is not under test)
    res, seen = watch(lambda: env._parse(src))
    raised = list(BOX["raised"])
    if mode == Mode.STRICT:
        # the first failure aborts the parse with the very object the tag raised
        return (res[0] == "raise" and len(raised) == 1 and res[1] is raised[0] and seen == [])
    if res[0] != "ok" or len(raised) != nraise:
        return (False)
    cat = lookup_warning(BOX["cls"])
    if mode == Mode.WARN:
        ok = len(seen) == nraise
        for i in range(len(seen)):
            ok = ok and seen[i][0] is cat and seen[i][1] == str(raised[i])
    else:
        ok = seen == []
    for e in raised:
        ok = ok and e.token is not None
    # everything around the failing tag was still parsed
    res2, seen2 = watch(lambda: BoundTemplate(env, res[1]).render())
    ok = ok and res2 == ("ok", want) and seen2 == []
    return (ok)


# ---- render loop ----------------------------------------------------------------------
TXT = ["a", "b", "c"]
RBOX = {"exc": None}


class TextNode(Node):
    def __init__(self, token, idx):
        super().__init__(token)
        self.idx = idx

    def render_to_output(self, context, buffer):
        buffer.write(TXT[self.idx])
        return 1


class RaiseNode(Node):
    def render_to_output(self, context, buffer):
        raise RBOX["exc"]


NODE_TOKS = [Token(TOKEN_TAG, "n%d" % i, i * 3, "n0 n1 n2 n3") for i in range(3)]


def _nodes(p):
    return [RaiseNode(NODE_TOKS[i]) if i == p else TextNode(NODE_TOKS[i], i) for i in range(3)]


# templates with the raising node at position p (3 = nowhere)
RT = {(m, p): BoundTemplate(ENVS[m], _nodes(p), name="t") for m in MODES for p in range(4)}


def _render_kernel(mode, p, partial, block_scope, s0, s1, s2):
    TXT[0] = s0
    TXT[1] = s1
    TXT[2] = s2
    t = RT[(mode, p)]
    ctx = RenderContext(t)
    buf = StringIO()
    res, seen = watch(lambda: t.render_with_context(ctx, buf, partial=partial, block_scope=block_scope))
    return res, seen, buf.getvalue(), ctx


def _texts(p, s0, s1, s2, upto):
    out = ""
    if p != 0 and upto > 0:
        out += s0
    if p != 1 and upto > 1:
        out += s1
    if p != 2 and upto > 2:
        out += s2
    return out


def render_error(k, m, p, partial, block_scope, with_tok, s0, s1, s2):
    # a node raising a Liquid error: STRICT aborts with the same object after the output of the
    # nodes before it; WARN/LAX skip the node, keep rendering the rest
    mode = mode_of(m)
    cls = pick(ERRORS, k)
    exc = cls("boom", token=TOK_A if with_tok else None)
    RBOX["exc"] = exc
    res, seen, out, ctx = _render_kernel(mode, p, partial, block_scope, s0, s1, s2)
    if p == 3:
        return (res == ("ok", None) and seen == [] and out == s0 + s1 + s2)
    if partial and cls is ContextDepthError:
        # the cut-off of a recursion is not dealt with inside a partial: it unwinds to the root template, which handles
        # it by mode (c03_r5_recursion checks that end to end); were every level to carry on with its next node, a
        # partial rendering itself twice would do 2^depth work in LAX mode (C09)
        return res[0] == "raise" and res[1] is exc and seen == [] and out == _texts(p, s0, s1, s2, p) and "partial" not in ctx.scope
    ok = dispatch_oracle(mode, res, seen, exc)
    ok = ok and exc.token is (TOK_A if with_tok else NODE_TOKS[p])
    if mode == Mode.STRICT:
        ok = ok and out == _texts(p, s0, s1, s2, p)
    else:
        ok = ok and out == _texts(p, s0, s1, s2, 3)
    # the scope pushed for the template is popped again
    ok = ok and "partial" not in ctx.scope
    return (ok)


def c03_k_render_interrupt(brk: bool, m: int, p: int, partial: bool, block_scope: bool, s0: str, s1: str, s2: str) -> bool:
    """
    pre: 1 <= m <= 3
    pre: 0 <= p <= 2
    pre: len(s0) <= 1 and len(s1) <= 1 and len(s2) <= 1
    post: _
    """
    # break/continue outside a loop: a syntax error handled by mode, except inside a partial
    # sharing its parent's scope (include), where the interrupt belongs to the parent's loop
    if excluded("c03_k_render_interrupt", locals()):
        return True
    mode = mode_of(m)
    exc = BreakLoop("break") if brk else ContinueLoop("continue")
    RBOX["exc"] = exc
    res, seen, out, ctx = _render_kernel(mode, p, partial, block_scope, s0, s1, s2)
    before = _texts(p, s0, s1, s2, p)
    if partial and not block_scope:
        return finish(res[0] == "raise" and res[1] is exc and seen == [] and out == before)
    if mode == Mode.STRICT:
        ok = res[0] == "raise" and type(res[1]) is LiquidSyntaxError and res[1].token is NODE_TOKS[p] and seen == [] and out == before
    elif mode == Mode.WARN:
        ok = res == ("ok", None) and len(seen) == 1 and seen[0][0] is LiquidSyntaxWarning and out == _texts(p, s0, s1, s2, 3)
    else:
        ok = res == ("ok", None) and seen == [] and out == _texts(p, s0, s1, s2, 3)
    return finish(ok)


def c03_k_render_stop(m: int, p: int, partial: bool, block_scope: bool, s0: str, s1: str, s2: str) -> bool:
    """
    pre: 1 <= m <= 3
    pre: 0 <= p <= 2
    pre: len(s0) <= 1 and len(s1) <= 1 and len(s2) <= 1
    post: _
    """
    # StopRender is not an error: rendering stops quietly in every mode
    if excluded("c03_k_render_stop", locals()):
        return True
    mode = mode_of(m)
    RBOX["exc"] = StopRender()
    res, seen, out, ctx = _render_kernel(mode, p, partial, block_scope, s0, s1, s2)
    return finish(res == ("ok", None) and seen == [] and out == _texts(p, s0, s1, s2, p))



def _mk_render_error(p):
    nm = "c03_k_render_error_p%d" % p

    def f(k: int, m: int, partial: bool, block_scope: bool, with_tok: bool, s0: str, s1: str, s2: str) -> bool:
        """
        pre: 0 <= k < NERR
        pre: 1 <= m <= 3
        pre: len(s0) <= 1 and len(s1) <= 1 and len(s2) <= 1
        post: _
        """
        if excluded(nm, locals()):
            return True
        return finish(render_error(k, m, p, partial, block_scope, with_tok, s0, s1, s2))
    f.__name__ = f.__qualname__ = nm
    return nm, f


def _mk_parser(c):
    nm = "c03_k_parser_%d" % c

    def f(k: int, m: int, with_tok: bool) -> bool:
        """
        pre: 0 <= k < NERR
        pre: 1 <= m <= 3
        post: _
        """
        if excluded(nm, locals()):
            return True
        ck, cm, ct = conc(k, NERR), conc(m, 4), (True if with_tok else False)
        return finish(untraced(lambda: parser_kernel(ck, cm, c, ct)))
    f.__name__ = f.__qualname__ = nm
    return nm, f


CONDITIONS += [
    {"fn": "c03_k_env_error", "quick": 40, "thorough": 120, "sel_only": True},
    {"fn": "c03_k_env_error_class", "quick": 40, "thorough": 120, "sel_only": True},
    {"fn": "c03_k_ctx_error", "quick": 40, "thorough": 120, "sel_only": True},
    {"fn": "c03_k_get_node", "quick": 40, "thorough": 150, "sel_only": True},
    {"fn": "c03_k_render_interrupt", "quick": 40, "thorough": 150},
    {"fn": "c03_k_render_stop", "quick": 30, "thorough": 100},
]
for _p in range(3):
    _nm, _f = _mk_render_error(_p)
    globals()[_nm] = _f
    CONDITIONS.append({"fn": _nm, "quick": 80 if _p == 1 else None, "thorough": 240})
_QUICK_PARSE = (0, 2, 3, 4)
for _c in range(NPARSE):
    _nm, _f = _mk_parser(_c)
    globals()[_nm] = _f
    CONDITIONS.append({"fn": _nm, "quick": 40 if _c in _QUICK_PARSE else None, "thorough": 120, "sel_only": True})

# =====================================================================================
# R1  valid skeletons: strict success => identical output in LAX and WARN, no warning
# =====================================================================================
V = Union[None, bool, int, str]

SKEL = {
    # output statements, paths, filters
    "out_plain": "{{ x }}|{{ y }}|{{ xs[0] }}|{{ xs.size }}|{{ xs.first }}|{{ xs.last }}|{{ nosuch }}|{{ nosuch.a.b }}|{{ 'lit' }}|{{ 1.5 }}|{{ -3 }}|{{ true }}|{{ nil }}",
    "out_paths": "{{ d.a }}|{{ d['b'] }}|{{ d[k] }}|{{ xs[1] }}|{{ xs[-1] }}|{{ d.a.size }}|{{ d[\"a\"].first }}|{{ xs[x] }}|{{ d[y] }}|{{ d.size }}|{{ xs[d.n] }}",
    "out_filters_str": "{{ x | append: y | prepend: 'p' }}|{{ y | default: 'd' }}|{{ x | size }}|{{ y | replace: 'a', 'b' | remove: '1' }}|{{ y | split: 'a' | join: '-' }}|{{ y | strip }}|{{ y | upcase }}",
    "out_filters_math": "{{ x | plus: y }}|{{ x | minus: 1 | times: 2 }}|{{ x | abs }}|{{ x | at_least: 0 | at_most: 5 }}|{{ x | ceil }}|{{ x | floor }}|{{ x | round }}",
    "out_filters_div": "a{{ x | divided_by: y }}|b{{ x | modulo: y }}|c",
    "out_filters_arr": "{{ xs | join: ',' }}|{{ xs | reverse | first }}|{{ ds | map: 'a' | join }}|{{ xs | concat: xs | size }}|{{ xs | sort | last }}|{{ xs | uniq | compact | join }}|{{ xs | sum }}",
    "out_filters_args": "{{ y | slice: 0, 1 }}|{{ y | slice: x }}|{{ y | truncate: 2, '' }}|{{ x | default: y, allow_false: true }}|{{ y | truncatewords: 1 }}|{{ ds | where: 'b', x | size }}|{{ ds | where: 'a' | map: 'a' | join }}",
    "out_range_literal": "{{ (1..3) | join: ',' }}|{% assign r = (x..2) %}{{ r | size }}",
    # conditions
    "if_else": "{% if x %}T{% elsif y %}E{% else %}F{% endif %}|{% if xs %}l{% endif %}{% if nosuch %}u{% else %}n{% endif %}",
    "if_cmp": "{% if x == y %}eq{% elsif x < y %}lt{% elsif x > y %}gt{% else %}na{% endif %}|{% if x != y %}ne{% endif %}{% if x <= y %}le{% endif %}{% if x >= 1 %}ge{% endif %}",
    "if_logic": "{% if x and y or xs contains x %}A{% else %}B{% endif %}{% if x == empty or y == blank or x == nil %}C{% endif %}{% if y contains 'a' %}E{% endif %}",
    "unless": "{% unless x %}U{% else %}V{% endunless %}{% unless x == y %}W{% elsif y %}X{% else %}Y{% endunless %}",
    "case": "{% case x %}{% when 1 %}one{% when 'a', y %}ay{% when true %}t{% when nil %}n{% else %}other{% endcase %}|{% case y %}{% when x or 0 %}z{% endcase %}",
    # loops
    "for_basic": "{% for i in xs %}{{ i }}{{ forloop.index }}{{ forloop.first }}{{ forloop.last }}{{ forloop.rindex0 }}{% else %}E{% endfor %}|{% for c in y %}{{ c }}{% endfor %}|{% for p in d %}{{ p[0] }}{% endfor %}",
    "for_args": "{% for i in xs limit: x offset: y reversed %}{{ i }}{% else %}E{% endfor %}|{% for i in xs, limit: 2, offset: 1 %}{{ i }}{% endfor %}|{% for i in xs reversed limit:1 %}{{ i }}{% endfor %}",
    "for_break_continue": "{% for i in xs %}{% if i == x %}{% break %}{% endif %}{% if i == y %}{% continue %}{% endif %}{{ i }}{% endfor %}|",
    "for_range": "{% for i in (x..2) %}{{ i }}{% else %}E{% endfor %}|{% for i in (1..y) limit: 2 %}{{ i }}{% endfor %}",
    "for_nested": "{% for i in xs %}{% for j in xs %}{{ forloop.parentloop.index }}{{ j }}{{ forloop.length }}{% endfor %};{% endfor %}",
    "for_continue_offset": "{% for i in xs limit: 1 %}{{ i }}{% endfor %}|{% for i in xs offset: continue %}{{ i }}{% endfor %}|{% for i in xs offset: continue limit: x %}{{ i }}{% endfor %}",
    "tablerow": "{% tablerow i in xs cols: 2 limit: x %}{{ i }}{{ tablerowloop.col }}{{ tablerowloop.row }}{% endtablerow %}|{% tablerow i in xs offset: y %}{{ tablerowloop.col_last }}{% endtablerow %}",
    "tablerow_interrupt": "{% tablerow i in xs cols: x %}{% if i == y %}{% break %}{% endif %}{% if i == 1 %}{% continue %}{% endif %}{{ i }}{% endtablerow %}",
    # variables and state
    "assign_capture": "{% assign a = x | append: y %}{% capture c %}{{ a }}-{{ y }}{% endcapture %}{{ c }}{{ a }}{% assign x = y %}{{ x }}{% assign e = nosuch %}[{{ e }}]",
    "echo": "{% echo x | default: y %}|{% echo xs | join: '+' %}|{% echo 'lit' | upcase %}",
    "cycle": "{% for i in xs %}{% cycle 'a', 'b' %}{% cycle 'g': x, y %}{% cycle g: 1, 2, 3 %}{% endfor %}{% cycle x, y %}",
    "incdec": "{% increment c %}{% increment c %}{% decrement e %}{{ c }}{{ e }}{% increment x %}{{ x }}{% decrement y %}{{ y }}",
    "ifchanged": "{% for i in xs %}{% ifchanged %}{{ x }}{% endifchanged %}{% ifchanged %}{{ i }}{% endifchanged %}{% endfor %}",
    "liquid_tag": "{% liquid\n assign a = x\n if a\n echo a\n else\n echo y\n endif\n for i in xs\n echo i\n unless i == x\n echo '-'\n endunless\n endfor\n case y\n when 'a'\n echo 'A'\n endcase\n # inline comment\n increment q %}|{{ a }}",
    "comments_raw": "{% comment %}{{ x }}{% if %}{% endcomment %}{% raw %}{{ x }}{% if %}{% endraw %}{% # inline %}a{{ x }}{% doc %}{{ y }}{% enddoc %}",
    "whitespace": "a  {{- x -}}  b \n {%- if y -%} c \n {%- endif -%} d {%- assign q = 1 -%} e {{ y -}}  \n",
    "composite": "{% for i in xs %}{% case i %}{% when x %}X{% when y %}Y{% else %}{% unless i == 1 %}n{% endunless %}{% endcase %}{% if forloop.last %}{% capture c %}{{ i }}{% endcapture %}{% endif %}{% endfor %}{{ c }}",
    # partials
    "include_args": "{% include 'p', v: x, w: y %}{% include 'p' with x %}{% include 'p' for xs %}{% include 'p' with y as v %}{% include 'p' v: 1, w: 2 %}",
    "include_var": "{% assign n = 'p' %}{% assign v = x %}{% include n %}{% include 'pl' for xs as v %}{{ p }}",
    "include_interrupt": "{% for i in xs %}{{ i }}{% include 'brk', v: x %}{% endfor %}|{% for i in xs %}{{ i }}{% include 'cont', v: y %}d{% endfor %}",
    "render_args": "{% render 'p', v: x, w: y %}{% render 'p' with x as v %}{% render 'p' for xs as v %}{% render 'p' with y %}{% render 'pl' for xs as v %}",
    "render_scope": "{% assign v = x %}{% render 'p' %}{% render 'p', w: v %}{% for i in xs %}{% render 'p', v: i, w: forloop.index %}{% endfor %}",
    # extra tags
    "extends_block": "{% extends 'base' %}{% block b %}{{ x }}{{ block.super }}{% endblock %}ignored{{ x }}",
    "extends_chain": "{% extends 'mid' %}{% block b %}<{{ block.super }}>{% endblock b %}{% block c %}{% for i in xs %}{{ i }}{% endfor %}{% endblock %}",
    "block_plain": "[{% block b %}{{ x }}{% block inner %}{{ y }}{% endblock inner %}{% endblock b %}]",
    "macro_call": "{% macro f, a, b: 'd' %}({{ a }},{{ b }},{{ args.size }},{{ kwargs.size }}){% endmacro %}{% call f, x %}{% call f, x, b: y %}{% call f %}{% call f, 1, 2, 3, z: y %}{% call nosuch, x %}",
    "with": "{% with a: x, b: y %}{{ a }}{{ b }}{% assign q = a %}{% endwith %}[{{ a }}{{ q }}]{% with a: xs.size %}{{ a }}{% endwith %}",
    "translate": "{% translate %}Hello {{ x }}!{% endtranslate %}|{% translate count: x, you: y %}One {{ you }}{% plural %}{{ count }} of {{ you }}{% endtranslate %}|{{ 'Hi %(n)s' | t: n: y }}|{{ 'msg' | gettext }}",
}
# optional syntax (class-level switches), in a second triple of environments
SKEL_X = {
    "x_logic": "{% if not x and (y or x) %}D{% else %}d{% endif %}{% unless not (x == y) %}U{% endunless %}{% if (x or y) and not xs.first %}F{% endif %}",
    "x_ternary": "{{ x if y else 'z' }}|{{ x | upcase if y == 1 else y | append: 'n' || prepend: '>' }}|{% assign q = x if not y else y %}{{ q }}|{% echo 'a' if x %}",
    "x_strings": "{{ y[0] }}|{{ y.first }}|{{ y.last }}|{% for c in y %}<{{ c }}>{% endfor %}|{{ y[-1] }}|{{ xs.0 }}|{{ d.a.0 }}",
    "x_keyword_eq": "{% include 'p', v=x, w: y %}{% render 'p', v=x %}{{ x | default: y, allow_false=true }}{% with a=x %}{{ a }}{% endwith %}{# a comment {{ x }} #}",
}


class XEnv(Environment):
    logical_not_operator = True
    logical_parentheses = True
    ternary_expressions = True
    keyword_assignment = True
    shorthand_indexes = True
    string_sequences = True
    string_first_and_last = True


ENVS_X = {m: XEnv(extra=True, tolerance=m, template_comments=True, loader=CachingDictLoader(PARTIALS, auto_reload=False)) for m in MODES}
T1 = {}
for _k in list(SKEL):
    T1[_k] = {_m: ENVS[_m].from_string(SKEL[_k]) for _m in MODES}
for _k in list(SKEL_X):
    T1[_k] = {_m: ENVS_X[_m].from_string(SKEL_X[_k]) for _m in MODES}
SKEL.update(SKEL_X)
for _m in MODES:
    ENVS_X[_m].get_template("p")
for _m in MODES:
    for _p in ("p", "pl", "brk", "cont", "base", "mid"):
        ENVS[_m].get_template(_p)


def run1(t, data, log):
    """-> ((kind, value), n_warnings). kind: ok | liquid (a LiquidError escaped) | other."""
    n0 = len(log)
    try:
        r = ("ok", t.render(**data))
    except LiquidError as e:
        r = ("liquid", type(e).__name__)
    except Exception as e:
        r = ("other", type(e).__name__)
    return r, len(log) - n0


USES_LIST = {}


def r1(name, x, y, n):
    if USES_LIST[name]:
        xs = list(range(n))
        ds = [{"a": i, "b": x} for i in range(n)]
    else:
        xs = [0, 1]
        ds = []
    data = {"x": x, "y": y, "xs": xs, "d": {"a": x, "b": y, "n": len(xs)}, "k": "a", "ds": ds}
    ts = T1[name]
    with warnings.catch_warnings(record=True) as log:
        warnings.simplefilter("always")
        rs, ws = run1(ts[Mode.STRICT], data, log)
        rl, wl = run1(ts[Mode.LAX], data, log)
        rw, ww = run1(ts[Mode.WARN], data, log)
    # lax and warn never let a Liquid error out; strict and lax never warn
    ok = rl[0] != "liquid" and rw[0] != "liquid" and ws == 0 and wl == 0
    if rs[0] == "ok":
        ok = ok and rl == rs and rw == rs and ww == 0
    else:
        # warn mode behaves like lax mode apart from reporting
        ok = ok and rl == rw
    return ok


def r1_detail(name, x, y, n):
    xs = list(range(n)) if USES_LIST[name] else [0, 1]
    ds = [{"a": i, "b": x} for i in range(n)] if USES_LIST[name] else []
    data = {"x": x, "y": y, "xs": xs, "d": {"a": x, "b": y, "n": len(xs)}, "k": "a", "ds": ds}
    out = {"template": SKEL[name], "data": data}
    for m in MODES:
        with warnings.catch_warnings(record=True) as log:
            warnings.simplefilter("always")
            out[m.name] = run1(T1[name][m], data, log)
    return out


def _mk_r1(name):
    nm = "c03_r1_" + name

    def f(x: V, y: V, n: int) -> bool:
        """
        pre: 0 <= n <= 3
        pre: not isinstance(x, int) or -1 <= x <= 9
        pre: not isinstance(y, int) or -1 <= y <= 9
        pre: not isinstance(x, str) or (len(x) <= 2 and all(c in "a1 " for c in x))
        pre: not isinstance(y, str) or (len(y) <= 2 and all(c in "a1 " for c in y))
        post: _
        """
        if excluded(nm, locals()):
            return True
        return finish(r1(name, x, y, n))
    f.__name__ = f.__qualname__ = nm
    USES_LIST[name] = ("xs" in SKEL[name]) or ("ds" in SKEL[name])
    DETAIL[nm] = lambda x, y, n: r1_detail(name, x, y, n)
    return nm, f


_QUICK_R1 = ("out_filters_div", "if_cmp", "case", "for_args", "tablerow_interrupt", "assign_capture", "include_interrupt", "render_args",
             "extends_chain", "macro_call")
for _k in SKEL:
    _nm, _f = _mk_r1(_k)
    globals()[_nm] = _f
    CONDITIONS.append({"fn": _nm, "quick": 30 if _k in _QUICK_R1 else None, "thorough": 70})

# =====================================================================================
# R3  malformed sources (lexer-accepted): LAX and WARN never raise, and agree
# =====================================================================================
BAD = {
    "output": [
        "{{ }}", "{{ x | }}", "{{ x | nosuch }}", "{{ x | upcase: }}", "{{ x. }}", "{{ x.[0] }}", "{{ x[ }}", "{{ x[] }}", "{{ | upcase }}", "{{ x y }}",
        "{{ x | upcase | }}", "{{ x | append }}", "{{ x | append: 'a', 'b', 'c' }}", "{{ 'a' | slice: 'x' }}", "{{ x | default: a: }}", "{{ (1..) }}",
        "{{ 1 | divided_by: 0 }}", "{{ x | where }}", "{{ x | map }}", "{{ x ? }}", "{{ 'abc }}", "{{ x | date }}", "{{ x if }}", "{{ x['a'] b }}", "{{ x[0] b }}",
        "{{ x | slice: 0,, 1 }}", "{{ x | default: 1 a: 2 }}", "{{ xs | sort: 1, 2, 3 }}", "a{{ x | nosuch }}b{{ y }}c", "{{ x | upcase: a b }}", "{{ 1 | plus }}", "{{ x.y.[ }}",
    ],
    "if_unless": [
        "{% if %}a{% endif %}", "{% if x == %}a{% endif %}", "{% if x %}a", "{% if x %}a{% elsif %}b{% endif %}", "{% if x = 1 %}a{% endif %}", "{% if x and %}a{% endif %}",
        "{% if (x %}a{% endif %}", "{% if x %}a{% endunless %}", "{% if x %}a{% elsif y = %}b{% endif %}c", "{% if x %}a{% elsif y %}b{% elsif %}c{% else %}d{% endif %}e",
        "{% if true %}a{% elsif %}b{% endif %}c", "{% if false %}a{% elsif %}b{% else %}c{% endif %}d", "{% if x %}a{% else y %}b{% endif %}", "{% if x %}a{% else %}b{% else %}c{% endif %}d",
        "{% if x %}a{% else %}b{% elsif y %}c{% endif %}d", "{% if x contains %}a{% endif %}", "{% if x < 'a' %}a{% endif %}b", "{% if 1 < x %}a{% endif %}b", "{% if x %}{% if y %}a{% endif %}b",
        "{% unless %}a{% endunless %}", "{% unless x %}a", "{% unless x %}a{% elsif %}b{% endunless %}c", "{% unless x %}a{% endif %}", "{% unless x %}a{% else y %}b{% endunless %}",
        "{% unless x %}a{% else %}b{% else %}c{% endunless %}d", "{% if x %}a{% endif x %}b", "{% if x | upcase %}a{% endif %}",
    ],
    "case": [
        "{% case %}{% when 1 %}a{% endcase %}", "{% case x %}{% when %}a{% endcase %}", "{% case x %}{% when 1 %}a", "{% case x %}{% else %}a{% when %}b{% endcase %}",
        "{% case x %}{% when 1 %}a{% else y %}b{% endcase %}", "{% case x y %}{% when 1 %}a{% endcase %}", "{% case x %}{% when 1 2 %}a{% endcase %}", "{% case x %}{% when 1 %}a{% endif %}",
        "{% case x %}{% elsif 1 %}a{% endcase %}", "{% case x %}{% when | %}a{% endcase %}b", "{% case 'a' %}{% when 1 %}a{% when 'a' %}b{% when %}c{% endcase %}d",
    ],
    "loops": [
        "{% for %}a{% endfor %}", "{% for i %}a{% endfor %}", "{% for i in %}a{% endfor %}", "{% for i in x limit: %}a{% endfor %}", "{% for i in x limit %}a{% endfor %}", "{% for i in (1..3) %}a",
        "{% for i in x foo %}a{% endfor %}", "{% for i in (1..3 %}a{% endfor %}", "{% for i in (1..3) limit: 'a' %}a{% endfor %}", "{% for i in (1..3) %}a{% else %}b{% else %}c{% endfor %}",
        "{% for i in (1..2) offset: continue limit: %}a{% endfor %}", "{% for i in (1..2) %}{{ i }}{% endtablerow %}", "{% for i in (1..2),, limit: 1 %}a{% endfor %}b", "{% for i in (1..2) %}a{% else x %}b{% endfor %}",
        "{% for i in (1..2) %}{{ i }}{% if %}{% endfor %}z", "{% for i in (1..2) %}{{ i }}{{ | }}b{% endfor %}z", "{% for i in (1..2) limit: -1 offset: 'x' %}a{% endfor %}z", "{% for i in (x..y) %}a{% endfor %}z",
        "{% for i.j in xs %}a{% endfor %}", "{% for i in xs reversed reversed foo: 1 %}a{% endfor %}", "{% for i in (1..2) %}{% for j in %}a{% endfor %}b{% endfor %}c",
        "{% tablerow %}a{% endtablerow %}", "{% tablerow i in %}a{% endtablerow %}", "{% tablerow i in (1..3) cols: %}a{% endtablerow %}", "{% tablerow i in (1..3) %}a", "{% tablerow i in (1..3) cols: 0 %}a{% endtablerow %}",
        "{% tablerow i in (1..2) %}{% nosuch %}{% endtablerow %}z", "{% tablerow i in (1..2) %}a{% endfor %}",
    ],
    "orphans": [
        "{% else %}", "{% elsif x %}", "{% when 1 %}", "{% endif %}", "{% endfor %}", "{% endcase %}", "{% endunless %}", "{% endcapture %}", "{% endtablerow %}", "{% endblock %}", "{% endmacro %}",
        "{% endwith %}", "{% endcomment %}", "{% endraw %}", "{% endtranslate %}", "{% plural %}", "a{% break %}b", "a{% continue %}b", "{% if true %}{% break %}{% endif %}x", "a{% endif %}b{{ 1 }}",
        "{% if true %}a{% endif %}{% endif %}b", "a{% else %}b{% endif %}c", "{% capture c %}{% break %}x{% endcapture %}[{{ c }}]", "{% case 1 %}{% when 1 %}{% continue %}a{% endcase %}b", "{% break x %}a",
        "{% nosuch %}", "{% nosuch x y %}a{% endnosuch %}", "{% %}", "{% 1 %}", "{%  %}x", "{% if true %}{% nosuch %}a{% endif %}b", "{% IF x %}a{% ENDIF %}", "{% end %}", "{% - %}",
    ],
    "variables": [
        "{% assign %}", "{% assign x %}", "{% assign x = %}", "{% assign = 1 %}", "{% assign x = 1 | %}", "{% assign x = 1 | nosuch %}", "{% assign x.y = 1 %}", "{% assign x = 1 2 %}a{{ x }}",
        "{% assign x == 1 %}", "{% capture %}a{% endcapture %}", "{% capture x %}a", "{% capture x y %}a{% endcapture %}", "{% capture 'x' %}a{% endcapture %}{{ x }}", "{% capture x %}{{ | }}b{% endcapture %}[{{ x }}]",
        "{% echo x | %}", "{% echo x | nosuch %}", "{% echo | x %}", "{% cycle %}", "{% cycle g: %}", "{% cycle , %}", "{% cycle 'a', | %}", "{% increment %}", "{% increment 'a' %}", "{% decrement %}", "{% decrement | %}",
        "{% ifchanged %}a", "{% ifchanged x %}a{% endifchanged %}", "{% comment %}a", "{% raw %}a", "{% doc %}a",
    ],
    # names where a tag expects a plain identifier: bracketed, quoted, numeric, dotted, with a question mark
    "targets": [
        "{% assign [x] = 1 %}a{{ x }}", "{% assign [x.y] = 'v' %}a", "{% assign ['x'] = 1 %}{{ x }}", "{% assign [0] = 1 %}a", "{% assign x? = 1 %}{{ x? }}", "{% assign x[0] = 1 %}a", "{% assign 1 = 1 %}a",
        "{% capture [x] %}a{% endcapture %}b", "{% capture x? %}a{% endcapture %}{{ x? }}", "{% capture x.y %}a{% endcapture %}b", "{% capture [x.y] %}a{% endcapture %}b",
        "{% for [i] in xs %}a{% endfor %}b", "{% for i? in xs %}{{ i? }}{% endfor %}b", "{% for i in [xs] %}a{% endfor %}b", "{% tablerow [i] in xs %}a{% endtablerow %}", "{% for [i.j] in xs %}a{% endfor %}b",
        "{% increment [x] %}a", "{% decrement x.y %}a", "{% increment x? %}a", "{% cycle [x]: 1, 2 %}a", "{% with [a]: 1 %}{{ a }}{% endwith %}b", "{% macro [f] %}a{% endmacro %}b", "{% macro f, [a] %}x{% endmacro %}{% call f %}b",
        "{% call [f] %}b", "{% render 'p', [v]: 1 %}b", "{% include 'p', [v]: 1 %}b", "{% render 'p' with x as [v] %}b", "{% include 'p' for xs as [v] %}b", "{% liquid assign [x] = 1\n echo x %}b", "{% translate [n]: 1 %}a{% endtranslate %}b",
        "{% block [b] %}a{% endblock %}c", "{% assign [x][y] = 1 %}a", "{% assign [[x]] = 1 %}a", "{% assign [x = 1 %}a",
    ],
    "liquid_tag": [
        "{% liquid if %}", "{% liquid\n if x\n echo 1 %}", "{% liquid nosuch %}", "{% liquid\n else %}", "{% liquid assign x = %}", "{% liquid\n echo 'a'\n nosuch\n echo 'b' %}c", "{% liquid\n echo 'a'\n echo |\n echo 'b' %}c",
        "{% liquid\n for i in\n echo i\n endfor\n echo 'z' %}", "{% liquid\n endif %}a", "{% liquid\n break %}a", "{% liquid\n case x\n when\n echo 1\n endcase %}a", "{% liquid liquid liquid if %}",
    ],
    "partials": [
        "{% include %}", "{% include 'nosuch' %}", "{% include 'p' with %}", "{% include 'p', v: %}", "{% include x %}", "{% include 'p' for %}", "{% include 'bad' %}", "{% include 'brk', v: 1 %}", "{% include 'p' as %}",
        "{% include 'p' | upcase %}", "{% include 'rec' %}", "{% include 'p' v 1 %}", "a{% include 'nosuch' %}b{% include 'p', v: 1 %}c", "{% include 1 %}", "{% include 'req' %}",
        "{% render %}", "{% render 'nosuch' %}", "{% render x %}", "{% render 'p' with %}", "{% render 'p', v: %}", "{% render 'p' for %}", "{% render 'bad' %}", "{% render 'brk', v: 1 %}", "{% render 'p' for x as %}",
        "{% for i in (1..2) %}{% render 'brk', v: 1 %}{% endfor %}z", "{% render 'inc' %}", "a{% render 'nosuch' %}b{% render 'p', v: 1 %}c", "{% render 'p' v 1 %}", "{% render 'rrec' %}", "{% render 'p', v: 1 w: 2 %}",
    ],
    "extra": [
        "{% extends %}", "{% extends 'nosuch' %}", "{% extends x %}", "{% extends 'base' %}{% extends 'base' %}", "{% block %}a{% endblock %}", "{% block b %}a", "{% block b %}a{% endblock c %}",
        "{% block b required %}{% endblock %}", "{% extends 'req' %}", "{% extends 'base' %}{% block b %}{% if %}{% endblock %}", "{% extends 'cyc1' %}", "{% extends 'base' %}{% block b %}{{ block.super | nosuch }}{% endblock %}",
        "{% extends 'bad' %}", "{% block b %}{% endblock %}{% block b %}{% endblock %}{% extends 'base' %}", "{% extends 'base' 'mid' %}",
        "{% macro %}a{% endmacro %}", "{% macro f %}a", "{% call %}", "{% call f, x: %}", "{% macro f, a: %}x{% endmacro %}", "{% macro f, a %}{{ a | nosuch }}{% endmacro %}{% call f, 1 %}z", "{% call f a %}", "{% macro f | %}x{% endmacro %}",
        "{% with %}a{% endwith %}", "{% with a %}a{% endwith %}", "{% with a: %}a{% endwith %}", "{% with a: 1 %}a", "{% with a: 1 %}{{ a | nosuch }}{% endwith %}z", "{% with a: 1 b: 2 %}a{% endwith %}",
        "{% translate %}a", "{% translate x %}a{% endtranslate %}", "{% translate x: %}a{% endtranslate %}", "{% translate %}a{% plural %}b{% plural %}c{% endtranslate %}", "{% translate %}{% if x %}a{% endif %}{% endtranslate %}",
        "{% translate %}{{ x | upcase }}{% endtranslate %}", "{% translate %}{{ x.y }}{% endtranslate %}", "{% translate count: 'a' %}a{% plural %}b{% endtranslate %}", "{{ 'a%(' | t }}", "{{ 'a' | t: 1, 2, 3, 4 }}",
    ],
}
PARTIALS3 = dict(PARTIALS)
PARTIALS3.update({"rrec": "{% render 'rrec' %}", "cyc1": "{% extends 'cyc2' %}", "cyc2": "{% extends 'cyc1' %}"})
ENVS3 = {m: Environment(extra=True, tolerance=m, loader=DictLoader(PARTIALS3)) for m in (Mode.LAX, Mode.WARN)}
DATA3 = [{}, {"x": 1, "y": "a", "xs": [1, 2], "v": True}, {"x": "a", "y": None, "xs": [], "v": False}]


def run3(env, src, data):
    """parse: nothing may be raised. render: no Liquid error may escape (other exception
    classes are the subject of C02 and only have to agree between LAX and WARN)."""
    with warnings.catch_warnings(record=True):
        warnings.simplefilter("always")
        try:
            t = env.from_string(src)
        except Exception as e:
            return ("parse-raise", type(e).__name__)
        def one(thunk):
            try:
                return ("ok", thunk())
            except LiquidError as e:
                return ("render-raise", type(e).__name__)
            except Exception as e:
                return ("other", type(e).__name__)
        a = one(lambda: t.render(**data))
        b = one(lambda: drive(t.render_async(**data)))
        if a != b:
            return ("sync/async differ", a, b)
        return a


# sources that only STRICT mode rejects (documented strict-only syntax checks: a trailing dot, a missing comma between
# arguments): LAX and WARN accept them, so there is nothing for WARN to report
STRICT_ONLY = {"{{ x. }}", "{{ x.[0] }}", "{{ x['a'] b }}", "{{ x[0] b }}", "{{ x | slice: 0,, 1 }}", "{% render 'p', v: 1 w: 2 %}",
               "{% with a: 1 b: 2 %}a{% endwith %}"}
_STRICT3 = Environment(extra=True, loader=DictLoader(PARTIALS3))


def warn_count(src, data):
    with warnings.catch_warnings(record=True) as log:
        warnings.simplefilter("always")
        try:
            ENVS3[Mode.WARN].from_string(src).render(**data)
        except Exception:
            pass
    return len(log)


def r3(group, k, d):
    src = pick(BAD[group], k)
    data = pick(DATA3, d)
    rl = run3(ENVS3[Mode.LAX], src, data)
    rw = run3(ENVS3[Mode.WARN], src, data)
    ok = rl[0] in ("ok", "other") and rl == rw
    if ok and src not in STRICT_ONLY and run3(_STRICT3, src, data)[0] in ("parse-raise", "render-raise"):
        # STRICT raises a Liquid error that the tolerant modes suppress: WARN reports it
        ok = warn_count(src, data) >= 1
    return ok


def _mk_r3(group):
    nm = "c03_r3_" + group
    size = len(BAD[group])

    def f(k: int, d: int) -> bool:
        """
        pre: 0 <= k <= 39
        pre: 0 <= d <= 2
        post: _
        """
        if excluded(nm, locals()) or k >= size:
            return True
        ck, cd = conc(k, size), conc(d, 3)
        return finish(untraced(lambda: r3(group, ck, cd)))
    f.__name__ = f.__qualname__ = nm
    DETAIL[nm] = lambda k, d: {"source": BAD[group][k], "data": DATA3[d], "lax": run3(ENVS3[Mode.LAX], BAD[group][k], DATA3[d]),
                               "warn": run3(ENVS3[Mode.WARN], BAD[group][k], DATA3[d]), "strict": run3(_STRICT3, BAD[group][k], DATA3[d]),
                               "warnings in WARN mode": warn_count(BAD[group][k], DATA3[d])}
    return nm, f


for _g in BAD:
    _nm, _f = _mk_r3(_g)
    globals()[_nm] = _f
    CONDITIONS.append({"fn": _nm, "quick": 60, "thorough": 200, "sel_only": True})

# ---- R5: recursion through partials in the tolerant modes: the render returns (no Liquid error, no hang) and WARN reports it
_R5_P = {"a": "x{% render 'a' %}{% render 'a' %}", "b": "x{% include 'b' %}{% include 'b' %}",
         "c": "x{% for i in (1..2) %}{% render 'c' %}{% endfor %}",
         "e": "{% extends 'e2' %}{% block b %}{% include 'e' %}{% include 'e' %}{% endblock %}", "e2": "[{% block b %}{% endblock %}]",
         "s": "x{% render 'a' %}y{% render 'a' %}z", "t": "{% if true %}{% render 't' %}{% endif %}{% include 't' %}"}
_R5_NAMES = ["a", "b", "c", "e", "s", "t"]
_R5_ENVS = {}


class _R5Hang(BaseException):
    pass


def _r5_alarm(signum, frame):
    raise _R5Hang()


def recursion_case(ni, m, L, use_async):
    import signal
    from liquid import CachingDictLoader
    mode = mode_of(m)
    key = (mode, L)
    if key not in _R5_ENVS:
        cls = type("R5Env", (Environment,), {"context_depth_limit": L})
        _R5_ENVS[key] = cls(extra=True, tolerance=mode, loader=CachingDictLoader(dict(_R5_P), auto_reload=False))
    env = _R5_ENVS[key]
    old = signal.signal(signal.SIGALRM, _r5_alarm)
    signal.alarm(10)
    try:
        try:
            t = env.get_template(_R5_NAMES[ni])
            if use_async:
                from vf.hx import drive
                res, seen = watch(lambda: drive(t.render_async()))
            else:
                res, seen = watch(lambda: t.render())
        except _R5Hang:
            return ("hang", None, 0)
    finally:
        signal.alarm(0)
        signal.signal(signal.SIGALRM, old)
    return (res[0], type(res[1]).__name__ if res[0] != "ok" else len(res[1]), len(seen))


def c03_r5_recursion(ni: int, m: int, li: int, use_async: bool) -> bool:
    """
    pre: 0 <= ni <= 5 and 1 <= m <= 3 and 0 <= li <= 2
    post: _
    """
    if excluded("c03_r5_recursion", locals()):
        return True
    ni, m, li = conc(ni, 6), conc(m, 4), conc(li, 3)
    ua = True if use_async else False
    r = untraced(lambda: recursion_case(ni, m, (8, 16, 30)[li], ua))
    mode = mode_of(m)
    if mode == Mode.STRICT:
        return finish(r[0] == "raise" and r[1] == "ContextDepthError")
    if mode == Mode.WARN:
        return finish(r[0] == "ok" and r[2] >= 1)
    return finish(r[0] == "ok" and r[2] == 0)


DETAIL["c03_r5_recursion"] = lambda ni, m, li, use_async: {"template": _R5_P[_R5_NAMES[ni]], "mode": str(mode_of(m)), "context_depth_limit": (8, 16, 30)[li],
                                                          "(status, error or output length, warnings)": recursion_case(ni, m, (8, 16, 30)[li], use_async)}
CONDITIONS.append({"fn": "c03_r5_recursion", "quick": 60, "thorough": 120, "sel_only": True})

# ---- R4: resource limits reached while rendering are Liquid errors like any other: suppressed in LAX, reported once or
# more in WARN, wherever in the template the limit is crossed (top-level text, text in a block, output, partial) --------
LIM_PART = {"lp": "partial-text{{ x }}", "lq": "{% for i in xs %}{{ i }}{% endfor %}", "lr": "{% include 'lr' %}"}
LIM_SRC = [
    "top-level literal text {{ x }} and more literal text after it",
    "{% if true %}literal text in a block{% endif %}{{ x }}tail",
    "{{ xs | join: '-' }}{{ x }}{{ x }}{{ x }}",
    "a{% include 'lp' %}b{% render 'lp', x: x %}c",
    "{% for i in xs %}{% for j in xs %}{{ i }}{{ j }}{% endfor %}{% endfor %}done",
    "{% assign a = xs | join: 'aaaa' %}{% assign b = a | append: a %}{% capture c %}{{ b }}{{ b }}{% endcapture %}ok",
    "{% render 'lq', xs: xs %}|{% tablerow i in xs %}{{ i }}{% endtablerow %}",
    "x{% include 'lr' %}y",
    "{% capture c %}captured text that is long enough{% endcapture %}short",
    "{% liquid echo 'from liquid tag'\n echo x %}literal",
]
LIM_KIND = ("output_stream_limit", "loop_iteration_limit", "local_namespace_limit", "context_depth_limit")
LIM_VALUES = {0: (0, 1, 5, 12, 30), 1: (0, 1, 3, 8, 100), 2: (0, 60, 120, 400, 5000), 3: (6, 8, 10, 15, 30)}
_LENVS = {}


def lim_env(mode, kind, value):
    key = (mode, kind, value)
    if key not in _LENVS:
        cls = type("LimEnv", (Environment,), {LIM_KIND[kind]: value})
        _LENVS[key] = cls(extra=True, tolerance=mode, loader=DictLoader(LIM_PART))
    return _LENVS[key]


def lim_case(k, kind, vi, n):
    value = LIM_VALUES[kind][vi]
    data = {"x": "X", "xs": list(range(n))}
    out = {}
    for mode in (Mode.LAX, Mode.WARN, Mode.STRICT):
        res, seen = watch(lambda: lim_env(mode, kind, value).from_string(LIM_SRC[k]).render(**data))
        out[mode] = (res[0], res[1] if res[0] == "ok" else type(res[1]).__name__, len(seen))
    return out


def lim_ok(o):
    lax, warn, strict = o[Mode.LAX], o[Mode.WARN], o[Mode.STRICT]
    if lax[0] != "ok" or warn[0] != "ok" or lax[1] != warn[1] or lax[2] != 0:
        return False
    if strict[0] == "ok":
        # nothing to suppress: all three agree and WARN is silent
        return strict[1] == lax[1] and warn[2] == 0
    return warn[2] >= 1


def c03_r4_limits(k: int, kind: int, vi: int, n: int) -> bool:
    """
    pre: 0 <= k <= 9 and 0 <= kind <= 3 and 0 <= vi <= 4 and 0 <= n <= 3
    post: _
    """
    if excluded("c03_r4_limits", locals()):
        return True
    ck, ckind, cvi, cn = conc(k, 10), conc(kind, 4), conc(vi, 5), conc(n, 4)
    return finish(untraced(lambda: lim_ok(lim_case(ck, ckind, cvi, cn))))


DETAIL["c03_r4_limits"] = lambda k, kind, vi, n: {"source": LIM_SRC[k], LIM_KIND[kind]: LIM_VALUES[kind][vi], "xs": list(range(n)),
                                                   "lax/warn/strict (status, output or error, warnings)": [lim_case(k, kind, vi, n)[m] for m in (Mode.LAX, Mode.WARN, Mode.STRICT)]}
CONDITIONS.append({"fn": "c03_r4_limits", "quick": 90, "thorough": 200, "sel_only": True})

# ---- the shared corpus: a render that succeeds in STRICT mode gives the same output, silently, in LAX and WARN ----
from harness import corpus as _corpus  # noqa: E402

_CENVS = {m: _corpus.make_env(tolerance=m) for m in (Mode.STRICT, Mode.WARN, Mode.LAX)}


def _corpus_check(w2, w1, leaf, d):
    ts = {m: _corpus.template(e, w2, w1, leaf) for m, e in _CENVS.items()}
    if ts[Mode.STRICT] is None:
        return None
    strict = _corpus.outcome(lambda: ts[Mode.STRICT].render(**_corpus.data(d)))
    res = {}
    for m in (Mode.LAX, Mode.WARN):
        if ts[m] is None:
            return {"parses in STRICT but not in": str(m)}
        r, seen = watch(lambda: ts[m].render(**_corpus.data(d)))
        res[m] = (r[0], r[1] if r[0] == "ok" else type(r[1]).__name__, len(seen))
        ra, seen_a = watch(lambda: drive(ts[m].render_async(**_corpus.data(d))))
        res_a = (ra[0], ra[1] if ra[0] == "ok" else type(ra[1]).__name__, len(seen_a))
        if res_a != res[m]:
            return {"mode": str(m), "render": res[m], "render_async": res_a}
    if res[Mode.LAX][0] != "ok" or res[Mode.WARN][0] != "ok" or res[Mode.LAX][1] != res[Mode.WARN][1] or res[Mode.LAX][2] != 0:
        return {"strict": strict, "lax": res[Mode.LAX], "warn": res[Mode.WARN]}
    if strict[0] == "ok" and (strict[1] != res[Mode.LAX][1] or res[Mode.WARN][2] != 0):
        return {"strict": strict, "lax": res[Mode.LAX], "warn": res[Mode.WARN]}
    if strict[0] == "liquid" and res[Mode.WARN][2] == 0:
        return {"strict": strict, "warn is silent": res[Mode.WARN]}
    return None


c03_corpus, _det = _corpus.mk_condition("c03_corpus", _corpus_check)
DETAIL["c03_corpus"] = _det
CONDITIONS.append({"fn": "c03_corpus", "quick": 90, "thorough": 200, "sel_only": True, "bounds": _corpus.BOUNDS})

ASSUMPTIONS = [
    "R1: template sources are concrete valid skeletons (SKEL, SKEL_X); x, y : None | bool | int (-1..9) | str (<= 2 chars over 'a1 '), list length 0..3 are symbolic; the three environments differ only in `tolerance`",
    "R1 asserts for LAX/WARN only what the statement says: no LiquidError escapes; other exception classes are C02's subject and only have to agree between LAX and WARN",
    "R2: exception class = selector over every LiquidError subclass defined in liquid/exceptions.py (collected by introspection), mode = selector; stub tags/nodes are registered in harness environments; Parser kernel calls Environment._parse (from_string additionally wraps non-syntax errors in a generic LiquidError)",
    "R3 is program-only enumeration (selector over a generated family of malformed sources x 3 fixed data sets); WARN must emit at least one warning whenever STRICT raises a Liquid error, except for the 7 listed sources that only STRICT mode's extra syntax checks reject (STRICT_ONLY)",
    "warnings are observed with warnings.catch_warnings(record=True) + simplefilter('always') inside each condition",
]
OUTSIDE = [
    "context_depth_limit below 4 (the outermost scope of any render is already deeper: nothing renders in any mode)",
    "sources the template lexer itself rejects (they raise in every mode by design)",
    "non-Liquid exceptions raised while rendering (C02)",
    "custom tags other than the harness stubs; custom loaders; async rendering of the R1 skeletons and the R2 kernels (R3, R5 and the corpus render both ways)",
    "malformed sources outside the generated family; data outside the stated bounds",
]


def selftest():
    fails = []
    # the malformed family is accepted by the lexer, and most of it is rejected in STRICT mode
    strict = Environment(extra=True, loader=DictLoader(PARTIALS3))
    rejected = 0
    total = 0
    for g in BAD:
        if len(BAD[g]) > 40:
            fails.append("group %s exceeds the selector bound 40" % g)
        for src in BAD[g]:
            total += 1
            try:
                list(strict.tokenizer()(src))
            except Exception as e:
                fails.append("lexer rejects %r: %s" % (src, type(e).__name__))
            if run3(strict, src, DATA3[1])[0] != "ok":
                rejected += 1
    if rejected * 10 < total * 7:
        fails.append("only %d of %d malformed sources are rejected in STRICT mode" % (rejected, total))
    # documented behaviour (docs/environment.md, tests): WARN turns a syntax error into one LiquidSyntaxWarning
    res, seen = watch(lambda: ENVS[Mode.WARN].from_string("{% if %}a{% endif %}b").render())
    if res != ("ok", "b") or len(seen) != 1 or seen[0][0] is not LiquidSyntaxWarning:
        fails.append("WARN baseline: %r %r" % (res, seen))
    res, seen = watch(lambda: ENVS[Mode.LAX].from_string("{% if %}a{% endif %}b").render())
    if res != ("ok", "b") or seen:
        fails.append("LAX baseline: %r %r" % (res, seen))
    res, seen = watch(lambda: ENVS[Mode.STRICT].from_string("{% if %}a{% endif %}b"))
    if res[0] != "raise" or type(res[1]) is not LiquidSyntaxError:
        fails.append("STRICT baseline: %r" % (res,))
    # valid skeletons stringify identically in the three modes (where nodes have a __str__)
    for k, ts in T1.items():
        a = [str(ts[m]) for m in MODES]
        if " object at 0x" not in a[0] and not (a[0] == a[1] == a[2]):
            fails.append("skeleton %s parses differently by mode" % k)
    if NERR < 20 or LiquidError not in ERRORS:
        fails.append("exception class pool incomplete: %d" % NERR)
    return fails
