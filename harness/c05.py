"""C05 Autoescape keeps render data from injecting HTML.

Real code executed under CrossHair (whole renders of concrete skeleton templates on
Environment(autoescape=True, extra=True)): stringify.to_liquid_string,
builtin/output.py, the echo/assign/capture/cycle/for/if/case/liquid/include/render
tags, the extra translate tag, the t/gettext filters, extends/block with
block.super, and the string/array/misc filters named in the property, with
markupsafe's Markup/escape on top of the pure-Python escape kernel.

Families (generated at import by closure factories):
  A  construct x filter chain: the output is HTML-safe (oracle below)
       c05_a_<construct>__<chain>   one (construct, chain), data up to 2 code points
       c05_a3_*                     the same with up to 3 code points (thorough)
       c05_g_<label>__s<i>/st<i>    one of <= 16 / <= 8 (construct, chain) pairs selected
                                    by k, data up to 1 code point each (MEMBERS lists them)
       c05_cut_<construct>__<chain> pairs refuted on the pinned tree (a string filter cuts
                                    or edits an escaped Markup value inside a character
                                    reference), isolated so that everything else stays confirmed
  B  c05_b*_markup / c05_b*_html: values marked safe (Markup, __html__) are written unchanged
  C  c05_c_*: data over {a, b, space}: autoescape on == autoescape off

Symbolic render data: strings s, t over the alphabet < > & ' " a ; # l t, int n,
xs = [s, t]. Markup is a C-level str subclass: constructing one realises the
symbolic text, so exploration enumerates the distinct texts that reach Markup();
a confirmed verdict means this enumeration was exhausted inside the bounds.

Oracle (statement): the output contains no raw < > " ' and every & starts one of
&amp; &lt; &gt; &#39; &#34; (the five sequences markupsafe emits; the exact
upper-case forms &AMP; &LT; &GT; that `upcase` makes of them are the same HTML5
character references and are accepted too). Template literal text of the
skeletons contains none of these characters, so everything special in the
output comes from render data.
"""
import re

import markupsafe
import markupsafe._native

# stub: the C speed-up concretises symbolic strings; the documented pure-Python fallback is used
markupsafe._escape_inner = markupsafe._native._escape_inner

from liquid import CachingDictLoader, Environment, Markup  # noqa: E402
from liquid.exceptions import FilterError  # noqa: E402

from crosshair.core import realize  # noqa: E402
from crosshair.tracers import NoTracing  # noqa: E402

from crosshair.libimpl import builtinslib as _bl  # noqa: E402

from vf.hx import cbool, cint, excluded, finish, untraced  # noqa: E402

# CrossHair models str.join by concatenation with +. For items (or a separator) that are instances
# of a str subclass this dispatches to the subclass operators: ";".join([Markup("&")]) came back as a
# Markup (escaping done by Markup.__radd__), whereas the real str.join ignores the subclass and
# returns an exact str. Real str-subclass instances are demoted to exact str before the model runs.
_ch_join = _bl._join


def _join_exact(self, itr, self_type, item_type):
    if self_type is str:
        items = []
        for item in itr:
            with NoTracing():
                if isinstance(item, str) and type(item) is not str:
                    item = str.__str__(item)
            items.append(item)
        itr = items
        with NoTracing():
            if isinstance(self, str) and type(self) is not str:
                self = str.__str__(self)
    return _ch_join(self, itr, self_type, item_type)


_bl._join = _join_exact

PROPERTY = "C05"
Q2 = chr(34)
Q1 = chr(39)
ALPHA = "<>&a;#lt" + Q2 + Q1
DETAIL = {}
CONDITIONS = []

# --------------------------------------------------------------------------
# filter chains. Names usable inside: t (data string), n (data int), xs = [s, t]
# String literals inside tags are template-author text and contain no specials.
# --------------------------------------------------------------------------
L1 = [
    ("none", ""),
    ("upcase", "upcase"), ("downcase", "downcase"), ("capitalize", "capitalize"),
    ("strip", "strip"), ("lstrip", "lstrip"), ("rstrip", "rstrip"),
    ("strip_newlines", "strip_newlines"), ("squish", "squish"),
    ("escape", "escape"), ("escape_once", "escape_once"), ("escapejs", "escapejs"),
    ("append_t", "append: t"), ("prepend_t", "prepend: t"), ("append_lit", "append: 'a'"),
    ("remove_t", "remove: t"), ("remove_first_t", "remove_first: t"), ("remove_last_t", "remove_last: t"),
    ("remove_l", "remove: 'l'"), ("remove_first_l", "remove_first: 'l'"), ("remove_last_l", "remove_last: 'l'"),
    ("replace_t_a", "replace: t, 'a'"), ("replace_a_t", "replace: 'a', t"), ("replace_t_t", "replace: t, t"),
    ("replace_l_a", "replace: 'l', 'a'"),
    ("replace_first_a_t", "replace_first: 'a', t"), ("replace_first_l_t", "replace_first: 'l', t"),
    ("replace_last_a_t", "replace_last: 'a', t"), ("replace_last_t_a", "replace_last: t, 'a'"),
    ("slice_0_2", "slice: 0, 2"), ("slice_1", "slice: 1"), ("slice_m1", "slice: -1, 1"), ("slice_n_2", "slice: n, 2"),
    ("truncate_2", "truncate: 2, ''"), ("truncate_3", "truncate: 3"), ("truncate_n_t", "truncate: n, t"),
    ("truncatewords_1", "truncatewords: 1"), ("truncatewords_1_t", "truncatewords: 1, t"),
    ("first", "first"), ("last", "last"), ("size", "size"),
    ("url_encode", "url_encode"), ("url_decode", "url_decode"),
    ("base64_encode", "base64_encode"), ("base64_decode", "base64_decode"),
    ("base64_url_safe_encode", "base64_url_safe_encode"), ("base64_url_safe_decode", "base64_url_safe_decode"),
    ("default_t", "default: t"), ("default_lit", "default: 'a'"),
    ("strip_html", "strip_html"),
    ("join_t", "join: t"), ("split_t", "split: t"), ("split_empty", "split: ''"), ("split_l", "split: 'l'"),
    ("reverse", "reverse"), ("sort", "sort"), ("sort_natural", "sort_natural"), ("uniq", "uniq"),
    ("compact", "compact"), ("concat_xs", "concat: xs"), ("map_a", "map: 'a'"),
    ("t", "t"), ("gettext", "gettext"),
]
L2 = [
    ("split_t_join_t", "split: t | join: t"), ("split_a_join_t", "split: 'a' | join: t"),
    ("split_empty_join", "split: '' | join: ''"), ("split_l_join", "split: 'l' | join"),
    ("split_t_first", "split: t | first"), ("split_a_last", "split: 'a' | last"), ("split_l_first", "split: 'l' | first"),
    ("split_empty_reverse_join", "split: '' | reverse | join: ''"), ("split_empty_sort", "split: '' | sort"),
    ("split_empty_uniq", "split: '' | uniq"), ("split_empty_slice", "split: '' | slice: 0, 2"),
    ("escape_slice", "escape | slice: 0, 2"), ("escape_truncate", "escape | truncate: 2, ''"),
    ("escape_remove_l", "escape | remove: 'l'"), ("escape_remove_t", "escape | remove: t"),
    ("escape_replace_l_a", "escape | replace: 'l', 'a'"), ("escape_replace_a_t", "escape | replace: 'a', t"),
    ("escape_split_l_join", "escape | split: 'l' | join"), ("escape_upcase", "escape | upcase"),
    ("escape_append_t", "escape | append: t"), ("escape_prepend_t", "escape | prepend: t"),
    ("escape_once_append_t", "escape_once | append: t"), ("escape_once_slice", "escape_once | slice: 0, 2"),
    ("escape_escape", "escape | escape"), ("escape_escape_once", "escape | escape_once"),
    ("escape_once_escape", "escape_once | escape"), ("escape_url_decode", "escape | url_decode"),
    ("escape_strip_html", "escape | strip_html"), ("escape_default_t", "escape | default: t"),
    ("url_encode_url_decode", "url_encode | url_decode"), ("url_decode_url_decode", "url_decode | url_decode"),
    ("url_decode_append_t", "url_decode | append: t"), ("url_decode_strip_html", "url_decode | strip_html"),
    ("b64_roundtrip", "base64_encode | base64_decode"), ("b64url_roundtrip", "base64_url_safe_encode | base64_url_safe_decode"),
    ("b64_roundtrip_append_t", "base64_encode | base64_decode | append: t"),
    ("append_t_slice", "append: t | slice: 1, 2"), ("append_t_truncate", "append: t | truncate: 2, ''"),
    ("append_t_remove_t", "append: t | remove: t"), ("prepend_t_strip_html", "prepend: t | strip_html"),
    ("default_t_upcase", "default: t | upcase"), ("default_t_slice", "default: t | slice: 0, 1"),
    ("strip_html_append_t", "strip_html | append: t"), ("replace_a_t_slice", "replace: 'a', t | slice: 0, 2"),
    ("upcase_escape_once", "upcase | escape_once"), ("strip_html_escape_once", "strip_html | escape_once"),
]
ARR = [
    ("none", ""), ("join", "join"), ("join_t", "join: t"), ("join_lit", "join: 'a'"),
    ("first", "first"), ("last", "last"), ("reverse", "reverse"), ("reverse_join_t", "reverse | join: t"),
    ("sort", "sort"), ("sort_natural", "sort_natural"), ("uniq", "uniq"), ("compact", "compact"),
    ("concat_xs", "concat: xs"), ("concat_xs_join", "concat: xs | join"), ("map_a", "map: 'a'"),
    ("slice_0_1", "slice: 0, 1"), ("size", "size"), ("where_t", "where: t"), ("reject_t", "reject: t"),
    ("find_t", "find: t"), ("has_t", "has: t"), ("find_index_t", "find_index: t"),
    ("first_append_t", "first | append: t"), ("last_slice", "last | slice: 0, 1"), ("join_slice", "join | slice: 0, 2"),
    ("join_t_escape_once", "join: t | escape_once"), ("sort_first", "sort | first"),
]
CHAIN = dict(L1)
CHAIN.update(L2)
ARRCHAIN = dict(ARR)


def _pipe(f):
    return (" | " + f) if f else ""


# --------------------------------------------------------------------------
# constructs. Each maps a filter chain F to a template source. `filtered` says
# whether F is used at all (cycle/case/translate take no filter chain).
# Markup-valued inputs to F: capture, super (block.super), cap_for.
# --------------------------------------------------------------------------
def _src_out(f): return "{{ s%s }}" % _pipe(f)
def _src_echo(f): return "{%% echo s%s %%}" % _pipe(f)
def _src_assign(f): return "{%% assign v = s%s %%}{{ v }}" % _pipe(f)
def _src_capture(f): return "{%% capture c %%}{{ s }}{%% endcapture %%}{{ c%s }}" % _pipe(f)
def _src_for(f): return "{%% for x in xs %%}{{ x%s }}{%% endfor %%}" % _pipe(f)
def _src_if(f): return "{%% if s == t %%}{{ t }}{%% else %%}{{ s%s }}{%% endif %%}" % _pipe(f)
def _src_liquid(f): return "{%% liquid echo s%s %%}" % _pipe(f)
def _src_include(f): return "{%% include 'p_%s', v: s %%}"
def _src_render(f): return "{%% render 'p_%s', v: s, t: t, n: n, xs: xs %%}"
def _src_super(f): return "{%% extends 'base' %%}{%% block b %%}{{ block.super%s }}{%% endblock %%}" % _pipe(f)
def _src_arr(f): return "{{ xs%s }}" % _pipe(f)


CONSTRUCTS = {
    "out": _src_out, "echo": _src_echo, "assign": _src_assign, "capture": _src_capture, "for": _src_for,
    "if": _src_if, "liquid": _src_liquid, "include": _src_include, "render": _src_render, "super": _src_super,
}
# constructs without a generated filter chain: name -> (source, data used)
FIXED = {
    "cycle": ("{% cycle s, t %}{% cycle s, t %}", "st"),
    "cycle_group": ("{% cycle s: t, s %}{% cycle s: t, s %}", "st"),
    "case": ("{% case s %}{% when t %}{{ s }}{% else %}{{ t }}{% endcase %}", "st"),
    "unless": ("{% unless s == t %}{{ s }}{{ t }}{% endunless %}", "st"),
    "translate": ("{% translate x: s %}Hello {{ x }}{% endtranslate %}", "s"),
    "translate_ctx": ("{% translate x: s, y: t %}Hello {{ x }} and {{ y }}{% endtranslate %}", "st"),
    "translate_plural": ("{% translate x: s, count: n %}Hello {{ x }}{% plural %}Hellos {{ x }} {{ t }}{% endtranslate %}", "stn"),
    "t_var": ("{{ 'Hello %(x)s' | t: x: s }}", "s"),
    "t_msg_var": ("{{ s | t: x: t }}", "st"),
    "gettext_var": ("{{ 'Hello %(x)s %(t)s' | gettext: x: s }}", "st"),
    "ngettext": ("{{ s | ngettext: t, n }}", "stn"),
    "pgettext": ("{{ s | pgettext: t }}", "st"),
    "npgettext": ("{{ s | npgettext: t, s, n }}", "stn"),
    "t_plural": ("{{ s | t: plural: t, count: n }}", "stn"),
    "super_plain": ("{% extends 'base' %}{% block b %}{{ block.super }}{{ t }}{% endblock %}", "st"),
    "include_with": ("{% include 'pv' with s %}", "s"),
    "render_with": ("{% render 'pv' with s as pv %}", "s"),
    "render_for": ("{% render 'pv' for xs as pv %}", "st"),
    "include_scope": ("{% assign v = s %}{% include 'p_none' %}", "s"),
    "cap_for": ("{% capture c %}{{ s }}{% endcapture %}{% for x in c %}{{ x }}{% endfor %}", "s"),
    "cap_assign": ("{% capture c %}{{ s }}{% endcapture %}{% assign d = c | append: t %}{{ d }}", "st"),
    "cap_cap": ("{% capture c %}{{ s }}{% endcapture %}{% capture d %}{{ c }}{{ t }}{% endcapture %}{{ d }}", "st"),
    "cap_cycle": ("{% capture c %}{{ s }}{% endcapture %}{% cycle c, t %}", "st"),
    "cap_t_var": ("{% capture c %}{{ s }}{% endcapture %}{{ 'Hello %(x)s' | t: x: c }}", "s"),
    "cap_translate": ("{% capture c %}{{ s }}{% endcapture %}{% translate x: c %}Hello {{ x }}{% endtranslate %}", "s"),
    "macro": ("{% macro m, a %}{{ a }}{% endmacro %}{% call m, s %}{% call m, a: t %}", "st"),
    "with": ("{% with a: s %}{{ a }}{% endwith %}", "s"),
    "ifchanged": ("{% for x in xs %}{% ifchanged %}{{ x }}{% endifchanged %}{% endfor %}", "st"),
    "increment": ("{{ s }}{% increment s %}{{ s }}", "s"),
}
# the same with Environment.string_first_and_last / string_sequences switched on
FIXED_FL = {
    "fl_first": ("{{ s.first }}{{ s.last }}", "s"),
    "fl_index": ("{{ s[0] }}{{ s[-1] }}", "s"),
    "fl_for": ("{% for x in s %}{{ x }}{% endfor %}", "s"),
    "fl_cap_first": ("{% capture c %}{{ s }}{% endcapture %}{{ c.first }}", "s"),
    "fl_cap_last": ("{% capture c %}{{ s }}{% endcapture %}{{ c.last }}", "s"),
    "fl_cap_index": ("{% capture c %}{{ s }}{% endcapture %}{{ c[1] }}", "s"),
    "fl_cap_for": ("{% capture c %}{{ s }}{% endcapture %}{% for x in c %}{{ x }}{% endfor %}", "s"),
}

PARTIALS = {"base": "{% block b %}{{ s }}{% endblock %}", "basex": "{% block b %}{{ x }}{% endblock %}", "pv": "{{ pv }}"}
for _k, _f in CHAIN.items():
    PARTIALS["p_" + _k] = "{{ v%s }}" % _pipe(_f)


class EnvFL(Environment):
    string_first_and_last = True
    string_sequences = True


def _mkenv(cls, autoescape):
    return cls(autoescape=autoescape, extra=True, loader=CachingDictLoader(PARTIALS, auto_reload=False))


ENV_ON = _mkenv(Environment, True)
ENV_OFF = _mkenv(Environment, False)
ENV_FL = _mkenv(EnvFL, True)
for _e in (ENV_ON, ENV_OFF, ENV_FL):
    for _k in ("base", "basex", "pv", "p_none"):
        _e.get_template(_k)  # fill the loader cache at import


class LazyT:
    """A concrete skeleton, parsed on first use (the family is too large to parse at every
    import). Parsing and filling the loader cache with the partial it names run untraced:
    nothing symbolic is involved."""

    def __init__(self, env, src, need="stn"):
        self.env = env
        self.source = src
        self.t = None
        # filters applied to a Markup value (captured text, block.super, result of escape) hand their
        # data arguments to C-level str methods of the Markup object; CrossHair's symbolic strings are
        # rejected there (TypeError) or modelled through Markup's overloaded operators. Such templates
        # get the data arguments t and n realised before the render (s stays symbolic).
        conc = "capture" in src or "block.super" in src or "escape" in src
        self.conc_t = conc and "t" in need
        self.conc_n = conc and "n" in need

    def get(self):
        if self.t is None:
            with NoTracing():
                for name in RE_PARTIAL.findall(self.source):
                    self.env.get_template(name)
                self.t = self.env.from_string(self.source)
        return self.t


RE_PARTIAL = re.compile(r"(?:include|render|extends) '(\w+)'")


def source(construct, chain):
    if construct == "arr":
        return _src_arr(ARRCHAIN[chain])
    if construct in FIXED:
        return FIXED[construct][0]
    if construct in FIXED_FL:
        return FIXED_FL[construct][0]
    src = CONSTRUCTS[construct](CHAIN[chain])
    if construct in ("include", "render"):
        src = src % chain
    return src


# --------------------------------------------------------------------------
# oracle
# --------------------------------------------------------------------------
ENTITIES = ("&amp;", "&lt;", "&gt;", "&#39;", "&#34;", "&AMP;", "&LT;", "&GT;")


def html_safe(out):
    """No raw < > " ' and every & begins one of ENTITIES. Pure scanner."""
    if "<" in out or ">" in out or Q1 in out or Q2 in out:
        return False
    i = out.find("&")
    while i >= 0:
        tail = out[i:i + 5]
        if not (tail == "&amp;" or tail == "&#39;" or tail == "&#34;" or tail == "&AMP;"
                or tail[:4] == "&lt;" or tail[:4] == "&gt;" or tail[:4] == "&LT;" or tail[:4] == "&GT;"):
            return False
        i = out.find("&", i + 1)
    return True


ERR = "<ERR>"          # never HTML-safe, never equal to an output


def render(tpl, s, t, n):
    """Output of a render. None when base64 decoding rejects the data (FilterError, or
    UnicodeDecodeError which is C02's subject): no output, nothing to judge. Any other
    exception gives ERR, which fails the condition: on the plain interpreter none occurs in
    these families, under CrossHair it marks a modelling artefact (the counterexample is
    replayed by the runner and dropped as spurious instead of being counted as a pass)."""
    tt = tpl.get()
    if tpl.conc_t:
        t = realize(t)
    if tpl.conc_n:
        n = realize(n)
    try:
        return tt.render(s=s, t=t, n=n, xs=[s, t])
    except FilterError:
        return None
    except UnicodeDecodeError:
        return None
    except Exception:
        return ERR




# --------------------------------------------------------------------------
# which data a chain uses, and which (construct, chain) pairs are known to be
# refuted on the pinned tree (isolated in their own `c05_cut_*` conditions so
# that the remaining conditions stay confirmed)
# --------------------------------------------------------------------------
_RE_T = re.compile(r"[:,]\s*t\b")
_RE_N = re.compile(r"[:,]\s*n\b")


def chain_need(construct, expr):
    ut = bool(_RE_T.search(expr)) or "xs" in expr or construct in ("for", "if", "arr")
    un = bool(_RE_N.search(expr))
    return "s" + ("t" if ut else "") + ("n" if un else "")


# filters that cut or edit a Markup (already escaped) string inside an entity
CUT_MARKUP = ["slice_0_2", "slice_1", "slice_n_2", "remove_t", "remove_first_t", "remove_last_t", "remove_l",
              "remove_first_l", "remove_last_l", "replace_t_a", "replace_a_t", "replace_l_a", "replace_first_a_t",
              "replace_first_l_t", "replace_last_a_t", "replace_last_t_a", "split_t", "split_l", "split_l_join",
              "split_t_first", "split_l_first", "escape_slice", "escape_remove_t", "escape_replace_a_t",
              "append_t_slice", "append_t_remove_t", "default_t_slice", "replace_a_t_slice"]
CUT_PLAIN = ["escape_slice", "escape_remove_l", "escape_remove_t", "escape_replace_l_a", "escape_replace_a_t",
             "escape_split_l_join"]
CUT = {"capture": CUT_MARKUP, "super": CUT_MARKUP, "arr": ["join_slice"]}
for _c in ("out", "echo", "assign", "for", "if", "liquid", "include", "render"):
    CUT[_c] = CUT_PLAIN
CUT_FL = ["fl_cap_first", "fl_cap_index"]
CUT_QUICK = [("out", "escape_slice"), ("out", "escape_remove_l"), ("out", "escape_split_l_join"),
             ("capture", "slice_0_2"), ("capture", "remove_l"), ("capture", "split_l_join"),
             ("super", "slice_0_2"), ("arr", "join_slice")]


# --------------------------------------------------------------------------
# A: construct x chain -> output is HTML-safe
# --------------------------------------------------------------------------
def check_a(tpl, s, t, n):
    out = render(tpl, s, t, n)
    return out is None or html_safe(out)


def pick(tpls, k):
    for j in range(len(tpls)):
        if k == j:
            return tpls[j]
    return None


def _reg(name, f, detail):
    f.__name__ = f.__qualname__ = name
    DETAIL[name] = detail
    globals()[name] = f


def _detail1(tpl):
    return lambda s, t, n: (tpl.source, render(tpl, s, t, n))


def _detailg(tpls):
    return lambda k, s, t: (tpls[k].source, render(tpls[k], s, t, 0)) if 0 <= k < len(tpls) else None


# Contracts are read from the source text, so every data domain has its own factory.
def _mk_s1(name, tpl):
    def f(s: str, t: str, n: int) -> bool:
        """
        pre: len(s) <= 1 and t == "" and n == 0
        pre: all(c in "<>&a;#lt" + chr(34) + chr(39) for c in s)
        post: _
        """
        if excluded(name, locals()):
            return True
        return finish(check_a(tpl, s, t, n))
    _reg(name, f, _detail1(tpl))


def _mk_s2(name, tpl):
    def f(s: str, t: str, n: int) -> bool:
        """
        pre: len(s) <= 2 and t == "" and n == 0
        pre: all(c in "<>&a;#lt" + chr(34) + chr(39) for c in s)
        post: _
        """
        if excluded(name, locals()):
            return True
        return finish(check_a(tpl, s, t, n))
    _reg(name, f, _detail1(tpl))


def _mk_s3(name, tpl):
    def f(s: str, t: str, n: int) -> bool:
        """
        pre: len(s) <= 3 and t == "" and n == 0
        pre: all(c in "<>&a;#lt" + chr(34) + chr(39) for c in s)
        post: _
        """
        if excluded(name, locals()):
            return True
        return finish(check_a(tpl, s, t, n))
    _reg(name, f, _detail1(tpl))


def _mk_st1(name, tpl):
    def f(s: str, t: str, n: int) -> bool:
        """
        pre: len(s) <= 1 and len(t) <= 1 and n == 0
        pre: all(c in "<>&a;#lt" + chr(34) + chr(39) for c in s)
        pre: all(c in "<&a;" for c in t)
        post: _
        """
        if excluded(name, locals()):
            return True
        return finish(check_a(tpl, s, t, n))
    _reg(name, f, _detail1(tpl))


def _mk_st2(name, tpl):
    def f(s: str, t: str, n: int) -> bool:
        """
        pre: len(s) <= 2 and len(t) <= 1 and len(s) + len(t) <= 2 and n == 0
        pre: all(c in "<>&a;#lt" + chr(34) + chr(39) for c in s)
        pre: all(c in "<>&a;#lt" + chr(34) + chr(39) for c in t)
        post: _
        """
        if excluded(name, locals()):
            return True
        return finish(check_a(tpl, s, t, n))
    _reg(name, f, _detail1(tpl))


def _mk_sn1(name, tpl):
    def f(s: str, t: str, n: int) -> bool:
        """
        pre: len(s) <= 1 and t == "" and -2 <= n <= 2
        pre: all(c in "<>&a;#lt" + chr(34) + chr(39) for c in s)
        post: _
        """
        if excluded(name, locals()):
            return True
        return finish(check_a(tpl, s, t, n))
    _reg(name, f, _detail1(tpl))


def _mk_sn2(name, tpl):
    def f(s: str, t: str, n: int) -> bool:
        """
        pre: len(s) <= 2 and t == "" and -2 <= n <= 2
        pre: all(c in "<>&a;#lt" + chr(34) + chr(39) for c in s)
        post: _
        """
        if excluded(name, locals()):
            return True
        return finish(check_a(tpl, s, t, n))
    _reg(name, f, _detail1(tpl))


def _mk_stn1(name, tpl):
    def f(s: str, t: str, n: int) -> bool:
        """
        pre: len(s) <= 1 and len(t) <= 1 and 0 <= n <= 2
        pre: all(c in "<>&a;#lt" + chr(34) + chr(39) for c in s)
        pre: all(c in "<&a;" for c in t)
        post: _
        """
        if excluded(name, locals()):
            return True
        return finish(check_a(tpl, s, t, n))
    _reg(name, f, _detail1(tpl))


def _mk_g_s1(name, tpls):
    def f(k: int, s: str, t: str) -> bool:
        """
        pre: 0 <= k <= 15
        pre: len(s) <= 1 and t == ""
        pre: all(c in "<>&a;#lt" + chr(34) + chr(39) for c in s)
        post: _
        """
        if excluded(name, locals()):
            return True
        tpl = pick(tpls, k)
        if tpl is None:
            return finish(True)
        return finish(check_a(tpl, s, t, 0))
    _reg(name, f, _detailg(tpls))


def _mk_g_st1(name, tpls):
    def f(k: int, s: str, t: str) -> bool:
        """
        pre: 0 <= k <= 7
        pre: len(s) <= 1 and len(t) <= 1
        pre: all(c in "<>&a;#lt" + chr(34) + chr(39) for c in s)
        pre: all(c in "<&a;" for c in t)
        post: _
        """
        if excluded(name, locals()):
            return True
        tpl = pick(tpls, k)
        if tpl is None:
            return finish(True)
        return finish(check_a(tpl, s, t, 0))
    _reg(name, f, _detailg(tpls))


MK1 = {"s": _mk_s1, "st": _mk_st1, "sn": _mk_sn1, "stn": _mk_stn1}
MK2 = {"s": _mk_s2, "st": _mk_st2, "sn": _mk_sn2, "stn": _mk_stn1}
MKG = {"s": _mk_g_s1, "st": _mk_g_st1}
GROUP = {"s": 16, "st": 8}
MEMBERS = {}     # grouped condition -> list of "construct/chain"


def _cond(name, quick, thorough, **kw):
    d = {"fn": name, "quick": quick, "thorough": thorough}
    d.update(kw)
    CONDITIONS.append(d)


def _tpl(construct, chain, env=None):
    return LazyT(env or ENV_ON, source(construct, chain), _need(construct, chain))


def _need(construct, chain):
    if construct in FIXED:
        return FIXED[construct][1]
    if construct in FIXED_FL:
        return FIXED_FL[construct][1]
    return chain_need(construct, (ARRCHAIN if construct == "arr" else CHAIN)[chain])


def add_single(construct, chain, quick, thorough, dom=2, prefix="a", env=None):
    """One condition for one (construct, chain)."""
    name = ("c05_%s_%s__%s" % (prefix, construct, chain)) if chain != "-" else ("c05_%s_%s" % (prefix, construct))
    if name in globals():
        return
    (MK2 if dom == 2 else MK1)[_need(construct, chain)](name, _tpl(construct, chain, env))
    _cond(name, quick, thorough)


def add_groups(label, pairs, quick, thorough, env=None):
    """Conditions over groups of <= 16 / <= 8 (construct, chain) pairs selected by k (data domain: <= 1 code point each);
    pairs that take the data int get a condition of their own."""
    by = {"s": [], "st": []}
    for c, k in pairs:
        nd = _need(c, k)
        if nd in by:
            by[nd].append((c, k))
        else:
            add_single(c, k, quick, thorough, dom=1, env=env)
    for nd, lst in by.items():
        for i in range(0, len(lst), GROUP[nd]):
            part = lst[i:i + GROUP[nd]]
            name = "c05_g_%s__%s%d" % (label, nd, i // GROUP[nd])
            MKG[nd](name, [_tpl(c, k, env) for c, k in part])
            MEMBERS[name] = ["%s/%s" % ck for ck in part]
            _cond(name, quick, thorough)


L1K = [k for k, _ in L1]
L2K = [k for k, _ in L2]
ARRK = [k for k, _ in ARR]


def clean(construct, keys):
    return [(construct, k) for k in keys if k not in CUT.get(construct, ())]


# -- quick and thorough -------------------------------------------------------
S_KEYS = [k for k in L1K + L2K if chain_need("out", CHAIN[k]) == "s"]
ST_L1 = [k for k in L1K if chain_need("out", CHAIN[k]) == "st"]
ST_L2 = [k for k in L2K if chain_need("out", CHAIN[k]) == "st"]
ST_L2_QUICK = ["split_t_join_t", "escape_append_t", "escape_once_append_t", "url_decode_append_t", "b64_roundtrip_append_t"]
ST_CUR = ["append_t", "prepend_t", "remove_t", "replace_a_t", "replace_t_a", "default_t", "join_t", "split_t"]
N_KEYS = [k for k in L1K + L2K if "n" in chain_need("out", CHAIN[k])]
Q, TH = 120, 300          # budgets are upper limits (wall clock); a confirmed condition ends as soon as its path tree is exhausted

add_single("out", "none", Q, TH)
add_single("capture", "none", Q, TH)
add_groups("out", clean("out", S_KEYS + ST_L1 + ST_L2_QUICK + N_KEYS), Q, TH)
for _c, _k in CUT_QUICK:
    add_single(_c, _k, 60, 120, prefix="cut")
add_groups("capture_q", [("capture", k) for k in ("append_t", "prepend_t", "truncate_2", "truncate_3", "escape", "escape_once",
                                                  "strip_html", "url_decode", "upcase", "default_t", "escape_append_t",
                                                  "split_empty_join", "b64_roundtrip", "truncatewords_1_t", "first", "size")], Q, TH)
add_groups("constructs", [(c, "none") for c in ("echo", "assign", "liquid", "include", "render", "super", "for", "if")], Q, TH)
FIXED_CORE = ["cycle", "case", "translate", "translate_ctx", "t_var", "t_msg_var", "super_plain", "render_with",
              "include_with", "cap_cap", "cap_assign", "macro"]
add_groups("fixed_core", [(c, "-") for c in FIXED_CORE], Q, TH)
add_groups("fl", [(c, "-") for c in FIXED_FL if c not in CUT_FL], Q, TH, env=ENV_FL)
add_single("fl_cap_first", "-", 60, 120, prefix="cut", env=ENV_FL)

# -- thorough only ----------------------------------------------------------------
add_groups("out2", clean("out", [k for k in ST_L2 if k not in ST_L2_QUICK]), None, TH)
for _k in L1K:
    _nd = chain_need("out", CHAIN[_k])
    if _k not in CUT_PLAIN and (_nd == "s" or _k in ST_CUR or _k == "truncatewords_1_t"):
        add_single("out", _k, None, TH)
    if _k not in CUT_MARKUP and _nd == "s":
        add_single("capture", _k, None, TH)
for _c in ("echo", "assign", "liquid", "include", "render"):
    add_groups(_c, clean(_c, [k for k in L1K if chain_need(_c, CHAIN[k]) == "s"] + ST_CUR), None, TH)
for _c in ("for", "if"):
    add_groups(_c, clean(_c, ["upcase", "escape", "escape_once", "append_lit", "slice_0_2", "truncate_2", "strip_html", "url_decode"]
                         + ST_CUR), None, TH)
add_groups("capture", clean("capture", L1K + L2K), None, TH)
add_groups("super", clean("super", L1K), None, TH)
add_groups("arr", clean("arr", ARRK), None, TH)
add_groups("fixed", [(c, "-") for c in FIXED if c not in FIXED_CORE], None, TH)
for _c in ("cycle", "case", "translate_ctx", "super_plain", "cap_cap"):
    add_single(_c, "-", None, TH)
CUT_SUPER_T = ["slice_0_2", "remove_l", "replace_l_a", "split_l_join", "escape_slice", "append_t_slice"]
for _c, _ks in CUT.items():
    for _k in _ks:
        if _c in ("out", "capture", "arr") or (_c == "super" and _k in CUT_SUPER_T) or _k == "escape_slice":
            add_single(_c, _k, None, 120, prefix="cut")
for _c in CUT_FL:
    add_single(_c, "-", None, 120, prefix="cut", env=ENV_FL)
_mk_s3("c05_a3_out__none", _tpl("out", "none"))
_cond("c05_a3_out__none", None, 600)
_mk_s3("c05_a3_capture__none", _tpl("capture", "none"))
_cond("c05_a3_capture__none", None, 600)


# --------------------------------------------------------------------------
# B: values marked safe are written unchanged
# --------------------------------------------------------------------------
class HtmlObj:
    """A drop that marks its own text safe through the __html__ protocol."""

    def __init__(self, v):
        self.v = v

    def __html__(self):
        return self.v

    def __str__(self):
        return "HtmlObj"


B_SRC = [
    ("{{ x }}", ""), ("{% echo x %}", ""), ("{% liquid echo x %}", ""), ("{% assign v = x %}{{ v }}", ""),
    ("{% capture c %}{{ x }}{% endcapture %}{{ c }}", ""), ("{% for y in ys %}{{ y }}{% endfor %}", ""),
    ("{% cycle x, x %}", ""), ("{% include 'pv' with x %}", ""), ("{% render 'pv' with x %}", ""),
    ("{% translate v: x %}Hello {{ v }}{% endtranslate %}", "Hello "),
    ("{% case 1 %}{% when 1 %}{{ x }}{% endcase %}", ""),
    ("{% extends 'basex' %}{% block b %}{{ block.super }}{% endblock %}", ""),
]
B_TPL = [LazyT(ENV_ON, src, "s") for src, _ in B_SRC]


def check_b(k, x, s):
    tpl = pick(B_TPL, k)
    if tpl is None:
        return True
    tt = tpl.get()
    try:
        out = tt.render(x=x, ys=[x])
    except Exception:
        return False
    return out == pick([p for _, p in B_SRC], k) + s


def c05_b_markup(k: int, s: str) -> bool:
    """
    pre: 0 <= k <= 11
    pre: len(s) <= 1
    pre: all(c in "<>&a;#lt" + chr(34) + chr(39) for c in s)
    post: _
    """
    if excluded("c05_b_markup", locals()):
        return True
    return finish(check_b(k, Markup(s), s))


def c05_b_html(k: int, s: str) -> bool:
    """
    pre: 0 <= k <= 11
    pre: len(s) <= 1
    pre: all(c in "<>&a;#lt" + chr(34) + chr(39) for c in s)
    post: _
    """
    if excluded("c05_b_html", locals()):
        return True
    return finish(check_b(k, HtmlObj(s), s))


def c05_b2_markup(k: int, s: str) -> bool:
    """
    pre: 0 <= k <= 11
    pre: len(s) <= 2
    pre: all(c in "<>&a;#lt" + chr(34) + chr(39) for c in s)
    post: _
    """
    if excluded("c05_b2_markup", locals()):
        return True
    return finish(check_b(k, Markup(s), s))


def c05_b2_html(k: int, s: str) -> bool:
    """
    pre: 0 <= k <= 11
    pre: len(s) <= 2
    pre: all(c in "<>&a;#lt" + chr(34) + chr(39) for c in s)
    post: _
    """
    if excluded("c05_b2_html", locals()):
        return True
    return finish(check_b(k, HtmlObj(s), s))


DETAIL["c05_b_markup"] = DETAIL["c05_b2_markup"] = lambda k, s: (B_SRC[k][0], B_TPL[k].get().render(x=Markup(s), ys=[Markup(s)]))
DETAIL["c05_b_html"] = DETAIL["c05_b2_html"] = lambda k, s: (B_SRC[k][0], B_TPL[k].get().render(x=HtmlObj(s), ys=[HtmlObj(s)]))
_cond("c05_b_markup", Q, TH)
_cond("c05_b_html", Q, TH)
_cond("c05_b2_markup", None, 600)
_cond("c05_b2_html", None, 600)


# --------------------------------------------------------------------------
# C: without special characters autoescape changes nothing
# --------------------------------------------------------------------------
def check_c(pair, s, t):
    on = render(pair[0], s, t, 1)
    off = render(pair[1], s, t, 1)
    if on is None or off is None:
        return on is None and off is None
    return on == off and on != ERR


def _pair(construct, chain):
    src = source(construct, chain)
    return (LazyT(ENV_ON, src, _need(construct, chain)), LazyT(ENV_OFF, src, _need(construct, chain)))


def _detailc(pairs):
    return lambda k, s, t: (pairs[k][0].source, render(pairs[k][0], s, t, 1), render(pairs[k][1], s, t, 1)) if 0 <= k < len(pairs) else None


def _mk_c_s(name, pairs):
    def f(k: int, s: str, t: str) -> bool:
        """
        pre: 0 <= k <= 15
        pre: len(s) <= 1 and t == ""
        pre: all(c in "ab " for c in s)
        post: _
        """
        if excluded(name, locals()):
            return True
        pair = pick(pairs, k)
        if pair is None:
            return finish(True)
        return finish(check_c(pair, s, t))
    _reg(name, f, _detailc(pairs))


def _mk_c_st(name, pairs):
    def f(k: int, s: str, t: str) -> bool:
        """
        pre: 0 <= k <= 7
        pre: len(s) <= 1 and len(t) <= 1
        pre: all(c in "ab " for c in s)
        pre: all(c in "ab " for c in t)
        post: _
        """
        if excluded(name, locals()):
            return True
        pair = pick(pairs, k)
        if pair is None:
            return finish(True)
        return finish(check_c(pair, s, t))
    _reg(name, f, _detailc(pairs))


def add_c(label, pairs, quick, thorough):
    by = {"s": [], "st": []}
    for c, k in pairs:
        by["s" if _need(c, k) == "s" else "st"].append((c, k))
    for nd, lst in by.items():
        for i in range(0, len(lst), GROUP[nd]):
            part = lst[i:i + GROUP[nd]]
            name = "c05_c_%s__%s%d" % (label, nd, i // GROUP[nd])
            (_mk_c_s if nd == "s" else _mk_c_st)(name, [_pair(c, k) for c, k in part])
            MEMBERS[name] = ["%s/%s" % ck for ck in part]
            _cond(name, quick, thorough)


add_c("out", [("out", k) for k in L1K], Q, TH)
add_c("constructs", [(c, "none") for c in CONSTRUCTS if c != "out"] + [(c, "-") for c in FIXED_CORE], Q, TH)
add_c("capture", [("capture", k) for k in L1K], None, TH)
add_c("fixed", [(c, "-") for c in FIXED if c not in FIXED_CORE], None, TH)
add_c("arr", [("arr", k) for k in ARRK], None, TH)

# --------------------------------------------------------------------------
# D: values that are neither strings nor lists of strings (hashes, the (key, value) pairs a for
# loop makes of a hash, tuples, nested lists, objects with only __str__, decimals): their str()
# carries the data text and must be escaped like any other output
# --------------------------------------------------------------------------
class _Obj:
    def __init__(self, text):
        self.text = text

    def __str__(self):
        return self.text


D_SRC = [
    "{{ h }}", "{% for f in h %}{{ f }}{% endfor %}", "{% echo h %}", "{% cycle h, tup %}", "{% capture c %}{{ h }}{% endcapture %}{{ c }}",
    "{{ tup }}", "{{ nested }}", "{{ obj }}", "{% assign v = h %}{{ v }}", "{% for f in h %}{{ f[1] }}{{ f | last }}{% endfor %}",
    "{{ h | first }}", "{{ hs | first }}", "{{ hs | map: 'k' | first }}", "{{ hs | compact }}", "{% liquid echo tup %}",
    "{{ h | default: 1 }}", "{% render 'pv', pv: h %}{% include 'pv', pv: tup %}", "{{ obj | default: 1 }}{{ nested | last }}",
    "{{ (1..n2) }}{{ true }}{{ nil }}{{ 1.5 }}{{ n2 }}{{ h.size }}", "{% if h %}{{ h }}{% endif %}{% unless obj %}{% else %}{{ obj }}{% endunless %}",
]
D_TPLS = [LazyT(ENV_ON, _s) for _s in D_SRC]
D_ALPHA = "<>&a;#lt" + chr(34) + chr(39)


def d_text(i, j):
    return ("" if i == 0 else D_ALPHA[i - 1]) + ("" if j == 0 else D_ALPHA[j - 1])


def d_render(k, i, j):
    s = d_text(i, j)
    data = {"h": {"k": s}, "tup": ("k", s), "nested": [[s], {"k": s}], "obj": _Obj(s), "hs": [{"k": s}, None], "n2": 2}
    try:
        return D_TPLS[k].get().render(**data)
    except Exception:
        return ERR


def c05_d_nonstring(k: int, i: int, j: int) -> bool:
    """
    pre: 0 <= k <= 19 and 0 <= i <= 10 and 0 <= j <= 10
    post: _
    """
    # selector-only (str() of a container calls repr() of the text it holds, which CrossHair enumerates
    # per code point): k selects the template, i and j the two code points of the data text
    if excluded("c05_d_nonstring", locals()):
        return True
    k = cint(k, 0, 19)
    i = cint(i, 0, 10)
    j = cint(j, 0, 10)
    return finish(untraced(lambda: html_safe(d_render(k, i, j))))


DETAIL["c05_d_nonstring"] = lambda k, i, j: (D_SRC[k], d_text(i, j), d_render(k, i, j))
CONDITIONS.append({"fn": "c05_d_nonstring", "quick": 60, "thorough": 120, "sel_only": True})

# --------------------------------------------------------------------------
# E: a value marked safe in one render does not make an equal plain string safe in the next
# (process-wide memo of the date filter: Markup(x) == x and hash equal)
# --------------------------------------------------------------------------
E_TPL = LazyT(ENV_ON, "{{ d | date: f }}|{{ f | date: f }}")


def e_render(i, j, lit):
    text = "%Y" + d_text(i, j)
    t = E_TPL.get()
    if lit:
        ENV_ON.from_string("{{ d | date: '" + text.replace(chr(39), "") + "' }}").render(d="2001-02-03")
    t.render(d="2001-02-03", f=Markup(text))
    return t.render(d="2001-02-03", f=text)


def c05_e_safe_then_plain(i: int, j: int, lit: bool) -> bool:
    """
    pre: 0 <= i <= 10 and 0 <= j <= 10
    post: _
    """
    if excluded("c05_e_safe_then_plain", locals()):
        return True
    i = cint(i, 0, 10)
    j = cint(j, 0, 10)
    lit = cbool(lit)
    return finish(untraced(lambda: html_safe(e_render(i, j, lit))))


DETAIL["c05_e_safe_then_plain"] = lambda i, j, lit: ("%Y" + d_text(i, j), e_render(i, j, lit))
CONDITIONS.append({"fn": "c05_e_safe_then_plain", "quick": 30, "thorough": 60, "sel_only": True})

# --------------------------------------------------------------------------
# F: every registered filter, applied once to plain data in 13 argument forms (literal arguments are safe
# strings under autoescape; data arguments are not): the output is HTML-safe. The solver selects filter and form;
# the body sweeps the two code points of the data text on the plain interpreter.
# `safe` is documented to mark its input safe; script_tag / stylesheet_tag wrap the escaped input in markup of their own.
# --------------------------------------------------------------------------
F_NAMES = [n for n in sorted(ENV_ON.filters) if n not in ("safe", "script_tag", "stylesheet_tag")]
F_FORMS = ["{{ s | %s }}", "{{ s | %s: 'a' }}", "{{ s | %s: s }}", "{{ 'a' | %s: s }}", "{{ s | %s: 'a', 'b' }}", "{{ s | %s: '%%Y' }}",
           "{%% assign v = s | %s %%}{{ v }}", "{{ xs | %s }}", "{{ xs | %s: 'k' }}", "{{ hs | %s: 'k' }}", "{{ hs | %s: 'k', s }}",
           "{{ s | %s: 1 }}", "{{ s | %s: 0, 1 }}",
           # keyword arguments and counts (the translation filters choose between their messages by count)
           "{{ 'a' | %s: plural: s, count: 2 }}", "{{ 'a' | %s: plural: s, count: 0 }}", "{{ s | %s: plural: 'b', count: 1 }}", "{{ 'a %%(x)s' | %s: x: s }}",
           "{{ 'a' | %s: s, 2 }}", "{{ 'a' | %s: 'c', s, 2 }}", "{{ s | %s: 'c', 'b', 1 }}", "{{ 'a' | %s: allow_false: s }}", "{{ nosuch | %s: s, allow_false: true }}"]
F_T = {}


def f_sweep(fi, form):
    key = (fi, form)
    if key not in F_T:
        try:
            F_T[key] = ENV_ON.from_string(F_FORMS[form] % F_NAMES[fi])
        except Exception:
            F_T[key] = None
    t = F_T[key]
    bad = []
    if t is None:
        return bad
    for i in range(11):
        for j in range(11):
            text = d_text(i, j)
            try:
                out = t.render(s=text, xs=[text, "a"], hs=[{"k": text}, {"k": "a"}])
            except Exception:
                continue
            if not html_safe(out):
                bad.append((text, out))
    return bad


def c05_f_every_filter(fi: int, form: int) -> bool:
    """
    pre: 0 <= fi <= 76 and 0 <= form <= 21
    post: _
    """
    if excluded("c05_f_every_filter", locals()):
        return True
    fi, form = cint(fi, 0, len(F_NAMES) - 1), cint(form, 0, len(F_FORMS) - 1)
    return finish(untraced(lambda: not f_sweep(fi, form)))


DETAIL["c05_f_every_filter"] = lambda fi, form: {"template": F_FORMS[form] % F_NAMES[fi], "data_text_and_output": f_sweep(fi, form)[:3]}
CONDITIONS.append({"fn": "c05_f_every_filter", "quick": 120, "thorough": 300, "sel_only": True})

# --------------------------------------------------------------------------
# G: the Template() convenience constructor (implicit, memoised environments): a template made with autoescape=True keeps
# escaping whatever other Template(...) calls happen before or after it in the same process
# --------------------------------------------------------------------------
from liquid import Template as _Template  # noqa: E402

G_SRC = ["{{ s }}", "{% capture c %}{{ s }}{% endcapture %}{{ c }}", "{% for x in xs %}{{ x }}{% endfor %}{{ xs | join: s }}", "{{ s | append: s | upcase }}"]
G_OTHERS = [dict(), dict(autoescape=False), dict(autoescape=True), dict(autoescape=False, extra=True), dict(globals={"g": 1}),
            dict(autoescape=False, strict_filters=False)]


def g_case(k, before, after, i, j):
    text = d_text(i, j)
    if before >= 0:
        _Template("{{ s }}", **G_OTHERS[before]).render(s=text)
    page = _Template(G_SRC[k], autoescape=True)
    if after >= 0:
        other = _Template("{{ s }}{{ s | upcase }}", **G_OTHERS[after])
        other.render(s=text)
    return page.render(s=text, xs=[text, "a"])


def c05_g_template_api(k: int, before: int, after: int, i: int, j: int) -> bool:
    """
    pre: 0 <= k <= 3 and -1 <= before <= 5 and -1 <= after <= 5 and 0 <= i <= 10 and 0 <= j <= 10
    pre: (i <= 3 and j == 0) or (i == 1 and j <= 3)
    post: _
    """
    if excluded("c05_g_template_api", locals()):
        return True
    k, before, after, i, j = cint(k, 0, 3), cint(before, -1, 5), cint(after, -1, 5), cint(i, 0, 10), cint(j, 0, 10)
    return finish(untraced(lambda: html_safe(g_case(k, before, after, i, j))))


DETAIL["c05_g_template_api"] = lambda k, before, after, i, j: {
    "Template() call before": None if before < 0 else G_OTHERS[before], "page": G_SRC[k] + " with autoescape=True",
    "Template() call after": None if after < 0 else G_OTHERS[after], "data text": d_text(i, j), "page output": g_case(k, before, after, i, j)}
CONDITIONS.append({"fn": "c05_g_template_api", "quick": 60, "thorough": 120, "sel_only": True})

# --------------------------------------------------------------------------
# H: decoding filters applied to a value that is typed safe but carries render data (captured text, text with a literal
# appended, joined with a literal separator, assigned): what comes out of the decoder is data again and must be escaped
# --------------------------------------------------------------------------
H_ENC = ["PA==", "Ig==", "Jw==", "Jg==", "PGI+", "PGEgYj0nYyc+", "%3C", "%26%22", "%27x%3E", "+%3Cb%3E", "a", ""]
H_DEC = ["base64_decode", "base64_url_safe_decode", "url_decode"]
H_FORMS = ["{%% capture c %%}{{ s }}{%% endcapture %%}{{ c | %s }}", "{{ s | append: '' | %s }}", "{{ xs | join: '' | %s }}", "{%% assign v = s | strip_newlines %%}{{ v | %s }}",
           "{{ s | prepend: '' | %s }}{{ s | %s }}", "{%% capture c %%}{{ s | append: '' }}{%% endcapture %%}{%% assign w = c | %s %%}{{ w }}{{ w | upcase }}",
           "{{ s | escape | %s }}", "{{ s | url_encode | %s }}", "{{ s | base64_encode | %s }}", "{{ s | %s | %s }}"]
_H_T = {}


def h_sweep(di, fi):
    key = (di, fi)
    if key not in _H_T:
        _H_T[key] = ENV_ON.from_string(H_FORMS[fi].replace("%s", H_DEC[di]).replace("%%", "%"))
    bad = []
    for e in H_ENC:
        try:
            out = _H_T[key].render(s=e, xs=[e])
        except Exception:
            continue
        if not html_safe(out):
            bad.append((e, out))
    return bad


def c05_h_decoders(di: int, fi: int) -> bool:
    """
    pre: 0 <= di <= 2 and 0 <= fi <= 9
    post: _
    """
    if excluded("c05_h_decoders", locals()):
        return True
    di, fi = cint(di, 0, 2), cint(fi, 0, 9)
    return finish(untraced(lambda: not h_sweep(di, fi)))


DETAIL["c05_h_decoders"] = lambda di, fi: {"template": H_FORMS[fi].replace("%s", H_DEC[di]).replace("%%", "%"), "encoded data and output": h_sweep(di, fi)[:3]}
CONDITIONS.append({"fn": "c05_h_decoders", "quick": 30, "thorough": 60, "sel_only": True})

# --------------------------------------------------------------------------
# I: every fixed construct (the thorough tier runs them symbolically) swept concretely over the data pool in the quick tier
# --------------------------------------------------------------------------
I_NAMES = sorted(FIXED) + sorted(k for k in FIXED_FL if k not in CUT_FL)     # CUT_FL: the known cut-inside-a-reference finding, kept in c05_cut_*
I_T = {}


def i_sweep(ci):
    name = I_NAMES[ci]
    if name not in I_T:
        I_T[name] = _tpl(name, "-", ENV_FL if name in FIXED_FL else None)
    t = I_T[name].get()
    bad = []
    for i in range(11):
        for j in range(11):
            text = d_text(i, j)
            for other in ("a", "<", "&", "'" + text):
                for n in (0, 1, 2):
                    try:
                        out = t.render(s=text, t=other, n=n, xs=[text, other])
                        out2 = t.render(s=other, t=text, n=n, xs=[other, text])
                    except Exception:
                        continue
                    if not html_safe(out) or not html_safe(out2):
                        bad.append({"s": text, "t": other, "n": n, "output": out, "output with s and t swapped": out2})
                        if len(bad) > 2:
                            return bad
    return bad


def c05_i_fixed_concrete(ci: int) -> bool:
    """
    pre: 0 <= ci <= 33
    post: _
    """
    if excluded("c05_i_fixed_concrete", locals()):
        return True
    ci = cint(ci, 0, len(I_NAMES) - 1)
    return finish(untraced(lambda: not i_sweep(ci)))


DETAIL["c05_i_fixed_concrete"] = lambda ci: {"construct": I_NAMES[ci], "template": source(I_NAMES[ci], "-"), "failing": i_sweep(ci)}
CONDITIONS.append({"fn": "c05_i_fixed_concrete", "quick": 120, "thorough": 240, "sel_only": True})

ASSUMPTIONS = [
    "stub: markupsafe._escape_inner is bound to markupsafe._native._escape_inner (the documented pure-Python fallback) instead of the C speed-up, which would concretise symbolic strings before escaping; selftest compares both kernels",
    "template sources are concrete skeletons generated from the tables in harness/c05.py (constructs x filter chains); their literal text and string literals contain no HTML-special characters; render data s, t (strings), n (int), xs = [s, t] are symbolic",
    "constructing a Markup (str subclass, C-level str.__new__) realises the symbolic string, so every path ends with concrete text: a confirmed verdict means that every distinct text reaching Markup() inside the data bounds was explored",
    "CrossHair patch (harness-local): builtinslib._join demotes real str-subclass items/separator to exact str before modelling str.join by concatenation (the unpatched model returned a Markup for plain_str.join([Markup, ...]))",
    "oracle accepts &amp; &lt; &gt; &#39; &#34; and the upper-case character references &AMP; &LT; &GT; (upcase applied to an escaped value)",
    "a render that raises FilterError (invalid base64) or UnicodeDecodeError (base64 of non-UTF-8 bytes, C02's subject) produces no output and is not judged; any other exception fails the condition",
    "templates that apply filters to a Markup value (capture, block.super, escape) get the data arguments t and n realised before the render, because C-level str methods of Markup reject or mis-model CrossHair's symbolic strings; s stays symbolic",
    "gettext/t filters and the translate tag run with the default NullTranslations",
    "c05_cut_* conditions isolate the (construct, chain) pairs known to be refuted on the pinned tree; grouped conditions c05_g_* / c05_c_* select one of <= 16 (data s only) or <= 8 (data s and t) templates by k (members are listed in MEMBERS)",
]
OUTSIDE = [
    "data strings longer than 2 code points (3 in c05_a3_*), 1 code point in grouped c05_g_* conditions; characters outside the alphabet < > & ' \" a ; # l t, so data never contains a complete character reference or a percent/base64 encoding of a special character",
    "filter chains longer than 3 and chains not listed in L1/L2/ARR (family F applies every registered filter once, in 13 argument forms); safe, script_tag, stylesheet_tag (they emit markup by design)",
    "template literal text with HTML-special characters; attribute, URL and JavaScript contexts",
    "custom Translations objects, custom filters/tags, async rendering",
    "family C: only data over {a, b, space}",
]


def selftest():
    if len(F_NAMES) != 77:
        return ["c05_f_every_filter is bounded to 77 filters, found %d" % len(F_NAMES)]
    if len(I_NAMES) != 34 or len(F_FORMS) != 22:
        return ["pool sizes differ from the bounds of c05_i_fixed_concrete / c05_f_every_filter: %d, %d" % (len(I_NAMES), len(F_FORMS))]
    fails = []
    import markupsafe._speedups as sp
    for v in ("", "<", "a&b", "<>&" + Q1 + Q2, "&lt;", "x" * 5 + "&"):
        if markupsafe._native._escape_inner(v) != sp._escape_inner(v):
            fails.append("pure-Python escape kernel differs from the C kernel on %r" % v)
    good = ["", "a", "&lt;script&gt;alert(&#34;XSS!&#34;);&lt;/script&gt;", "&amp;&#39;", "&LT;A&GT;", "a;#lt"]
    bad = ["<", ">", Q1, Q2, "&", "&l", "&lt", "&amp", "a&", "&#3", "&#35;", "&Lt;", "&amp;&", "&;", "& lt;"]
    for g in good:
        if not html_safe(g):
            fails.append("oracle rejects %r" % g)
    for b in bad:
        if html_safe(b):
            fails.append("oracle accepts %r" % b)
    # cases fixed by /repo/tests/test_autoescape.py
    xss = "<script>alert(" + Q2 + "XSS!" + Q2 + ");</script>"
    esc = "&lt;script&gt;alert(&#34;XSS!&#34;);&lt;/script&gt;"
    if ENV_ON.from_string("{{ s }}").render(s=xss) != esc:
        fails.append("autoescape of a script value")
    if ENV_ON.from_string("{{ s | upcase }}").render(s=Markup("<b>")) != "<B>":
        fails.append("upcase of Markup")
    if ENV_ON.from_string("{{ s | append: t }}").render(s=Markup("<br>"), t="<hr>") != "<br>&lt;hr&gt;":
        fails.append("append safe + unsafe")
    if ENV_OFF.from_string("{{ s }}").render(s=xss) != xss:
        fails.append("autoescape off")
    if not check_b(0, Markup("<b>"), "<b>") or not check_b(0, HtmlObj("<b>"), "<b>"):
        fails.append("safe values")
    return fails
