"""C06 Loop iteration limit bounds nested iteration.

Ghost value P = product of the lengths of all enclosing repeating constructs.
Tracked value T(ctx) = ctx.loop_iteration_carry * prod(l.length for l in ctx.loops).
Inductive step: from ANY render context with T == P (symbolic carry, symbolic loop
stack), run ONE real repeating construct K over a collection of symbolic length
around a probe tag. Assert: raises LoopIterationLimitError iff P*len > N (len > 0),
before the probe runs; otherwise the probe runs exactly len times and sees
T == P*len (the invariant is re-established, so nests of any depth follow).
Whole-render nests cross-check the composition.
"""
from functools import reduce
from io import StringIO
from operator import mul

from liquid import DictLoader, Environment
from liquid.ast import Node
from liquid.builtin.tags.for_tag import ForLoop
from liquid.context import RenderContext
from liquid.exceptions import LiquidError, LoopIterationLimitError
from liquid.tag import Tag
from liquid.token import TOKEN_TAG

from vf.hx import excluded, finish

PROPERTY = "C06"
SEEN = []


class ProbeNode(Node):
    def render_to_output(self, context, buffer):
        SEEN.append(reduce(mul, (l.length for l in context.loops), context.loop_iteration_carry))
        return 0


class ProbeTag(Tag):
    name = "probe"
    block = False
    node_class = ProbeNode

    def parse(self, stream):
        stream.expect(TOKEN_TAG, value="probe")
        return ProbeNode(stream.current)


class Env(Environment):
    loop_iteration_limit = 5


PARTIALS = {
    "p": "{% probe %}",
    "pfor": "{% for j in ys %}{% probe %}{% endfor %}",
    "ptr": "{% tablerow j in ys %}{% probe %}{% endtablerow %}",
    "pinc": "{% include 'p' for ys %}",
    "prend": "{% render 'p' for ys %}",
    "base": "{% block b %}{% endblock %}",
}
ENV = Env(extra=True, loader=DictLoader(PARTIALS))
ENV.add_tag(ProbeTag)
from liquid.extra.tags import SnippetTag  # noqa: E402
ENV.add_tag(SnippetTag)
ROOT = ENV.from_string("")

# K: one construct around the probe; second field says whether it repeats over xs
STEP = {
    "for": ("{% for i in xs %}{% probe %}{% endfor %}", True),
    "tablerow": ("{% tablerow i in xs %}{% probe %}{% endtablerow %}", True),
    "tablerow_cols": ("{% tablerow i in xs cols: 2 %}{% probe %}{% endtablerow %}", True),
    "include_for": ("{% include 'p' for xs %}", True),
    "include_with_arr": ("{% include 'p' with xs %}", True),
    "render_for": ("{% render 'p' for xs %}", True),
    "render_for_as": ("{% render 'p' for xs as q %}", True),
    "render_plain": ("{% render 'p' %}", False),
    "render_with": ("{% render 'p' with xs %}", False),
    "include_plain": ("{% include 'p' %}", False),
    "call": ("{% macro m %}{% probe %}{% endmacro %}{% call m %}", False),
    "with": ("{% with a: 1 %}{% probe %}{% endwith %}", False),
    "if_capture": ("{% if true %}{% capture c %}{% probe %}{% endcapture %}{% endif %}", False),
    "case_unless": ("{% case 1 %}{% when 1 %}{% unless false %}{% probe %}{% endunless %}{% endcase %}", False),
    "liquid_for": ("{% liquid for i in xs\n probe\n endfor %}", True),
    "for_else_empty": ("{% for i in xs %}{% probe %}{% else %}{% endfor %}", True),
    "snippet": ("{% snippet s %}{% probe %}{% endsnippet %}{% render s for xs %}", True),
}
T_STEP = {}
for _k, (_src, _rep) in list(STEP.items()):
    try:
        T_STEP[_k] = ENV.from_string(_src)
    except LiquidError:
        del STEP[_k]


def step(kind, carry, l1, l2, depth, n, N):
    ENV.loop_iteration_limit = N
    ctx = RenderContext(ROOT, globals={"xs": list(range(n))}, loop_iteration_carry=carry)
    P = carry
    if depth >= 1:
        ctx.loops.append(ForLoop("x", iter(()), l1, None))
        P = P * l1
    if depth >= 2:
        ctx.loops.append(ForLoop("y", iter(()), l2, None))
        P = P * l2
    if P > N:
        return True  # unreachable pre-state: every enclosing construct already checked P <= N
    del SEEN[:]
    repeats = STEP[kind][1]
    ln = n if repeats else 1
    try:
        T_STEP[kind].render_with_context(ctx, StringIO())
    except LoopIterationLimitError:
        return ln > 0 and P * ln > N and not SEEN
    except LiquidError:
        return False
    if ln > 0 and P * ln > N:
        return False
    ok = len(SEEN) == ln
    for s in SEEN:
        ok = ok and s == P * ln
    # the construct must leave the caller's tracked product unchanged afterwards
    after = reduce(mul, (l.length for l in ctx.loops), ctx.loop_iteration_carry)
    return ok and after == P


def _mk_step(kind):
    def f(carry: int, l1: int, l2: int, depth: int, n: int, N: int) -> bool:
        """
        pre: 1 <= carry <= 6 and 1 <= l1 <= 6 and 1 <= l2 <= 6 and 0 <= depth <= 2
        pre: 0 <= n <= 4 and 1 <= N <= 200
        post: _
        """
        if excluded("c06_step_" + kind, locals()):
            return True
        return finish(step(kind, carry, l1, l2, depth, n, N))
    f.__name__ = f.__qualname__ = "c06_step_" + kind
    return f


def _mk_step_wide(kind):
    def f(carry: int, l1: int, l2: int, depth: int, n: int, N: int) -> bool:
        """
        pre: 1 <= carry <= 12 and 1 <= l1 <= 12 and 1 <= l2 <= 12 and 0 <= depth <= 2
        pre: 0 <= n <= 8 and 1 <= N <= 200
        post: _
        """
        if excluded("c06_wide_" + kind, locals()):
            return True
        return finish(step(kind, carry, l1, l2, depth, n, N))
    f.__name__ = f.__qualname__ = "c06_wide_" + kind
    return f


CONDITIONS = []
for _k in STEP:
    globals()["c06_step_" + _k] = _mk_step(_k)
    CONDITIONS.append({"fn": "c06_step_" + _k, "quick": 40, "thorough": 150})
    if STEP[_k][1]:
        globals()["c06_wide_" + _k] = _mk_step_wide(_k)
        CONDITIONS.append({"fn": "c06_wide_" + _k, "quick": None, "thorough": 300})

# ---- whole-render nests ------------------------------------------------------
# each layer: (open, close, repeats-over-variable or None). Innermost is the probe.
LAYER = {
    "for": ("{% for _I in _V %}", "{% endfor %}"),
    "tr": ("{% tablerow _I in _V %}", "{% endtablerow %}"),
}
NESTS = {
    "for_for": "{% for i in a %}{% for j in b %}{% probe %}{% endfor %}{% endfor %}",
    "tr_for": "{% tablerow i in a %}{% for j in b %}{% probe %}{% endfor %}{% endtablerow %}",
    "for_tr": "{% for i in a %}{% tablerow j in b %}{% probe %}{% endtablerow %}{% endfor %}",
    "tr_tr": "{% tablerow i in a %}{% tablerow j in b %}{% probe %}{% endtablerow %}{% endtablerow %}",
    "incfor_for": "{% assign ys = b %}{% include 'pfor' for a %}",
    "rendfor_for": "{% render 'pfor' for a, ys: b %}",
    "for_rendfor": "{% for i in a %}{% render 'p' for b %}{% endfor %}",
    "for_incfor": "{% for i in a %}{% include 'p' for b %}{% endfor %}",
    "for_render_for": "{% for i in a %}{% render 'pfor', ys: b %}{% endfor %}",
    "for_include_for": "{% assign ys = b %}{% for i in a %}{% include 'pfor' %}{% endfor %}",
    "for_call_for": "{% macro m %}{% for j in b %}{% probe %}{% endfor %}{% endmacro %}{% for i in a %}{% call m %}{% endfor %}",
    "tr_render_tr": "{% tablerow i in a %}{% render 'ptr', ys: b %}{% endtablerow %}",
    "rendfor_rendfor": "{% render 'prend' for a, ys: b %}",
    "incfor_incfor": "{% assign ys = b %}{% include 'pinc' for a %}",
    # the inner construct inside a container that does not repeat: the else branch of a loop over nothing, if, case,
    # capture, with, a liquid tag (none of them may add to, or take away from, the product of the enclosing lengths)
    "for_else_for": "{% for i in a %}{% for z in nothing %}{% else %}{% for j in b %}{% probe %}{% endfor %}{% endfor %}{% endfor %}",
    "else_for_for": "{% for z in nothing %}{% else %}{% for i in a %}{% for j in b %}{% probe %}{% endfor %}{% endfor %}{% endfor %}",
    "for_else_render_for": "{% for i in a %}{% for z in nothing %}x{% else %}{% render 'pfor', ys: b %}{% endfor %}{% endfor %}",
    "for_trelse_tr": "{% for i in a %}{% for z in nothing %}{% else %}{% tablerow j in b %}{% probe %}{% endtablerow %}{% endfor %}{% endfor %}",
    "for_if_case_for": "{% for i in a %}{% if true %}{% case 1 %}{% when 1 %}{% for j in b %}{% probe %}{% endfor %}{% endcase %}{% endif %}{% endfor %}",
    "for_capture_with_for": "{% for i in a %}{% capture c %}{% with q: 1 %}{% for j in b %}{% probe %}{% endfor %}{% endwith %}{% endcapture %}{{ c }}{% endfor %}",
    "for_liquid_for": "{% for i in a %}{% liquid for j in b\n probe\n endfor %}{% endfor %}",
    "for_block_for": "{% extends 'base' %}{% block b %}{% for i in a %}{% for j in b %}{% probe %}{% endfor %}{% endfor %}{% endblock %}",
}
NESTS3 = {
    "for_for_for": "{% for i in a %}{% for j in b %}{% for k in c %}{% probe %}{% endfor %}{% endfor %}{% endfor %}",
    "for_tr_for": "{% for i in a %}{% tablerow j in b %}{% for k in c %}{% probe %}{% endfor %}{% endtablerow %}{% endfor %}",
    "for_rendfor_for": "{% for i in a %}{% render 'pfor' for b, ys: c %}{% endfor %}",
    "tr_incfor_for": "{% assign ys = c %}{% tablerow i in a %}{% include 'pfor' for b %}{% endtablerow %}",
    "for_call_tr_for": "{% macro m %}{% tablerow j in b %}{% for k in c %}{% probe %}{% endfor %}{% endtablerow %}{% endmacro %}{% for i in a %}{% call m %}{% endfor %}",
}
T_NEST = {k: ENV.from_string(v) for k, v in NESTS.items()}
T_NEST3 = {k: ENV.from_string(v) for k, v in NESTS3.items()}


def nest(t, lens, N):
    ENV.loop_iteration_limit = N
    del SEEN[:]
    data = {}
    names = "abc"
    for i in range(len(lens)):
        data[names[i]] = list(range(lens[i]))
    total = 1
    exceeded = False
    for ln in lens:
        total = total * ln
        if total == 0:
            break
        if total > N:
            exceeded = True
            break
    try:
        t.render(**data)
    except LoopIterationLimitError:
        return exceeded
    except LiquidError:
        return False
    if exceeded:
        return False
    full = 1
    for ln in lens:
        full = full * ln
    return len(SEEN) == full


def _mk_nest2(kind):
    def f(a: int, b: int, N: int) -> bool:
        """
        pre: 0 <= a <= 3 and 0 <= b <= 3 and 1 <= N <= 200
        post: _
        """
        if excluded("c06_nest_" + kind, locals()):
            return True
        return finish(nest(T_NEST[kind], [a, b], N))
    f.__name__ = f.__qualname__ = "c06_nest_" + kind
    return f


def _mk_nest3(kind):
    def f(a: int, b: int, c: int, N: int) -> bool:
        """
        pre: 0 <= a <= 3 and 0 <= b <= 3 and 0 <= c <= 2 and 1 <= N <= 200
        post: _
        """
        if excluded("c06_nest_" + kind, locals()):
            return True
        return finish(nest(T_NEST3[kind], [a, b, c], N))
    f.__name__ = f.__qualname__ = "c06_nest_" + kind
    return f


for _k in NESTS:
    globals()["c06_nest_" + _k] = _mk_nest2(_k)
    CONDITIONS.append({"fn": "c06_nest_" + _k, "quick": 40, "thorough": 150})
for _k in NESTS3:
    globals()["c06_nest_" + _k] = _mk_nest3(_k)
    CONDITIONS.append({"fn": "c06_nest_" + _k, "quick": 60, "thorough": 240})


# ---- the asynchronous render path enforces the limit exactly like the synchronous one (every construct, every nest) ----
import asyncio  # noqa: E402
import itertools  # noqa: E402

from vf.hx import cint, untraced  # noqa: E402

ALLK = [("step", k) for k in STEP] + [("nest", k) for k in NESTS] + [("nest3", k) for k in NESTS3]
A_LIMITS = (1, 2, 3, 4, 5, 6, 8, 9, 12, 20)


def _outcome(run):
    del SEEN[:]
    try:
        run()
    except LoopIterationLimitError:
        return ("limit", len(SEEN))
    except LiquidError as e:
        return ("liquid", type(e).__name__)
    return ("ok", len(SEEN))


def async_limit_sweep(ki, li):
    fam, k = ALLK[ki]
    N = A_LIMITS[li]
    ENV.loop_iteration_limit = N
    bad = []
    if fam == "step":
        t, cases = T_STEP[k], [{"xs": list(range(n))} for n in range(0, 8)]
        # inside an enclosing loop of the caller as well
        t2 = ENV.from_string("{% for o_ in os %}" + STEP[k][0] + "{% endfor %}")
        cases2 = [{"xs": list(range(n)), "os": list(range(m))} for n in range(0, 6) for m in range(1, 5)]
        plan = [(t, c) for c in cases] + [(t2, c) for c in cases2]
    else:
        t = (T_NEST if fam == "nest" else T_NEST3)[k]
        dims = 2 if fam == "nest" else 3
        plan = [(t, dict(zip("abc", [list(range(x)) for x in lens]))) for lens in itertools.product(range(0, 5), repeat=dims)]
    for tt, data in plan:
        a = _outcome(lambda: tt.render(**data))
        b = _outcome(lambda: asyncio.run(tt.render_async(**data)))
        if a != b:
            bad.append({"data": {n: len(v) for n, v in data.items()}, "limit": N, "sync (outcome, probe runs)": a, "async": b})
            if len(bad) > 2:
                break
    return bad


def c06_async_agrees(ki: int, li: int) -> bool:
    """
    pre: 0 <= ki <= 43 and 0 <= li <= 9
    post: _
    """
    if excluded("c06_async_agrees", locals()):
        return True
    ki, li = cint(ki, 0, len(ALLK) - 1), cint(li, 0, 9)
    return finish(untraced(lambda: not async_limit_sweep(ki, li)))


DETAIL = globals().get("DETAIL", {})
DETAIL["c06_async_agrees"] = lambda ki, li: {"construct": ALLK[ki], "failing": async_limit_sweep(ki, li)}
CONDITIONS.append({"fn": "c06_async_agrees", "quick": 150, "thorough": 300, "sel_only": True,
                   "bounds": "%d constructs and nests x 10 limits (1..20) x lengths 0..7 (steps, also inside a caller loop of 1..4) / 0..4 per level (nests): render_async vs render" % len(ALLK)})

ASSUMPTIONS = [
    "pre-state of a step = any context whose tracked product equals the true product P and P <= N (carry 1..6, 0..2 enclosing loops of length 1..6)",
    "the probe is a custom tag registered in the harness environment; it only reads context.loops and loop_iteration_carry",
    "a length-0 construct never raises and never runs its block",
]
OUTSIDE = ["lengths > 4 inside one step (lengths are symbolic but each length is one unrolling)", "limits > 200", "custom tags and IterableDrops with a lying __len__"]


def selftest():
    if len(ALLK) != 44:
        return ["number of constructs differs from the bound of c06_async_agrees: %d" % len(ALLK)]
    fails = []
    ENV.loop_iteration_limit = 100
    del SEEN[:]
    T_NEST["for_for"].render(a=[1, 2], b=[1, 2, 3])
    if SEEN != [6] * 6:
        fails.append("probe does not see 6 x 6 in for/for: %r" % (SEEN,))
    return fails
