"""C24 LRU caches behave as bounded least-recently-used maps.

Q1 one step of every public operation of the real LRUCache / ThreadSafeLRUCache
   from an arbitrary valid state (n <= capacity <= 4 distinct symbolic keys in
   arbitrary recency order) against a list model. The post-state has the
   pre-state's shape, so histories of any length follow by induction.
Q2 lock discipline of ThreadSafeLRUCache: every access to the underlying dict
   (including each next() of a returned iterator) happens with the lock held.
Q3 a listing (keys/values/items/iter) consumed up to a symbolic point, then a
   symbolic write by 'another thread', then consumed to the end: never fails and
   is a snapshot of the pre-state.
collections.OrderedDict is replaced by vf.stubs.ModelOD (validated against the
real OrderedDict by the self-test).
"""
import liquid.utils.lru_cache as M

from vf.hx import excluded, finish
from vf.stubs import ModelOD, validate_model_od

PROPERTY = "C24"
M.OrderedDict = ModelOD


def mk(cls, cap, n, ks, vs):
    ModelOD.owner = None
    c = cls(cap)
    pre = []
    for i in range(n):
        c._cache[ks[i]] = vs[i]
        pre.append((ks[i], vs[i]))
    return c, pre  # pre: least recently used first


def state(c):
    return list(zip(list(c._cache.k), list(c._cache.v)))


def one_step(cls, cap, n, ks, vs, op, key, val):
    c, pre = mk(cls, cap, n, ks, vs)
    ModelOD.owner = c
    ModelOD.violations = 0
    hit = -1
    for i in range(n):
        if pre[i][0] == key:
            hit = i
    ok = True
    exp = pre
    if op == 0:  # __setitem__
        c[key] = val
        if hit >= 0:
            exp = pre[:hit] + pre[hit + 1:] + [(key, val)]
        elif n >= cap:
            exp = pre[1:] + [(key, val)]
        else:
            exp = pre + [(key, val)]
    elif op == 1:  # get
        r = c.get(key, DFLT)
        if hit >= 0:
            ok = r == pre[hit][1]
            exp = pre[:hit] + pre[hit + 1:] + [pre[hit]]
        else:
            ok = r == -7
    elif op == 2:  # __getitem__
        try:
            r = c[key]
            ok = hit >= 0 and r == pre[hit][1]
            if hit >= 0:
                exp = pre[:hit] + pre[hit + 1:] + [pre[hit]]
        except KeyError:
            ok = hit < 0
    elif op == 3:  # __delitem__
        try:
            del c[key]
            ok = hit >= 0
            if hit >= 0:
                exp = pre[:hit] + pre[hit + 1:]
        except KeyError:
            ok = hit < 0
    elif op == 4:  # __contains__ does not touch recency
        ok = (key in c) == (hit >= 0)
    elif op == 5:
        ok = len(c) == n
    elif op == 6:
        ok = list(c.keys()) == [k for k, _ in reversed(pre)]
    elif op == 7:
        ok = list(c.values()) == [v for _, v in reversed(pre)]
    elif op == 8:
        ok = list(c.items()) == list(reversed(pre))
    elif op == 9:
        ok = list(iter(c)) == [k for k, _ in reversed(pre)]
    elif op == 10:  # get without default
        r = c.get(key)
        if hit >= 0:
            ok = r == pre[hit][1]
            exp = pre[:hit] + pre[hit + 1:] + [pre[hit]]
        else:
            ok = r is None
    viol = ModelOD.violations
    ModelOD.owner = None
    post = state(c)
    return ok and post == exp and len(post) <= cap, viol


def c24_lru_step(cap: int, n: int, k0: int, k1: int, k2: int, k3: int, op: int, key: int, val: int) -> bool:
    """
    pre: 1 <= cap <= 4 and 0 <= n <= cap
    pre: k0 != k1 and k0 != k2 and k0 != k3 and k1 != k2 and k1 != k3 and k2 != k3
    pre: 0 <= op <= 10
    post: _
    """
    if excluded("c24_lru_step", locals()):
        return True
    ok, _ = one_step(M.LRUCache, cap, n, [k0, k1, k2, k3], [100, 101, 102, 103], op, key, val)
    return finish(ok)


def c24_ts_step(cap: int, n: int, k0: int, k1: int, k2: int, k3: int, op: int, key: int, val: int) -> bool:
    """
    pre: 1 <= cap <= 4 and 0 <= n <= cap
    pre: k0 != k1 and k0 != k2 and k0 != k3 and k1 != k2 and k1 != k3 and k2 != k3
    pre: 0 <= op <= 10
    post: _
    """
    if excluded("c24_ts_step", locals()):
        return True
    ok, _ = one_step(M.ThreadSafeLRUCache, cap, n, [k0, k1, k2, k3], [100, 101, 102, 103], op, key, val)
    return finish(ok)


def c24_ts_lock_discipline(cap: int, n: int, k0: int, k1: int, k2: int, op: int, key: int, val: int) -> bool:
    """
    pre: 1 <= cap <= 3 and 0 <= n <= cap
    pre: k0 != k1 and k0 != k2 and k1 != k2
    pre: 0 <= op <= 10
    post: _
    """
    if excluded("c24_ts_lock_discipline", locals()):
        return True
    _, viol = one_step(M.ThreadSafeLRUCache, cap, n, [k0, k1, k2, 0], [100, 101, 102, 103], op, key, val)
    return finish(viol == 0)


def c24_string_keys(cap: int, n: int, k0: str, k1: str, op: int, key: str, val: int) -> bool:
    """
    pre: 1 <= cap <= 2 and 0 <= n <= cap
    pre: len(k0) <= 2 and len(k1) <= 2 and len(key) <= 2
    pre: k0 != k1
    pre: 0 <= op <= 4
    post: _
    """
    if excluded("c24_string_keys", locals()):
        return True
    ok, _ = one_step(M.LRUCache, cap, n, [k0, k1, "", ""], [100, 101, 102, 103], op, key, val)
    return finish(ok)


DFLT = -7     # the default object handed to get() in one_step (op 1)


def special_values(ns, ds):
    vs = [100, 101, 102, 103]
    for i in range(4):
        if ns == i:
            vs[i] = None
        if ds == i:
            vs[i] = DFLT
    return vs


def c24_lru_step_special_values(cap: int, n: int, k0: int, k1: int, k2: int, op: int, key: int, ns: int, ds: int) -> bool:
    """
    pre: 1 <= cap <= 3 and 0 <= n <= cap
    pre: k0 != k1 and k0 != k2 and k1 != k2
    pre: 0 <= op <= 10 and -1 <= ns <= 2 and -1 <= ds <= 2
    post: _
    """
    # the same step with a stored value that is None (ns) or the very object passed as default to get() (ds):
    # a hit must not be mistaken for a miss
    if excluded("c24_lru_step_special_values", locals()):
        return True
    ok, _ = one_step(M.LRUCache, cap, n, [k0, k1, k2, 0], special_values(ns, ds), op, key, None)
    return finish(ok)


def c24_ts_step_special_values(cap: int, n: int, k0: int, k1: int, k2: int, op: int, key: int, ns: int, ds: int) -> bool:
    """
    pre: 1 <= cap <= 3 and 0 <= n <= cap
    pre: k0 != k1 and k0 != k2 and k1 != k2
    pre: 0 <= op <= 10 and -1 <= ns <= 2 and -1 <= ds <= 2
    post: _
    """
    if excluded("c24_ts_step_special_values", locals()):
        return True
    ok, _ = one_step(M.ThreadSafeLRUCache, cap, n, [k0, k1, k2, 0], special_values(ns, ds), op, key, None)
    return finish(ok)


def c24_capacity(cap: int) -> bool:
    """
    post: _
    """
    if excluded("c24_capacity", locals()):
        return True
    ModelOD.owner = None
    try:
        c = M.LRUCache(cap)
        ok = cap >= 1 and c.capacity == cap and len(c) == 0
    except ValueError:
        ok = cap < 1
    try:
        c = M.ThreadSafeLRUCache(cap)
        ok = ok and cap >= 1 and c.capacity == cap
    except ValueError:
        ok = ok and cap < 1
    return finish(ok)


def c24_two_steps(cap: int, k0: int, k1: int, op1: int, key1: int, op2: int, key2: int) -> bool:
    """
    pre: 1 <= cap <= 2
    pre: k0 != k1
    pre: 0 <= op1 <= 3 and 0 <= op2 <= 3
    post: _
    """
    # two consecutive operations against a from-scratch list model (checks that the
    # one-step induction composes on the real object)
    if excluded("c24_two_steps", locals()):
        return True
    ModelOD.owner = None
    c = M.LRUCache(cap)
    model = []
    c[k0] = 1
    model = [(k0, 1)]
    seq = [(0, k1, 2), (op1, key1, 3), (op2, key2, 4)]
    ok = True
    for op, key, val in seq:
        hit = -1
        for i in range(len(model)):
            if model[i][0] == key:
                hit = i
        if op == 0:
            c[key] = val
            if hit >= 0:
                model = model[:hit] + model[hit + 1:] + [(key, val)]
            else:
                if len(model) >= cap:
                    model = model[1:]
                model = model + [(key, val)]
        elif op == 1:
            r = c.get(key, -1)
            ok = ok and r == (model[hit][1] if hit >= 0 else -1)
            if hit >= 0:
                model = model[:hit] + model[hit + 1:] + [model[hit]]
        elif op == 2:
            try:
                del c[key]
                ok = ok and hit >= 0
                model = model[:hit] + model[hit + 1:]
            except KeyError:
                ok = ok and hit < 0
        else:
            ok = ok and ((key in c) == (hit >= 0))
        ok = ok and list(c.items()) == list(reversed(model)) and len(c) <= cap
    return finish(ok)


def c24_listing_vs_writer(k0: int, k1: int, j: int, which: int, wop: int, key: int) -> bool:
    """
    pre: k0 != k1
    pre: 0 <= j <= 2 and 0 <= which <= 3 and 0 <= wop <= 2
    post: _
    """
    # thread A lists, consumes j elements; thread B writes; A resumes. No exception, and
    # A's listing is the snapshot taken at the call (a linearisation point before B's write).
    if excluded("c24_listing_vs_writer", locals()):
        return True
    ModelOD.owner = None
    c = M.ThreadSafeLRUCache(3)
    c[k0] = 10
    c[k1] = 11
    snap = {0: [k1, k0], 1: [11, 10], 2: [(k1, 11), (k0, 10)], 3: [k1, k0]}[which]
    got = []
    try:
        it = c.keys() if which == 0 else c.values() if which == 1 else c.items() if which == 2 else iter(c)
        for _ in range(j):
            x = next(it, None)
            if x is not None:
                got.append(x)
        if wop == 0:
            c[key] = 99
        elif wop == 1:
            c.get(key)
        else:
            try:
                del c[key]
            except KeyError:
                pass
        for x in it:
            got.append(x)
    except RuntimeError:
        return finish(False)
    return finish(got == snap)


def c24_len_vs_writer(k0: int, key: int) -> bool:
    """
    post: _
    """
    # len() and 'in' on the thread-safe cache hold the lock
    if excluded("c24_len_vs_writer", locals()):
        return True
    ModelOD.owner = None
    c = M.ThreadSafeLRUCache(2)
    c[k0] = 1
    ModelOD.owner = c
    ModelOD.violations = 0
    n = len(c)
    r = key in c
    v = ModelOD.violations
    ModelOD.owner = None
    return finish(v == 0 and n == 1 and r == (key == k0))


CONDITIONS = [
    {"fn": "c24_lru_step", "quick": 90, "thorough": 400},
    {"fn": "c24_ts_step", "quick": 90, "thorough": 400},
    {"fn": "c24_lru_step_special_values", "quick": 90, "thorough": 400},
    {"fn": "c24_ts_step_special_values", "quick": 90, "thorough": 400},
    {"fn": "c24_ts_lock_discipline", "quick": 60, "thorough": 300},
    {"fn": "c24_string_keys", "quick": 60, "thorough": 300},
    {"fn": "c24_capacity", "quick": 20, "thorough": 40},
    {"fn": "c24_two_steps", "quick": 90, "thorough": 400},
    {"fn": "c24_listing_vs_writer", "quick": 60, "thorough": 240},
    {"fn": "c24_len_vs_writer", "quick": 20, "thorough": 60},
]
# ---- Q4 schedules at lock granularity ---------------------------------------------------------------
class SchedLock:
    """Stand-in for threading.Lock inside liquid.utils.lru_cache: when thread A releases the lock for the
    HOOK[0]-th time, 'thread B' (HOOK[1]) runs before A continues. Models every interleaving in which B
    gets the lock between two of A's critical sections."""
    HOOK = [None, None]
    releases = 0

    def __init__(self):
        self._held = False

    def locked(self):
        return self._held

    def acquire(self, *a):
        self._held = True
        return True

    def release(self):
        self._held = False
        SchedLock.releases += 1
        if SchedLock.HOOK[1] is not None and SchedLock.releases == SchedLock.HOOK[0]:
            hook = SchedLock.HOOK[1]
            SchedLock.HOOK[1] = None
            hook()

    def __enter__(self):
        self.acquire()
        return self

    def __exit__(self, *a):
        self.release()
        return False


_REAL_LOCK = M.Lock


def c24_interleaved_ops(k0: int, k1: int, aop: int, akey: int, bop: int, bkey: int, at: int) -> bool:
    """
    pre: k0 != k1
    pre: 0 <= aop <= 5 and 0 <= bop <= 2 and 1 <= at <= 3
    post: _
    """
    # Thread A performs one public operation; thread B performs one write (set / delete / get) when A
    # releases the lock for the at-th time (if A releases it that often). A must never fail, and what A
    # returns must be what it would return with B's operation entirely before or entirely after it.
    if excluded("c24_interleaved_ops", locals()):
        return True
    ModelOD.owner = None
    M.Lock = SchedLock
    try:
        def fresh():
            c = M.ThreadSafeLRUCache(2)
            SchedLock.HOOK[1] = None
            c[k0] = 10
            c[k1] = 11
            return c

        def b_op(c):
            if bop == 0:
                c[bkey] = 99
            elif bop == 1:
                try:
                    del c[bkey]
                except KeyError:
                    pass
            else:
                c.get(bkey)

        def a_op(c):
            if aop == 0:
                return c.get(akey, -7)
            if aop == 1:
                try:
                    return c[akey]
                except KeyError:
                    return "KeyError"
            if aop == 2:
                return akey in c
            if aop == 3:
                return len(c)
            if aop == 4:
                return list(c.items())
            c[akey] = 55
            return None
        # sequential references: B before A, and A before B
        c1 = fresh()
        b_op(c1)
        ref_ba = a_op(c1)
        c2 = fresh()
        ref_ab = a_op(c2)
        # interleaved
        c3 = fresh()
        SchedLock.releases = 0
        SchedLock.HOOK[0] = at
        SchedLock.HOOK[1] = lambda: b_op(c3)
        try:
            got = a_op(c3)
        except Exception:
            return finish(False)
        finally:
            SchedLock.HOOK[1] = None
        return finish(got == ref_ba or got == ref_ab)
    finally:
        M.Lock = _REAL_LOCK


CONDITIONS.append({"fn": "c24_interleaved_ops", "quick": 90, "thorough": 400})

ASSUMPTIONS = [
    "collections.OrderedDict is replaced by vf.stubs.ModelOD (documented API incl. move_to_end, popitem(last=), live views raising RuntimeError on mutation during iteration); validated against the real OrderedDict on all operation sequences <= 3 over 3 keys on every run",
    "thread schedules are modelled at lock / iterator-step granularity: another thread can run only when the lock is free (justified by the lock-discipline condition)",
]
OUTSIDE = ["capacity > 4 (the step is uniform in capacity but only 1..4 is explored)", "real preemptive threads", "unhashable keys"]


def selftest():
    return validate_model_od(3)
