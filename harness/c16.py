"""C16 Strict undefined types only refine the default behaviour.

Four environments that differ only in `undefined=` (Undefined, StrictUndefined,
FalsyStrictUndefined, StrictDefaultUndefined) hold the same pre-parsed skeleton
templates. Data is a fixed nested structure
    {x, y, n, s, a: {b: {c, l: [..]}}, xs: [..], i}
from which presence selectors remove keys / sub-paths; leaf values are symbolic.
Every condition renders one skeleton (selector k inside a family) under the four
environments with the SAME data and checks
  R1  for each strict type U: render_U succeeded  =>  output_U == output_default
  R2  the default type raises nothing (leaf domains are chosen so that fully
      present data can never raise: any error is caused by the missing data)
  R3  StrictUndefined raises UndefinedError whenever a missing variable / path is
      definitely output, iterated, compared, filtered, indexed or tested
      (docs/variables_and_drops.md "any operation on an undefined variable will
      raise an UndefinedError"; tests/test_undefined.py STRICT_TEST_CASES).
Real code executed: RenderContext.get/get_item, Undefined and its strict
subclasses, Path/FilteredExpression/BooleanExpression evaluation, _eq/_lt/
_contains/is_truthy, default/size/join/first/plus/upcase/append filters,
for/tablerow/case/unless/assign/capture/echo/cycle/with/render/include tags.
"""
from typing import Union

from liquid import CachingDictLoader, Environment
from liquid import FalsyStrictUndefined, StrictDefaultUndefined, StrictUndefined, Undefined

from vf.hx import cbool, cint, excluded, finish, untraced

PROPERTY = "C16"


def _no_optional_shortcircuit():
    """CrossHair may replace any call of repr() by an unconstrained symbolic string (its `_repr`
    stand-in carries a `post[]: True` contract) and forks on that choice. liquid builds the hint
    of every undefined variable with f"{root!r} is undefined", so each undefined lookup doubled
    the number of paths. Always calling into the real function is the precise choice."""
    import sys
    core = sys.modules.get("crosshair.core")
    if core is None or getattr(core.consider_shortcircuit, "vf_patched", False):
        return
    orig = core.consider_shortcircuit

    def consider_shortcircuit(fn, sig, bound, subconditions, allow_interpretation):
        if allow_interpretation:
            return None
        return orig(fn, sig, bound, subconditions, allow_interpretation)
    consider_shortcircuit.vf_patched = True
    core.consider_shortcircuit = consider_shortcircuit


def _init_on_type():
    """CrossHair replaces every `Cls(*args)` in traced code by __new__ followed by
    `obj.__init__(*args)`, looking __init__ up on the INSTANCE. StrictUndefined.__getattribute__
    rejects every attribute outside its allow-list (before `msg` exists: AttributeError), so no
    strict undefined could be constructed under tracing. Python itself calls type(obj).__init__."""
    import sys
    enf = sys.modules.get("crosshair.enforce")
    if enf is None or getattr(enf.manual_constructor, "vf_patched", False):
        return
    from liquid.undefined import Undefined as undefined_base
    with_enforcement = enf.WithEnforcement
    orig = enf.manual_constructor

    def manual_constructor(typ):
        if not issubclass(typ, undefined_base):
            return orig(typ)

        def manually_construct(*a, **kw):
            obj = with_enforcement(typ.__new__)(typ, *a, **kw)
            with_enforcement(typ.__init__)(obj, *a, **kw)
            return obj
        return manually_construct
    manual_constructor.vf_patched = True
    enf.manual_constructor = manual_constructor


_no_optional_shortcircuit()
_init_on_type()


class Env(Environment):
    ternary_expressions = True
    logical_not_operator = True
    logical_parentheses = True


PARTIALS = {"p": "({{ v }})", "pf": "({{ v }}:{{ forloop.index }})"}
KINDS = ("D", "S", "F", "SD")
UNDEF = {"D": Undefined, "S": StrictUndefined, "F": FalsyStrictUndefined, "SD": StrictDefaultUndefined}
ENVS = {}
for _k in KINDS:
    ENVS[_k] = Env(extra=True, undefined=UNDEF[_k], loader=CachingDictLoader(PARTIALS, auto_reload=False))
    for _n in PARTIALS:
        ENVS[_k].get_template(_n)

IF = "%s{%% if %s %%}T{%% else %%}F{%% endif %%}"

# family -> list of (source, variables used, predicate "a missing variable is definitely used" over the selectors)
# selectors: px, py, pn, ps (bool: key present), pa (0: no a, 1: a={}, 2: a.b={}, 3: full), nx (-1: no xs, else len), i
FAMILIES = {
    "output": [
        ("{{ x }}", "x", "not px"),
        ("[{{ x }}|{{ y }}]", "xy", "not px or not py"),
        ("{{ a.b.c }}", "a", "pa < 3"),
        ("{{ a['b'].c }}", "a", "pa < 3"),
        ("{{ a.b.l[0] }}", "a", "pa < 3"),
        ("{{ a.b.l.first }}{{ a.b.l.size }}", "a", "pa < 3"),
        ("[{{ a.q }}]", "a", "True"),
        ("{{ x.size }}", "x", "not px"),
        ("{{ y.z.w }}", "y", "True"),
        ("{% echo x %}", "x", "not px"),
        ("{% liquid echo x %}", "x", "not px"),
    ],
    "index": [
        ("{{ xs[i] }}", "il", "nx < 0 or i >= nx or i < -nx"),
        ("{{ xs[0] }}|{{ xs[-1] }}", "l", "nx <= 0"),
        ("{{ xs.first }}|{{ xs.last }}|{{ xs.size }}", "l", "nx < 0"),
        ("{{ xs[y] }}", "yl", "nx < 0 or not py"),
        ("{{ a[s] }}", "as", "pa < 1 or not ps"),
    ],
    "filter": [
        ("{{ s | upcase }}", "s", "not ps"),
        ("{{ x | size }}", "x", "not px"),
        ("{{ xs | join: '#' }}", "l", "nx < 0"),
        ("{{ xs | first }}", "l", "nx < 0"),
        # math filters: StrictUndefined raises on the plain interpreter only through isinstance() falling back to
        # obj.__class__, which CrossHair's isinstance does not model: R3 for plus is checked by selftest() instead
        ("{{ n | plus: 1 }}", "n", "False"),
        # a missing filter ARGUMENT: raises on the plain interpreter only through isinstance() falling back
        # to obj.__class__; not one of the uses fixed by the statement, so nothing is asserted for it (R1/R2 only)
        ("{{ 1 | plus: n }}", "n", "False"),
        ("{{ 'a' | append: s }}", "s", "not ps"),
        ("{{ s | append: 'b' | upcase }}", "s", "not ps"),
        ("{{ xs | size }}|{{ xs | last }}", "l", "nx < 0"),
    ],
    "default": [
        ("{{ x | default: 'd' }}", "x", "False"),
        ("{{ x | default: y }}", "xy", "False"),
        ("{{ x | default: 'd', allow_false: true }}", "x", "False"),
        ("{{ nil | default: x }}", "x", "not px"),
        ("{{ a.b.c | default: 'd' }}", "a", "False"),
        ("{% assign z = x | default: 'd' %}{{ z }}", "x", "False"),
        ("{{ x | default: 'd' | upcase }}", "x", "False"),
    ],
    "truthy": [
        (IF % ("", "x"), "x", "not px"),
        (IF % ("", "a.b.c"), "a", "pa < 3"),
        (IF % ("", "not x"), "x", "not px"),
        ("{% unless x %}T{% else %}F{% endunless %}", "x", "not px"),
        (IF % ("", "x and y"), "xy", "not px"),
        (IF % ("", "x or y"), "xy", "not px"),
        (IF % ("", "(x or y) and not x"), "xy", "not px"),
        ("{{ 'T' if x else 'F' }}", "x", "not px"),
        ("{{ x if y else 'F' }}", "xy", "not py"),
        ("{% assign z = 'T' if x else 'F' %}{{ z }}", "x", "not px"),
        ("{% if x %}T{% elsif y %}U{% else %}F{% endif %}", "xy", "not px"),
    ],
    "equality": [
        (IF % ("", "x == y"), "xy", "not px or not py"),
        (IF % ("", "x != y"), "xy", "not px or not py"),
        (IF % ("", "x == 1"), "x", "not px"),
        (IF % ("", "1 == x"), "x", "not px"),
        (IF % ("", "x == 'a'"), "x", "not px"),
        (IF % ("", "x == nil"), "x", "not px"),
        (IF % ("", "nil == x"), "x", "not px"),
        (IF % ("", "x == false"), "x", "not px"),
        (IF % ("", "false == x"), "x", "not px"),
        (IF % ("", "x == empty"), "x", "not px"),
        (IF % ("", "x == blank"), "x", "not px"),
        (IF % ("", "x <> nil"), "x", "not px"),
        (IF % ("", "a.b.c == y"), "ay", "pa < 3 or not py"),
        (IF % ("", "a.b == a.q"), "a", "True"),
    ],
    "contains_case": [
        (IF % ("", "s contains 'a'"), "s", "not ps"),
        (IF % ("", "xs contains y"), "yl", "nx < 0"),
        (IF % ("", "xs contains 6"), "l", "nx < 0"),
        ("{% case x %}{% when 1 %}A{% when y %}B{% else %}C{% endcase %}", "xy", "not px"),
        ("{% case 1 %}{% when x %}A{% else %}C{% endcase %}", "x", "not px"),
        ("{% case x %}{% when nil %}A{% when false %}B{% else %}C{% endcase %}", "x", "not px"),
    ],
    "order": [
        (IF % ("", "n < 1"), "n", "not pn"),
        (IF % ("", "n >= y"), "ny", "not pn or not py"),
        (IF % ("", "1 > n"), "n", "not pn"),
        (IF % ("", "a.b.c <= 3"), "a", "pa < 3"),
    ],
    "loop": [
        ("{% for j in x %}[{{ j }}]{% else %}E{% endfor %}", "x", "not px"),
        ("{% for j in xs %}[{{ j }}]{% else %}E{% endfor %}", "l", "nx < 0"),
        ("{% for j in a.b.l %}[{{ j }}]{% else %}E{% endfor %}", "a", "pa < 3"),
        ("{% for j in a.b %}[{{ j[0] }}]{% else %}E{% endfor %}", "a", "pa < 2"),
        ("{% for j in xs reversed %}[{{ j }}{{ forloop.parentloop.index }}]{% endfor %}", "l", "nx != 0"),
        ("{% tablerow j in x %}[{{ j }}]{% endtablerow %}", "x", "not px"),
        ("{% for j in xs %}{{ j }}{{ q }}{% endfor %}|", "l", "nx != 0"),
        ("{% for j in xs %}{% if j == y %}={% endif %}{% endfor %}|", "yl", "nx < 0 or (nx > 0 and not py)"),
    ],
    "loop_args": [
        ("{% for j in xs limit: n %}[{{ j }}]{% else %}E{% endfor %}", "nl", "nx < 0"),
        ("{% for j in (1..n) %}[{{ j }}]{% else %}E{% endfor %}", "n", "False"),
        ("{% tablerow j in xs cols: n %}[{{ j }}]{% endtablerow %}", "nl", "nx < 0"),
    ],
    "assign_capture": [
        ("{% assign z = x %}{{ z }}", "x", "not px"),
        ("{% assign z = x %}ok", "x", "False"),
        ("{% assign z = a.b.c %}[{{ z }}]", "a", "pa < 3"),
        ("{% capture z %}{{ x }}{% endcapture %}[{{ z }}]", "x", "not px"),
        ("{% capture z %}{{ x | default: y }}{% endcapture %}[{{ z }}]", "xy", "False"),
        ("{% with z: x %}ok{% endwith %}", "x", "False"),
        ("{% with z: x %}{{ z }}{% endwith %}", "x", "not px"),
        ("{% ifchanged %}{{ x }}{% endifchanged %}", "x", "not px"),
        ("{% increment q %}{{ q }}{% decrement r %}", "", "False"),
    ],
    # constructs that key state on their evaluated arguments (cycle groups, ifchanged): missing values must key alike
    # under every undefined type
    "keyed": [
        ("{% cycle 'p', a.b.c %}{% cycle 'p', a.q %}", "a", "False"),
        ("{% cycle 'p', a.q %}{% cycle 'p', a.z %}|", "a", "False"),
        ("{% cycle 'p', a.q %}{% cycle 'p', xs[9] %}{% cycle 'p', xs.q %}|", "al", "False"),
        ("{% cycle 'p', a.b.l[5] %}{% cycle 'p', a.b.l[6] %}|", "a", "False"),
        ("{% cycle 'p', x %}{% cycle 'p', y %}|", "xy", "False"),
        ("{% cycle x: 'p', 'q' %}{% cycle y: 'p', 'q' %}|", "xy", "False"),
        ("{% for j in xs %}{% cycle 'p', a.q, 'r' %}{% cycle 'p', a.z, 'r' %}{% endfor %}|", "al", "False"),
        ("{% ifchanged %}{{ a.q | default: 1 }}{% endifchanged %}{% ifchanged %}{{ a.z | default: 1 }}{% endifchanged %}|", "a", "False"),
        ("{% cycle 'p', 'q', a.q %}{% cycle 'p', 'q', a.z %}{% cycle 'p', 'q', a.q %}|", "a", "False"),
        ("{% cycle x, 'q' %}{% cycle y, 'q' %}|", "xy", "not px"),
        # arrays that hold nil and false, searched for a missing value
        (IF % ("", "nils contains y") + IF % ("", "falses contains y"), "ym", "False"),
        (IF % ("", "nils contains a.q") + IF % ("", "falses contains a.q") + IF % ("", "mix contains a.q"), "am", "False"),
        ("{% unless mix contains y %}N{% else %}Y{% endunless %}{% for e in mix %}{% if mix contains a.b.c %}c{% endif %}{% endfor %}", "yam", "False"),
        ("{{ mix | where: 'k', y | size }}{{ mix | map: 'k' | compact | size }}{% if hmix contains y %}H{% endif %}", "ym", "False"),
    ],
    "partial": [
        ("{% render 'p', v: x %}", "x", "not px"),
        ("{% render 'p' %}", "", "True"),
        ("{% include 'p' with x as v %}", "x", "not px"),
        ("{% render 'pf' for xs as v %}", "l", "nx < 0"),
        ("{% include 'p' %}", "", "True"),
        ("{% assign v = x %}{% include 'p' %}", "x", "not px"),
    ],
}

T = {}
MUST = {}
for _fam, _items in FAMILIES.items():
    for _i, (_src, _uses, _must) in enumerate(_items):
        for _k in KINDS:
            T[(_fam, _i, _k)] = ENVS[_k].from_string(_src)
        MUST[(_fam, _i)] = compile(_must, "<must_raise %s %d>" % (_fam, _i), "eval")


def mkdata(uses, px, py, pn, ps, pa, nx, i, vx, vy, vn, vs):
    d = {}
    if "x" in uses and px:
        d["x"] = vx
    if "y" in uses and py:
        d["y"] = vy
    if "n" in uses and pn:
        d["n"] = vn
    if "a" in uses:
        if pa >= 3:
            d["a"] = {"b": {"c": vy, "l": [vn, 7]}}
        elif pa == 2:
            d["a"] = {"b": {}}
        elif pa == 1:
            d["a"] = {}
    if "s" in uses and ps:
        d["s"] = vs
    if "l" in uses and nx >= 0:
        d["xs"] = [6 + k for k in range(nx)]
    if "i" in uses:
        d["i"] = i
    if "m" in uses:
        d["mix"] = [None, False, vn, {"k": None}, {"k": False}]
        d["hmix"] = {"k": None, "f": False}
        d["nils"] = [None, vn]
        d["falses"] = [False, vn]
    return d


def render(t, d):
    try:
        return t.render(**d)
    except Exception as err:
        return "ERR:" + type(err).__name__


def run(fam, k, px, py, pn, ps, pa, nx, i, vx, vy, vn, vs):
    items = FAMILIES[fam]
    idx = -1
    for kk in range(len(items)):
        if k == kk:
            idx = kk
    if idx < 0:
        return None
    d = mkdata(items[idx][1], px, py, pn, ps, pa, nx, i, vx, vy, vn, vs)
    outs = {}
    for kind in KINDS:
        outs[kind] = render(T[(fam, idx, kind)], dict(d))
    sel = {"px": px, "py": py, "pn": pn, "ps": ps, "pa": pa, "nx": nx, "i": i}
    r1 = True
    for kind in ("S", "F", "SD"):
        r1 = r1 and (outs[kind].startswith("ERR:") or outs[kind] == outs["D"])
    r2 = not outs["D"].startswith("ERR:")
    if fam == "order" and outs["D"] == "ERR:LiquidTypeError":
        # don't-care: property C12 requires ordering comparisons between incompatible types (nil/undefined vs
        # number) to raise a Liquid type error, which takes precedence over "the default type never raises"
        r2 = True
        r1 = True
        for kind in ("S", "F", "SD"):
            r1 = r1 and outs[kind].startswith("ERR:")
    r3 = True
    if eval(MUST[(fam, idx)], {}, sel):
        r3 = outs["S"] == "ERR:UndefinedError"
    return {"source": items[idx][0], "data": d, "outs": outs, "R1": r1, "R2": r2, "R3": r3}


DETAIL = {}
CONDITIONS = []
UNTRACED = ("keyed",)


def _mk(fam):
    name = "c16_" + fam
    n_items = len(FAMILIES[fam])

    def f(k: int, px: bool, py: bool, pn: bool, ps: bool, pa: int, nx: int, i: int,
          vx: Union[None, bool, int, str], vy: int, vn: int, vs: str) -> bool:
        """
        pre: 0 <= k <= 13
        pre: 0 <= pa <= 3 and -1 <= nx <= 2 and -3 <= i <= 2
        pre: 0 <= vy <= 9 and 0 <= vn <= 3 and len(vs) <= 1 and all(ch in "a" for ch in vs)
        pre: not isinstance(vx, int) or 0 <= vx <= 9
        pre: not isinstance(vx, str) or (len(vx) <= 1 and all(ch in "a" for ch in vx))
        post: _
        """
        if excluded(name, locals()):
            return True
        if k >= n_items:
            return True
        r = run(fam, k, px, py, pn, ps, pa, nx, i, vx, vy, vn, vs)
        return finish(r["R1"] and r["R2"] and r["R3"])

    def d(k, px, py, pn, ps, pa, nx, i, vx, vy, vn, vs):
        r = run(fam, k, px, py, pn, ps, pa, nx, i, vx, vy, vn, vs)
        r["data"] = repr(r["data"])
        return r
    f.__name__ = f.__qualname__ = name
    DETAIL[name] = d
    return f


for _fam in FAMILIES:
    if _fam in UNTRACED:
        continue
    globals()["c16_" + _fam] = _mk(_fam)
    CONDITIONS.append({"fn": "c16_" + _fam, "quick": 75, "thorough": 240})


_TX = (None, True, 1, "a")


def c16_keyed(k: int, px: bool, py: bool, pa: int, nx: int, tx: int) -> bool:
    """
    pre: 0 <= k <= 13 and 0 <= pa <= 3 and -1 <= nx <= 1 and 0 <= tx <= 3
    post: _
    """
    # state keyed on str() of evaluated arguments (cycle groups, ifchanged): selector-only, the renders run on the
    # plain interpreter; the dimensions no template of this family reads are fixed
    if excluded("c16_keyed", locals()):
        return True
    k, pa, nx, tx = cint(k, 0, 13), cint(pa, 0, 3), cint(nx, -1, 1), cint(tx, 0, 3)
    px, py = cbool(px), cbool(py)
    r = untraced(lambda: run("keyed", k, px, py, False, False, pa, nx, 0, _TX[tx], 5, 1, ""))
    return finish(r["R1"] and r["R2"] and r["R3"])


def _keyed_detail(k, px, py, pa, nx, tx):
    r = run("keyed", k, px, py, False, False, pa, nx, 0, _TX[tx], 5, 1, "")
    r["data"] = repr(r["data"])
    return r


DETAIL["c16_keyed"] = _keyed_detail
CONDITIONS.append({"fn": "c16_keyed", "quick": 60, "thorough": 120, "sel_only": True})

# ---- the shared corpus: a render that succeeds under a strict undefined type equals the render under the default type ----
from harness import corpus as _corpus  # noqa: E402

_CENVS = {k: _corpus.make_env(undefined=UNDEF[k]) for k in KINDS}


def _corpus_check(w2, w1, leaf, d):
    ts = {k: _corpus.template(e, w2, w1, leaf) for k, e in _CENVS.items()}
    if ts["D"] is None:
        return None
    outs = {k: _corpus.outcome(lambda: ts[k].render(**_corpus.data(d))) for k in KINDS if ts[k] is not None}
    bad = {k: v for k, v in outs.items() if k != "D" and v[0] == "ok" and v != outs["D"]}
    if outs["D"][0] == "liquid" and outs["D"][1] == "UndefinedError":
        bad["D"] = outs["D"]
    return dict(bad, default=outs["D"]) if bad else None


c16_corpus, _det = _corpus.mk_condition("c16_corpus", _corpus_check)
DETAIL["c16_corpus"] = _det
CONDITIONS.append({"fn": "c16_corpus", "quick": 90, "thorough": 200, "sel_only": True, "bounds": _corpus.BOUNDS})

# ---- every registered filter with a missing variable as input or as an argument: a render that succeeds under a strict
# type gives the default type's output (the solver selects filter and form; the body sweeps 5 input values) ----------------------
FA_NAMES = sorted(ENVS["D"].filters)
FA_FORMS = ["{{ v | %s: nosuch }}", "{{ v | %s: 'k', nosuch }}", "{{ v | %s: nosuch, 'k' }}", "{{ nosuch | %s }}", "{{ nosuch | %s: 'k' }}",
            "{{ v | %s: a.nosuch }}", "{{ v | %s: 'k', a.nosuch.deeper }}", "{%% assign r = v | %s: 'k', nosuch %%}{{ r | size }}",
            "{{ v | %s: nosuch | size }}"]
FA_VALUES = [[{"k": True}, {"k": None}, {"k": False}, {"z": 1}, {"k": "s"}], "a,b", 3, [1, None, "x"], {"k": 1}]
_FA_T = {}


def fa_sweep(fi, form):
    bad = []
    src = FA_FORMS[form] % FA_NAMES[fi]
    for vi in range(len(FA_VALUES)):
        outs = {}
        for kind in KINDS:
            key = (kind, fi, form)
            if key not in _FA_T:
                try:
                    _FA_T[key] = ENVS[kind].from_string(src)
                except Exception:
                    _FA_T[key] = None
            t = _FA_T[key]
            if t is None:
                continue
            try:
                outs[kind] = ("ok", t.render(v=FA_VALUES[vi], a={}))
            except Exception as e:
                outs[kind] = ("err", type(e).__name__)
        d = outs.get("D")
        if d is None:
            continue
        for kind in ("S", "F", "SD"):
            if kind in outs and outs[kind][0] == "ok" and outs[kind] != d:
                bad.append({"source": src, "v": repr(FA_VALUES[vi]), "default": d, kind: outs[kind]})
    return bad


def c16_filter_args(fi: int, form: int) -> bool:
    """
    pre: 0 <= fi <= 79 and 0 <= form <= 8
    post: _
    """
    if excluded("c16_filter_args", locals()):
        return True
    fi, form = cint(fi, 0, len(FA_NAMES) - 1), cint(form, 0, 8)
    return finish(untraced(lambda: not fa_sweep(fi, form)))


DETAIL["c16_filter_args"] = lambda fi, form: {"failing": fa_sweep(fi, form)[:3]}
CONDITIONS.append({"fn": "c16_filter_args", "quick": 120, "thorough": 300, "sel_only": True})

ASSUMPTIONS = [
    "templates are the concrete skeletons of harness/c16.py (FAMILIES); the four environments differ only in undefined=",
    "data = fixed nested structure minus the keys / sub-paths removed by the presence selectors; leaves: x in None|bool|int 0..9|str<=1, y/n ints 0..9, s str<=1 over {a}",
    "leaf domains are such that fully present data never raises (n, y ints for ordering and arithmetic, s a string for contains/upcase): an error of the default type is caused by missing data",
    "ordering comparisons (<, <=, >, >=) with a missing operand may raise LiquidTypeError under the default undefined type (required by C12); then every strict type must raise too",
    "R3 lists per skeleton a sufficient condition under which a missing variable is definitely used; nothing is asserted about StrictUndefined otherwise",
]
OUTSIDE = [
    "DebugUndefined and user-defined undefined types",
    "drops, floats, nested lists as leaf values; strings longer than 1",
    "filters other than default/size/join/first/plus/upcase/append/map",
    "async rendering (C01 relates sync and async)",
    "the cycle tag (CrossHair cannot hash its symbolic group key) and missing filter / offset / range-start arguments under StrictUndefined",
]


def selftest():
    fails = []
    # tests/test_undefined.py TEST_CASES / STRICT_TEST_CASES
    e = Environment()
    s = Environment(undefined=StrictUndefined)
    sd = Environment(undefined=StrictDefaultUndefined)
    fs = Environment(undefined=FalsyStrictUndefined)
    for src, exp in (("{{ nosuchthing }}", ""), ("{% for tag in nosuchthing %}{tag}{% endfor %}", ""),
                     ("{% if nosuchthing == noway %}hello{% endif %}", "hello"), ("hello {{ nosuchthing | abs }} there", "hello 0 there")):
        if render(e.from_string(src), {}) != exp:
            fails.append("default: " + src)
        if render(s.from_string(src), {}) != "ERR:UndefinedError":
            fails.append("strict: " + src)
    if render(s.from_string("hello {{ nosuchthing | default: 'foo' }} there"), {}) != "ERR:UndefinedError":
        fails.append("strict default filter")
    if render(sd.from_string("hello {{ nosuchthing | default: 'foo' }} there"), {}) != "hello foo there":
        fails.append("strict-default default filter")
    if render(fs.from_string("{% if nosuchthing %}foo{% else %}bar{% endif %}"), {}) != "bar":
        fails.append("falsy strict docs example")
    for src in ("{{ n | plus: 1 }}", "{{ 1 | plus: n }}", "{% cycle x, y %}"):
        if render(s.from_string(src), {}) != "ERR:UndefinedError":
            fails.append("strict (plain interpreter only): " + src)
    r = run("output", 0, True, True, True, True, 3, 2, 0, 5, 1, 2, "a")
    if not (r["outs"] == {"D": "5", "S": "5", "F": "5", "SD": "5"} and r["R1"] and r["R2"] and r["R3"]):
        fails.append("run(output,0) with full data: %r" % (r,))
    return fails
