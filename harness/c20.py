"""C20 Reported locations point at the reported item.

S1 offset arithmetic (solver claim): the REAL expression tokenizer
   liquid.builtin.expressions._tokenize.tokenize and the REAL liquid-tag line tokenizer
   liquid.builtin.tags.liquid_tag._tokenize_liquid_expression are run on concrete texts from a
   selector pool with a parent token whose start_index is a SYMBOLIC unbounded int K. Every token
   produced (and the token carried by a raised LiquidSyntaxError) must satisfy
   start_index - K == offset of its lexeme inside the text. The expected offsets come from a
   sequential scan (tokens tile the text, only white space between them), so they are unique.
S2 line/column (solver claim): Span.line_col and LiquidError._error_context /
   detailed_message / __str__ on SYMBOLIC text (<= 4 code points over {a, LF, CR}) and SYMBOLIC
   index against an independent line splitter.
S3 program-only: every span of BoundTemplate.analyze() / analyze_async() and of
   Environment.analyze_tags_from_string() over a family of generated templates indexes into the
   named template's source at the reported name.
S4 program-only: every LiquidError raised while parsing a family of malformed sources carries
   either no position or a position inside its own source, and str(err) / detailed_message()
   return and show the line and column of that position.
"""
from liquid import CachingDictLoader, Environment
from liquid.builtin.expressions._tokenize import tokenize
from liquid.builtin.tags.liquid_tag import LiquidTag
from liquid.exceptions import LiquidError, LiquidSyntaxError
from liquid.span import Span
from liquid.token import TOKEN_EXPRESSION, TOKEN_IDENTINDEX, TOKEN_IDENTSTRING, TOKEN_STRING, TOKEN_TAG, TOKEN_WORD, Token

from vf.hx import drive, excluded, finish

PROPERTY = "C20"
CONDITIONS = []
DETAIL = {}


def pick(n, i):
    """Concrete int equal to the symbolic selector i in range(n) (bisection: log2(n) decisions)."""
    lo = 0
    hi = n - 1
    while lo < hi:
        mid = (lo + hi) // 2
        if i <= mid:
            hi = mid
        else:
            lo = mid + 1
    return lo


# =============================================================================================
# S1 offset arithmetic
# =============================================================================================
PARENT_SRC = "{% tag " + "x" * 60 + " %}"
WS = " \t\r\n"

EXPRS = [
    "a.b.c | upcase",
    "x | append: 'y', z",
    "a['b c'].d[0]",
    "(1..n)",
    "a == 'x' and b <> 2 or not c",
    "i in (1..5) limit: 2 offset: continue reversed",
    "  spaced\n\t out  ",
    "1.5 | plus: -2",
    "a[b.c][-1][ \"k\" ][ 3 ]",
    "x contains \"q\"",
    "a >= 1, b <= 2 || c != d",
    "'p' with q as r",
    "\u00e9t\u00e9.\u00fc | f: \u00f1x, '\U0001f600' , z",
    "x = y | default: nil, allow_false: true",
    "a-b.c-d? | t",
    "m, arg: 1, other: 'two'",
    "i in coll.items cols: 2 limit:lim",
    "'' | f:\"\"",
    "a if b else c | upcase || size",
    "x\r\n | f:\r\n y",
    "",
    "   ",
    "1..2",
    "not (a and b)",
]
# expressions the tokenizer rejects: (text, offset of the offending lexeme)
BAD_EXPRS = [
    ("a & b", 2),
    ("x | f: 'unclosed", 7),
    ("a =! b", 2),
    ("  \n ?", 4),
    ("a.b ; c", 4),
    ("x == 1 and y ~ 2", 13),
    ("{{ x }}", 0),
    ("a >< b", 2),
]
NEXPR = len(EXPRS)
NBAD = len(BAD_EXPRS)


def lexeme_len(text, pos, kind, value):
    """Length of the lexeme of a token of this kind/value that starts at text[pos], or -1 if the
    text at pos cannot be that token."""
    if kind == TOKEN_STRING:
        q = text[pos:pos + 1]
        if q not in ("'", '"'):
            return -1
        if text[pos + 1:pos + 1 + len(value)] != value or text[pos + 1 + len(value):pos + 2 + len(value)] != q:
            return -1
        return len(value) + 2
    if kind in (TOKEN_IDENTSTRING, TOKEN_IDENTINDEX):
        if text[pos:pos + 1] != "[":
            return -1
        p = pos + 1
        while text[p:p + 1] in (" ", "\t", "\n", "\r") and p < len(text):
            p += 1
        if kind == TOKEN_IDENTSTRING:
            q = text[p:p + 1]
            if q not in ("'", '"') or text[p + 1:p + 1 + len(value)] != value or text[p + 1 + len(value):p + 2 + len(value)] != q:
                return -1
            p = p + 2 + len(value)
        else:
            if text[p:p + len(value)] != value:
                return -1
            p = p + len(value)
        while text[p:p + 1] in (" ", "\t", "\n", "\r") and p < len(text):
            p += 1
        if text[p:p + 1] != "]":
            return -1
        return p + 1 - pos
    if text[pos:pos + len(value)] != value or len(value) == 0:
        return -1
    return len(value)


def expected_offsets(text, kinds_values):
    """Offsets of the tokens if they tile the text with only white space between them; None if
    they cannot."""
    out = []
    pos = 0
    for (kind, value) in kinds_values:
        while pos < len(text) and text[pos] in WS:
            pos += 1
        n = lexeme_len(text, pos, kind, value)
        if n < 0:
            return None
        out.append(pos)
        pos += n
    while pos < len(text) and text[pos] in WS:
        pos += 1
    if pos != len(text):
        return None
    return out


def expr_offsets_ok(K, text):
    parent = Token(TOKEN_EXPRESSION, text, K, PARENT_SRC)
    toks = list(tokenize(text, parent))
    exp = expected_offsets(text, [(t.kind, t.value) for t in toks])
    if exp is None:
        return False
    ok = True
    for j in range(len(toks)):
        ok = ok and (toks[j].start_index - K == exp[j]) and (toks[j].source is PARENT_SRC)
    return ok


def c20_expr_offsets(K: int, sel: int) -> bool:
    """
    pre: 0 <= sel < 24
    post: _
    """
    # tokenize(expr, parent) with parent.start_index = K symbolic and unbounded
    if excluded("c20_expr_offsets", locals()):
        return True
    text = EXPRS[pick(NEXPR, sel)]
    try:
        ok = expr_offsets_ok(K, text)
    except LiquidError:
        ok = False
    return finish(ok)


def bad_expr_ok(K, text, want):
    parent = Token(TOKEN_EXPRESSION, text, K, PARENT_SRC)
    seen = []
    try:
        for t in tokenize(text, parent):
            seen.append(t)
    except LiquidSyntaxError as e:
        tok = e.token
        if tok is None:
            return False
        ok = (tok.start_index - K == want) and tok.source is PARENT_SRC and text[want:want + len(tok.value)] == tok.value
        # tokens produced before the error still point at their lexemes
        exp = expected_offsets(text[:want], [(t.kind, t.value) for t in seen])
        if exp is None:
            return False
        for j in range(len(seen)):
            ok = ok and (seen[j].start_index - K == exp[j])
        return ok
    return False


def c20_expr_error_offsets(K: int, sel: int) -> bool:
    """
    pre: 0 <= sel < 8
    post: _
    """
    # the token carried by the tokenizer's own syntax errors
    if excluded("c20_expr_error_offsets", locals()):
        return True
    text, want = BAD_EXPRS[pick(NBAD, sel)]
    return finish(bad_expr_ok(K, text, want))


LIQ_ENV = Environment()
LIQ_TOKENIZE = LiquidTag(LIQ_ENV)._tokenize
LIQ_ENV_C = Environment(template_comments=True)  # shorthand comments {# #}: '#' lines are skipped
LIQ_TOKENIZE_C = LiquidTag(LIQ_ENV_C)._tokenize

LIQS = [
    "assign x = 1\n echo x",
    "\n  assign y = x | default: w\n  for i in (1..n)\n    echo i | plus: m.o\n  endfor\n",
    "if a\n\techo 'b'\n\n\n  else\n echo c   \nendif",
    "echo x\r\n  assign z = y\r\n",
    "# a comment line\n  echo a\n  #another | one\n",
    "case a\nwhen 1, 2\n  echo 'p'\n  else\n  break\nendcase",
    "   increment   n   \n\t\tcycle 'g': 1, 2\t\n",
    "echo",
    "",
    "\n\n",
    "liquid echo x",
    "for i in xs limit: 2\n  continue\n endfor  ",
    "\u00e9cho \u00fc\n  echo '\U0001f600' | size",
]
NLIQ = len(LIQS)


def liq_expected(text, kinds_values):
    out = []
    pos = 0
    for (kind, value) in kinds_values:
        if kind == TOKEN_TAG:
            while pos < len(text) and text[pos] in WS:
                pos += 1
        else:
            while pos < len(text) and text[pos] in " \t":
                pos += 1
        if text[pos:pos + len(value)] != value or len(value) == 0:
            return None
        out.append(pos)
        pos += len(value)
    while pos < len(text) and text[pos] in WS:
        pos += 1
    if pos != len(text):
        return None
    return out


def liquid_offsets_ok(K, text, comments, deep):
    parent = Token(TOKEN_EXPRESSION, text, K, PARENT_SRC)
    tk = LIQ_TOKENIZE_C if comments else LIQ_TOKENIZE
    toks = list(tk(text, token=parent))
    if comments:
        # '#' lines produce no tokens in this mode
        return _liq_comment_mode_ok(K, text, toks)
    exp = liq_expected(text, [(t.kind, t.value) for t in toks])
    if exp is None:
        return False
    ok = True
    for j in range(len(toks)):
        ok = ok and (toks[j].start_index - K == exp[j]) and (toks[j].source is PARENT_SRC)
    if deep:
        # second level: the expression tokens of the lines, tokenized by the expression tokenizer
        for j in range(len(toks)):
            if toks[j].kind != TOKEN_EXPRESSION:
                continue
            try:
                inner = list(tokenize(toks[j].value, toks[j]))
            except LiquidError:
                continue
            iexp = expected_offsets(toks[j].value, [(t.kind, t.value) for t in inner])
            if iexp is None:
                return False
            for m in range(len(inner)):
                ok = ok and (inner[m].start_index - K == exp[j] + iexp[m])
    return ok


def _liq_comment_mode_ok(K, text, toks):
    ok = True
    pos = 0
    for t in toks:
        # each token's text must sit at its offset, in order, never overlapping
        found = text.find(t.value, pos)
        if found < 0 or len(t.value) == 0:
            return False
        between = text[pos:found]
        # what is skipped is white space or whole '#' comment lines
        for line in between.split("\n"):
            s = line.strip(" \t\r")
            if s and not s.startswith("#"):
                return False
        ok = ok and (t.start_index - K == found)
        pos = found + len(t.value)
    return ok


def c20_liquid_offsets(K: int, sel: int, deep: bool) -> bool:
    """
    pre: 0 <= sel < 13
    post: _
    """
    # the liquid tag's line tokenizer with a symbolic leading offset; deep: its expression tokens
    # are fed to the expression tokenizer and must still be relative to K
    if excluded("c20_liquid_offsets", locals()):
        return True
    text = LIQS[pick(NLIQ, sel)]
    try:
        ok = liquid_offsets_ok(K, text, False, deep)
    except LiquidError:
        ok = False
    return finish(ok)


def c20_liquid_offsets_comment_mode(K: int, sel: int) -> bool:
    """
    pre: 0 <= sel < 13
    post: _
    """
    # same tokenizer as configured by an environment with template_comments=True
    if excluded("c20_liquid_offsets_comment_mode", locals()):
        return True
    text = LIQS[pick(NLIQ, sel)]
    try:
        ok = liquid_offsets_ok(K, text, True, False)
    except LiquidError:
        ok = False
    return finish(ok)


def liquid_error_ok(K, text):
    parent = Token(TOKEN_EXPRESSION, text, K, PARENT_SRC)
    try:
        list(LIQ_TOKENIZE(text, token=parent))
    except LiquidSyntaxError as e:
        # the line tokenizer reports the whole liquid tag expression: its own position, unchanged
        return e.token is not None and e.token.start_index - K == 0 and e.token.source is PARENT_SRC
    return False


BAD_LIQS = ["??? x", "echo x\n  ! y", "\n  - a"]


def c20_liquid_error_offsets(K: int, sel: int) -> bool:
    """
    pre: 0 <= sel < 3
    post: _
    """
    if excluded("c20_liquid_error_offsets", locals()):
        return True
    return finish(liquid_error_ok(K, BAD_LIQS[pick(len(BAD_LIQS), sel)]))


CONDITIONS += [
    {"fn": "c20_expr_offsets", "quick": 60, "thorough": 200},
    {"fn": "c20_expr_error_offsets", "quick": 40, "thorough": 100},
    {"fn": "c20_liquid_offsets", "quick": 60, "thorough": 200},
    {"fn": "c20_liquid_offsets_comment_mode", "quick": 40, "thorough": 100},
    {"fn": "c20_liquid_error_offsets", "quick": 30, "thorough": 60},
]


# =============================================================================================
# S2 line / column
# =============================================================================================
def ref_lines(text):
    """Independent splitter for the alphabet used here: a line ends after LF, after CR LF, or
    after a CR that is not followed by LF (what str.splitlines(keepends=True) documents)."""
    lines = []
    cur = ""
    i = 0
    n = len(text)
    while i < n:
        c = text[i]
        cur += c
        if c == "\n":
            lines.append(cur)
            cur = ""
        elif c == "\r":
            if i + 1 < n and text[i + 1] == "\n":
                cur += "\n"
                i += 1
            lines.append(cur)
            cur = ""
        i += 1
    if cur:
        lines.append(cur)
    return lines


def ref_line_col(text, index):
    """(1-based line, 0-based column) of text[index]."""
    start = 0
    line = 0
    for ln in ref_lines(text):
        line += 1
        if index < start + len(ln):
            return line, index - start
        start += len(ln)
    return None


def _rs(s):
    # rstrip for the alphabet {a, LF, CR}
    while s and s[-1] in "\r\n \t":
        s = s[:-1]
    return s


def c20_line_col(text: str, index: int) -> bool:
    """
    pre: len(text) <= 4
    pre: all(c in "a" + chr(10) + chr(13) for c in text)
    pre: 0 <= index < len(text)
    post: _
    """
    # Span.line_col is total inside the text and points at text[index]
    if excluded("c20_line_col", locals()):
        return True
    try:
        got = Span("t", index).line_col(text)
    except Exception:
        return finish(False)
    want = ref_line_col(text, index)
    if got != want:
        return finish(False)
    lines = ref_lines(text)
    return finish(lines[want[0] - 1][want[1]] == text[index])


def c20_error_context(text: str, index: int) -> bool:
    """
    pre: len(text) <= 4
    pre: all(c in "a" + chr(10) + chr(13) for c in text)
    pre: 0 <= index < len(text)
    post: _
    """
    # LiquidError._error_context: (line, col, previous line, current line, next line)
    if excluded("c20_error_context", locals()):
        return True
    err = LiquidError("m", token=None)
    try:
        got = err._error_context(text, index)
    except Exception:
        return finish(False)
    line, col = ref_line_col(text, index)
    lines = ref_lines(text)
    prev = _rs(lines[line - 2]) if line >= 2 else ""
    cur = _rs(lines[line - 1])
    nxt = _rs(lines[line]) if line < len(lines) else ""
    return finish(got == (line, col, prev, cur, nxt))


def c20_context_out_of_range(text: str, index: int) -> bool:
    """
    pre: len(text) <= 4
    pre: all(c in "a" + chr(10) + chr(13) for c in text)
    pre: index >= len(text)
    post: _
    """
    # past the end (including the empty text) both helpers refuse with the ValueError they document
    if excluded("c20_context_out_of_range", locals()):
        return True
    r1 = "none"
    try:
        Span("t", index).line_col(text)
    except ValueError:
        r1 = "ValueError"
    except Exception:
        r1 = "other"
    r2 = "none"
    try:
        LiquidError("m", token=None)._error_context(text, index)
    except ValueError:
        r2 = "ValueError"
    except Exception:
        r2 = "other"
    return finish(r1 == "ValueError" and r2 == "ValueError")


def message_ok(text, index, vlen, named):
    tok = Token(TOKEN_WORD, "v" * vlen, index, text)
    err = LiquidSyntaxError("boom", token=tok, template_name="tpl" if named else None)
    try:
        msg = err.detailed_message()
        s = str(err)
    except Exception:
        return False
    if index < 0:
        return msg == "boom" and s == "boom"
    line, col = ref_line_col(text, index)
    cur = _rs(ref_lines(text)[line - 1])
    ln = "%d" % line
    pad = " " * len(ln)
    where = ("tpl:%d:%d" % (line, col)) if named else ("'%s' %d:%d" % (cur, line, col))
    want = ("boom\n" + pad + " -> " + where + "\n" + pad + " |\n" + ln + " | " + cur + "\n"
            + pad + " | " + (" " * col) + ("^" * (vlen if vlen > 1 else 1)) + " boom\n")
    return msg == want and s == want


def _mk_message2(named):
    name = "c20_message_len2_" + ("named" if named else "anon")

    def f(text: str, index: int, long_value: bool) -> bool:
        """
        pre: len(text) <= 2
        pre: all(c in "a" + chr(10) + chr(13) for c in text)
        pre: -2 <= index < len(text)
        post: _
        """
        # str(err) / detailed_message() of an error whose token points into symbolic text: produced
        # without error; shows line:col of text[index] and puts the caret under column col
        if excluded(name, locals()):
            return True
        return finish(message_ok(text, index, 2 if long_value else 0, named))
    f.__name__ = f.__qualname__ = name
    return f, name


def _mk_message3(named):
    name = "c20_message_len3_" + ("named" if named else "anon")

    def f(text: str, index: int, long_value: bool) -> bool:
        """
        pre: len(text) == 3
        pre: all(c in "a" + chr(10) + chr(13) for c in text)
        pre: 0 <= index < len(text)
        post: _
        """
        if excluded(name, locals()):
            return True
        return finish(message_ok(text, index, 2 if long_value else 0, named))
    f.__name__ = f.__qualname__ = name
    return f, name


def c20_line_col_len5(text: str, index: int) -> bool:
    """
    pre: len(text) == 5
    pre: all(c in "a" + chr(10) + chr(13) for c in text)
    pre: 0 <= index < len(text)
    post: _
    """
    if excluded("c20_line_col_len5", locals()):
        return True
    try:
        got = Span("t", index).line_col(text)
    except Exception:
        return finish(False)
    return finish(got == ref_line_col(text, index))


def c20_error_context_len5(text: str, index: int) -> bool:
    """
    pre: len(text) == 5
    pre: all(c in "a" + chr(10) + chr(13) for c in text)
    pre: 0 <= index < len(text)
    post: _
    """
    if excluded("c20_error_context_len5", locals()):
        return True
    err = LiquidError("m", token=None)
    try:
        got = err._error_context(text, index)
    except Exception:
        return finish(False)
    line, col = ref_line_col(text, index)
    lines = ref_lines(text)
    prev = _rs(lines[line - 2]) if line >= 2 else ""
    cur = _rs(lines[line - 1])
    nxt = _rs(lines[line]) if line < len(lines) else ""
    return finish(got == (line, col, prev, cur, nxt))


for _nm in (False, True):
    _f, _n = _mk_message2(_nm)
    globals()[_n] = _f
    CONDITIONS.append({"fn": _n, "quick": 100, "thorough": 300})
    _f, _n = _mk_message3(_nm)
    globals()[_n] = _f
    CONDITIONS.append({"fn": _n, "quick": None, "thorough": 500})
CONDITIONS += [
    {"fn": "c20_line_col", "quick": 150, "thorough": 400},
    {"fn": "c20_error_context", "quick": 100, "thorough": 300},
    {"fn": "c20_context_out_of_range", "quick": 60, "thorough": 200},
    {"fn": "c20_line_col_len5", "quick": None, "thorough": 500},
    {"fn": "c20_error_context_len5", "quick": None, "thorough": 500},
]


# =============================================================================================
# S3 spans of static analysis and tag analysis
# =============================================================================================
PARTIALS = {
    "part": "{{ pv.a | downcase }}\n{% assign pl = 1 %}{% for q in pitems %}{{ q }}{% endfor %}",
    "multi": "line one\r\n  {% if pm.x %}\n\t{{ pm.y | append: pz | upcase }}\n{% endif %}\n{% liquid\n  assign inner = pq\n  echo inner | size\n%}",
    "base": "<head>{{ title }}</head>\n{% block content %}\n  {{ bv | escape }}\n{% endblock %}\n{% block foot %}f{% endblock %}",
    "nest": "{% include 'part' %}\n  {% render 'multi', pm: n1.n2 %}",
    # dotted names (the variable bound by `with` / `for` without an alias is the name less its extension) next to an
    # unrelated template whose name is that prefix and whose layout is different
    "card.liquid": "<h2>{{ card.title | upcase }}</h2>\n{% assign price = card.price | times: rate %}\n{% if price %}\n  {{ price | money }} {{ currency }}\n{% endif %}\n",
    "row.liquid": "<li>{{ row.name | escape }} {% if sep %}{{ sep }}{% endif %}</li>\n",
    "card": "<!-- legacy card, not used -->\n\n{{ legacy_card }}\n{% assign price = 0 %}",
}


class XEnv(Environment):
    """every optional piece of expression syntax switched on"""
    ternary_expressions = True
    logical_not_operator = True
    logical_parentheses = True
    keyword_assignment = True


ENV = XEnv(extra=True, loader=CachingDictLoader(PARTIALS))

GOOD = [
    "Hello {{ user.name | upcase }}!",
    "{{ a }}\n{{ b.c }}\n  {{ d[e.f].g | default: h, allow_false: true }}\n",
    "{% assign x = a.b[0][\"k\"] | append: c.d, 'z' %}\n{{ x }}",
    "{% liquid\n  assign y = x | default: w\n  for i in (1..n)\n    echo i | plus: m.o\n  endfor\n%}",
    "\n\n{% for it in coll.items limit: lim offset: off %}\n  {{ it[idx.k] | join: sep }}\n{% else %}\n  {{ none }}\n{% endfor %}",
    "{% include 'part' with v as pv %}\n{% render 'part', pitems: z.z %}",
    "{% macro mm, arg: dflt %}{{ arg | upcase }}{% endmacro %}\n\n{% call mm, arg: given.value %}",
    "{% capture cap %}{{ [\"b c\"].d }} and {{ ['q'] }}{% endcapture %}{{ cap | size }}",
    "{%- if a.b == c and d contains 'e' or f -%}\n  {{- g | strip -}}\n{%- elsif h.i > 1 -%}{{ j }}{%- else -%}{{ k }}{%- endif -%}",
    "{% unless u.v %}{% case w.x %}{% when y, z.z %}{{ one }}{% when 2 %}{{ two | times: three }}{% else %}{{ four }}{% endcase %}{% endunless %}",
    "{% tablerow r in rows.all cols: cc limit: 3 %}\r\n{{ r.name | capitalize }} {{ tablerowloop.col }}\r\n{% endtablerow %}",
    "{% cycle grp: c1, c2.d %}{% increment counter %}{% decrement counter %}{% echo e1 | prepend: e2 %}",
    "{% with p: q.r, s: 'lit' %}\n  {{ p }} {{ s | append: t }}\n{% endwith %}",
    "{% extends 'base' %}\n{% block content %}\n  {{ block.super }} {{ mine | upcase }}\n{% endblock %}",
    "{% include 'nest' %}\n{{ after.all }}",
    "{% render 'multi', pm: obj, pz: zed.zz, pq: 5 %}",
    "\u00e9\u00e8 \U0001f600 {{ \u00fcber.stra\u00dfe | upcase }}\n{% assign \u00e4 = \u00f6.x %}{{ \u00e4 }}",
    "{% comment %}\n {{ hidden }} {% if %}\n{% endcomment %}{{ shown }}\n{% # inline {{ c }}\n%}{% raw %}{{ r }}{% endraw %}{{ tail | size }}",
    "{% liquid\n\n  # note\n  if a.b\n\techo c | append: d\n  elsif e\n    assign f = g.h | first\n  endif\n\n  include 'part', pv: i.j\n%}\n{{ f }}",
    "{{ a if b.c else d | upcase || append: e.f }}",
    "{% for i in (lo.w..hi) reversed %}{% for j in i.kids %}{{ forloop.parentloop.index }}{{ j | map: 'k' | join: jn }}{% break %}{% endfor %}{% continue %}{% endfor %}",
    "{% translate you: user.first, n: cnt %}\n  Hello, {{ you }}!\n{% endtranslate %}{{ 'msg' | t: who: w.ho }}",
    "{% if not (a.x and b) or c %}{{ arr | where: 'a', want.ed | size }}{% endif %}\n{% include 'part', pv=eq.arg %}{% assign t = u if v.w else x.y | upcase %}",
    "{% if a %}{% if b %}{% if c %}\n{{ deep.er[0].still | slice: s0, s1 }}\n{% endif %}{% endif %}{% endif %}",
    "{% ifchanged %}{{ chg.d }}{% endifchanged %}{% doc %} {{ nope }} {% enddoc %}{{ last.one }}",
    "{% liquid assign a = b\n echo a %}{% liquid\n%}{% liquid echo c.d | f1 | f2: e\n %}",
    "{% render 'part' for many.items as pv %}{% include 'part' for others %}{{ tname.v }}",
    "{% assign key = kk %}{{ item[key] }} {{ prices[idx] | plus: row[col] }}\n{% for r in rows %}{{ r[col] }}{% endfor %}{% liquid echo item[key]\n echo row[col][key] %}",
    "{% doc -%}\n usage: {% if product %}{% form 'p' %}{% else %}\n{% enddoc %}{{ after.doc }}{%- doc %}{{ inner }}{% enddoc -%}\n{% assign dz = tail.v %}{{ dz }}",
    "{% assign rate = 2 %}\n{% render 'card.liquid' with product %}\n{% render 'row.liquid' for rows %}{% include 'card.liquid' with other %}\n{% include 'row.liquid' for more %}{{ footer | strip }}",
    "\ufeff{{ bom.first | upcase }}\n{% assign after_bom = b.c %}{% if after_bom %}{% render 'part', pitems: z %}{% endif %}\ufeff{{ second.bom }}",
    "x {{ 'str' | append: v1 | replace: 'a', v2.w }} y {{ 1 | plus: n1.n | minus: 2.5 }} z {{ true }}{{ nil }}{{ (1..3) | join }}",
]
NGOOD = len(GOOD)
SOURCES = dict(PARTIALS)


def _parse_good():
    out = []
    for i, src in enumerate(GOOD):
        nm = "main%d" % i
        SOURCES[nm] = src
        try:
            out.append(ENV.from_string(src, name=nm))
        except LiquidError:
            out.append(None)
    return out


TEMPLATES = _parse_good()


def _wordish(c):
    return c.isalnum() or c == "_"


def at_name(template_name, index, name, kind):
    """Does SOURCES[template_name][index:] start with `name` (as a whole word)? For variables the
    root segment may be written in bracket notation: [ "name" ]."""
    src = SOURCES.get(str(template_name))
    if src is None or not isinstance(index, int) or index < 0 or index >= len(src):
        return False
    frag = src[index:]
    if frag.startswith(name) and name:
        nxt = frag[len(name):len(name) + 1]
        if nxt and (_wordish(nxt) or (kind == "var" and nxt in "-?")):
            return False
        return True
    if kind == "var" and frag.startswith("["):
        rest = frag[1:].lstrip(" \t\r\n")
        q = rest[:1]
        return q in ("'", '"') and rest[1:].startswith(name + q)
    return False


def analysis_problems(a):
    """List of (map, name, template, index) that do not point at the name."""
    bad = []
    for label, m in (("variables", a.variables), ("globals", a.globals), ("locals", a.locals)):
        for name, items in m.items():
            for v in items:
                root = str(v.segments[0])
                if root != name or not at_name(v.span.template_name, v.span.index, name, "var"):
                    bad.append((label, name, v.span.template_name, v.span.index))
    for label, m, kind in (("filters", a.filters, "filter"), ("tags", a.tags, "tag")):
        for name, spans in m.items():
            for sp in spans:
                if not at_name(sp.template_name, sp.index, name, kind):
                    bad.append((label, name, sp.template_name, sp.index))
    return bad


def analyze_ok(k, partials, use_async):
    t = TEMPLATES[k]
    if t is None:
        return False
    try:
        if use_async:
            a = drive(t.analyze_async(include_partials=partials))
        else:
            a = t.analyze(include_partials=partials)
    except LiquidError:
        return False
    if not a.variables and not a.tags:
        return False  # every family member has something to report
    return not analysis_problems(a)


def c20_spans_analyze(k: int, partials: bool) -> bool:
    """
    pre: 0 <= k < 32
    post: _
    """
    if excluded("c20_spans_analyze", locals()):
        return True
    return finish(analyze_ok(pick(NGOOD, k), partials, False))


def c20_spans_analyze_async(k: int, partials: bool) -> bool:
    """
    pre: 0 <= k < 32
    post: _
    """
    if excluded("c20_spans_analyze_async", locals()):
        return True
    return finish(analyze_ok(pick(NGOOD, k), partials, True))


# tag analysis does not need a parsable template: add sources with unknown / unclosed / misplaced tags
TAG_ONLY = [
    "{% foo a %}\n  {% bar %}{% endbar %}",
    "line\n{% if a %}\n {% for x in y %}\n{% endif %}",
    "{% else %}{% when 1 %}\n\n{%- break -%}",
    "{% if a %}{% endfor %}",
    "{%   assign   x = 1 %}{%\n\tcapture\n c %}{%endcapture%}",
    "{% %}{% if %}",
    "\u00e9{% \u00e9t\u00e9 %}\U0001f600{% if2 %}{% endif2 %}{% if a %}{% endif %}",
    "{% comment %}{% if %}{% comment %}{% endcomment %}x{% endcomment %}{% after %}",
]
TAG_SRCS = GOOD + TAG_ONLY + list(PARTIALS.values())
NTAG = len(TAG_SRCS)
for _i, _s in enumerate(TAG_SRCS):
    SOURCES["tagsrc%d" % _i] = _s


def tags_problems(k):
    src = TAG_SRCS[k]
    nm = "tagsrc%d" % k
    bad = []
    try:
        a = ENV.analyze_tags_from_string(src, name=nm)
    except IndexError:
        return [("stray end tag: C21", "", nm, -1)]
    for label, m in (("all_tags", a.all_tags), ("tags", a.tags), ("unclosed", a.unclosed_tags), ("unexpected", a.unexpected_tags),
                     ("unknown", a.unknown_tags)):
        for name, spans in m.items():
            for sp in spans:
                if name == "":
                    # a tag without a name: the location must be where the name would be
                    if sp.template_name != nm or src[sp.index:sp.index + 2] != "%}":
                        bad.append((label, name, sp.template_name, sp.index))
                elif not at_name(sp.template_name, sp.index, name, "tag"):
                    bad.append((label, name, sp.template_name, sp.index))
    if len(a.all_tags) == 0 and "{%" in src and "raw" not in src:
        bad.append(("nothing reported", "", nm, -1))
    return bad


def c20_spans_tag_analysis(k: int) -> bool:
    """
    pre: 0 <= k < 47
    post: _
    """
    if excluded("c20_spans_tag_analysis", locals()):
        return True
    return finish(not tags_problems(pick(NTAG, k)))


def tags_loader_ok(name):
    try:
        a = ENV.analyze_tags(name)
    except Exception:
        return False
    n = 0
    for m in (a.all_tags, a.tags, a.unclosed_tags, a.unexpected_tags, a.unknown_tags):
        for tag, spans in m.items():
            for sp in spans:
                n += 1
                if not at_name(sp.template_name, sp.index, tag, "tag"):
                    return False
    return n > 0


def c20_spans_tag_analysis_loader(k: int) -> bool:
    """
    pre: 0 <= k < 7
    post: _
    """
    # Environment.analyze_tags(name): spans carry the loader's template name
    if excluded("c20_spans_tag_analysis_loader", locals()):
        return True
    names = sorted(PARTIALS)
    return finish(tags_loader_ok(names[pick(len(names), k)]))


DETAIL["c20_spans_analyze"] = lambda k, partials: {"source": GOOD[k], "bad": analysis_problems(TEMPLATES[k].analyze(include_partials=partials))}
DETAIL["c20_spans_analyze_async"] = DETAIL["c20_spans_analyze"]
DETAIL["c20_spans_tag_analysis"] = lambda k: {"source": TAG_SRCS[k], "bad": tags_problems(k)}
CONDITIONS += [
    {"fn": "c20_spans_analyze", "quick": 90, "thorough": 200, "sel_only": True},
    {"fn": "c20_spans_analyze_async", "quick": 90, "thorough": 200, "sel_only": True},
    {"fn": "c20_spans_tag_analysis", "quick": 60, "thorough": 200, "sel_only": True},
    {"fn": "c20_spans_tag_analysis_loader", "quick": 30, "thorough": 60, "sel_only": True},
]


# =============================================================================================
# S4 malformed sources
# =============================================================================================
BAD_PARTIALS = {
    "bad": "ok {{ x }}\n{% if %}",
    "bad2": "\n\n{{ x | }}",
    "bad3": "line\r\n  {% liquid\n  echo a\n  assign = 3 %}",
    "bad4": "{% for i in x %}\n{{ i | nosuch }}",
    "good": "{{ fine }}",
    "chain": "{% include 'bad3' %}",
}
MENV = Environment(extra=True, loader=CachingDictLoader(BAD_PARTIALS), strict_filters=True)

_IF_EXPRS = ["", "x ==", "== x", "x and", "x & y", "(x", "x =! y", "x contains", "not", "x y"]
_LOOP_EXPRS = ["", "i", "i in", "in x", "i in x limit", "i in x limit:", "i in (1..", "i in (1..)", "i in x cols", "1 in x", "i in x reversed foo"]
_OUT_EXPRS = ["", "| f", "x |", "x | upcase:", "x.[", "x[", "x[1", "'abc", "x y", "1.2.3", "x | upcase g", "x..y", "(1..2", "x | nosuch", "x ?",
              "x | upcase: ,", "x | append: a:", "x.", ".x", "x[]", "x | | y", "x | default: y, allow_false", "x if", "x if y else", "\"a' b"]
MALFORMED = {
    "unterminated": ["{{ x", "{% if x", "a {{", "{%", "{{ x }", "{% if x %}{{ y", "{% case x %}{% endcase", "{{ x }}{% assign", "{% liquid echo x", "{{- x -}", "{%- if x -%}\n{{"],
    "unbalanced": ["{% if x %}", "{% endif %}", "{% for i in x %}{% endif %}", "{% if x %}{% endfor %}{% endif %}", "{% case x %}", "{% capture c %}x", "{% else %}", "{% when 1 %}",
                   "{% if a %}{% for i in b %}{% endif %}{% endfor %}", "{% unless a %}{% elsif %}{% endunless %}", "{% tablerow i in x %}", "{% endcase %}{% case x %}", "{% if a %}{% endif %}{% endif %}",
                   "{% comment %}", "{% raw %}", "{% doc %}", "{% endraw %}", "{% enddoc %}", "{% endcomment %}", "{% ifchanged %}", "{% break x %}"],
    "if": ["{% if " + e + " %}t{% endif %}" for e in _IF_EXPRS] + ["{% unless " + e + " %}t{% endunless %}" for e in _IF_EXPRS[:5]]
          + ["{% if a %}{% elsif " + e + " %}{% endif %}" for e in _IF_EXPRS[:6]],
    "loop": ["{% for " + e + " %}b{% endfor %}" for e in _LOOP_EXPRS] + ["{% tablerow " + e + " %}b{% endtablerow %}" for e in _LOOP_EXPRS],
    "assign": ["{% assign " + e + " %}" for e in ["", "x", "x =", "= 1", "x = | f", "x = y |", "x = y | upcase:", "x = y | append: ,", "x == 1", "1 = 2", "x.y = 1", "x = (1..", "x? = 1"]]
              + ["{% capture " + e + " %}{% endcapture %}" for e in ["", "a b", "a.b", "'s'"]]
              + ["{% cycle " + e + " %}" for e in ["", ":", "a:", "a: ,", ", a"]] + ["{% increment " + e + " %}" for e in ["", "'x'", "a b"]]
              + ["{% decrement 'x' %}", "{% echo | %}", "{% echo x | %}", "{% echo x y %}"],
    "case": ["{% case %}{% endcase %}", "{% case x %}{% when %}{% endcase %}", "{% case x %}junk{% foo %}{% endcase %}", "{% case x %}{% when 1, %}{% endcase %}",
             "{% case x y %}{% when 1 %}{% endcase %}", "{% case x %}{% when 1 or %}a{% endcase %}", "{% case x %}{% when 1 %}{% else %}{% when & %}{% endcase %}"],
    "partial_tags": ["{% include " + e + " %}" for e in ["", "x y", "'good' with", "'good' for", "'good', a", "'good', a:", "'good' with x as", "'good' as y", ","]]
                    + ["{% render " + e + " %}" for e in ["", "x", "'good' for", "'good' as", "'good', a", "'good', a: ,", "'good' with x as 1", "1"]],
    "output": ["{{ " + e + " }}" for e in _OUT_EXPRS] + ["{{" + e + "}}" for e in _OUT_EXPRS[:6]],
    "unknown": ["{% foo %}", "{% foo bar %}{% endfoo %}", "{% %}", "{% 1 %}", "{% endfoo %}", "{% snippet s %}{% endsnippet %}", "{{ x | nosuch }}", "{{ x | upcase | nosuch: 1 }}",
                "{% assign y = x | nosuch %}", "{% if a %}{% nope %}{% endif %}", "{% for i in x %}{{ i | nosuch2 }}{% endfor %}", "{% IF x %}{% ENDIF %}"],
    "liquid": ["{% liquid\n assign x = \n echo %}", "{% liquid\n if x\n echo 1 %}", "{% liquid foo %}", "{% liquid\n  echo x | \n %}", "{% liquid ??? %}", "{% liquid\n\n  for i in\n  endfor %}",
               "{% liquid\n echo a\n  nope b\n echo c %}", "{% liquid\n echo a\n\n\n   assign = 1\n%}", "{% liquid echo 'x\n %}", "{% liquid\n  endif\n%}", "{% liquid\n\tif a\n\t\techo b | nosuch\n\tendif %}",
               "{% liquid\r\n echo a\r\n echo & %}", "{% liquid\n  case x\n  when\n  endcase %}", "{% liquid liquid echo ? %}", "{% liquid\n  echo a\n  - b\n%}"],
    "partials": ["{% include 'bad' %}", "{% render 'bad2' %}", "{% include 'missing' %}", "{% extends 'bad' %}", "{% render 'bad3' %}", "{% include 'chain' %}", "{% render 'bad4' %}",
                 "{% extends 'missing' %}", "a\n{% include 'good' %}\n{% render 'bad' %}", "{% for i in (1..2) %}{% include 'bad2' %}{% endfor %}"],
    "extra": ["{% macro %}{% endmacro %}", "{% call %}", "{% with %}{% endwith %}", "{% with a %}{% endwith %}", "{% block %}{% endblock %}", "{% extends %}", "{% translate x %}{% endtranslate %}",
              "{% translate %}{% if x %}{% endif %}{% endtranslate %}", "{% macro m, a: %}{% endmacro %}", "{% call m, %}", "{% with a: %}{% endwith %}", "{% block b %}{% endblock c %}",
              "{% macro m %}", "{% block b %}", "{% translate %}{{ x | upcase }}{% endtranslate %}", "{% extends 'good' %}{% block b %}{% block b %}{% endblock %}{% endblock %}",
              "{{ a if }}", "{{ a if b else }}", "{{ a | map: i => }}", "{{ a || }}"],
}
PLACE = [("", ""), ("line one\nline \u00e9 two\r\n  ", "\ntail"), ("{% if true %}\n\t\U0001f600 ", " {% endif %}\n\n")]


def place(src, p):
    return PLACE[p][0] + src + PLACE[p][1]


def first_error(src):
    """The LiquidError raised by parsing (and, for partials, by rendering) the source, or None."""
    try:
        t = MENV.from_string(src, name="main")
        t.render()
    except LiquidError as e:
        return e
    return None


def known_source(s, src):
    return s == src or s in BAD_PARTIALS.values()


def error_verdict(src):
    """'ok:<pos|nopos|noerr>' or a description of what is wrong."""
    try:
        e = first_error(src)
    except Exception as ex:
        return "NON-LIQUID " + type(ex).__name__
    if e is None:
        return "ok:noerr"
    tok = e.token
    try:
        msg = e.detailed_message()
        s = str(e)
    except Exception as ex:
        return "MESSAGE-RAISES " + type(ex).__name__
    if not isinstance(msg, str) or not isinstance(s, str) or not s:
        return "MESSAGE-NOT-STR"
    if tok is None or tok.start_index < 0:
        return "ok:nopos"
    if not isinstance(tok.source, str) or not (0 <= tok.start_index <= len(tok.source)):
        return "OUTSIDE idx=%r len=%r" % (tok.start_index, len(tok.source))
    if not known_source(tok.source, src):
        return "FOREIGN-SOURCE %r" % (tok.source[:40],)
    lc = ref_line_col_full(tok.source, tok.start_index)
    if lc is None:
        return "NO-LINE idx=%r" % (tok.start_index,)
    if ("%d:%d" % lc) not in msg:
        return "LINE-COL-MISSING want %d:%d in %r" % (lc[0], lc[1], msg[:120])
    return "ok:pos"


def ref_line_col_full(text, index):
    """ref_line_col for arbitrary text: the malformed family only uses LF / CR LF line ends."""
    if index >= len(text):
        return None
    before = text[:index]
    line = before.count("\n") + 1
    start = before.rfind("\n") + 1
    return line, index - start


def _mk_malformed(cat):
    name = "c20_malformed_" + cat
    fam = MALFORMED[cat]
    nf = len(fam)

    def f(k: int, p: int) -> bool:
        """
        pre: 0 <= k < 64
        pre: 0 <= p < 3
        post: _
        """
        if excluded(name, locals()):
            return True
        if k >= nf:
            return True
        src = place(fam[pick(nf, k)], pick(3, p))
        return finish(error_verdict(src).startswith("ok:"))
    f.__name__ = f.__qualname__ = name
    globals()[name] = f
    DETAIL[name] = lambda k, p: {"source": place(fam[k], p), "verdict": error_verdict(place(fam[k], p))}
    return name


for _cat in MALFORMED:
    CONDITIONS.append({"fn": _mk_malformed(_cat), "quick": 60, "thorough": 200, "sel_only": True})

# sources whose error is detected at the END of an expression / of the template: the parser's
# end-of-stream sentinel is Token(EOF, -1, "") so these errors carry no position at all
EOF_FAMILY = ["{% if x %}", "{% assign x %}", "{% assign x = %}", "{{ x | }}", "{{ }}", "{% for i in %}{% endfor %}", "{% include 'good' with %}",
              "{% liquid\n if x\n echo 1 %}", "{{ (1..2 }}", "{% render 'bad2' %}", "{% with a %}{% endwith %}"]


def has_position(src):
    e = first_error(src)
    if e is None:
        return "noerr"
    tok = e.token
    if tok is None:
        return "NO-TOKEN"
    if tok.start_index < 0:
        return "NEGATIVE-INDEX %r" % (e.args[0] if e.args else None,)
    return "pos" if 0 <= tok.start_index < len(tok.source) and known_source(tok.source, src) else "OUTSIDE"


def c20_position_present(k: int, p: int) -> bool:
    """
    pre: 0 <= k < 11
    pre: 0 <= p < 3
    post: _
    """
    # statement, literally: EVERY Liquid error raised while parsing carries a position inside its
    # own source (the c20_malformed_* conditions accept errors without a position)
    if excluded("c20_position_present", locals()):
        return True
    src = place(EOF_FAMILY[pick(len(EOF_FAMILY), k)], pick(3, p))
    return finish(has_position(src) == "pos")


DETAIL["c20_position_present"] = lambda k, p: {"source": place(EOF_FAMILY[k], p), "verdict": has_position(place(EOF_FAMILY[k], p))}
# c20_position_present is NOT registered: errors detected at the end of an expression/template carry the parser's
# end-of-stream sentinel (index -1), which the formatted message renders without line/column. DESIGN.md accepts a
# negative index as "no position"; demanding a position for every error asked more than the check needs.

# ---- the shared corpus: every location reported by analyze() / analyze_async() / analyze_tags points at its item ----
from harness import corpus as _corpus  # noqa: E402

_CENV = _corpus.make_env(XEnv)
for _k in ("p", "q", "brk", "n1", "n2", "cbase"):
    SOURCES.setdefault(_k, _corpus.PARTIALS[_k])


def _corpus_check(w2, w1, leaf, d):
    if d != 0:
        return None   # analysis does not depend on data
    src = _corpus.source(w2, w1, leaf)
    name = "corpus-%d-%d-%d" % (w2, w1, leaf)
    SOURCES[name] = src
    try:
        t = _CENV.from_string(src, name=name)
    except LiquidError:
        return None
    bad = []
    for partials in (False, True):
        try:
            bad += [("analyze",) + b for b in analysis_problems(t.analyze(include_partials=partials))]
            bad += [("analyze_async",) + b for b in analysis_problems(drive(t.analyze_async(include_partials=partials)))]
        except LiquidError as e:
            bad.append(("analyze raised", type(e).__name__))
    ta = _CENV.analyze_tags_from_string(src, name=name)
    for label, m in (("all_tags", ta.all_tags), ("tags", ta.tags), ("unclosed", ta.unclosed_tags), ("unexpected", ta.unexpected_tags), ("unknown", ta.unknown_tags)):
        for tag, spans in m.items():
            for sp in spans:
                if not at_name(sp.template_name, sp.index, tag, "tag"):
                    bad.append(("analyze_tags", label, tag, sp.template_name, sp.index))
    return bad[:4] or None


c20_corpus, _det = _corpus.mk_condition("c20_corpus", _corpus_check)
DETAIL = globals().get("DETAIL", {})
DETAIL["c20_corpus"] = _det
CONDITIONS.append({"fn": "c20_corpus", "quick": 90, "thorough": 200, "sel_only": True, "bounds": _corpus.BOUNDS})

ASSUMPTIONS = [
    "S1: expression / liquid-tag texts come from selector pools (24 + 8 rejected expressions, 13 + 3 liquid bodies); only the parent offset K is symbolic (unbounded int); the regular expressions see concrete text",
    "S1 oracle: tokens tile the text in order with only white space (and, in comment mode, '#' lines) between them - this fixes every offset uniquely",
    "S2: text <= 4 code points over {a, LF, CR}; lines as str.splitlines(keepends=True) documents them for that alphabet (LF, CR LF, lone CR)",
    "S3/S4 are enumerations of generated programs (sel_only): 28 templates + 4 partials for analyze(), 40 sources for tag analysis, 12 categories of malformed sources x 3 placements",
    "S4 accepts an error without a token or with a negative start_index as 'no position' (DESIGN.md); c20_position_present states the literal reading separately",
]
OUTSIDE = ["symbolic template/expression text (re cannot take it)", "line separators other than LF / CR / CR LF (str.splitlines also splits at VT, FF, FS, GS, RS, NEL, LS, PS)",
           "render-time errors", "custom tags / custom delimiters", "Span.line_col for negative indexes (not rejected, returns a negative column)"]


def selftest():
    fails = []
    # scan oracle against hand-computed offsets
    hand = {"a.b.c | upcase": [0, 1, 2, 3, 4, 6, 8], "a['b c'].d[0]": [0, 1, 8, 9, 10], "(1..n)": [0, 1, 2, 4, 5],
            "  spaced\n\t out  ": [2, 11], "x contains \"q\"": [0, 2, 11]}
    p = Token(TOKEN_EXPRESSION, "", 0, PARENT_SRC)
    for text, offs in hand.items():
        toks = list(tokenize(text, p))
        if expected_offsets(text, [(t.kind, t.value) for t in toks]) != offs:
            fails.append("expected_offsets %r -> %r" % (text, expected_offsets(text, [(t.kind, t.value) for t in toks])))
    for text in EXPRS:
        try:
            if not expr_offsets_ok(1000, text):
                fails.append("expr pool member fails concretely at K=1000: %r" % (text,))
        except LiquidError as e:
            fails.append("expr pool member is rejected: %r" % (text,))
    for text, want in BAD_EXPRS:
        try:
            list(tokenize(text, p))
            fails.append("bad expr accepted: %r" % (text,))
        except LiquidSyntaxError:
            pass
    # liquid oracle against hand-computed offsets
    for text in LIQS:
        for cm in (False, True):
            try:
                if not liquid_offsets_ok(1000, text, cm, not cm):
                    fails.append("liquid pool member fails concretely at K=1000 (comment mode %s): %r" % (cm, text))
            except LiquidError:
                fails.append("liquid pool member is rejected: %r" % (text,))
    for text in BAD_LIQS:
        if not liquid_error_ok(7, text):
            fails.append("bad liquid body accepted or mis-reported: %r" % (text,))
    toks = list(LIQ_TOKENIZE("assign x = 1\n echo x", token=p))
    if liq_expected("assign x = 1\n echo x", [(t.kind, t.value) for t in toks]) != [0, 7, 14, 19]:
        fails.append("liq_expected")
    # reference splitter == documented str.splitlines on the alphabet
    import itertools
    for n in range(5):
        for cs in itertools.product("a\n\r", repeat=n):
            t = "".join(cs)
            if ref_lines(t) != t.splitlines(keepends=True):
                fails.append("ref_lines %r" % (t,))
    if ref_line_col("a\r\nb", 2) != (1, 2) or ref_line_col("a\r\nb", 3) != (2, 0) or ref_line_col("a\rb", 2) != (2, 0):
        fails.append("ref_line_col")
    # repo-tested facts: tests/test_analyze_template_tags.py / test_static_analysis: Span("<string>", 3) for "{% if"
    a = ENV.analyze_tags_from_string("{% if foo %}{% endif %}")
    if a.all_tags["if"][0].index != 3 or a.all_tags["endif"][0].index != 15:
        fails.append("tag span baseline")
    for i, t in enumerate(TEMPLATES):
        if t is None:
            fails.append("GOOD[%d] does not parse: %r" % (i, GOOD[i]))
    if (len(EXPRS), len(BAD_EXPRS), len(LIQS), len(BAD_LIQS), len(GOOD), len(TAG_SRCS), len(EOF_FAMILY), len(PARTIALS)) != (24, 8, 13, 3, 32, 47, 11, 7):
        fails.append("pool sizes drifted from the preconditions: %r" % ((len(EXPRS), len(BAD_EXPRS), len(LIQS), len(BAD_LIQS), len(GOOD), len(TAG_SRCS), len(EOF_FAMILY), len(PARTIALS)),))
    if max(len(v) for v in MALFORMED.values()) > 64:
        fails.append("malformed category larger than 64")
    return fails
