"""C18 Template inheritance resolves blocks to the most-derived definition.

Real code executed symbolically: ExtendsNode.render_to_output(_async),
_build_block_stacks(_async), _stack_blocks, _find_inheritance_nodes, _store_blocks,
BlockNode.render_to_output(_async), BlockDrop.__getitem__ (block.super),
BlockTag.parse (error family only; other templates are parsed once and cached by
CachingDictLoader), RenderContext.copy(block_scope=True), via whole
renders of the leaf template of a generated chain.

Structure is ENUMERATED: a deterministic generator produces chain specifications
(chain length, which template defines which of the blocks a/b, plain / uses
block.super / required, nesting of one block in the other, text after extends,
wrappers, and the error families cycle / duplicate name / mismatched endblock).
Data is SYMBOLIC: every definition prints a literal tag plus symbolic render
variables (two strings, an int) and a loop over a list of symbolic length, some
blocks sit behind `{% if k > 0 %}`; sync/async is a symbolic bool.
Oracle: a reference flattener over the same specification (most-derived wins,
super = next definition up the chain, nested blocks resolved again) giving the
expected string as a function of the same symbols, or the expected error class.
"""
import random
import re
import sys

from liquid import CachingDictLoader, DictLoader, Environment

from vf.hx import drive, excluded, finish

PROPERTY = "C18"

NAMES = ("a", "b")
# kinds of a block definition: p plain, s uses {{ block.super }}, l uses block.super inside a for loop,
# r `required`; o = the template does not define the block
KINDS = ("p", "s", "r")
# nest: "" both blocks at top level; "n" b nested inside a; "m" a nested inside b;
# "N"/"M" the same but the nested block sits behind {% if k > 0 %}
# wrap: "" / "f" (top-level blocks inside {% for %} over xs) / "i" (inside {% if k > 0 %}) / "c" (inside a capture that is printed)
TIE = "ERR:TemplateInheritanceError"
REQ = "ERR:RequiredBlockError"


def tpl(a="o", b="o", nest="", junk=False, wrap=""):
    return (a, b, nest, bool(junk), wrap)


def _kind(tp, name):
    return tp[0] if name == "a" else tp[1]


def _child_of(tp, name):
    """Name of the block nested inside block `name` of this template, and whether it is conditional."""
    nest = tp[2]
    if nest in ("n", "N") and name == "a" and tp[0] != "o" and tp[1] != "o":
        return "b", nest == "N"
    if nest in ("m", "M") and name == "b" and tp[0] != "o" and tp[1] != "o":
        return "a", nest == "M"
    return None, False


def _top_level(tp):
    out = []
    for name in NAMES:
        if _kind(tp, name) == "o":
            continue
        other = "b" if name == "a" else "a"
        if _child_of(tp, other)[0] == name:
            continue
        out.append(name)
    return out


def _var(j, name):
    return ("s", "t", "k")[(j + NAMES.index(name)) % 3]


def _has_loop(j, name):
    return (j + NAMES.index(name)) % 2 == 0


def tpl_code(tp):
    return tp[0] + tp[1] + tp[2] + ("j" if tp[3] else "") + tp[4]


def spec_code(spec):
    tpls, fault = spec
    c = "_".join(tpl_code(tp) for tp in tpls)
    if fault:
        c += "__" + "".join(str(x) for x in fault)
    return c


# ---------------------------------------------------------------- source builder
def _block_src(j, name, tp, fault):
    kind = _kind(tp, name)
    if kind == "e":
        # a block whose own default body is empty (the overriding definition must still be rendered in its place,
        # also when the enclosing container has no other visible content)
        return "{% block " + name + " %}{% endblock %}"
    src = "{% block " + name + (" required" if kind == "r" else "") + " %}"
    # {{ q }} is the loop variable of a {% for q in xs %} wrapper in the root (wrap "f"); undefined otherwise
    src += "[T%d.%s:{{ %s }}{{ q }}" % (j, name, _var(j, name))
    if _has_loop(j, name):
        src += "{% for i in xs %}{{ i }}{% endfor %}"
    if kind == "s":
        src += "^{{ block.super }}"
    if kind == "l":
        src += "{% for i in xs %}^{{ block.super }}{% endfor %}"
    child, cond = _child_of(tp, name)
    if child:
        inner = "(" + _block_src(j, child, tp, fault) + ")"
        src += ("{% if k > 0 %}" + inner + "{% endif %}") if cond else inner
    if fault and fault[0] == "dupin" and fault[1] == j and fault[2] == name:
        src += "{% block " + name + " %}D{% endblock %}"
    src += "]"
    if fault and fault[0] == "end" and fault[1] == j and fault[2] == name:
        src += "{% endblock " + fault[3] + " %}"
    elif name == "b":
        src += "{% endblock b %}"
    else:
        src += "{% endblock %}"
    return src


def sources(spec, ns=""):
    """Concrete template sources ns+'T1' (root) .. ns+'TL' (leaf) of a chain specification."""
    tpls, fault = spec
    out = {}
    for idx in range(len(tpls)):
        j = idx + 1
        tp = tpls[idx]
        junk = tp[3] and j > 1
        src = ""
        if j > 1:
            src += "{% extends '" + ns + "T" + str(j - 1) + "' %}"
        elif fault and fault[0] == "cyc":
            src += "{% extends '" + ns + "T" + str(fault[1]) + "' %}"
        if junk:
            src += "J%d{{ t }}" % j
        blocks = [_block_src(j, name, tp, fault) for name in _top_level(tp)]
        if fault and fault[0] == "dup" and fault[1] == j:
            blocks.append("{% block " + fault[2] + " %}D{% endblock %}")
            if _kind(tp, fault[2]) == "o":  # the template has no such block yet: define it twice
                blocks.append("{% block " + fault[2] + " %}E{% endblock " + fault[2] + " %}")
        body = ("|" if (j == 1 or junk) else "").join(blocks)
        if tp[4] == "f":
            body = "{% for q in xs %}" + body + "{% endfor %}"
        elif tp[4] == "i":
            body = "{% if k > 0 %}" + body + "{% endif %}"
        elif tp[4] == "c":
            # the blocks sit inside a capture whose text is written right after it (a transparent container)
            body = "{% capture cap %}" + body + "{% endcapture %}{{ cap }}"
        if j == 1:
            src += "<" + body + ">{{ t }}"
        else:
            src += body + ("J{{ s }}" if junk else "")
        out[ns + "T%d" % j] = src
    return out


# ---------------------------------------------------------------- reference flattener
class _Required(Exception):
    pass


class _Recursive(Exception):
    pass


def flatten(spec, s, t, k, n):
    """List of acceptable observations ("ERR:<Class>" or the output string) for rendering the leaf."""
    tpls, fault = spec
    if fault:
        return [TIE]
    L = len(tpls)
    vals = {"s": s, "t": t, "k": str(k)}
    digits = ""
    for i in range(n):
        digits += str(i)
    defs = {}
    for name in NAMES:
        defs[name] = [(j, tpls[j - 1]) for j in range(L, 0, -1) if _kind(tpls[j - 1], name) != "o"]
    reached = set()
    qv = [""]

    def render_def(name, idx, depth):
        if depth > 16:
            raise _Recursive()
        j, tp = defs[name][idx]
        kind = _kind(tp, name)
        if kind == "e":
            return ""
        out = "[T%d.%s:" % (j, name) + vals[_var(j, name)] + qv[0]
        if _has_loop(j, name):
            out += digits
        if kind == "s":
            out += "^"
            if idx + 1 < len(defs[name]):
                out += render_def(name, idx + 1, depth + 1)
        if kind == "l":
            for _ in range(n):
                out += "^"
                if idx + 1 < len(defs[name]):
                    out += render_def(name, idx + 1, depth + 1)
        child, cond = _child_of(tp, name)
        if child and (not cond or k > 0):
            out += "(" + render_block(child, depth + 1) + ")"
        return out + "]"

    def render_block(name, depth):
        reached.add(name)
        if _kind(defs[name][0][1], name) == "r":
            raise _Required()
        return render_def(name, 0, depth)

    root = tpls[0]
    try:
        reps = 1
        if root[4] == "f":
            reps = n
        elif root[4] == "i":
            reps = 1 if k > 0 else 0
        body = ""
        for rep in range(reps):
            qv[0] = str(rep) if root[4] == "f" else ""
            first = True
            for name in _top_level(root):
                if not first:
                    body += "|"
                first = False
                body += render_block(name, 0)
        exp = ["<" + body + ">" + t]
    except _Required:
        return [REQ]
    # a required block that nobody overrides but that is never rendered: the statement can be
    # read either way (error, or "the output is the flattened root") - both are accepted
    for name in NAMES:
        if defs[name] and name not in reached and _kind(defs[name][0][1], name) == "r":
            exp.append(REQ)
            break
    return exp


def is_finite(spec):
    try:
        flatten(spec, "", "", 1, 1)
    except _Recursive:
        return False
    return True


# ---------------------------------------------------------------- running the real code
SOURCES = {}
# parents are served from the loader's cache (filled when a chain is prepared, outside tracing):
# a plain DictLoader parses every parent again on every render, which is concrete work that only
# costs time under tracing. Templates that do not parse are never cached: they are parsed in the body.
ENV = Environment(extra=True, loader=CachingDictLoader(SOURCES, auto_reload=False, capacity=1000000))


class Prep:
    """One chain: its concrete sources registered in the shared loader under '<spec code>/T<j>',
    every template that parses pre-parsed."""

    def __init__(self, spec):
        self.spec = spec
        self.ns = spec_code(spec) + "/"
        self.src = sources(spec, self.ns)
        SOURCES.update(self.src)
        self.env = ENV
        self.leaf_name = self.ns + "T%d" % len(spec[0])
        self.leaf = None
        for nm in self.src:
            try:
                tmpl = ENV.get_template(nm)
                if nm == self.leaf_name:
                    self.leaf = tmpl
            except Exception:
                pass  # mismatched endblock: parsed again (and rejected again) in the body


def observe(prep, s, t, k, n, use_async):
    data = {"s": s, "t": t, "k": k, "xs": list(range(n))}
    try:
        leaf = prep.leaf
        if leaf is None:
            leaf = prep.env.get_template(prep.leaf_name)
        if use_async:
            return drive(leaf.render_async(**data))
        return leaf.render(**data)
    except Exception as e:
        return "ERR:" + type(e).__name__


def _norm(x):
    """Same string, rebuilt so that its LENGTH is concrete on the path (contents stay symbolic):
    CrossHair's StringIO model gets very slow once the write position is a symbolic int."""
    if len(x) == 0:
        return ""
    return x[0]


def check(prep, s, t, k, n, use_async):
    s = _norm(s)
    t = _norm(t)
    out = observe(prep, s, t, k, n, use_async)
    for e in flatten(prep.spec, s, t, k, n):
        if out == e:
            return True
    return False


def detail(prep, s, t, k, n, use_async):
    return {"spec": spec_code(prep.spec), "sources": prep.src, "render": prep.leaf_name,
            "expected": flatten(prep.spec, s, t, k, n), "observed": observe(prep, s, t, k, n, use_async)}


CONDITIONS = []
DETAIL = {}
SPEC_OF = {}


_PREPS = {}


def _preps(name):
    """Environments are built on first use (a module import must stay cheap: every condition is
    three to four OS processes); building is concrete work, no solver decision depends on it."""
    if name not in _PREPS:
        _PREPS[name] = [Prep(sp) for sp in SPEC_OF[name]]
    return _PREPS[name]


def _mk_one(name, spec):
    SPEC_OF[name] = [spec]

    def f(s: str, t: str, k: int, n: int, use_async: bool) -> bool:
        """
        pre: len(s) <= 1 and len(t) == 1
        pre: 0 <= k <= 9
        pre: 0 <= n <= 2
        post: _
        """
        if excluded(name, locals()):
            return True
        return finish(check(_preps(name)[0], s, t, k, n, use_async))
    f.__name__ = f.__qualname__ = name
    DETAIL[name] = lambda s, t, k, n, use_async: detail(_preps(name)[0], s, t, k, n, use_async)
    return f


BATCH = 12


def _pick(name, sel):
    preps = _preps(name)
    idx = 0
    for j in range(BATCH):
        if sel == j:
            idx = j
            break
    return preps[idx % len(preps)]


def _mk_batch(name, specs):
    SPEC_OF[name] = list(specs)

    def f(sel: int, s: str, t: str, k: int, n: int, use_async: bool) -> bool:
        """
        pre: 0 <= sel < 12
        pre: len(s) == 1 and len(t) == 1
        pre: 0 <= k <= 9
        pre: 0 <= n <= 1
        post: _
        """
        if excluded(name, locals()):
            return True
        return finish(check(_pick(name, sel), s, t, k, n, use_async))
    f.__name__ = f.__qualname__ = name
    DETAIL[name] = lambda sel, s, t, k, n, use_async: detail(_pick(name, sel), s, t, k, n, use_async)
    return f


# ---------------------------------------------------------------- the families
def shapes(kinds=KINDS):
    """Every template shape over the block pool {a, b}: 1 + 2K + 3K^2."""
    out = [tpl()]
    for ka in kinds:
        out.append(tpl(a=ka))
    for kb in kinds:
        out.append(tpl(b=kb))
    for ka in kinds:
        for kb in kinds:
            for nest in ("", "n", "m"):
                out.append(tpl(a=ka, b=kb, nest=nest))
    return out


def with_junk(chain, flag):
    return tuple((tp[0], tp[1], tp[2], flag and i > 0, tp[4]) for i, tp in enumerate(chain))


# curated specs (quick tier): every feature at least once. Root first, leaf last.
P, S, R, O, LP, E = "p", "s", "r", "o", "l", "e"
CURATED = [
    # chain length 1: a template rendered directly
    ((tpl(P, P),), None),
    ((tpl(P, P, "n"),), None),
    ((tpl(S, P, "m"),), None),                      # block.super without a parent: renders nothing
    ((tpl(R, P),), None),                           # required block rendered directly
    ((tpl(P, R, "N"),), None),                      # required block behind a symbolic condition
    ((tpl(P, P, wrap="f"),), None),
    # length 2: override / keep / super / nesting
    ((tpl(P, P), tpl(P, O)), None),
    ((tpl(P, P), tpl(O, S, junk=True)), None),
    ((tpl(P, P, "n"), tpl(O, P)), None),            # override only the nested block
    ((tpl(P, P, "n"), tpl(P, O, junk=True)), None),  # override the outer block: the nested one disappears
    ((tpl(P, P, "n"), tpl(S, S)), None),            # docs/tests: nested and outer overridden, both with super
    ((tpl(P, O), tpl(S, P, "n")), None),            # a block that only the child introduces, nested
    ((tpl(P, P), tpl(P, P, "m", junk=True)), None),  # child nests a in b: a rendered twice
    ((tpl(P, P, "n"), tpl(P, P, "m")), None),
    ((tpl(P, P), tpl(LP, S)), None),                # super inside a for loop
    ((tpl(P, P, wrap="f"), tpl(S, P, junk=True)), None),
    ((tpl(P, P, "N", wrap="i"), tpl(O, S, wrap="i")), None),
    # empty default blocks inside containers that have no other visible content
    ((tpl(E, O, wrap="i"), tpl(P, O)), None),
    ((tpl(E, O, wrap="f"), tpl(P, O)), None),
    ((tpl(E, E, wrap="i"), tpl(S, P)), None),
    ((tpl(E, O, wrap="i"), tpl(O, O), tpl(P, O)), None),
    # blocks defined inside a capture block (root, middle, leaf)
    ((tpl(P, P, wrap="c"), tpl(S, O)), None),
    ((tpl(P, P), tpl(P, O, wrap="c"), tpl(O, O)), None),
    ((tpl(P, P, "n"), tpl(O, P, wrap="c")), None),
    ((tpl(P, O, wrap="c"), tpl(S, O, wrap="c"), tpl(S, O)), None),
    ((tpl(P, P, "n", wrap="c"), tpl(S, S, wrap="c")), None),
    # required
    ((tpl(R, P), tpl(P, O)), None),
    ((tpl(R, P), tpl(O, P, junk=True)), None),      # not overridden
    ((tpl(R, P), tpl(S, O)), None),                 # super of a required block = its body
    ((tpl(P, P), tpl(R, O)), None),                 # required in the leaf: nobody overrides
    ((tpl(P, R, "n"), tpl(P, O)), None),            # required but never rendered (either way accepted)
    ((tpl(P, R, "N"), tpl(S, O)), None),            # required reached only if k > 0
    # length 3
    ((tpl(P, P), tpl(S, O), tpl(S, S, junk=True)), None),          # super of super
    ((tpl(P, P), tpl(O, O, junk=True), tpl(S, S)), None),          # skip a generation
    ((tpl(P, O), tpl(S, P, "n"), tpl(O, S)), None),                # tests: overridden block to many blocks
    ((tpl(P, P, "n"), tpl(O, S, junk=True), tpl(S, O)), None),
    ((tpl(R, O), tpl(O, P), tpl(P, O)), None),                     # tests: required overridden in the leaf
    ((tpl(P, O), tpl(R, O), tpl(O, P)), None),                     # tests: required in the middle, missing
    ((tpl(P, O), tpl(R, O), tpl(P, O, junk=True)), None),          # tests: required in the middle, overridden
    ((tpl(R, R, "n"), tpl(P, R, "n"), tpl(O, P)), None),
    ((tpl(P, P, "m"), tpl(LP, P, "n"), tpl(S, S, junk=True)), None),
    # error families
    ((tpl(P, P),), ("cyc", 1)),
    ((tpl(P, P), tpl(S, O)), ("cyc", 2)),
    ((tpl(P, P), tpl(S, O), tpl(O, S)), ("cyc", 3)),
    ((tpl(P, P), tpl(S, O), tpl(O, S)), ("cyc", 2)),               # the leaf is not on the cycle
    ((tpl(P, P), tpl(S, O)), ("dup", 2, "a")),
    ((tpl(P, P), tpl(S, O)), ("dup", 1, "b")),
    ((tpl(P, P, "n"), tpl(O, O), tpl(O, S)), ("dupin", 1, "b")),
    ((tpl(P, P), tpl(P, P, "n")), ("end", 2, "a", "b")),
    ((tpl(P, P), tpl(S, O)), ("end", 1, "b", "zz")),
    ((tpl(P, P, "m"),), ("end", 1, "a", "b")),
]
# a template rendered directly with a duplicate block name (no extends anywhere)
CURATED_DUP1 = [
    ((tpl(P, P),), ("dup", 1, "a")),
    ((tpl(P, P, "n"),), ("dupin", 1, "b")),
]


def family(thorough_len=4):
    """Thorough tier. Length 1 and 2: every combination of shapes. Length 3 and 4: a seeded sample.
    Specifications whose flattening does not terminate (super -> nested -> ... -> same block) are dropped."""
    sh = shapes()
    rng = random.Random(1803)
    fam = {1: [], 2: [], 3: [], 4: []}
    for a in sh:
        fam[1].append(((a,), None))
    i = 0
    for a in sh:
        for b in sh:
            i += 1
            fam[2].append((with_junk((a, b), i % 2 == 0), None))
    all3 = [(a, b, c) for a in sh for b in sh for c in sh]
    for ch in rng.sample(all3, 480):
        fam[3].append((with_junk(ch, rng.random() < 0.5), None))
    if thorough_len >= 4:
        for _ in range(240):
            ch = tuple(rng.choice(sh) for _ in range(4))
            fam[4].append((with_junk(ch, rng.random() < 0.5), None))
    # richer kinds (super in a loop, conditional nests, wrappers): a seeded sample of length 2-3
    rich = []
    sh2 = shapes(("p", "s", "r", "l"))
    for _ in range(96):
        ln = rng.choice((2, 3))
        ch = []
        for _j in range(ln):
            tp = rng.choice(sh2)
            nest = tp[2]
            if nest and rng.random() < 0.5:
                nest = nest.upper()
            ch.append((tp[0], tp[1], nest, False, rng.choice(("", "", "f", "i", "c"))))
        rich.append((with_junk(tuple(ch), rng.random() < 0.5), None))
    fam["x"] = rich
    for key in fam:
        fam[key] = [sp for sp in fam[key] if is_finite(sp)]
    return fam


def error_family():
    bases = {
        1: (tpl(P, P, "n"),),
        2: (tpl(P, P), tpl(S, P, "n", junk=True)),
        3: (tpl(P, P, "n"), tpl(S, O), tpl(O, S, junk=True)),
        4: (tpl(P, P), tpl(S, O), tpl(O, O), tpl(S, S, "m")),
    }
    out = []
    for ln in (1, 2, 3, 4):
        for x in range(1, ln + 1):
            out.append((bases[ln], ("cyc", x)))
    for ln in (2, 3, 4):
        for j in range(1, ln + 1):
            for name in NAMES:
                out.append((bases[ln], ("dup", j, name)))
                if _kind(bases[ln][j - 1], name) != "o":
                    out.append((bases[ln], ("dupin", j, name)))
    for ln in (1, 2, 3, 4):
        for j in range(1, ln + 1):
            for name in NAMES:
                if _kind(bases[ln][j - 1], name) == "o":
                    continue
                for wrong in ("a" if name == "b" else "b", "zz"):
                    out.append((bases[ln], ("end", j, name, wrong)))
    return out


def _register(name, fn, quick, thorough):
    globals()[name] = fn
    CONDITIONS.append({"fn": name, "quick": quick, "thorough": thorough})


_seen_codes = set()
for _sp in CURATED:
    _nm = "c18_" + spec_code(_sp)
    assert _nm not in _seen_codes and is_finite(_sp), _nm
    _seen_codes.add(_nm)
    _register(_nm, _mk_one(_nm, _sp), 25, 40)
for _sp in CURATED_DUP1:
    _nm = "c18_direct_" + spec_code(_sp)
    _register(_nm, _mk_one(_nm, _sp), 25, 40)

FAMILY = family()
for _key in (1, 2, 3, 4, "x"):
    _specs = FAMILY[_key]
    for _i in range(0, len(_specs), BATCH):
        _nm = "c18_fam_L%s_%03d" % (_key, _i // BATCH)
        _register(_nm, _mk_batch(_nm, _specs[_i:_i + BATCH]), None, 60)
ERR_FAMILY = error_family()
for _i in range(0, len(ERR_FAMILY), BATCH):
    _nm = "c18_fam_err_%03d" % (_i // BATCH)
    _register(_nm, _mk_batch(_nm, ERR_FAMILY[_i:_i + BATCH]), None, 60)

# Optimisation only: the worker process names its condition on the command line; build that
# condition's chains now (outside symbolic tracing) instead of on the first explored path.
for _arg in sys.argv[1:]:
    _m = re.match(r"(c18_\w+)", _arg)
    if _m and _m.group(1) in SPEC_OF:
        _preps(_m.group(1))


# ---- several chains rendered into ONE render context (through include, which shares the context): each renders as it does
# on its own; nothing of one chain's block stacks is left for the next template ---------------------------------------------
_SEQ_P = {
    "base": "<{% block title %}base title{% endblock %}|{% block body %}base body{% endblock %}>",
    "mid": "{% extends 'base' %}{% block body %}mid body{% endblock %}",
    "leaf": "{% extends 'mid' %}{% block title %}leaf title/{{ block.super }}{% endblock %}",
    "base2": "({% block title %}b2 title{% endblock %}{% block extra %}x{% endblock %})",
    "leaf2": "{% extends 'base2' %}{% block extra %}[{{ block.super }}]{% endblock %}",
    "req": "{% block title required %}{% endblock %}!",
    "req_leaf": "{% extends 'req' %}{% block title %}t{% endblock %}",
    "plain": "{% block title %}plain{% endblock %}",
}
_SEQ_NAMES = sorted(_SEQ_P)
_SEQ_ENV = Environment(extra=True, loader=CachingDictLoader(dict(_SEQ_P), auto_reload=False))
_SEQ_T = {}


def _seq_render(src, use_async):
    from liquid.exceptions import LiquidError
    if src not in _SEQ_T:
        _SEQ_T[src] = _SEQ_ENV.from_string(src)
    try:
        if use_async:
            from vf.hx import drive
            return drive(_SEQ_T[src].render_async())
        return _SEQ_T[src].render()
    except LiquidError as e:
        return "ERR:" + type(e).__name__


def sequence_case(i1, i2, i3, use_async):
    names = [_SEQ_NAMES[i] for i in (i1, i2, i3)]
    alone = [_seq_render("{% include '" + n + "' %}", use_async) for n in names]
    together = _seq_render("|".join("{% include '" + n + "' %}" for n in names), use_async)
    if any(a.startswith("ERR:") for a in alone):
        first = [a for a in alone if a.startswith("ERR:")][0]
        return together, first        # strict mode: the first failing include ends the render with its error
    return together, "|".join(alone)


def c18_chains_in_one_context(i1: int, i2: int, i3: int, use_async: bool) -> bool:
    """
    pre: 0 <= i1 <= 7 and 0 <= i2 <= 7 and 0 <= i3 <= 7
    post: _
    """
    if excluded("c18_chains_in_one_context", locals()):
        return True
    from vf.hx import cbool, cint, untraced
    args = (cint(i1, 0, 7), cint(i2, 0, 7), cint(i3, 0, 7), cbool(use_async))
    got, exp = untraced(lambda: sequence_case(*args))
    return finish(got == exp)


DETAIL["c18_chains_in_one_context"] = lambda i1, i2, i3, use_async: {"includes": [_SEQ_NAMES[i] for i in (i1, i2, i3)], "observed": sequence_case(i1, i2, i3, use_async)[0],
                                                                      "each on its own": sequence_case(i1, i2, i3, use_async)[1]}
CONDITIONS.append({"fn": "c18_chains_in_one_context", "quick": 60, "thorough": 120, "sel_only": True,
                   "bounds": "3 includes out of 8 templates (two bases, chains of length 2 and 3, a required block, a template with a block and no extends), sync and async"})

ASSUMPTIONS = [
    "program dimension = finite generated family (enumerated, not symbolic): chains of 1..4 templates over the block pool {a, b}; "
    "per template and block: absent / plain / uses block.super / block.super inside a for loop / required; one block nested in the other "
    "(optionally behind {% if k > 0 %}); text after {% extends %} outside blocks; top-level blocks wrapped in for / if; "
    "cycles of length 1..4 (leaf on or off the cycle), duplicate block names (top level or nested in itself), mismatched endblock names",
    "quick tier: %d curated chains; thorough tier: every pair of template shapes (34 x 34) for length 2, all 34 for length 1, "
    "seeded samples (random.Random(1803)) of 480 / 240 / 96 chains for length 3 / 4 / rich kinds; batches of 12 chains share one condition, "
    "the chain is picked by the selector argument sel" % (len(CURATED) + len(CURATED_DUP1)),
    "data dimension symbolic: two strings (curated: len(s) <= 1, len(t) == 1; batches: both of length 1, any code point) and an int 0..9 "
    "(str() of a symbolic int forks per digit count) printed by the definitions and tested by {% if k > 0 %}, list length 0..2 (batches 0..1), sync/async render",
    "block.super of a definition that has no definition above it renders nothing (default Undefined)",
    "block.super of a definition whose next definition up is `required` renders that definition's body",
    "a required block that no descendant overrides and that is never rendered may raise RequiredBlockError or not (both accepted)",
    "when a chain has a structural fault (cycle, duplicate, endblock) the expected observation is TemplateInheritanceError from get_template or render",
    "templates are parsed once when a chain is prepared and served by CachingDictLoader(auto_reload=False) during renders; "
    "templates with a mismatched endblock are parsed (and must be rejected) inside the condition body; the self-test renders "
    "the repo's test chains through a plain DictLoader",
]
OUTSIDE = [
    "chains longer than 4, more than two block names, more than one level of block nesting",
    "chains whose flattening does not terminate (a block renders super, whose nested block nests the first one again): liquid raises ContextDepthError",
    "template names computed at render time, loaders other than DictLoader, several extends tags in one template",
    "text or tags before the extends tag of a child; variable scoping inside blocks beyond render arguments and loop counters",
    "the position/message attached to the errors (C20)",
]


def selftest():
    """Flattener against the real code on chains fixed by the docs and the repo's tests."""
    fails = []
    # builder + flattener on curated chains with concrete data, both render modes
    for sp in CURATED[:32]:
        pr = Prep(sp)
        for (s, t, k, n) in (("x", "y", 7, 2), ("", "z", 0, 0), ("q", "", -3, 1)):
            for ua in (False, True):
                if not check(pr, s, t, k, n, ua):
                    fails.append("flattener disagrees on %s: %r" % (spec_code(sp), detail(pr, s, t, k, n, ua)))
    # hand-computed expectation (independent of the flattener) for generated sources
    pr = Prep(((tpl(P, P, "n"), tpl(S, S)), None))
    got = observe(pr, "x", "y", 7, 2, False)
    if got != "<[T2.a:701^[T1.a:y([T2.b:x^[T1.b:701]])]]>y":
        fails.append("hand case 1: %r from %r" % (got, pr.src))
    pr = Prep(((tpl(P, O), tpl(S, P, "n"), tpl(O, S, junk=True)), None))
    got = observe(pr, "x", "y", 7, 1, True)
    if got != "<[T2.a:70^[T1.a:y]([T3.b:y0^[T2.b:x]])]>y":
        fails.append("hand case 2: %r from %r" % (got, pr.src))
    # the repo's own test chains, rendered by the real code, must have the shape the flattener encodes
    env = Environment(extra=True, loader=DictLoader({
        "base": "{% block head %}Hello - Welcome{% endblock %}",
        "other": "{% extends 'base' %}{% block head %}{{ block.super }}:{% block foo %}!{% endblock %} - {% block bar %}{% endblock %}{% endblock %}",
        "some": "{% extends 'other' %}{% block foo %}foo{{ block.super }}{% endblock %}{% block bar %}bar{% endblock %}",
        "foo": "{% block head %}<title>{% block title %}{% endblock %} - Welcome</title>{% endblock %}",
        "page": '{% extends "foo" %}{% block title %}Home{% endblock %}{% block head %}{{ block.super }}Hello{% endblock %}',
    }))
    if env.get_template("some").render() != "Hello - Welcome:foo! - bar":
        fails.append("repo test chain 'some' changed")
    if env.get_template("page").render() != "<title>Home - Welcome</title>Hello":
        fails.append("repo test chain 'page' changed")
    # same structure as 'page' through the generator: T1 a{(b)} ; T2 a{super} b{plain}
    sp = ((tpl(P, P, "n"), tpl(S, P)), None)
    if flatten(sp, "x", "y", 7, 0) != ["<[T2.a:7^[T1.a:y([T2.b:x])]]>y"]:
        fails.append("flattener on the 'page' structure: %r" % (flatten(sp, "x", "y", 7, 0),))
    if flatten(((tpl(P, O), tpl(R, O), tpl(O, P)), None), "", "", 0, 0) != [REQ]:
        fails.append("flattener: required in the middle must raise")
    if flatten(((tpl(P, P),), ("cyc", 1)), "", "", 0, 0) != [TIE]:
        fails.append("flattener: cycle")
    return fails
