"""C10 Literal text, raw blocks, comments and whitespace control.

Two groups of conditions.

A. c10_sym_*: the Python logic of the REAL liquid.lex._tokenize_template driven by
   stub match objects (the compiled regular expression is the environment), so the
   text fragments are SYMBOLIC strings (<= 2 code points over {space, newline, a})
   and the hyphen flags symbolic bools. The token stream is then parsed and rendered
   by the real parser/renderer. The stub match generator is conformance-checked
   against the real compiled pattern by the self-test.
B. c10_real_*: the whole real pipeline (real compiled pattern, parser, render) on
   sources assembled from selector pools of text fragments and symbolic hyphen
   flags (solver-steered enumeration; labelled sel_only).

Oracle (from the statement): text is verbatim except that leading whitespace is removed
iff the previous markup's closing delimiter has a hyphen, and trailing whitespace iff
the next markup's opening delimiter has one; raw body verbatim; comment/doc bodies absent.
"""
from liquid import Environment
from liquid.exceptions import LiquidError
from liquid.lex import _tokenize_template, compile_liquid_rules
from liquid.parser import get_parser
from liquid.stream import TokenStream
from liquid.template import BoundTemplate

from vf.hx import cbool, cint, excluded, finish, untraced

PROPERTY = "C10"
ENV = Environment()
ENVC = Environment(template_comments=True)
RULES = compile_liquid_rules()
RULESC = compile_liquid_rules(comment_start_string="{#", comment_end_string="#}")

# ---------------------------------------------------------------------------
# markup kinds: name -> (number of hyphen flags, builder(flags) -> (source, output, groups...))
# flags: l = hyphen on the first opening delimiter, r = hyphen on the last closing delimiter,
#        i1/i2 = inner hyphens of two-delimiter constructs


def h(f):
    return "-" if f else ""


def mk_output(l, r, i1=False, i2=False):
    return "{{" + h(l) + " x " + h(r) + "}}", "X"


def mk_assign(l, r, i1=False, i2=False):
    return "{%" + h(l) + " assign y = 1 " + h(r) + "%}", ""


def mk_echo(l, r, i1=False, i2=False):
    return "{%" + h(l) + " echo x " + h(r) + "%}", "X"


def mk_inline_comment(l, r, i1=False, i2=False):
    return "{%" + h(l) + " # a comment " + h(r) + "%}", ""


def mk_liquid(l, r, i1=False, i2=False):
    return "{%" + h(l) + " liquid assign y = 1\n echo x " + h(r) + "%}", "X"


def mk_raw(l, r, i1=False, i2=False):
    return ("{%" + h(l) + " raw " + h(i1) + "%}r {{ b }} {% r" + "{%" + h(i2) + " endraw " + h(r) + "%}"), "r {{ b }} {% r"


def mk_comment(l, r, i1=False, i2=False):
    return ("{%" + h(l) + " comment " + h(i1) + "%} c {{ x }} c " + "{%" + h(i2) + " endcomment " + h(r) + "%}"), ""


def mk_doc(l, r, i1=False, i2=False):
    return ("{%" + h(l) + " doc " + h(i1) + "%} d {{ x }} d " + "{%" + h(i2) + " enddoc " + h(r) + "%}"), ""


def mk_if(l, r, i1=False, i2=False):
    # the block body is markup-free text without edge whitespace: inner hyphens must not change it
    return ("{%" + h(l) + " if true " + h(i1) + "%}T" + "{%" + h(i2) + " endif " + h(r) + "%}"), "T"


def mk_short_comment(l, r, i1=False, i2=False):
    # shorthand template comment {# ... #} (environment with template_comments=True)
    return "{#" + h(l) + " c " + h(r) + "#}", ""


def mk_raw_empty(l, r, i1=False, i2=False):
    return ("{%" + h(l) + " raw " + h(i1) + "%}" + "{%" + h(i2) + " endraw " + h(r) + "%}"), ""


def mk_comment_empty(l, r, i1=False, i2=False):
    return ("{%" + h(l) + " comment " + h(i1) + "%}" + "{%" + h(i2) + " endcomment " + h(r) + "%}"), ""


def mk_doc_empty(l, r, i1=False, i2=False):
    return ("{%" + h(l) + " doc " + h(i1) + "%}" + "{%" + h(i2) + " enddoc " + h(r) + "%}"), ""


def mk_if_empty(l, r, i1=False, i2=False):
    return ("{%" + h(l) + " if true " + h(i1) + "%}" + "{%" + h(i2) + " endif " + h(r) + "%}"), ""


def mk_output_empty(l, r, i1=False, i2=False):
    return "{{" + h(l) + " '' " + h(r) + "}}", ""


def mk_inline_comment_empty(l, r, i1=False, i2=False):
    return "{%" + h(l) + " # " + h(r) + "%}", ""


def mk_inline_comment_tight(l, r, i1=False, i2=False):
    return "{%" + h(l) + "#" + h(r) + "%}", ""


def mk_liquid_comment_lines(l, r, i1=False, i2=False):
    return "{%" + h(l) + " liquid #\n # c\n echo x\n # " + h(r) + "%}", "X"


def mk_raw_ws(l, r, i1=False, i2=False):
    # the body of a raw block is verbatim, edge whitespace included, with or without hyphens on the inner delimiters
    return ("{%" + h(l) + " raw " + h(i1) + "%} \n r {{ b }} \t" + "{%" + h(i2) + " endraw " + h(r) + "%}"), " \n r {{ b }} \t"


def mk_assign_empty_string(l, r, i1=False, i2=False):
    return "{%" + h(l) + " assign y = '' " + h(r) + "%}", ""


# block tags with an empty body, and an output of the empty string: singles, and pairs with an output on either side
EKINDS = {"raw_empty": (mk_raw_empty, 4), "comment_empty": (mk_comment_empty, 4), "doc_empty": (mk_doc_empty, 4), "if_empty": (mk_if_empty, 4),
          "output_empty": (mk_output_empty, 2), "inline_comment_empty": (mk_inline_comment_empty, 2), "inline_comment_tight": (mk_inline_comment_tight, 2),
          "liquid_comment_lines": (mk_liquid_comment_lines, 2), "assign_empty_string": (mk_assign_empty_string, 2),
          "raw_ws": (mk_raw_ws, 4)}
KINDS = {
    "output": (mk_output, 2), "assign": (mk_assign, 2), "echo": (mk_echo, 2), "inline_comment": (mk_inline_comment, 2),
    "liquid": (mk_liquid, 2), "raw": (mk_raw, 4), "comment": (mk_comment, 4), "doc": (mk_doc, 4), "if": (mk_if, 4),
}
POOL = ["", " ", "\n", "a", " a ", "\n a\t\n", "a b", "\t \n", chr(12) + " a" + chr(0xA0), chr(0x2003) + chr(11) + chr(10) + chr(0x85)]


def text_sel(i):
    # if/elif chain so that a symbolic selector forks into concrete strings
    if i == 0:
        return ""
    if i == 1:
        return " "
    if i == 2:
        return "\n"
    if i == 3:
        return "a"
    if i == 4:
        return " a "
    if i == 5:
        return "\n a\t\n"
    if i == 6:
        return "a b"
    if i == 7:
        return "\t \n"
    if i == 8:
        return chr(12) + " a" + chr(0xA0)            # form feed ... no-break space
    return chr(0x2003) + chr(11) + chr(10) + chr(0x85)   # em space, vertical tab, line feed, next line


def render_src(env, src):
    try:
        return env.from_string(src).render(x="X")
    except LiquidError as e:
        return "ERR:" + type(e).__name__


def expected(t0, t1, l, r, out):
    a = t0.rstrip() if l else t0
    b = t1.lstrip() if r else t1
    return a + out + b


def _mk_real_single(kind):
    mk, nflags = (KINDS.get(kind) or EKINDS[kind])

    def f(s0: int, s1: int, l: bool, r: bool, i1: bool, i2: bool) -> bool:
        """
        pre: 0 <= s0 <= 9 and 0 <= s1 <= 9
        post: _
        """
        if excluded("c10_real_" + kind, locals()):
            return True
        if nflags == 2 and (i1 or i2):
            return True
        t0 = text_sel(s0)
        t1 = text_sel(s1)
        l, r, i1, i2 = cbool(l), cbool(r), cbool(i1), cbool(i2)
        src, out = mk(l, r, i1, i2)
        # all pieces are concrete strings now: the real lexer/parser/renderer run untraced
        got = untraced(lambda: render_src(ENV, t0 + src + t1))
        return finish(got == expected(t0, t1, l, r, out))
    f.__name__ = f.__qualname__ = "c10_real_" + kind
    return f


def c10_real_short_comment(s0: int, s1: int, l: bool, r: bool) -> bool:
    """
    pre: 0 <= s0 <= 9 and 0 <= s1 <= 9
    post: _
    """
    if excluded("c10_real_short_comment", locals()):
        return True
    t0 = text_sel(s0)
    t1 = text_sel(s1)
    l, r = cbool(l), cbool(r)
    src, out = mk_short_comment(l, r)
    got = untraced(lambda: render_src(ENVC, t0 + src + t1))
    return finish(got == expected(t0, t1, l, r, out))


def _mk_real_pair(k1, k2):
    mk1, _ = (KINDS.get(k1) or EKINDS[k1])
    mk2, _ = (KINDS.get(k2) or EKINDS[k2])

    def f(s1: int, l1: bool, r1: bool, l2: bool, r2: bool, ia: bool, ib: bool) -> bool:
        """
        pre: 0 <= s1 <= 9
        post: _
        """
        # text between two markups is stripped on the left by M1's closing hyphen and on the right by
        # M2's opening hyphen; the strip state set by M1 must not leak past M2 (and vice versa)
        if excluded("c10_pair_%s_%s" % (k1, k2), locals()):
            return True
        t1 = text_sel(s1)
        l1, r1, l2, r2, ia, ib = cbool(l1), cbool(r1), cbool(l2), cbool(r2), cbool(ia), cbool(ib)
        src1, out1 = mk1(l1, r1, ia, ib)
        src2, out2 = mk2(l2, r2, ib, ia)
        got = untraced(lambda: render_src(ENV, " a " + src1 + t1 + src2 + " b "))
        mid = t1
        if r1:
            mid = mid.lstrip()
        if l2:
            mid = mid.rstrip()
        exp = (" a" if l1 else " a ") + out1 + mid + out2 + ("b " if r2 else " b ")
        return finish(got == exp)
    f.__name__ = f.__qualname__ = "c10_pair_%s_%s" % (k1, k2)
    return f


CONDITIONS = []
for _k in KINDS:
    globals()["c10_real_" + _k] = _mk_real_single(_k)
    CONDITIONS.append({"fn": "c10_real_" + _k, "quick": 60, "thorough": 200, "sel_only": True})
_ALLKINDS = dict(KINDS)
_ALLKINDS.update(EKINDS)
CONDITIONS.append({"fn": "c10_real_short_comment", "quick": 40, "thorough": 120, "sel_only": True})
_QUICK_PAIRS = {("output", "output"), ("output", "raw"), ("raw", "output"), ("comment", "assign"), ("assign", "comment"),
                ("doc", "output"), ("raw", "raw"), ("liquid", "inline_comment"), ("if", "raw"), ("comment", "comment")}
for _k1 in KINDS:
    for _k2 in KINDS:
        _n = "c10_pair_%s_%s" % (_k1, _k2)
        globals()[_n] = _mk_real_pair(_k1, _k2)
        CONDITIONS.append({"fn": _n, "quick": 60, "thorough": 150, "sel_only": True})


for _k in EKINDS:
    globals()["c10_real_" + _k] = _mk_real_single(_k)
    CONDITIONS.append({"fn": "c10_real_" + _k, "quick": 60, "thorough": 200, "sel_only": True})
    for _k1, _k2 in ((_k, "output"), ("output", _k), (_k, _k)):
        _n = "c10_pair_%s_%s" % (_k1, _k2)
        globals()[_n] = _mk_real_pair(_k1, _k2)
        CONDITIONS.append({"fn": _n, "quick": 60, "thorough": 150, "sel_only": True})


# ---- pairs involving the shorthand comment {# #} (template_comments=True) ------------------------------------
CKINDS = dict(KINDS)
CKINDS["short_comment"] = (mk_short_comment, 2)


def _mk_real_cpair(k1, k2):
    mk1, _ = CKINDS[k1]
    mk2, _ = CKINDS[k2]

    def f(s1: int, l1: bool, r1: bool, l2: bool, r2: bool, ia: bool, ib: bool) -> bool:
        """
        pre: 0 <= s1 <= 9
        post: _
        """
        if excluded("c10_cpair_%s_%s" % (k1, k2), locals()):
            return True
        t1 = text_sel(s1)
        l1, r1, l2, r2, ia, ib = cbool(l1), cbool(r1), cbool(l2), cbool(r2), cbool(ia), cbool(ib)
        src1, out1 = mk1(l1, r1, ia, ib)
        src2, out2 = mk2(l2, r2, ib, ia)
        got = untraced(lambda: render_src(ENVC, " a " + src1 + t1 + src2 + " b "))
        mid = t1
        if r1:
            mid = mid.lstrip()
        if l2:
            mid = mid.rstrip()
        exp = (" a" if l1 else " a ") + out1 + mid + out2 + ("b " if r2 else " b ")
        return finish(got == exp)
    f.__name__ = f.__qualname__ = "c10_cpair_%s_%s" % (k1, k2)
    return f


for _k1 in CKINDS:
    for _k2 in CKINDS:
        if "short_comment" not in (_k1, _k2):
            continue
        _n = "c10_cpair_%s_%s" % (_k1, _k2)
        globals()[_n] = _mk_real_cpair(_k1, _k2)
        CONDITIONS.append({"fn": _n, "quick": 60, "thorough": 150, "sel_only": True})


# ---------------------------------------------------------------------------
# A. stub matches -> real _tokenize_template with symbolic text
class SM:
    """Stub match object: kind + named groups (value, offset inside the match)."""

    def __init__(self, kind, text, start, groups):
        self.lastgroup = kind
        self._t = text
        self._s = start
        self._g = groups

    def group(self, name=0):
        if name == 0:
            return self._t
        g = self._g.get(name)
        return None if g is None else g[0]

    def start(self, name=0):
        if name == 0:
            return self._s
        return self._s + self._g[name][1]

    def end(self, name=0):
        return self._s + len(self._t)


class StubRules:
    def __init__(self, ms):
        self.ms = ms

    def finditer(self, source):
        return iter(self.ms)


def stub_matches(segs):
    """segs: list of ('T', text) or ('M', kind, l, r, i1, i2). Builds the source and the match
    sequence the compiled rule set produces for it (conformance-checked by selftest)."""
    src = ""
    ms = []
    for i in range(len(segs)):
        s = segs[i]
        if s[0] == "T":
            text = s[1]
            if len(text) == 0:
                continue
            nxt = segs[i + 1] if i + 1 < len(segs) else None
            rs = "-" if (nxt is not None and nxt[0] == "M" and nxt[2]) else ""
            ms.append(SM("content", text, len(src), {"rstrip": (rs if nxt is not None else None, len(text) + 2)}))
            src = src + text
            continue
        kind, l, r, i1, i2 = s[1], s[2], s[3], s[4], s[5]
        if kind == "output":
            t = "{{" + h(l) + " x " + h(r) + "}}"
            ms.append(SM("output", t, len(src), {"stmt": ("x", t.index("x")), "rss": (h(r), 0)}))
        elif kind == "assign":
            t = "{%" + h(l) + " assign y = 1 " + h(r) + "%}"
            ms.append(SM("TAG", t, len(src), {"name": ("assign", t.index("assign")), "expr": ("y = 1", t.index("y = 1")), "rst": (h(r), 0)}))
        elif kind == "echo":
            t = "{%" + h(l) + " echo x " + h(r) + "%}"
            ms.append(SM("TAG", t, len(src), {"name": ("echo", t.index("echo")), "expr": ("x", t.index("x")), "rst": (h(r), 0)}))
        elif kind == "inline_comment":
            t = "{%" + h(l) + " # a comment " + h(r) + "%}"
            ms.append(SM("TAG", t, len(src), {"name": ("#", t.index("#")), "expr": ("a comment", t.index("a comment")), "rst": (h(r), 0)}))
        elif kind == "raw":
            body = "r {{ b }} {% r"
            t = "{%" + h(l) + " raw " + h(i1) + "%}" + body + "{%" + h(i2) + " endraw " + h(r) + "%}"
            ms.append(SM("RAW", t, len(src), {"raw": (body, t.index(body)), "rsr": (h(i1), 0), "rsr_e": (h(r), 0)}))
        elif kind == "doc":
            body = " d {{ x }} d "
            t = "{%" + h(l) + " doc " + h(i1) + "%}" + body + "{%" + h(i2) + " enddoc " + h(r) + "%}"
            ms.append(SM("DOC", t, len(src), {"doc": (body, t.index(body)), "lsd": (h(i1), 0), "rsd": (h(r), 0)}))
        elif kind == "comment":
            t1 = "{%" + h(l) + " comment " + h(i1) + "%}"
            ms.append(SM("TAG", t1, len(src), {"name": ("comment", t1.index("comment")), "expr": ("", len(t1) - 2 - len(h(i1))), "rst": (h(i1), 0)}))
            src = src + t1
            c1 = " c "
            ms.append(SM("content", c1, len(src), {"rstrip": ("", 0)}))
            src = src + c1
            o = "{{ x }}"
            ms.append(SM("output", o, len(src), {"stmt": ("x", 3), "rss": ("", 0)}))
            src = src + o
            c2 = " c "
            ms.append(SM("content", c2, len(src), {"rstrip": (h(i2), 0)}))
            src = src + c2
            t = "{%" + h(i2) + " endcomment " + h(r) + "%}"
            ms.append(SM("TAG", t, len(src), {"name": ("endcomment", t.index("endcomment")), "expr": ("", 0), "rst": (h(r), 0)}))
        src = src + t
    return src, ms


OUT = {"output": "X", "assign": "", "echo": "X", "inline_comment": "", "raw": "r {{ b }} {% r", "doc": "", "comment": ""}


def run_tokens(src, ms):
    toks = list(_tokenize_template(src, StubRules(ms)))
    nodes = get_parser(ENV).parse(TokenStream(iter(toks)))
    t = BoundTemplate(ENV, nodes)
    return t.render(x="X")


def _mk_sym_single(kind):
    def f(t0: str, t1: str, l: bool, r: bool, i1: bool, i2: bool) -> bool:
        """
        pre: len(t0) <= 2 and len(t1) <= 2
        pre: all(c in " a" + chr(10) for c in t0) and all(c in " a" + chr(10) for c in t1)
        post: _
        """
        if excluded("c10_sym_" + kind, locals()):
            return True
        src, ms = stub_matches([("T", t0), ("M", kind, l, r, i1, i2), ("T", t1)])
        try:
            got = run_tokens(src, ms)
        except LiquidError as e:
            got = "ERR:" + type(e).__name__
        return finish(got == expected(t0, t1, l, r, OUT[kind]))
    f.__name__ = f.__qualname__ = "c10_sym_" + kind
    return f


def _mk_sym_pair(k1, k2):
    def f(t1: str, l1: bool, r1: bool, l2: bool, r2: bool, ia: bool, ib: bool) -> bool:
        """
        pre: len(t1) <= 2
        pre: all(c in " a" + chr(10) for c in t1)
        post: _
        """
        if excluded("c10_sympair_%s_%s" % (k1, k2), locals()):
            return True
        src, ms = stub_matches([("T", " a "), ("M", k1, l1, r1, ia, ib), ("T", t1), ("M", k2, l2, r2, ib, ia), ("T", " b ")])
        try:
            got = run_tokens(src, ms)
        except LiquidError as e:
            got = "ERR:" + type(e).__name__
        mid = t1
        if r1:
            mid = mid.lstrip()
        if l2:
            mid = mid.rstrip()
        exp = (" a" if l1 else " a ") + OUT[k1] + mid + OUT[k2] + ("b " if r2 else " b ")
        return finish(got == exp)
    f.__name__ = f.__qualname__ = "c10_sympair_%s_%s" % (k1, k2)
    return f


for _k in OUT:
    globals()["c10_sym_" + _k] = _mk_sym_single(_k)
    CONDITIONS.append({"fn": "c10_sym_" + _k, "quick": 100 if _k in ("raw", "doc", "comment") else 60, "thorough": 300})
_QSP = {("output", "output"), ("output", "raw"), ("raw", "output"), ("comment", "output"), ("doc", "assign")}
for _k1 in OUT:
    for _k2 in OUT:
        _n = "c10_sympair_%s_%s" % (_k1, _k2)
        globals()[_n] = _mk_sym_pair(_k1, _k2)
        CONDITIONS.append({"fn": _n, "quick": 60 if (_k1, _k2) in _QSP else None, "thorough": 200})

ASSUMPTIONS = [
    "c10_sym_*: rules.finditer(source) is replaced by a generated sequence of stub match objects (lastgroup, group(name), start(name), end()); the generator is checked against the real compiled pattern on every run (selftest) for all markup kinds x all hyphen flags x a text pool",
    "c10_real_*/c10_pair_*: text fragments come from an 8-element pool (selector), hyphen flags are symbolic bools; each path is one concrete source through the real lexer/parser/renderer",
    "raw/comment/doc/if bodies used here have no edge whitespace adjacent to inner hyphens (those edges are don't-care)",
]
OUTSIDE = ["the regular expressions for arbitrary texts (only conformance-checked / enumerated over pools)", "custom delimiters (C11)", "text fragments containing '{' characters"]


def selftest():
    """Stub match generator vs the real compiled pattern."""
    fails = []
    import itertools
    for kind in OUT:
        for l, r, i1, i2 in itertools.product((False, True), repeat=4):
            for t0, t1 in ((" a ", " b "), ("", "\n"), ("a", "")):
                src, ms = stub_matches([("T", t0), ("M", kind, l, r, i1, i2), ("T", t1)])
                real = list(RULES.finditer(src))
                if len(real) != len(ms):
                    fails.append("match count differs for %r: real %d stub %d" % (src, len(real), len(ms)))
                    continue
                for a, b in zip(real, ms):
                    if a.lastgroup != b.lastgroup or a.group() != b.group() or a.start() != b.start() or a.end() != b.end():
                        fails.append("match differs for %r: %r vs %r" % (src, (a.lastgroup, a.group()), (b.lastgroup, b.group())))
                        break
                    for name in b._g:
                        if a.group(name) != b.group(name):
                            fails.append("group %s differs for %r: %r vs %r" % (name, src, a.group(name), b.group(name)))
                        elif name in ("name", "expr", "stmt") and b.group(name) and a.start(name) != b.start(name):
                            fails.append("start(%s) differs for %r" % (name, src))
                if len(fails) > 5:
                    return fails
    return fails
