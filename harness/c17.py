"""C17 Rendering is pure and independent of history.

H1 data purity and template purity (symbolic data). Skeleton templates using every array,
   string and math filter, loops, assign/capture, tablerow, cycle/increment/ifchanged, partials,
   macros are rendered with data built from symbolic ints / a symbolic string: a flat list
   (length 0..3), a nested list, a dict with list / dict values and a list of dicts.
   pure_*:  after the render the data is deep-equal to an identically built reference, every
            container is still the same object at the same place, str(T) and the walk of the
            parse tree (identity and scalar attributes of every node / expression object) are
            unchanged, and a second render of the same data gives the same output.
   carry_*: T rendered with d1 and then with d2 gives for d2 what a freshly parsed copy of the
            same source (other environment) gives: no state lives in the parsed template.
H2 history (selector-only enumeration). A probe render P(d2) after a prior render Q(d1) is
   compared with P(d2) after clearing every process-wide functools.lru_cache of /repo/liquid
   (date filter, get_lexer, get_parser, get_implicit_environment). d1, d2 come from a pool of
   values that compare equal but differ in type or time zone. Further conditions: the
   Template() convenience constructor with option sets that compare equal, two environments
   with different settings sharing the lexer/parser caches, caching loaders with and without
   request globals, and a template object held across other renders.
"""
import datetime
import decimal
import warnings

from liquid import CachingDictLoader, Environment, Mode, StrictUndefined, Template
from liquid.ast import Node
from liquid.builtin.filters import misc as _misc
from liquid.environment import get_implicit_environment
from liquid.exceptions import LiquidError
from liquid.lex import get_lexer
from liquid.parser import get_parser
from liquid.template import BoundTemplate
from liquid.token import Token

from vf.hx import excluded, finish

PROPERTY = "C17"
CONDITIONS = []
DETAIL = {}

DATE_CACHE = _misc.date.__wrapped__          # the functools.lru_cache wrapper under @liquid_filter


def discover_memos():
    """Every functools.lru_cache wrapper reachable from a module of the package as it is now (module attributes, class
    attributes, and anything under a chain of __wrapped__): the process-wide memos a render could leave something in."""
    import importlib
    import pkgutil
    import sys
    import liquid as _pkg
    for info in pkgutil.walk_packages(_pkg.__path__, "liquid."):
        try:
            importlib.import_module(info.name)
        except Exception:
            pass
    seen = {}

    def look(obj):
        for _ in range(6):
            if obj is None:
                return
            if callable(getattr(obj, "cache_clear", None)) and callable(getattr(obj, "cache_info", None)):
                seen[id(obj)] = obj
                return
            obj = getattr(obj, "__wrapped__", None)

    for name, mod in list(sys.modules.items()):
        if mod is not None and (name == "liquid" or name.startswith("liquid.")):
            for obj in list(vars(mod).values()):
                look(obj)
                if isinstance(obj, type) and getattr(obj, "__module__", "").startswith("liquid"):
                    for sub in list(vars(obj).values()):
                        look(getattr(sub, "__func__", sub))
    return tuple(seen.values())


MEMOS = discover_memos()
assert all(any(m is x for x in MEMOS) for m in (DATE_CACHE, get_lexer, get_parser, get_implicit_environment))


def clear_memos():
    for m in MEMOS:
        m.cache_clear()


def untraced(thunk):
    """Run thunk on the plain interpreter even inside a CrossHair run. CrossHair replaces every
    functools.lru_cache wrapper by a call of the wrapped function (libimpl/functoolslib.py),
    i.e. it hides exactly the process-wide memos this property is about; the history
    conditions therefore execute their (concrete, selector-chosen) renders untraced."""
    try:
        from crosshair.tracers import NoTracing, is_tracing
    except ImportError:
        return thunk()
    if is_tracing():
        with NoTracing():
            return thunk()
    return thunk()


def conc(k, n):
    """The concrete int equal to selector k (0 <= k < n), decided by comparisons."""
    for i in range(n):
        if k == i:
            return i
    return n - 1


def pick(seq, k):
    for i in range(len(seq)):
        if k == i:
            return seq[i]
    return seq[len(seq) - 1]


def rend(t, data):
    try:
        return t.render(data)
    except LiquidError as e:
        return "ERR:" + type(e).__name__
    except Exception as e:
        return "EXC:" + type(e).__name__


# =====================================================================================
# H1  purity
# =====================================================================================
PARTIALS = {
    "p": "<{{ v }}{{ p | join: '.' }}>",
    "q": "{% assign v = 'z' %}{% assign xs = 'w' %}{{ v }}{{ xs }}",
    "srt": "{{ v | sort | reverse | join: ',' }}",
    "base": "[{% block b %}B{{ xs | join }}{% endblock %}|{% block c %}C{% increment k %}{% endblock %}]",
    "cyc": "{% cycle 'x', 'y' %}{% increment k %}",
}


class Env(Environment):
    pass


def _mkenv():
    env = Env(extra=True, loader=CachingDictLoader(PARTIALS, auto_reload=False))
    for p in PARTIALS:
        env.get_template(p)
    return env


ENV = _mkenv()
ENV_B = _mkenv()

SKEL = {
    "sort": "{{ xs | sort | join: ',' }}|{{ ds | sort: 'a' | map: 'a' | join: ',' }}|{{ nested | sort | first }}",
    "sort_natural": "{{ xs | sort_natural | join: ',' }}|{{ ds | sort_natural: 'a' | map: 'a' | join: ',' }}",
    "sort_numeric": "{{ xs | sort_numeric | join: ',' }}|{{ ds | sort_numeric: 'a' | map: 'a' | join: ',' }}",
    "reverse_uniq": "{{ xs | reverse | join: ',' }}|{{ xs | uniq | join: ',' }}|{{ xs | compact | join: ',' }}|{{ ds | uniq: 'a' | size }}|{{ ds | compact: 'a' | size }}|{{ nested | reverse | join: ',' }}",
    "concat": "{{ xs | concat: xs | join: ',' }}|{{ xs | concat: nested | join: ',' }}|{{ nested | concat: xs | size }}|{{ nosuch | concat: xs | join: ',' }}|{{ d.b | concat: xs | join: ',' }}",
    "map_where": "{{ ds | map: 'a' | join: ',' }}|{{ ds | where: 'a', 1 | size }}|{{ ds | reject: 'a', 1 | size }}|{{ ds | where: 'a' | size }}|{{ ds | find: 'a', 1 | size }}|{{ ds | find_index: 'a', 1 }}|{{ ds | has: 'a', 1 }}",
    "first_last": "{{ xs | first }}|{{ xs | last }}|{{ xs.first }}|{{ xs.last }}|{{ xs.size }}|{{ nested | first | join }}|{{ nested.last.first }}|{{ xs[0] }}|{{ xs[-1] }}|{{ xs | index: 1 }}|{{ xs | size }}",
    "slice_sum": "{{ xs | slice: 1, 2 | join }}|{{ xs | slice: -1 | join }}|{{ xs | sum }}|{{ ds | sum: 'a' }}|{{ nested | sum }}|{{ nested | join: ',' }}",
    "join_split": "{{ xs | join: '-' | split: '-' | reverse | join: '+' }}|{{ s | split: 'a' | size }}|{{ s | split: '' | sort | join }}|{{ nested | join: ',' | split: ',' | size }}",
    "string": "{{ s | append: s }}|{{ s | replace: 'a', 'b' }}|{{ s | size }}|{{ s | slice: 0 }}|{{ s | prepend: 'p' }}|{{ s | remove: 'a' }}|{{ s | strip }}|{{ s | truncate: 2, '' }}|{{ s | split: ',' | first }}",
    "math": "{{ x | plus: 1 }}|{{ x | minus: y }}|{{ x | times: 2 }}|{{ x | divided_by: 2 }}|{{ x | modulo: 3 }}|{{ x | abs }}|{{ x | at_least: y }}|{{ x | at_most: y }}|{{ x | ceil }}|{{ x | floor }}|{{ x | round }}|{{ d.a | plus: d.c.k }}",
    "loops": "{% for i in xs %}{{ i }}{% endfor %}|{% for i in xs reversed limit: 2 offset: 1 %}{{ i }}{% endfor %}|{% for r in nested %}{% for j in r %}{{ j }}{% endfor %};{% endfor %}|{% for p in d %}{{ p[0] }}{% endfor %}|{% for i in xs limit: 1 %}{% endfor %}{% for i in xs offset: continue %}{{ i }}{% endfor %}",
    "tablerow": "{% tablerow i in xs cols: 2 %}{{ i }}{% endtablerow %}|{% tablerow p in d limit: 2 %}{{ p | first }}{% endtablerow %}",
    "assign_capture": "{% assign ys = xs %}{% assign zs = xs | sort %}{% assign e = d.b %}{% capture c %}{{ ys | join }}{{ e | join }}{% endcapture %}{{ c }}{{ zs | join }}{% assign xs = 'gone' %}{{ xs }}{% assign d = nil %}[{{ d.a }}]{% assign ds = ds | reverse %}{{ ds | map: 'a' | join }}",
    "counters": "{% for i in xs %}{% cycle 'a', 'b', 'c' %}{% cycle 'g': 1, 2 %}{% increment k %}{% decrement j %}{% ifchanged %}{{ x }}{% endifchanged %}{% endfor %}|{% increment xs %}{{ xs | join }}|{% increment k %}{% cycle 'a', 'b', 'c' %}{% decrement x %}{{ x }}",
    "partials": "{% include 'p' with xs %}{% include 'p' for xs %}{% render 'p' for xs as v %}{% render 'srt', v: xs %}{% include 'q' %}{{ v }}{{ xs | join }}{% render 'q' %}{% include 'srt', v: nested %}",
    "partial_state": "{% include 'cyc' %}{% render 'cyc' %}{% for i in xs %}{% include 'cyc' %}{% render 'cyc' %}{% endfor %}{% increment k %}",
    "macro_with": "{% macro f, a %}{{ a | sort | first }}{% assign a = 1 %}{% endmacro %}{% call f, xs %}{% with a: xs, b: d %}{{ a | reverse | first }}{% assign a = 2 %}{{ b.a }}{% endwith %}{% call f, nested %}",
    "extends": "{% extends 'base' %}{% block b %}{{ block.super }}{{ xs | sort | first }}{% increment k %}{% endblock %}",
    "liquid_tag": "{% liquid\n assign t = xs | sort\n for i in t\n echo i\n cycle 'a', 'b'\n endfor\n echo d.c.k\n increment k\n capture c\n echo xs | reverse | join\n endcapture\n echo c %}",
    "dict_paths": "{{ d.a }}|{{ d.b[0] }}|{{ d.c.k }}|{{ d['c']['k'] }}|{{ d.size }}|{{ d.b | first }}|{{ d.b.size }}|{{ d | map: 'k' | join }}|{{ d.c | join }}|{% for p in d.c %}{{ p[1] }}{% endfor %}|{{ d | json }}",
    "conditions": "{% if xs contains x %}in{% endif %}{% if xs == empty %}e{% endif %}{% if d.b == xs %}same{% endif %}{% case x %}{% when y %}y{% when 1 %}one{% endcase %}{% unless nested.first contains y %}n{% endunless %}{% if s contains 'a' %}a{% endif %}",
}
SRC_NAMES = ("xs", "nested", "d", "ds", "s", "x", "y")
T = {k: ENV.from_string(v) for k, v in SKEL.items()}
STR0 = {k: str(t) for k, t in T.items()}


def walk(obj, out, seen):
    """Flatten the object graph below a parse tree: (type, id) of every liquid object and
    container, scalar attribute values in place."""
    if obj is None or isinstance(obj, (str, int, float, bool)):
        out.append(obj)
        return
    if id(obj) in seen:
        out.append(("ref", id(obj)))
        return
    seen[id(obj)] = True
    if isinstance(obj, Token):
        out.append(("token", obj.kind, obj.value, obj.start_index))
        return
    if isinstance(obj, (list, tuple, set, frozenset)):
        out.append((type(obj).__name__, id(obj), len(obj)))
        for x in obj:
            walk(x, out, seen)
        return
    if isinstance(obj, dict):
        out.append(("dict", id(obj), len(obj)))
        for k in obj:
            walk(k, out, seen)
            walk(obj[k], out, seen)
        return
    mod = type(obj).__module__ or ""
    if isinstance(obj, (Environment, BoundTemplate)) or not mod.startswith("liquid"):
        out.append(("opaque", type(obj).__name__, id(obj)))
        return
    out.append((type(obj).__name__, id(obj)))
    names = []
    for k in type(obj).__mro__:
        sl = k.__dict__.get("__slots__", ())
        if isinstance(sl, str):
            sl = (sl,)
        for n in sl:
            if n not in names and n != "__dict__" and n != "__weakref__":
                names.append(n)
    for n in sorted(getattr(obj, "__dict__", {})):
        if n not in names:
            names.append(n)
    for n in names:
        try:
            v = getattr(obj, n)
        except AttributeError:
            out.append(("unset", n))
            continue
        out.append(("attr", n))
        walk(v, out, seen)


def snapshot(t):
    out = [("nodes", id(t.nodes), len(t.nodes)), ("name", t.name), ("globals", len(t.globals)), ("matter", len(t.matter))]
    walk(t.nodes, out, {})   # a dict literal stays a native dict under CrossHair (set() does not)
    return out


SNAP0 = {k: snapshot(t) for k, t in T.items()}


import re  # noqa: E402

USES = {k: set(re.findall(r"\b(xs|nested|ds|d|s|x|y)\b", re.sub(r"'[^']*'", "''", v))) for k, v in SKEL.items()}


def build(name, a0, a1, a2, n, s):
    """The render data; only what the skeleton mentions is built (so unused symbols never fork)."""
    use = USES[name]
    data = {}
    if "xs" in use:
        xs = []
        if n > 0:
            xs.append(a0)
        if n > 1:
            xs.append(a1)
        if n > 2:
            xs.append(a2)
        data["xs"] = xs
    if "nested" in use:
        data["nested"] = [[a0, a1], [a2], []]
    if "d" in use:
        data["d"] = {"a": a0, "b": [a1, a2], "c": {"k": a2}}
    if "ds" in use:
        data["ds"] = [{"a": a0}, {"a": a1}, {"a": a2, "z": [a0]}]
    if "s" in use:
        data["s"] = s
    if "x" in use:
        data["x"] = a0
    if "y" in use:
        data["y"] = a1
    return data


def containers(data):
    """Every container reachable from the data, in a fixed order."""
    out = []
    for k in SRC_NAMES:
        if k in data:
            _containers(data[k], out)
    return out


def _containers(v, out):
    if isinstance(v, list):
        out.append(v)
        for x in v:
            _containers(x, out)
    elif isinstance(v, dict):
        out.append(v)
        for k in v:
            _containers(v[k], out)


def pure(name, a0, a1, a2, n, s):
    t = T[name]
    data = build(name, a0, a1, a2, n, s)
    ref = build(name, a0, a1, a2, n, s)
    before = containers(data)
    keys = list(data)
    out1 = rend(t, data)
    after = containers(data)
    ok = list(data) == keys and len(before) == len(after)
    if ok:
        for i in range(len(before)):
            ok = ok and before[i] is after[i]
    ok = ok and data == ref
    ok = ok and str(t) == STR0[name] and untraced(lambda: snapshot(t) == SNAP0[name])
    out2 = rend(t, data)
    ok = ok and out1 == out2 and data == ref
    return ok


def _mk_pure(name):
    nm = "c17_h1_pure_" + name

    def f(a0: int, a1: int, a2: int, n: int, s: str) -> bool:
        """
        pre: 0 <= n <= 3
        pre: 0 <= a0 <= 9 and 0 <= a1 <= 9 and 0 <= a2 <= 9
        pre: len(s) <= 2 and all(c in "ab ," for c in s)
        post: _
        """
        if excluded(nm, locals()):
            return True
        return finish(pure(name, a0, a1, a2, n, s))
    f.__name__ = f.__qualname__ = nm
    DETAIL[nm] = lambda a0, a1, a2, n, s: {"template": SKEL[name], "data": build(name, a0, a1, a2, n, s),
                                          "out": rend(T[name], build(name, a0, a1, a2, n, s))}
    return nm, f


def _mk_pure_small(name):
    nm = "c17_h1_pure_" + name

    def f(a0: int, a1: int, a2: int, n: int, s: str) -> bool:
        """
        pre: 0 <= n <= 3
        pre: 0 <= a0 <= 2 and 0 <= a1 <= 2 and 0 <= a2 <= 2
        pre: len(s) <= 1 and all(c in "ab ," for c in s)
        post: _
        """
        # skeletons whose filters hand the numbers to C code (Decimal, json): one path per value
        if excluded(nm, locals()):
            return True
        return finish(pure(name, a0, a1, a2, n, s))
    f.__name__ = f.__qualname__ = nm
    DETAIL[nm] = lambda a0, a1, a2, n, s: {"template": SKEL[name], "data": build(name, a0, a1, a2, n, s),
                                          "out": rend(T[name], build(name, a0, a1, a2, n, s))}
    return nm, f


def carry(name, a0, n1, b0, n2):
    t = T[name]
    d1 = build(name, a0, 1, 2, n1, "a,b")
    d2 = build(name, b0, 2, 1, n2, "b a")
    rend(t, d1)
    got = rend(t, d2)
    fresh = ENV_B.from_string(SKEL[name])
    want = rend(fresh, build(name, b0, 2, 1, n2, "b a"))
    return got == want and str(t) == STR0[name]


def _mk_carry(name):
    nm = "c17_h1_carry_" + name

    def f(a0: int, n1: int, b0: int, n2: int) -> bool:
        """
        pre: 0 <= n1 <= 3 and 0 <= n2 <= 3
        pre: 0 <= a0 <= 9 and 0 <= b0 <= 9
        post: _
        """
        if excluded(nm, locals()):
            return True
        return finish(carry(name, a0, n1, b0, n2))
    f.__name__ = f.__qualname__ = nm
    return nm, f


_QUICK_PURE = ("sort", "reverse_uniq", "concat", "map_where", "slice_sum", "assign_capture", "counters", "partials")
_QUICK_CARRY = ("counters", "partial_state", "extends", "assign_capture", "loops")
_CARRY = ("counters", "partial_state", "extends", "assign_capture", "loops", "partials", "macro_with", "liquid_tag", "tablerow", "conditions")
_SMALL = ("slice_sum", "math", "dict_paths", "sort_natural", "sort_numeric")
for _k in SKEL:
    _nm, _f = _mk_pure_small(_k) if _k in _SMALL else _mk_pure(_k)
    globals()[_nm] = _f
    CONDITIONS.append({"fn": _nm, "quick": 40 if _k in _QUICK_PURE else None, "thorough": 150})
for _k in _CARRY:
    _nm, _f = _mk_carry(_k)
    globals()[_nm] = _f
    CONDITIONS.append({"fn": _nm, "quick": 30 if _k in _QUICK_CARRY else None, "thorough": 120})

# =====================================================================================
# H2  history
# =====================================================================================
UTC = datetime.timezone.utc
INSTANT = datetime.datetime(2001, 2, 3, 4, 5, 6, tzinfo=UTC)
VALS = [True, 1, 1.0, decimal.Decimal(1), "1", 0, False, 0.0, 86400, 86400.0,
        INSTANT, INSTANT.astimezone(datetime.timezone(datetime.timedelta(hours=1))),
        INSTANT.astimezone(datetime.timezone(datetime.timedelta(hours=-5)))]
NV = len(VALS)


def _alias(a, b):
    """Equal (same cache key) but distinguishable: different type, or different UTC offset."""
    if a is b or not (a == b and hash(a) == hash(b)):
        return False
    if type(a) is not type(b):
        return True
    return isinstance(a, datetime.datetime) and a.utcoffset() != b.utcoffset()


ALIAS = [[_alias(a, b) for b in VALS] for a in VALS]
IS_DT = [isinstance(v, datetime.datetime) for v in VALS]

HENV = Environment(extra=True)
DATE_SRC = [
    "{{ v | date: '%Y-%m-%d %H:%M:%S %z' }}",
    "{{ v | date: '%s' }}",
    "{{ v | date: '%H' }}|{{ v | date: '%a %b %j' }}",
    "{% assign t = v | date: f %}{{ t }}",
]
DATE_T = [HENV.from_string(s) for s in DATE_SRC]
NF = len(DATE_T)


def date_history(i, j, q, p):
    d1 = {"v": pick(VALS, i), "f": "%d %H"}
    d2 = {"v": pick(VALS, j), "f": "%d %H"}
    Q = pick(DATE_T, q)
    P = pick(DATE_T, p)
    clear_memos()
    rend(Q, d1)
    got = rend(P, d2)
    clear_memos()
    want = rend(P, d2)
    clear_memos()
    return got == want


def date_detail(i, j, q, p):
    d1 = {"v": VALS[i], "f": "%d %H"}
    d2 = {"v": VALS[j], "f": "%d %H"}
    clear_memos()
    first = rend(DATE_T[q], d1)
    got = rend(DATE_T[p], d2)
    clear_memos()
    want = rend(DATE_T[p], d2)
    clear_memos()
    return {"prior": (DATE_SRC[q], repr(VALS[i]), first), "probe": (DATE_SRC[p], repr(VALS[j])), "after_prior": got, "fresh": want}


def c17_h2_date_alias_numeric(i: int, j: int, f: int) -> bool:
    """
    pre: 0 <= i <= 9 and 0 <= j <= 9
    pre: 0 <= f <= 3
    post: _
    """
    # the prior and the probe value are equal numbers of different type (1, 1.0, True, Decimal(1), ...)
    if excluded("c17_h2_date_alias_numeric", locals()):
        return True
    if not pick(pick(ALIAS, i), j):
        return True
    ci, cj, cf = conc(i, NV), conc(j, NV), conc(f, NF)
    return finish(untraced(lambda: date_history(ci, cj, cf, cf)))


def c17_h2_date_alias_timezone(i: int, j: int, f: int) -> bool:
    """
    pre: 10 <= i <= 12 and 10 <= j <= 12
    pre: 0 <= f <= 3
    post: _
    """
    # the prior and the probe value are the same instant under different UTC offsets
    if excluded("c17_h2_date_alias_timezone", locals()):
        return True
    if not pick(pick(ALIAS, i), j):
        return True
    ci, cj, cf = conc(i, NV), conc(j, NV), conc(f, NF)
    return finish(untraced(lambda: date_history(ci, cj, cf, cf)))


def c17_h2_date_distinct(i: int, j: int, f: int) -> bool:
    """
    pre: 0 <= i <= 12 and 0 <= j <= 12
    pre: 0 <= f <= 3
    post: _
    """
    # every other ordered pair of the pool (different values, or the very same value twice)
    if excluded("c17_h2_date_distinct", locals()):
        return True
    if pick(pick(ALIAS, i), j):
        return True
    ci, cj, cf = conc(i, NV), conc(j, NV), conc(f, NF)
    return finish(untraced(lambda: date_history(ci, cj, cf, cf)))


FMT_PAIRS = [(0, 1), (1, 0), (2, 3), (3, 2)]


def c17_h2_date_other_format(i: int, j: int, fp: int) -> bool:
    """
    pre: 0 <= i <= 12 and 0 <= j <= 12
    pre: 0 <= fp <= 3
    post: _
    """
    # prior and probe use different templates / format strings: any pair of values
    if excluded("c17_h2_date_other_format", locals()):
        return True
    ci, cj = conc(i, NV), conc(j, NV)
    q, p = pick(FMT_PAIRS, fp)
    return finish(untraced(lambda: date_history(ci, cj, q, p)))


DETAIL["c17_h2_date_alias_numeric"] = lambda i, j, f: date_detail(i, j, f, f)
DETAIL["c17_h2_date_alias_timezone"] = lambda i, j, f: date_detail(i, j, f, f)
DETAIL["c17_h2_date_distinct"] = lambda i, j, f: date_detail(i, j, f, f)
DETAIL["c17_h2_date_other_format"] = lambda i, j, fp: date_detail(i, j, FMT_PAIRS[fp][0], FMT_PAIRS[fp][1])

# ---- Template(): implicit environments ------------------------------------------------------
OPTS = [
    {},
    {"autoescape": True},
    {"autoescape": 1},
    {"tolerance": Mode.LAX},
    {"tolerance": 1},
    {"tolerance": Mode.WARN},
    {"strict_filters": False},
    {"strict_filters": 0},
    {"undefined": StrictUndefined},
    {"extra": True},
    {"extra": 1},
    {"globals": {"g": 1}},
    {"globals": {"g": 1.0}},
    {"globals": {"v": "G"}},
    {"template_comments": True},
    {"tag_start_string": "<%", "tag_end_string": "%>"},
]
NOPT = len(OPTS)
CTOR_SRC = [
    "{{ v }}|{{ g }}|{{ v | nosuch }}|{% if v == %}x{% endif %}{# c #}|{{ nosuch }}|{{ '<' }}{{ v | date: '%H' }}",
    "<% if v %>T<% endif %>{% if v %}U{% endif %}{{ g }}{{ v | json }}",
    "{{ v | upcase }}{% with a: 1 %}{{ a }}{% endwith %}{{ g | plus: 1 }}",
]
NCS = len(CTOR_SRC)
CTOR_VALS = ["<a>", 1, 1.0, True, None]


def ctor_run(o, c, k):
    with warnings.catch_warnings(record=True) as log:
        warnings.simplefilter("always")
        try:
            out = Template(pick(CTOR_SRC, c), **pick(OPTS, o)).render(v=pick(CTOR_VALS, k))
        except LiquidError as e:
            out = "ERR:" + type(e).__name__
        except Exception as e:
            out = "EXC:" + type(e).__name__
        n = len(log)
    return out, n


def ctor_history(o1, o2, c, k):
    clear_memos()
    ctor_run(o1, c, k)
    got = ctor_run(o2, c, k)
    clear_memos()
    want = ctor_run(o2, c, k)
    clear_memos()
    return got == want


def _mk_ctor(c):
    nm = "c17_h2_template_ctor_src%d" % c

    def f(o1: int, o2: int, k: int) -> bool:
        """
        pre: 0 <= o1 <= 15 and 0 <= o2 <= 15
        pre: 0 <= k <= 1
        post: _
        """
        # Template(src, **opts2).render(v) after Template(src, **opts1).render(v) == the same with
        # every memo (implicit environments, lexers, parsers, date) cleared in between; the
        # option pool contains values that compare equal (True / 1, Mode.LAX / 1, {'g': 1} / {'g': 1.0})
        if excluded(nm, locals()):
            return True
        c1, c2, ck = conc(o1, NOPT), conc(o2, NOPT), conc(k, 2)
        return finish(untraced(lambda: ctor_history(c1, c2, c, ck)))
    f.__name__ = f.__qualname__ = nm
    DETAIL[nm] = lambda o1, o2, k: {"source": CTOR_SRC[c], "prior options": repr(OPTS[o1]), "probe options": repr(OPTS[o2]), "v": CTOR_VALS[k]}
    return nm, f


for _c in range(NCS):
    _nm, _f = _mk_ctor(_c)
    globals()[_nm] = _f
    CONDITIONS.append({"fn": _nm, "quick": 60 if _c == 0 else None, "thorough": 240, "sel_only": True})


# ---- explicit environments sharing lexer / parser memos --------------------------------
def _envs():
    class CEnv(Environment):
        logical_not_operator = True
        shorthand_indexes = True
    return [
        Environment(),
        Environment(tolerance=Mode.LAX),
        Environment(tolerance=Mode.WARN),
        Environment(extra=True, autoescape=True),
        Environment(template_comments=True),
        Environment(strict_filters=False, undefined=StrictUndefined, tolerance=Mode.LAX),
        CEnv(),
        Environment(globals={"g": 7}),
    ]


SHARED_ENVS = _envs()
NSE = len(SHARED_ENVS)
SHARED_SRC = [
    "{{ v }}|{{ g }}|{{ v | nosuch }}|{% if v == %}x{% endif %}{# c #}|{{ nosuch }}|{{ '<' }}",
    "{% if not v %}N{% else %}Y{% endif %}{{ xs.0 }}{{ v | date: '%H' }}",
    "{% for i in xs %}{{ i }}{% cycle 'a', 'b' %}{% endfor %}{% increment k %}{{ v | append: '<' }}",
]
NSS = len(SHARED_SRC)


def shared_run(e, c, k):
    with warnings.catch_warnings(record=True) as log:
        warnings.simplefilter("always")
        try:
            out = pick(SHARED_ENVS, e).from_string(pick(SHARED_SRC, c)).render(v=pick(CTOR_VALS, k), xs=[1, 2])
        except LiquidError as ex:
            out = "ERR:" + type(ex).__name__
        except Exception as ex:
            out = "EXC:" + type(ex).__name__
        n = len(log)
    return out, n


def shared_history(e1, e2, c, k):
    clear_memos()
    shared_run(e1, c, k)
    got = shared_run(e2, c, k)
    clear_memos()
    want = shared_run(e2, c, k)
    clear_memos()
    return got == want


def c17_h2_shared_caches(e1: int, e2: int, c: int, k: int) -> bool:
    """
    pre: 0 <= e1 <= 7 and 0 <= e2 <= 7
    pre: 0 <= c <= 2
    pre: 0 <= k <= 1
    post: _
    """
    # parse + render in environment e2 after parse + render of the same source in environment
    # e1 (different settings, same delimiters: shared lexer; parser memo keyed by environment)
    if excluded("c17_h2_shared_caches", locals()):
        return True
    a1, a2, ac, ak = conc(e1, NSE), conc(e2, NSE), conc(c, NSS), conc(k, 2)
    return finish(untraced(lambda: shared_history(a1, a2, ac, ak)))


# ---- caching loaders and request globals -------------------------------------------------
LPART = {"p": "[{{ g }}{{ v }}]", "base": "<{% block b %}{{ g }}{% endblock %}>"}


def _lenv(with_env_globals):
    return Environment(extra=True, loader=CachingDictLoader(LPART, auto_reload=False), globals={"g": "E"} if with_env_globals else None)


LENVS = [_lenv(False), _lenv(True)]
LQ_SRC = ["{% include 'p' %}", "{% render 'p' %}", "{% render 'p', g: 'A' %}", "{% extends 'base' %}", "{{ g }}"]
LQ = [[e.from_string(q) for q in LQ_SRC] for e in LENVS]
NOPS = 8


def loader_op(w, op, v):
    """One step of a history on environment w. Ops 0-2 load 'p' by name (no globals / g=1 /
    g=2) and render it, ops 3-7 render a template that uses 'p' or 'base' as a partial."""
    env = LENVS[w]
    try:
        if op == 0:
            return env.get_template("p").render(v=v)
        if op == 1:
            return env.get_template("p", globals={"g": 1}).render(v=v)
        if op == 2:
            return env.get_template("p", globals={"g": 2}).render(v=v)
        return LQ[w][op - 3].render(v=v)
    except LiquidError as e:
        return "ERR:" + type(e).__name__


def reset_loaders():
    for e in LENVS:
        for k in list(e.loader.cache.keys()):
            del e.loader.cache[k]


def loader_history(wi, ops):
    reset_loaders()
    clear_memos()
    got = ""
    for step in range(len(ops)):
        for i in range(NOPS):
            if ops[step] == i:
                got = loader_op(wi, i, "abc"[step + 3 - len(ops)])
    reset_loaders()
    clear_memos()
    want = ""
    for i in range(NOPS):
        if ops[len(ops) - 1] == i:
            want = loader_op(wi, i, "c")
    reset_loaders()
    return got == want


def c17_h2_loader_globals(w: bool, op1: int, op2: int) -> bool:
    """
    pre: 0 <= op1 <= 7 and 0 <= op2 <= 7
    post: _
    """
    # the outcome of a request does not depend on the request before it (cache hit with
    # another request's globals vs cache miss)
    if excluded("c17_h2_loader_globals", locals()):
        return True
    wi, a1, a2 = (1 if w else 0), conc(op1, NOPS), conc(op2, NOPS)
    return finish(untraced(lambda: loader_history(wi, [a1, a2])))


def c17_h2_loader_globals3(w: bool, op1: int, op2: int, op3: int) -> bool:
    """
    pre: 0 <= op1 <= 7 and 0 <= op2 <= 7 and 0 <= op3 <= 7
    post: _
    """
    if excluded("c17_h2_loader_globals3", locals()):
        return True
    wi, a1, a2, a3 = (1 if w else 0), conc(op1, NOPS), conc(op2, NOPS), conc(op3, NOPS)
    return finish(untraced(lambda: loader_history(wi, [a1, a2, a3])))


def held(wi, op):
    reset_loaders()
    clear_memos()
    env = LENVS[wi]
    t = env.get_template("p", globals={"g": 1})
    before = rend(t, {"v": "a"})
    g0 = dict(t.globals)
    loader_op(wi, op, "b")
    after = rend(t, {"v": "a"})
    g1 = dict(t.globals)
    reset_loaders()
    return before, after, g0, g1


def c17_h2_held_template_same_partial(w: bool, op: int) -> bool:
    """
    pre: 3 <= op <= 5
    post: _
    """
    # a template obtained by name with request globals is held by the caller; another template
    # of the same environment that includes / renders the SAME name is rendered; the held
    # template must render as before and keep its globals
    if excluded("c17_h2_held_template_same_partial", locals()):
        return True
    wi, a = (1 if w else 0), conc(op, NOPS)
    before, after, g0, g1 = untraced(lambda: held(wi, a))
    return finish(before == after and g0 == g1)


def c17_h2_held_template_other(w: bool, op: int) -> bool:
    """
    pre: 6 <= op <= 7
    post: _
    """
    # as above, but the template rendered in between does not load the held name
    if excluded("c17_h2_held_template_other", locals()):
        return True
    wi, a = (1 if w else 0), conc(op, NOPS)
    before, after, g0, g1 = untraced(lambda: held(wi, a))
    return finish(before == after and g0 == g1)


def _held_detail(w, op):
    return {"steps": ["t = env.get_template('p', globals={'g': 1}); t.render(v='a')", LQ_SRC[op - 3] + " parsed by the same environment is rendered", "t.render(v='a')"],
            "partial p": LPART["p"], "env globals": dict(LENVS[1 if w else 0].globals),
            "result (before, after, t.globals before, t.globals after)": held(1 if w else 0, op)}


DETAIL["c17_h2_held_template_same_partial"] = _held_detail
DETAIL["c17_h2_held_template_other"] = _held_detail

CONDITIONS += [
    {"fn": "c17_h2_date_alias_numeric", "quick": 60, "thorough": 120, "sel_only": True},
    {"fn": "c17_h2_date_alias_timezone", "quick": 60, "thorough": 120, "sel_only": True},
    {"fn": "c17_h2_date_distinct", "quick": 90, "thorough": 240, "sel_only": True},
    {"fn": "c17_h2_date_other_format", "quick": None, "thorough": 300, "sel_only": True},
    {"fn": "c17_h2_shared_caches", "quick": 60, "thorough": 300, "sel_only": True},
    {"fn": "c17_h2_loader_globals", "quick": 60, "thorough": 150, "sel_only": True},
    {"fn": "c17_h2_loader_globals3", "quick": None, "thorough": 300, "sel_only": True},
    {"fn": "c17_h2_held_template_same_partial", "quick": 40, "thorough": 60, "sel_only": True},
    {"fn": "c17_h2_held_template_other", "quick": 40, "thorough": 60, "sel_only": True},
]

# ---- the shared corpus: rendering twice with the same data gives the same output, the data is left as it was, and a
# render of another member in between changes nothing ------------------------------------------------------------------------
from harness import corpus as _corpus  # noqa: E402

_CENV = _corpus.make_env()


def _corpus_check(w2, w1, leaf, d):
    t = _corpus.template(_CENV, w2, w1, leaf)
    if t is None:
        return None
    first = _corpus.outcome(lambda: t.render(**_corpus.data(d)))
    dd = _corpus.data(d)
    again = _corpus.outcome(lambda: t.render(**dd))
    if dd != _corpus.DATA[d]:
        return {"render data changed by the render": repr(dd)[:200]}
    other = _corpus.template(_CENV, (w2 + 1) % _corpus.NW2, (w1 + 5) % _corpus.NW1, (leaf + 7) % _corpus.NLEAF)
    if other is not None:
        _corpus.outcome(lambda: other.render(**dd))
    third = _corpus.outcome(lambda: t.render(**dd))
    fresh = _CENV.from_string(_corpus.source(w2, w1, leaf))
    parsed_again = _corpus.outcome(lambda: fresh.render(**_corpus.data(d)))
    if not (first == again == third == parsed_again) or dd != _corpus.DATA[d]:
        return {"first": first, "again": again, "after another template": third, "parsed again": parsed_again}
    return None


c17_corpus, _det = _corpus.mk_condition("c17_corpus", _corpus_check)
DETAIL["c17_corpus"] = _det
CONDITIONS.append({"fn": "c17_corpus", "quick": 90, "thorough": 200, "sel_only": True, "bounds": _corpus.BOUNDS})

# ---- every registered filter keeps no state between calls: applying it to B after applying it to A gives what it gives in
# a fresh process (baseline taken at import, before anything else ran) ---------------------------------------------------
_FH_ENV = _corpus.make_env()
FH_NAMES = sorted(_FH_ENV.filters)
FH_VALUES = ["<b>hi</b>", "x <script>alert(1)", "</script>y <i>z</i>", "<style>p{}", "a<![foo[ bar]]>b", "plain", [3, 1, 2], {"k": 1}, "1,2,3", 5, 2.5, None,
             "%d %s", "2020-01-02", [{"k": 2}, {"k": 1}], "a b  c", "<a><script>", True,
             # values that are equal (and hash alike) but print differently: a memo keyed by equality confuses them
             0.0, -0.0, __import__("decimal").Decimal("1.0"), __import__("decimal").Decimal("1.00"), 1, 1.0,
             # exact rounding ties (what they round to depends on the rounding mode in force)
             0.125, 2.675, "0.125", 2.5, -0.5]
_FH_FORMS = ("{{ v | %s }}", "{{ v | %s: 'k' }}", "{{ v | %s: 2 }}")
_FH_T = {}
for _f in FH_NAMES:
    for _form in _FH_FORMS:
        try:
            _FH_T[(_f, _form)] = _FH_ENV.from_string(_form % _f)
        except Exception:
            pass


def _fh_run(key, v):
    return _corpus.outcome(lambda: _FH_T[key].render(v=v))


def _fh_fresh(key, v):
    clear_memos()        # every discovered process-wide memo is emptied: one value cannot colour the baseline of the next
    return _fh_run(key, v)


def _fh_baseline():
    """Each template's results in a thread of its own (thread-local state such as the decimal context starts fresh there)
    with the process-wide memos emptied before every call."""
    import threading
    base = {}

    def work(key):
        for bi in range(len(FH_VALUES)):
            base[(key, bi)] = _fh_fresh(key, FH_VALUES[bi])
    for key in _FH_T:
        th = threading.Thread(target=work, args=(key,))
        th.start()
        th.join()
    return base


_FH_BASE = _fh_baseline()


def filter_history_sweep(fi, form):
    key = (FH_NAMES[fi], _FH_FORMS[form])
    if key not in _FH_T:
        return []
    bad = []
    for ai in range(len(FH_VALUES)):
        _fh_run(key, FH_VALUES[ai])
        for bi in range(len(FH_VALUES)):
            got = _fh_run(key, FH_VALUES[bi])
            if got != _FH_BASE[(key, bi)]:
                bad.append({"template": key[1] % key[0], "first applied to": repr(FH_VALUES[ai]), "then to": repr(FH_VALUES[bi]), "gives": got,
                            "in a fresh process": _FH_BASE[(key, bi)]})
                return bad
    return bad


def c17_filter_history(fi: int, form: int) -> bool:
    """
    pre: 0 <= fi <= 79 and 0 <= form <= 2
    post: _
    """
    if excluded("c17_filter_history", locals()):
        return True
    from vf.hx import cint
    fi, form = cint(fi, 0, len(FH_NAMES) - 1), cint(form, 0, 2)
    return finish(untraced(lambda: not filter_history_sweep(fi, form)))


DETAIL["c17_filter_history"] = lambda fi, form: {"failing": filter_history_sweep(fi, form)}
CONDITIONS.append({"fn": "c17_filter_history", "quick": 90, "thorough": 200, "sel_only": True})

# ---- one filter's calls do not colour another filter's results: filter X applied to every value, then every filter on every
# value against the baseline ----------------------------------------------------------------------------------------------
def filter_cross_sweep(fi):
    for form in _FH_FORMS:
        key = (FH_NAMES[fi], form)
        if key in _FH_T:
            for v in FH_VALUES:
                _fh_run(key, v)
    bad = []
    # two passes: a difference in the first is due to X, one in the second to some filter applied during the first (in a fresh
    # process a filter early in the alphabet is otherwise compared before a later one has had the chance to leave anything)
    for rnd in (1, 2):
        for key in _FH_T:
            for bi in range(len(FH_VALUES)):
                got = _fh_run(key, FH_VALUES[bi])
                if got != _FH_BASE[(key, bi)]:
                    bad.append({"after applying": FH_NAMES[fi] if rnd == 1 else "every filter once", "template": key[1] % key[0], "to": repr(FH_VALUES[bi]), "gives": got,
                                "in a fresh thread": _FH_BASE[(key, bi)]})
                    if len(bad) > 2:
                        return bad
    return bad


def c17_filter_cross_history(fi: int) -> bool:
    """
    pre: 0 <= fi <= 79
    post: _
    """
    if excluded("c17_filter_cross_history", locals()):
        return True
    from vf.hx import cint
    fi = cint(fi, 0, len(FH_NAMES) - 1)
    return finish(untraced(lambda: not filter_cross_sweep(fi)))


DETAIL["c17_filter_cross_history"] = lambda fi: {"failing": filter_cross_sweep(fi)}
CONDITIONS.append({"fn": "c17_filter_cross_history", "quick": 300, "thorough": 600, "sel_only": True,
                   "bounds": "80 filters x 3 argument forms x %d values applied first; then all of them again against a baseline taken in fresh threads" % len(FH_VALUES)})

# ---- loaders keep no memory of earlier requests: after any two earlier loads, a name resolves as in a fresh environment ------
_LH_A = {"header": "custom header", "page": "{% include 'header' %}|{% include 'footer' %}", "only_a": "A"}
_LH_B = {"header": "default header", "footer": "default footer", "sitemap": "{% include 'header' %}!", "only_b": "B"}
_LH_C = {"header": "third header", "footer": "third footer", "only_c": "C", "sitemap": "third sitemap"}
_LH_NAMES = ["header", "footer", "sitemap", "page", "only_a", "only_b", "only_c", "nosuch"]


def _lh_env(kind):
    from liquid import CachingChoiceLoader, ChoiceLoader, DictLoader
    loaders = [DictLoader(dict(_LH_A)), DictLoader(dict(_LH_B)), DictLoader(dict(_LH_C))]
    if kind == 0:
        return Environment(loader=ChoiceLoader(loaders))
    if kind == 1:
        return Environment(loader=CachingChoiceLoader(loaders, auto_reload=False))
    return Environment(loader=ChoiceLoader([ChoiceLoader(loaders[:2]), loaders[2]]))


def _lh_get(env, name, use_async):
    def run():
        if use_async:
            from vf.hx import drive
            t = drive(env.get_template_async(name))
            return drive(t.render_async())
        return env.get_template(name).render()
    return _corpus.outcome(run)


def loader_history_sweep(kind, n1, n2, use_async):
    env = _lh_env(kind)
    _lh_get(env, _LH_NAMES[n1], use_async)
    _lh_get(env, _LH_NAMES[n2], not use_async)
    bad = []
    for name in _LH_NAMES:
        got, fresh = _lh_get(env, name, use_async), _lh_get(_lh_env(kind), name, use_async)
        if got != fresh:
            bad.append({"after loading": (_LH_NAMES[n1], _LH_NAMES[n2]), "name": name, "gives": got, "in a fresh environment": fresh})
    return bad


def c17_loader_history(kind: int, n1: int, n2: int, use_async: bool) -> bool:
    """
    pre: 0 <= kind <= 2 and 0 <= n1 <= 7 and 0 <= n2 <= 7
    post: _
    """
    if excluded("c17_loader_history", locals()):
        return True
    from vf.hx import cbool, cint
    args = (cint(kind, 0, 2), cint(n1, 0, 7), cint(n2, 0, 7), cbool(use_async))
    return finish(untraced(lambda: not loader_history_sweep(*args)))


DETAIL["c17_loader_history"] = lambda kind, n1, n2, use_async: {"loader": ("ChoiceLoader", "CachingChoiceLoader", "nested ChoiceLoader")[kind], "failing": loader_history_sweep(kind, n1, n2, use_async)[:3]}
CONDITIONS.append({"fn": "c17_loader_history", "quick": 60, "thorough": 120, "sel_only": True,
                   "bounds": "choice, caching choice and nested choice loaders over three dict loaders with shadowed names; two earlier loads from 8 names, then all 8 names against a fresh environment"})

# ---- one parsed template whose tags meet different definitions from render to render (a macro defined by whichever partial
# the data selects, a block overridden or not, a partial chosen by name): each render equals the render of a fresh parse ----
_MH_P = {"theme_a": "{% macro price amount, currency: 'USD' %}{{ amount }} {{ currency }}{% endmacro %}",
         "theme_b": "{% macro price currency: 'EUR', amount: 0 %}[{{ currency }}] {{ amount }}{% endmacro %}",
         "theme_c": "{% macro price %}free{{ args | join: '+' }}{{ kwargs.amount }}{% endmacro %}",
         "theme_d": "no macro here", "row": "<{{ item }}>", "cell": "({{ item.k }})"}
_MH_SRC = ["{% include theme %}{% call price 5 %}|{% call price amount: 7 %}|{% for i in (1..2) %}{% call price i, 'X' %}{% endfor %}",
           "{% include theme %}{% include part with v as item %}{% render part for vs as item %}",
           "{% if theme == 'theme_a' %}{% macro price a, b: 1 %}A{{ a }}{{ b }}{% endmacro %}{% else %}{% macro price b: 2, a: 3 %}B{{ a }}{{ b }}{% endmacro %}{% endif %}{% call price 9 %}"]
_MH_DATA = [{"theme": "theme_a", "part": "row", "v": "x", "vs": ["p", "q"]}, {"theme": "theme_b", "part": "cell", "v": {"k": 1}, "vs": [{"k": 2}]},
            {"theme": "theme_c", "part": "row", "v": 3, "vs": []}, {"theme": "theme_d", "part": "cell", "v": None, "vs": [None]}]


def _mh_env():
    from liquid import CachingDictLoader, Environment
    env = Environment(extra=True, loader=CachingDictLoader(dict(_MH_P), auto_reload=False))
    return env


_MH_SHARED = _mh_env()
_MH_T = [_MH_SHARED.from_string(s) for s in _MH_SRC]


def macro_history(k, d1, d2, d3):
    got, want = [], []
    for d in (d1, d2, d3):
        got.append(_corpus.outcome(lambda: _MH_T[k].render(**_MH_DATA[d])))
        want.append(_corpus.outcome(lambda: _mh_env().from_string(_MH_SRC[k]).render(**_MH_DATA[d])))
    return got, want


def c17_h2_definitions_change(k: int, d1: int, d2: int, d3: int) -> bool:
    """
    pre: 0 <= k <= 2 and 0 <= d1 <= 3 and 0 <= d2 <= 3 and 0 <= d3 <= 3
    post: _
    """
    if excluded("c17_h2_definitions_change", locals()):
        return True
    from vf.hx import cint
    k, d1, d2, d3 = cint(k, 0, 2), cint(d1, 0, 3), cint(d2, 0, 3), cint(d3, 0, 3)
    got, want = untraced(lambda: macro_history(k, d1, d2, d3))
    return finish(got == want)


DETAIL["c17_h2_definitions_change"] = lambda k, d1, d2, d3: {"template": _MH_SRC[k], "data of the three renders": [_MH_DATA[d] for d in (d1, d2, d3)],
                                                            "one template rendered three times / fresh parse each time": macro_history(k, d1, d2, d3)}
CONDITIONS.append({"fn": "c17_h2_definitions_change", "quick": 40, "thorough": 80, "sel_only": True})

ASSUMPTIONS = [
    "H1: template sources are concrete skeletons; the numbers in the data (0..9, 0..2 where a filter passes them to Decimal/json), the list length 0..3 and a string (<= 2 chars over 'ab ,') are symbolic; the data shapes are a flat list, a nested list, a dict with list/dict values and a list of dicts",
    "H1 carry: 'fresh' = the same source parsed inside the condition by a second environment with its own loader",
    "H2 is program-only enumeration: selectors over pools of values / option sets / environments / request kinds; the renders run untraced because CrossHair replaces functools.lru_cache wrappers by their wrapped function, which would hide the memos under test",
    "H2 reference run = the same probe after cache_clear() on every functools.lru_cache of /repo/liquid (date filter, get_lexer, get_parser, get_implicit_environment; the list is checked against the source tree by the self-test) and, for the loader conditions, an emptied template cache",
]
OUTSIDE = [
    "the date inputs 'now' / 'today' and anything else that reads the clock",
    "templates reloaded from changed sources (auto_reload); file system and package loaders",
    "custom drops / objects with side effects in __liquid__, __getitem__ or __iter__",
    "lists longer than 3, numbers outside 0..9, strings longer than 2",
    "explicit get_template(name, globals=...) calls that, by the documented design of caching loaders, re-bind the globals of the shared cached template object (only renders are histories here)",
    "threads",
]


def selftest():
    import os
    fails = []
    # every functools.lru_cache of the package is in MEMOS
    found = []
    for root, _dirs, files in os.walk(os.path.join(os.environ.get("VF_REPO", "/repo"), "liquid")):
        for fn in files:
            if fn.endswith(".py") and fn != "lru_cache.py":
                txt = open(os.path.join(root, fn), encoding="utf-8").read()
                found += [os.path.join(root, fn)] * len(re.findall(r"^@(?:functools\.)?lru_cache", txt, re.M))
    if len(found) > len(MEMOS):
        fails.append("functools.lru_cache uses in /repo/liquid: %r, harness clears %d" % (found, len(MEMOS)))
    clear_memos()
    HENV.from_string("{{ 0 | date: '%Y' }}").render()
    if DATE_CACHE.cache_info().currsize != 1:
        fails.append("DATE_CACHE is not the memo of the date filter")
    clear_memos()
    if DATE_CACHE.cache_info().currsize != 0:
        fails.append("cache_clear did not empty the date memo")
    # the tree walk sees a changed attribute and a replaced node
    t = ENV.from_string("a{{ x | upcase }}{% if x %}b{% endif %}")
    s0 = snapshot(t)
    if snapshot(t) != s0:
        fails.append("snapshot is not stable")
    t.nodes[1].blank = not t.nodes[1].blank
    if snapshot(t) == s0:
        fails.append("snapshot misses an attribute change")
    t.nodes[1].blank = not t.nodes[1].blank
    t.nodes[2] = ENV.from_string("{% if x %}b{% endif %}").nodes[0]
    if snapshot(t) == s0:
        fails.append("snapshot misses a replaced node")
    # purity oracle accepts a plain render and the data builder is deterministic
    if build("concat", 1, 2, 3, 3, "a") != build("concat", 1, 2, 3, 3, "a"):
        fails.append("build not deterministic")
    if not pure("first_last", 1, 2, 3, 3, "a"):
        fails.append("purity oracle rejects first_last on [1,2,3]")
    return fails
