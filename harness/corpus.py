"""A generated corpus of concrete templates shared by the `cNN_corpus` conditions.

Every template is WRAP2[w2] % (WRAP[w1] % LEAF[leaf]): a leaf construct inside one or two enclosing
constructs, over one fixed set of variable names and partials. The conditions that use it are
relational (sync == async, str() round trip, two renders agree, strict == lax, ...), so no reference
implementation is needed; the solver selects (w2, w1, leaf, data set) by comparisons and the body runs
on the plain interpreter (`sel_only`).

Not a harness module itself (no PROPERTY / CONDITIONS).
"""
from liquid import CachingDictLoader, Environment, Mode

PARTIALS = {
    "p": "<{{ v }}|{{ w }}|{{ x }}|{{ forloop.index }}>",
    "q": "{% for j in xs limit: 2 %}{{ j }}{{ forloop.parentloop.index }}{% endfor %}",
    "base": "A{% block bl %}base{{ x }}{% endblock %}B{% block other %}o{% endblock %}",
    "mid": "{% extends 'base' %}{% block bl %}mid{{ block.super }}{% endblock %}",
    "brk": "{{ v }}{% if v == 2 %}{% break %}{% endif %}{% if v == 1 %}{% continue %}{% endif %}.",
    # partials that reach other partials: an include and an extends inside an isolated render
    "n1": "{% include 'p' %}[{{ w }}{{ loc }}]{% assign inner = v %}",
    "n2": "{% extends 'cbase' %}{% block bl %}{{ loc }}{{ v }}{{ block.super }}{% endblock %}",
    "cbase": "A{% block bl %}cbase{{ x }}{% endblock %}B{{ title }}",
}

# one enclosing construct; exactly one %s each
WRAP = [
    "%s",
    "{%% if x %%}%s{%% endif %%}",
    "{%% if nope %%}no{%% else %%}%s{%% endif %%}",
    "{%% unless nope %%}%s{%% endunless %%}",
    "{%% case y %%}{%% when 1 %%}%s{%% else %%}other{%% endcase %%}",
    "{%% for i in xs %%}%s{%% endfor %%}",
    "{%% for i in xs limit: 2 offset: 1 %%}%s{%% else %%}E{%% endfor %%}",
    "{%% tablerow i in xs cols: 2 %%}%s{%% endtablerow %%}",
    "{%% capture c %%}%s{%% endcapture %%}[{{ c }}]",
    "{%% with x: y, q: x %%}%s{%% endwith %%}",
    "{%% liquid if x\n echo 'L'\n endif %%}%s",
    "{%% ifchanged %%}%s{%% endifchanged %%}",
    "{%% macro m a, b: y %%}%s{{ a }}{{ b }}{%% endmacro %%}{%% call m x %%}{%% call m b: s %%}",
    "{%% for i in (1..3) %%}{%% if i == 3 %%}{%% break %%}{%% endif %%}%s{%% endfor %%}",
    "{%% for kv in a %%}{{ kv[0] }}%s{%% endfor %%}",
    "{%% if x and y or s %%}%s{%% elsif x %%}elsif{%% endif %%}",
]

# the outer level of depth-2 templates (a subset keeps the product small)
WRAP2 = [
    "%s",
    "{%% for k in (1..2) %%}%s{%% endfor %%}",
    "{%% if true %%}%s{%% endif %%}tail{{ x }}",
    "{%% capture outer %%}%s{%% endcapture %%}{{ outer | size }}{{ outer }}",
    "{%% with x: s %%}%s{%% endwith %%}{{ x }}",
]

LEAF = [
    "text",
    "{{ x }}",
    "{{ a.b.c }}{{ a['b'].c }}",
    "{{ xs[0] }}{{ xs.last }}{{ xs.size }}{{ xs[9] }}",
    "{{ x | upcase }}{{ x | size }}",
    "{{ y | plus: 1 }}{{ y | times: y }}",
    "{{ s | append: x | size }}",
    "{{ forloop.index }}{{ forloop.parentloop.index }}{{ i }}{{ forloop.length }}",
    "{% assign v = x %}{{ v }}",
    "{% capture d %}{{ y }}{% endcapture %}{{ d }}",
    "{% increment n %}{% decrement n %}{{ n }}",
    "{% cycle 'a', 'b' %}{% cycle x, y %}",
    "{% echo x | default: 'd' %}",
    "{% include 'p' %}",
    "{% include 'p' with x as v, w: y %}",
    "{% include 'p' for xs as v %}",
    "{% render 'p', v: x %}",
    "{% render 'p' for xs as v %}{% render 'q', xs: xs %}",
    "{{ nosuch }}{{ a.nosuch }}{{ nosuch.deeper }}",
    "{% if x == y %}eq{% elsif x %}x{% else %}-{% endif %}",
    "{% assign z = hs | map: 'k' | join: ',' %}{{ z }}",
    "{{ hs | where: 'k' | size }}{{ hs | first }}",
    "{% if xs contains 1 %}c{% endif %}{% if s contains 'a' %}a{% endif %}",
    "{% for j in xs reversed %}{{ j }}{{ forloop.rindex0 }}{% endfor %}",
    "{% continue %}skipped",
    "{% unless x %}u{% else %}{{ y }}{% endunless %}",
    "{{ x }}{% assign x = 'reassigned' %}{{ x }}",
    "{% case x %}{% when 'a', 1 %}A{% when y %}Y{% endcase %}",
    "{{ (1..y) | join: '' }}{% for r in (x..3) %}{{ r }}{% endfor %}",
    "{% translate n: x %}Hi %(n)s{% endtranslate %}{{ 'm %(v)s' | t: v: y }}",
    # names shared between a bound variable, an alias, a keyword argument and the caller; arguments naming each other
    "{% include 'p' with x, x: y %}{% include 'p' for xs as v, v: y %}",
    "{% render 'p' with x as v, v: y %}{% render 'p' for xs, xs: y %}",
    "{% include 'p', v: x, w: v %}{% render 'p', v: y, w: v %}",
    "{% for e in xs %}{% with e: y %}{{ e }}{% break %}{% endwith %}{% endfor %}{{ e }}{{ forloop.index }}",
    "{% assign big = xs | join: s | append: s %}{{ big | size }}{% capture x %}{{ x }}{{ x }}{% endcapture %}{{ x }}",
    "{% tablerow r in xs cols: y %}{{ r }}{{ tablerowloop.col }}{{ tablerowloop.row }}{% endtablerow %}",
    "{% tablerow r in xs cols: 2 %}{{ r }}{% if r == 2 %}{% break %}{% endif %}{% endtablerow %}{% tablerow r in xs cols: 1 %}{% if r == 1 %}{% continue %}{% endif %}{{ r }}{% endtablerow %}",
    "{% raw %}{% endraw -%}  {{ x }}{% raw %}{{ y }}{% endraw %}{%- comment %}c{% endcomment -%} z",
    "{% case x %}{% when 1, x, x %}several{% when x %}again{% else %}no{% endcase %}{% case s %}{% when 'abc', s %}S{% endcase %}",
    "{{ a[s] }}{{ xs[y] }}{{ hs[y].k }}{{ a[x][y] }}{% assign key = 'k' %}{{ a[key] }}{% for e in hs %}{{ e[key] }}{% endfor %}",
    "{% for e in xs %}{% render 'brk', v: e %}|{% include 'brk', v: e %}{% endfor %}{% render 'brk', v: 2 %}",
    "{% doc -%} usage: {% if %} {% form %} {% enddoc %}{%- doc %}{% else %}{% enddoc -%}{{ x }}{% comment -%}{% endif %}{%- endcomment %}",
    "{% comment disabled: for now %}{% if x %}{% nosuchtag a %}{% endfor %}{% endcomment %}{{ x }}{% comment a %}{% when 1 %}{% endcomment %}",
    "{% assign loc = x %}{% capture w %}W{% endcapture %}{% render 'n1', v: y %}{% include 'n1' %}{% render 'n2', v: s %}{{ inner }}",
    # a loop variable named like what its own loop expression reads; cols that is nil / zero; offsets and indexes before the start
    "{% for x in x %}{{ x }}{% endfor %}{% for y in xs limit: y %}{{ y }}{% endfor %}{% tablerow e in xs cols: nope %}{{ e }}{{ tablerowloop.row }}{{ tablerowloop.col_last }}{% endtablerow %}",
    "{% for e in xs offset: -2 limit: 2 %}{{ e }}{% else %}none{% endfor %}{{ xs[-1] }}{{ xs[-4] }}{{ xs[-7] }}{% for e in xs limit: 1 %}{{ e }}{% endfor %}{% for e in xs offset: continue limit: -1 %}{{ e }}{% endfor %}",
]
assert len(WRAP) == 16 and len(LEAF) == 46 and len(WRAP2) == 5   # the bounds in mk_condition's contract

# data sets: nothing defined / ordinary / odd types
DATA = [
    {},
    {"x": 1, "y": 2, "s": "abc", "xs": [1, 2, 3], "a": {"b": {"c": "C"}, "k": 1}, "hs": [{"k": "v1"}, {"k": None}, {"z": 0}], "nope": False},
    {"x": "a", "y": 0, "s": "", "xs": [], "a": {}, "hs": [], "nope": None},
    {"x": None, "y": "2", "s": "<b>", "xs": [[1], "z", None], "a": {"b": []}, "hs": [{"k": [1]}], "nope": 0},
]


def data(d):
    """A fresh deep copy of data set d (renders must not be able to influence each other through it)."""
    import copy
    return copy.deepcopy(DATA[d])


def source(w2, w1, leaf):
    return WRAP2[w2] % (WRAP[w1] % LEAF[leaf])


NW2, NW1, NLEAF, NDATA = len(WRAP2), len(WRAP), len(LEAF), len(DATA)
SIZE = NW2 * NW1 * NLEAF


class CorpusEnv(Environment):
    pass


def make_env(cls=CorpusEnv, **kw):
    """An environment with the extra tags and the corpus partials pre-parsed in a caching loader."""
    env = cls(extra=True, loader=CachingDictLoader(dict(PARTIALS), auto_reload=False), **kw)
    for name in PARTIALS:
        env.get_template(name)
    return env


_CACHE = {}


def template(env, w2, w1, leaf):
    """Parsed corpus member (memoised per environment); None if the environment rejects it."""
    key = (id(env), w2, w1, leaf)
    if key not in _CACHE:
        try:
            _CACHE[key] = env.from_string(source(w2, w1, leaf))
        except Exception:
            _CACHE[key] = None
    return _CACHE[key]


def sweep(check, w1, leaf, skip=None):
    """[(w2, d, what)] for every outer construct w2 and data set d on which check(w2, w1, leaf, d) returns a
    description of a failure (None = holds). skip(w2, w1, leaf) excludes members outside a property's quantifier."""
    bad = []
    for w2 in range(NW2):
        if skip is not None and skip(w2, w1, leaf):
            continue
        for d in range(NDATA):
            r = check(w2, w1, leaf, d)
            if r is not None:
                bad.append({"source": source(w2, w1, leaf), "data_set": d, "failure": r})
    return bad


def mk_condition(name, check, skip=None):
    """A `sel_only` condition over the corpus: the solver selects (w1, leaf) by comparisons; the body sweeps the 5
    outer constructs x 4 data sets on the plain interpreter. Returns (function, detail function)."""
    from vf.hx import cint, excluded, finish, untraced

    def f(w1: int, leaf: int) -> bool:
        """
        pre: 0 <= w1 <= 15 and 0 <= leaf <= 45
        post: _
        """
        if excluded(name, locals()):
            return True
        w1, leaf = cint(w1, 0, NW1 - 1), cint(leaf, 0, NLEAF - 1)
        return finish(untraced(lambda: not sweep(check, w1, leaf, skip)))
    f.__name__ = f.__qualname__ = name
    return f, (lambda w1, leaf: {"failing": sweep(check, w1, leaf, skip)[:3]})


def outcome(thunk):
    """('ok', output) / ('liquid', class name) / ('other', class name)."""
    from liquid.exceptions import LiquidError
    try:
        return ("ok", thunk())
    except LiquidError as e:
        return ("liquid", type(e).__name__)
    except Exception as e:
        return ("other", type(e).__name__)


BOUNDS = "corpus of %d templates = 5 outer constructs x 16 constructs x 46 leaves (harness/corpus.py), 4 fixed data sets" % SIZE

__all__ = ["PARTIALS", "WRAP", "WRAP2", "LEAF", "DATA", "data", "source", "make_env", "template", "Mode",
           "NW2", "NW1", "NLEAF", "NDATA", "SIZE"]
