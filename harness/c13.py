"""C13 Loops visit exactly the documented items.

Real code executed symbolically: LoopExpression.evaluate/_slice/_to_iter/_to_int,
ForNode.render_to_output, ForLoop helpers, TablerowNode.render_to_output,
TableRow.step and helpers, RenderContext.stopindex/loop/parentloop, via whole
renders of pre-parsed skeleton templates.
Oracle: Ruby-Liquid reference slicing (visit index i iff from <= i < from+limit,
from = offset or the stored continue index; reversed applied after slicing;
continue index := from + number of visited items).
"""
from typing import Optional

from liquid import Environment
from liquid.exceptions import LiquidError

from vf.hx import cint, excluded, finish, untraced

PROPERTY = "C13"
ENV = Environment()

BODY = "[{{ i }}:{{ forloop.index }}:{{ forloop.index0 }}:{{ forloop.rindex }}:{{ forloop.rindex0 }}:{{ forloop.first }}:{{ forloop.last }}:{{ forloop.length }}]"


def _t(src):
    return ENV.from_string(src)


T_FOR = {
    (False, "lo"): _t("{% for i in xs limit: l offset: o %}" + BODY + "{% else %}E{% endfor %}"),
    (True, "lo"): _t("{% for i in xs limit: l offset: o reversed %}" + BODY + "{% else %}E{% endfor %}"),
    (False, "l"): _t("{% for i in xs limit: l %}" + BODY + "{% else %}E{% endfor %}"),
    (True, "l"): _t("{% for i in xs reversed limit: l %}" + BODY + "{% else %}E{% endfor %}"),
    (False, "o"): _t("{% for i in xs offset: o %}" + BODY + "{% else %}E{% endfor %}"),
    (True, "o"): _t("{% for i in xs offset: o reversed %}" + BODY + "{% else %}E{% endfor %}"),
    (False, ""): _t("{% for i in xs %}" + BODY + "{% else %}E{% endfor %}"),
    (True, ""): _t("{% for i in xs reversed %}" + BODY + "{% else %}E{% endfor %}"),
}


def b(x):
    return "true" if x else "false"


def ref_indices(n, limit, frm, rev):
    idx = []
    for i in range(n):
        if frm <= i and (limit is None or i < limit + frm):
            idx.append(i)
    if rev:
        idx.reverse()
    return idx


def ref_body(items):
    L = len(items)
    out = ""
    for k in range(L):
        out += "[%s:%d:%d:%d:%d:%s:%s:%d]" % (items[k], k + 1, k, L - k, L - k - 1, b(k == 0), b(k == L - 1), L)
    return out


def render(t, **data):
    try:
        return t.render(**data)
    except LiquidError as e:
        return "ERR:" + type(e).__name__


def c13_for_limit_offset(n: int, limit: int, offset: int, rev: bool) -> bool:
    """
    pre: 0 <= n <= 4
    post: _
    """
    if excluded("c13_for_limit_offset", locals()):
        return True
    out = render(T_FOR[(rev, "lo")], xs=list(range(n)), l=limit, o=offset)
    items = ref_indices(n, limit, offset, rev)
    return finish(out == (ref_body(items) if items else "E"))


def c13_for_limit(n: int, limit: int, rev: bool) -> bool:
    """
    pre: 0 <= n <= 4
    post: _
    """
    if excluded("c13_for_limit", locals()):
        return True
    out = render(T_FOR[(rev, "l")], xs=list(range(n)), l=limit)
    items = ref_indices(n, limit, 0, rev)
    return finish(out == (ref_body(items) if items else "E"))


def c13_for_offset(n: int, offset: int, rev: bool) -> bool:
    """
    pre: 0 <= n <= 4
    post: _
    """
    if excluded("c13_for_offset", locals()):
        return True
    out = render(T_FOR[(rev, "o")], xs=list(range(n)), o=offset)
    items = ref_indices(n, None, offset, rev)
    return finish(out == (ref_body(items) if items else "E"))


def c13_for_nil_args(n: int, lim_nil: bool, off_nil: bool, limit: int, offset: int) -> bool:
    """
    pre: 0 <= n <= 3
    post: _
    """
    # a nil limit/offset variable: the reference treats nil as absent, python-liquid documents a type
    # error; both are accepted (don't-care), but nothing else (no other items, no non-Liquid error).
    if excluded("c13_for_nil_args", locals()):
        return True
    out = render(T_FOR[(False, "lo")], xs=list(range(n)), l=(None if lim_nil else limit), o=(None if off_nil else offset))
    if (lim_nil or off_nil) and out == "ERR:LiquidTypeError":
        return finish(True)
    items = ref_indices(n, None if lim_nil else limit, 0 if off_nil else offset, False)
    return finish(out == (ref_body(items) if items else "E"))


T_PLAIN = {False: T_FOR[(False, "")], True: T_FOR[(True, "")]}


def c13_for_plain(n: int, rev: bool) -> bool:
    """
    pre: 0 <= n <= 5
    post: _
    """
    if excluded("c13_for_plain", locals()):
        return True
    out = render(T_PLAIN[rev], xs=list(range(n)))
    items = ref_indices(n, None, 0, rev)
    return finish(out == (ref_body(items) if items else "E"))


# --- string-typed and literal arguments -------------------------------------
T_LIT = {}
for _l in (0, 1, 2):
    for _o in (0, 1, 3):
        T_LIT[(_l, _o)] = _t("{%% for i in xs limit: %d offset: %d %%}" % (_l, _o) + BODY + "{% else %}E{% endfor %}")
T_LITNEG = _t("{% for i in xs limit: -1 %}" + BODY + "{% else %}E{% endfor %}")
T_LITNEGOFF = _t("{% for i in xs offset: -2 limit: 3 %}" + BODY + "{% else %}E{% endfor %}")


def c13_for_literal_args(n: int, ls: int, os_: int) -> bool:
    """
    pre: 0 <= n <= 4
    pre: 0 <= ls <= 2 and 0 <= os_ <= 2
    post: _
    """
    if excluded("c13_for_literal_args", locals()):
        return True
    l = (0, 1, 2)[ls]
    o = (0, 1, 3)[os_]
    out = render(T_LIT[(l, o)], xs=list(range(n)))
    items = ref_indices(n, l, o, False)
    ok = out == (ref_body(items) if items else "E")
    out2 = render(T_LITNEG, xs=list(range(n)))
    ok2 = out2 == "E"
    out3 = render(T_LITNEGOFF, xs=list(range(n)))
    items3 = ref_indices(n, 3, -2, False)
    ok3 = out3 == (ref_body(items3) if items3 else "E")
    return finish(ok and ok2 and ok3)


def c13_for_string_args(n: int, limit: int, offset: int) -> bool:
    """
    pre: 0 <= n <= 3
    pre: -2 <= limit <= 5 and -2 <= offset <= 5
    post: _
    """
    # limit / offset given as numeric strings
    if excluded("c13_for_string_args", locals()):
        return True
    out = render(T_FOR[(False, "lo")], xs=list(range(n)), l=str(limit), o=str(offset))
    items = ref_indices(n, limit, offset, False)
    return finish(out == (ref_body(items) if items else "E"))


# --- break / continue --------------------------------------------------------
T_BRK = _t("{% for i in xs limit: l %}{% if i == c %}{% continue %}{% endif %}{% if i == b %}{% break %}{% endif %}<{{ i }}:{{ forloop.index0 }}>{% else %}E{% endfor %}|")


def c13_for_break_continue(n: int, limit: int, bi: int, ci: int) -> bool:
    """
    pre: 0 <= n <= 4
    post: _
    """
    if excluded("c13_for_break_continue", locals()):
        return True
    out = render(T_BRK, xs=list(range(n)), l=limit, b=bi, c=ci)
    items = ref_indices(n, limit, 0, False)
    exp = ""
    if not items:
        exp = "E"
    k = 0
    for i in items:
        if i == ci:
            k += 1
            continue
        if i == bi:
            break
        exp += "<%d:%d>" % (i, k)
        k += 1
    return finish(out == exp + "|")


# --- offset: continue chains ---------------------------------------------------
T_CONT2 = _t("{% for i in xs limit: l1 offset: o1 %}a{{ i }}{% endfor %}|{% for i in xs limit: l2 offset: continue %}b{{ i }}{% endfor %}|{% for i in xs offset: continue %}c{{ i }}{% endfor %}")
T_CONT_OTHER = _t("{% for i in xs limit: l1 %}a{{ i }}{% endfor %}|{% for j in xs offset: continue %}b{{ j }}{% endfor %}|{% for i in ys offset: continue %}c{{ i }}{% endfor %}|{% for i in xs offset: continue %}d{{ i }}{% endfor %}")


def c13_for_continue_chain(n: int, l1: int, o1: int, l2: int) -> bool:
    """
    pre: 0 <= n <= 4
    pre: o1 >= 0
    post: _
    """
    if excluded("c13_for_continue_chain", locals()):
        return True
    out = render(T_CONT2, xs=list(range(n)), l1=l1, o1=o1, l2=l2)
    a = ref_indices(n, l1, o1, False)
    frm2 = o1 + len(a)
    bb = ref_indices(n, l2, frm2, False)
    frm3 = frm2 + len(bb)
    c = ref_indices(n, None, frm3, False)
    exp = "".join("a%d" % i for i in a) + "|" + "".join("b%d" % i for i in bb) + "|" + "".join("c%d" % i for i in c)
    return finish(out == exp)


T_CONT3 = _t("{% for i in xs limit: l1 %}a{{ i }}{% endfor %}|{% for i in xs limit: l2 %}b{{ i }}{% else %}E{% endfor %}|{% for i in xs offset: continue %}c{{ i }}{% endfor %}|"
             "{% for i in xs limit: l1 offset: continue %}d{{ i }}{% endfor %}")


def c13_for_continue_restart(n: int, l1: int, l2: int) -> bool:
    """
    pre: 0 <= n <= 4
    post: _
    """
    # a loop without offset starts again from 0 and records where IT stopped (also when that is position 0): the next
    # offset: continue loop goes on from there, not from where an earlier loop over the same key had stopped
    if excluded("c13_for_continue_restart", locals()):
        return True
    out = render(T_CONT3, xs=list(range(n)), l1=l1, l2=l2)
    a = ref_indices(n, l1, 0, False)
    bb = ref_indices(n, l2, 0, False)
    c = ref_indices(n, None, len(bb), False)
    d = ref_indices(n, l1, len(bb) + len(c), False)
    exp = ("".join("a%d" % i for i in a) + "|" + ("".join("b%d" % i for i in bb) if bb else "E") + "|" + "".join("c%d" % i for i in c) + "|"
           + "".join("d%d" % i for i in d))
    return finish(out == exp)


def c13_for_continue_keys(n: int, l1: int) -> bool:
    """
    pre: 0 <= n <= 4
    pre: l1 >= 0
    post: _
    """
    # the continue index is keyed by loop variable + collection: other keys start from 0
    if excluded("c13_for_continue_keys", locals()):
        return True
    xs = list(range(n))
    out = render(T_CONT_OTHER, xs=xs, ys=xs, l1=l1)
    a = ref_indices(n, l1, 0, False)
    d = ref_indices(n, None, len(a), False)
    exp = "".join("a%d" % i for i in a) + "|" + "".join("b%d" % i for i in xs) + "|" + "".join("c%d" % i for i in xs) + "|" + "".join("d%d" % i for i in d)
    return finish(out == exp)


T_CONT_PLAIN = _t("{% for i in xs limit: l1 %}a{{ i }}{% endfor %}|{% for i in xs %}b{{ i }}{% endfor %}|{% for i in xs offset: continue %}c{{ i }}{% else %}E{% endfor %}|"
                  "{% for j in (1..n) %}d{{ j }}{% if j == bk %}{% break %}{% endif %}{% endfor %}|{% for j in (1..n) offset: continue %}e{{ j }}{% else %}E{% endfor %}|")


def c13_for_continue_after_plain(n: int, l1: int, bk: int) -> bool:
    """
    pre: 0 <= n <= 3
    post: _
    """
    # a loop without limit/offset/reversed consumes the whole collection: a later offset: continue loop over the
    # same key visits nothing (also after a break, and for ranges)
    if excluded("c13_for_continue_after_plain", locals()):
        return True
    xs = list(range(n))
    out = render(T_CONT_PLAIN, xs=xs, l1=l1, n=n, bk=bk)
    a = ref_indices(n, l1, 0, False)
    exp = "".join("a%d" % i for i in a) + "|" + "".join("b%d" % i for i in xs) + "|E|"
    d = ""
    for j in range(1, n + 1):
        d += "d%d" % j
        if j == bk:
            break
    exp += d + "|E|"
    return finish(out == exp)


# --- other collection kinds ---------------------------------------------------
T_RANGE = _t("{% for i in (a..b) limit: l offset: o %}" + BODY + "{% else %}E{% endfor %}")
T_HASH = _t("{% for i in h limit: l offset: o %}[{{ i[0] }}={{ i[1] }}:{{ forloop.index }}:{{ forloop.length }}]{% else %}E{% endfor %}")
T_STR = _t("{% for i in s limit: l offset: o %}[{{ i }}:{{ forloop.index }}:{{ forloop.length }}]{% else %}E{% endfor %}")
T_NOTSEQ = _t("{% for i in v %}[{{ i }}]{% else %}E{% endfor %}")


def c13_for_range(a: int, n: int, limit: int, offset: int) -> bool:
    """
    pre: -3 <= a <= 3 and -1 <= n <= 4
    post: _
    """
    if excluded("c13_for_range", locals()):
        return True
    out = render(T_RANGE, a=a, b=a + n - 1, l=limit, o=offset)
    m = max(n, 0)
    idx = ref_indices(m, limit, offset, False)
    items = [a + i for i in idx]
    return finish(out == (ref_body(items) if items else "E"))


def c13_for_hash(n: int, limit: int, offset: int) -> bool:
    """
    pre: 0 <= n <= 3
    post: _
    """
    if excluded("c13_for_hash", locals()):
        return True
    h = {}
    for i in range(n):
        h["k%d" % i] = i * 10
    out = render(T_HASH, h=h, l=limit, o=offset)
    idx = ref_indices(n, limit, offset, False)
    L = len(idx)
    exp = "".join("[k%d=%d:%d:%d]" % (idx[k], idx[k] * 10, k + 1, L) for k in range(L)) or "E"
    return finish(out == exp)


def c13_for_string(s: str, limit: int, offset: int) -> bool:
    """
    pre: len(s) <= 2
    pre: all(c in "ab" for c in s)
    post: _
    """
    # a string is a one-item collection (empty string: no items)
    if excluded("c13_for_string", locals()):
        return True
    out = render(T_STR, s=s, l=limit, o=offset)
    n = 1 if len(s) > 0 else 0
    idx = ref_indices(n, limit, offset, False)
    exp = ("[%s:1:1]" % s) if idx else "E"
    return finish(out == exp)


def c13_for_scalar(k: int, v: int) -> bool:
    """
    pre: 0 <= k <= 3
    post: _
    """
    # ints, nil, bools are empty collections
    if excluded("c13_for_scalar", locals()):
        return True
    val = v if k == 0 else None if k == 1 else (v > 0) if k == 2 else float(v % 7)
    return finish(render(T_NOTSEQ, v=val) == "E")


# --- nesting / parentloop ---------------------------------------------------
T_NEST = _t("{% for i in xs limit: l1 %}{% for j in ys offset: o2 %}({{ i }},{{ j }},{{ forloop.parentloop.index }}/{{ forloop.parentloop.length }},{{ forloop.index }}/{{ forloop.length }}){% endfor %};{% endfor %}")
T_NEST3 = _t("{% for i in xs %}{% for j in ys %}{% for k in zs %}{{ forloop.parentloop.parentloop.index0 }}{{ forloop.parentloop.index0 }}{{ forloop.index0 }} {% endfor %}{% endfor %}{% endfor %}")


def c13_for_nested(n: int, m: int, l1: int, o2: int) -> bool:
    """
    pre: 0 <= n <= 3 and 0 <= m <= 3
    post: _
    """
    if excluded("c13_for_nested", locals()):
        return True
    out = render(T_NEST, xs=list(range(n)), ys=list(range(m)), l1=l1, o2=o2)
    a = ref_indices(n, l1, 0, False)
    bb = ref_indices(m, None, o2, False)
    exp = ""
    for p in range(len(a)):
        for q in range(len(bb)):
            exp += "(%d,%d,%d/%d,%d/%d)" % (a[p], bb[q], p + 1, len(a), q + 1, len(bb))
        exp += ";"
    return finish(out == exp)


def c13_for_nested3(n: int, m: int, p: int) -> bool:
    """
    pre: 0 <= n <= 2 and 0 <= m <= 2 and 0 <= p <= 2
    post: _
    """
    if excluded("c13_for_nested3", locals()):
        return True
    out = render(T_NEST3, xs=list(range(n)), ys=list(range(m)), zs=list(range(p)))
    exp = ""
    for i in range(n):
        for j in range(m):
            for k in range(p):
                exp += "%d%d%d " % (i, j, k)
    return finish(out == exp)


# --- tablerow -------------------------------------------------------------------
TR_BODY = "{{ i }}:{{ tablerowloop.index }}:{{ tablerowloop.index0 }}:{{ tablerowloop.rindex }}:{{ tablerowloop.rindex0 }}:{{ tablerowloop.first }}:{{ tablerowloop.last }}:{{ tablerowloop.length }}:{{ tablerowloop.col }}:{{ tablerowloop.col0 }}:{{ tablerowloop.col_first }}:{{ tablerowloop.col_last }}:{{ tablerowloop.row }}"
T_TR = _t("{% tablerow i in xs cols: c limit: l offset: o %}" + TR_BODY + "{% endtablerow %}")
T_TR_NOCOLS = _t("{% tablerow i in xs limit: l offset: o %}" + TR_BODY + "{% endtablerow %}")
T_TR_BRK = _t("{% tablerow i in xs cols: c %}{% if i == b %}{% break %}{% endif %}{% if i == k %}{% continue %}{% endif %}{{ i }}{% endtablerow %}")


def ref_tablerow(items, cols, body):
    """Reference HTML for a tablerow over the visited items with cols >= 1."""
    L = len(items)
    out = '<tr class="row1">\n'
    for k in range(L):
        col = k % cols + 1
        row = k // cols + 1
        out += '<td class="col%d">' % col
        out += body(items[k], k, L, col, row, col == cols)
        out += "</td>"
        if col == cols and k != L - 1:
            out += '</tr>\n<tr class="row%d">' % (row + 1)
    out += "</tr>\n"
    return out


def _tr_body(item, k, L, col, row, col_last):
    return "%d:%d:%d:%d:%d:%s:%s:%d:%d:%d:%s:%s:%d" % (item, k + 1, k, L - k, L - k - 1, b(k == 0), b(k == L - 1), L,
                                                      col, col - 1, b(col == 1), b(col_last), row)


def c13_tablerow_cols(n: int, cols: int, limit: int, offset: int) -> bool:
    """
    pre: 0 <= n <= 4
    pre: cols >= 1
    post: _
    """
    if excluded("c13_tablerow_cols", locals()):
        return True
    out = render(T_TR, xs=list(range(n)), c=cols, l=limit, o=offset)
    items = ref_indices(n, limit, offset, False)
    return finish(out == ref_tablerow(items, cols, _tr_body))


def c13_tablerow_nocols(n: int, limit: int, offset: int) -> bool:
    """
    pre: 0 <= n <= 4
    post: _
    """
    # without cols every item is in row 1; col_last only on the last item
    if excluded("c13_tablerow_nocols", locals()):
        return True
    out = render(T_TR_NOCOLS, xs=list(range(n)), l=limit, o=offset)
    items = ref_indices(n, limit, offset, False)
    L = len(items)
    exp = '<tr class="row1">\n'
    for k in range(L):
        exp += '<td class="col%d">' % (k + 1) + _tr_body(items[k], k, L, k + 1, 1, k == L - 1) + "</td>"
    exp += "</tr>\n"
    return finish(out == exp)


def c13_tablerow_badcols(n: int, cols: int) -> bool:
    """
    pre: 0 <= n <= 3
    pre: cols <= 0
    post: _
    """
    # cols <= 0: the column counter never equals cols, so (reference semantics: wrap after the cell whose column number
    # equals cols) every item is in row 1, columns count 1..n and no cell is the last of its row
    if excluded("c13_tablerow_badcols", locals()):
        return True
    out = render(T_TR, xs=list(range(n)), c=cols, l=None if n < 0 else 99, o=0)
    if out.startswith("ERR:"):
        return finish(True)
    return finish(out == ref_tablerow_any(list(range(n)), cols))


def ref_tablerow_any(items, cols):
    """Reference HTML for any integer cols: the column counter runs 1, 2, ... and wraps after the cell where it equals cols."""
    L = len(items)
    out = '<tr class="row1">\n'
    col, row = 1, 1
    for k in range(L):
        if k:
            if col == cols:
                col, row = 1, row + 1
            else:
                col += 1
        out += '<td class="col%d">' % col + _tr_body(items[k], k, L, col, row, col == cols) + "</td>"
        if col == cols and k != L - 1:
            out += '</tr>\n<tr class="row%d">' % (row + 1)
    return out + "</tr>\n"


# cols given as something other than an integer: (value, the integer it stands for)
COLS_VALUES = [("x", 0), (None, 0), ("2", 2), ("", 0), ([], 0), ({}, 0), (True, 1), (False, 0), (2.0, 2), ("1", 1), (0, 0), (-1, -1), (10 ** 30, 10 ** 30), ("-2", -2), ("3 ", 3)]
T_TR_C = _t("{% tablerow i in xs cols: c %}" + TR_BODY + "{% endtablerow %}")


def cols_values_sweep(ci):
    import asyncio
    val, means = COLS_VALUES[ci]
    bad = []
    for n in range(0, 6):
        want = ref_tablerow_any(list(range(n)), means)
        got = render(T_TR_C, xs=list(range(n)), c=val)
        try:
            agot = asyncio.run(T_TR_C.render_async(xs=list(range(n)), c=val))
        except Exception as e:
            agot = "ERR:" + type(e).__name__
        if got != want or agot != want:
            bad.append({"n": n, "cols": repr(val), "sync": got[:300], "async": agot[:300], "expected": want[:300]})
    return bad


def c13_tablerow_cols_values(ci: int) -> bool:
    """
    pre: 0 <= ci <= 14
    post: _
    """
    if excluded("c13_tablerow_cols_values", locals()):
        return True
    ci = cint(ci, 0, 14)
    return finish(untraced(lambda: not cols_values_sweep(ci)))


def c13_tablerow_break(n: int, cols: int, bi: int, ki: int) -> bool:
    """
    pre: 0 <= n <= 4
    pre: 1 <= cols <= 3
    post: _
    """
    if excluded("c13_tablerow_break", locals()):
        return True
    out = render(T_TR_BRK, xs=list(range(n)), c=cols, b=bi, k=ki)
    exp = '<tr class="row1">\n'
    for k in range(n):
        col = k % cols + 1
        row = k // cols + 1
        exp += '<td class="col%d">' % col
        brk = (k == bi)
        if not brk and k != ki:
            exp += "%d" % k
        exp += "</td>"
        if col == cols and k != n - 1:
            exp += '</tr>\n<tr class="row%d">' % (row + 1)
        if brk:
            break
    exp += "</tr>\n"
    return finish(out == exp)


# ---- LAX / WARN: a loop abandoned because its body raised leaves nothing behind: later loops see their own forloop only ----
from liquid import Mode as _Mode, CachingDictLoader as _CDL  # noqa: E402

_FAIL_P = {"inner": "{% for k in ys %}<{{ forloop.parentloop.index }}.{{ forloop.index }}>{% endfor %}"}
_FAIL_ENVS = {m: Environment(tolerance=m, loader=_CDL(dict(_FAIL_P), auto_reload=False)) for m in (_Mode.LAX, _Mode.WARN)}
_FAIL_SRC = [
    "{% for i in xs %}{{ i | divided_by: 0 }}{% endfor %}{% for j in ys %}[{{ forloop.parentloop.index }}:{{ forloop.index }}/{{ forloop.length }}]{% endfor %}",
    "{% for i in xs %}{% for j in ys %}{{ j | divided_by: 0 }}{% endfor %}{% endfor %}{% for j in ys %}[{{ forloop.parentloop.index }}{{ forloop.parentloop.parentloop.index }}:{{ forloop.index }}/{{ forloop.length }}]{% endfor %}",
    "{% tablerow i in xs %}{{ i | divided_by: 0 }}{% endtablerow %}{% for j in ys %}[{{ forloop.parentloop.index }}:{{ forloop.index }}/{{ forloop.length }}]{% endfor %}",
    "{% for i in xs %}{{ nosuch | nosuchfilter }}{% endfor %}{% for j in ys %}[{{ forloop.parentloop.index }}:{{ forloop.index }}/{{ forloop.length }}]{% endfor %}",
    "{% for i in xs %}{% include 'nosuchpartial' %}{% endfor %}{% for j in ys %}[{{ forloop.parentloop.index }}:{{ forloop.index }}/{{ forloop.length }}]{% endfor %}",
]
_FAIL_T = {(m, k): e.from_string(src) for m, e in _FAIL_ENVS.items() for k, src in enumerate(_FAIL_SRC)}


def after_failed_loop(k, n, m, warn):
    import warnings
    with warnings.catch_warnings():
        warnings.simplefilter("ignore")
        out = render(_FAIL_T[(_Mode.WARN if warn else _Mode.LAX, k)], xs=list(range(1, n + 1)), ys=list(range(m)))
    exp = "".join("[:%d/%d]" % (j + 1, m) for j in range(m))
    return out, exp


def c13_for_after_failed_loop(k: int, n: int, m: int, warn: bool) -> bool:
    """
    pre: 0 <= k <= 4 and 0 <= n <= 2 and 0 <= m <= 2
    post: _
    """
    if excluded("c13_for_after_failed_loop", locals()):
        return True
    k, n, m = cint(k, 0, 4), cint(n, 0, 2), cint(m, 0, 2)
    warn = True if warn else False
    out, exp = untraced(lambda: after_failed_loop(k, n, m, warn))
    # whatever the abandoned loop wrote before it failed (a tablerow's opening row) comes first; the second loop's output is exact
    return finish(out.endswith(exp) and "[" not in out[:len(out) - len(exp)])


# ---- a loop with an else block, in every placement x every kind of body -----------------------------------------------
# (the else block is rendered exactly when no item is visited, wherever the loop stands and whatever its body writes)
W_SHAPES = ["%s", "{%% if true %%}%s{%% endif %%}", "{%% unless false %%}%s{%% endunless %%}", "{%% case 1 %%}{%% when 1 %%}%s{%% endcase %%}",
            "{%% for j in (1..1) %%}%s{%% endfor %%}", "{%% if true %%}{%% if true %%}%s{%% endif %%}{%% endif %%}",
            "{%% capture z %%}%s{%% endcapture %%}<{{ z }}>", "{%% if false %%}{%% else %%}%s{%% endif %%}",
            "{%% tablerow j in (1..1) %%}%s{%% endtablerow %%}", "{%% ifchanged %%}%s{%% endifchanged %%}"]
B_SHAPES = [("[{{ i }}]", lambda i: "[%d]" % i), ("{% assign s = i %}", lambda i: ""), ("{% capture c %}{{ i }}{% endcapture %}", lambda i: ""),
            ("{% if false %}x{% endif %}", lambda i: ""), ("{% assign s = i %}{% if i == 1 %}one{% endif %}", lambda i: "one" if i == 1 else "")]
L_SHAPES = ["{%% for i in xs limit: l offset: o %%}%s{%% else %%}E{%% endfor %%}", "{%% for i in xs %%}%s{%% else %%}E{%% endfor %%}",
            "{%% for i in xs reversed %%}%s{%% else %%}{{ 'E' }}{%% endfor %%}"]
T_ELSE = {}


def else_case(w, bd, ls, n, limit, offset):
    key = (w, bd, ls)
    if key not in T_ELSE:
        T_ELSE[key] = _t(W_SHAPES[w] % (L_SHAPES[ls] % B_SHAPES[bd][0]) + "|{{ s }}")
    out = render(T_ELSE[key], xs=list(range(n)), l=limit, o=offset)
    items = ref_indices(n, limit if ls == 0 else None, offset if ls == 0 else 0, ls == 2)
    inner = "".join(B_SHAPES[bd][1](i) for i in items) if items else "E"
    last = str(items[-1]) if items and bd in (1, 4) else ""
    if w == 6:
        inner = "<" + inner + ">"
    elif w == 8:
        inner = '<tr class="row1">\n<td class="col1">' + inner + "</td></tr>\n"
    return out, inner + "|" + last


def c13_for_else_placement(w: int, bd: int, ls: int, n: int, limit: int, offset: int) -> bool:
    """
    pre: 0 <= w <= 9 and 0 <= bd <= 4 and 0 <= ls <= 2 and 0 <= n <= 2 and -1 <= limit <= 2 and -1 <= offset <= 2
    pre: ls == 0 or (limit == 0 and offset == 0)
    post: _
    """
    if excluded("c13_for_else_placement", locals()):
        return True
    w, bd, ls, n, limit, offset = cint(w, 0, 9), cint(bd, 0, 4), cint(ls, 0, 2), cint(n, 0, 2), cint(limit, -1, 2), cint(offset, -1, 2)
    out, exp = untraced(lambda: else_case(w, bd, ls, n, limit, offset))
    return finish(out == exp)


DETAIL = globals().get("DETAIL", {})
DETAIL["c13_tablerow_cols_values"] = lambda ci: {"cols": repr(COLS_VALUES[ci][0]), "failing": cols_values_sweep(ci)[:2]}
DETAIL["c13_for_after_failed_loop"] = lambda k, n, m, warn: {"source": _FAIL_SRC[k], "xs": list(range(1, n + 1)), "ys": list(range(m)), "mode": "WARN" if warn else "LAX",
                                                              "observed_expected": after_failed_loop(k, n, m, warn)}
DETAIL["c13_for_else_placement"] = lambda w, bd, ls, n, limit, offset: {"source": W_SHAPES[w] % (L_SHAPES[ls] % B_SHAPES[bd][0]) + "|{{ s }}", "xs": list(range(n)),
                                                                        "limit": limit, "offset": offset, "observed_expected": else_case(w, bd, ls, n, limit, offset)}

CONDITIONS = [
    {"fn": "c13_for_limit_offset", "quick": 60, "thorough": 240},
    {"fn": "c13_for_limit", "quick": 40, "thorough": 120},
    {"fn": "c13_for_offset", "quick": 40, "thorough": 120},
    {"fn": "c13_for_nil_args", "quick": 40, "thorough": 120},
    {"fn": "c13_for_plain", "quick": 30, "thorough": 60},
    {"fn": "c13_for_else_placement", "quick": 90, "thorough": 200, "sel_only": True},
    {"fn": "c13_for_after_failed_loop", "quick": 40, "thorough": 80, "sel_only": True},
    {"fn": "c13_for_literal_args", "quick": 40, "thorough": 120},
    {"fn": "c13_for_string_args", "quick": 40, "thorough": 180},
    {"fn": "c13_for_break_continue", "quick": 60, "thorough": 240},
    {"fn": "c13_for_continue_chain", "quick": 60, "thorough": 300},
    {"fn": "c13_for_continue_keys", "quick": 40, "thorough": 120},
    {"fn": "c13_for_continue_after_plain", "quick": 60, "thorough": 200},
    {"fn": "c13_for_range", "quick": 60, "thorough": 240},
    {"fn": "c13_for_hash", "quick": 40, "thorough": 180},
    {"fn": "c13_for_string", "quick": 40, "thorough": 120},
    {"fn": "c13_for_scalar", "quick": 30, "thorough": 60, "float": True},
    {"fn": "c13_for_nested", "quick": 60, "thorough": 240},
    {"fn": "c13_for_nested3", "quick": 40, "thorough": 120},
    {"fn": "c13_for_continue_restart", "quick": 60, "thorough": 200},
    {"fn": "c13_tablerow_cols", "quick": 60, "thorough": 300},
    {"fn": "c13_tablerow_nocols", "quick": 40, "thorough": 180},
    {"fn": "c13_tablerow_badcols", "quick": 40, "thorough": 120},
    {"fn": "c13_tablerow_cols_values", "quick": 30, "thorough": 60, "sel_only": True},
    {"fn": "c13_tablerow_break", "quick": 60, "thorough": 240},
]

ASSUMPTIONS = [
    "template sources are concrete skeletons (listed in harness/c13.py); data, limit, offset, cols, break/continue indices are symbolic",
    "reference semantics = Ruby Liquid for-loop slicing (from <= i < from + limit), continue index = from + visited count",
]
OUTSIDE = [
    "collections longer than 4-5 items (loops unroll per length)",
    "offset: continue after a loop with a negative offset (the reference's continue position is an artefact there); negative limits are inside: the continue position must stay where the empty loop started",
    "nil limit: only absence of non-Liquid exceptions is asserted",
    "custom iterable drops",
]


def selftest():
    """Oracle self-test on cases fixed by the repo's own tests / golden behaviour."""
    fails = []
    if ref_indices(6, 2, 2, False) != [2, 3]:
        fails.append("ref_indices basic")
    if ref_indices(3, None, 0, True) != [2, 1, 0]:
        fails.append("ref_indices reversed")
    t = ENV.from_string("{% tablerow i in xs cols: 2 %}" + TR_BODY + "{% endtablerow %}")
    if t.render(xs=[0, 1, 2]) != ref_tablerow([0, 1, 2], 2, _tr_body):
        fails.append("tablerow reference disagrees with real code on cols=2,n=3")
    if T_FOR[(False, "lo")].render(xs=[0, 1, 2, 3], l=2, o=1) != ref_body([1, 2]):
        fails.append("for reference disagrees on l=2,o=1")
    return fails
