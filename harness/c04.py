"""C04 Serialising a template back to source preserves its meaning.

Relational oracle, no model: T = parse(src); S = str(T); T2 = parse(S) must succeed;
render(T2, d) == render(T, d) for SYMBOLIC render data d; str(T2) == S.

Template source text must be concrete, so parse / str / re-parse of every family
member happen once at import (class RT) on the real code; every condition re-runs
str(T) (once per process: the tree is concrete) and renders T and T2 with symbolic
data through the real render code (render_with_context on a fresh RenderContext).
Batch conditions (bool leaves: few paths) check every member on each path; the others
pick one member per path with a symbolic selector k.

E1 logical expressions: every and/or tree over <= 4 leaves with zero or one `not`
   (<= 3 leaves: every subset of nodes negated), depth <= 3, as fully parenthesised
   and as minimally parenthesised source inside if / unless / elsif / ternary, and the
   same trees built directly from LogicalAnd/Or/NotExpression objects (compared by
   evaluate()). Families are split by the SHAPE of the parsed tree:
     safe     - none of the shapes below
     orand    - an `or` whose left operand ends in an `and` printed without parentheses
     barenot  - a binary node whose unparenthesised left operand ends in a `not`
     cmpgroup - a comparison with a parenthesised logical operand
E2 literals and paths: string literals over {' " \\ newline a space} in seven positions,
   hash / array / nested / bracketed-root paths, ranges, filters with positional and
   keyword arguments, ternary forms with filters and tail filters, nil/empty/blank,
   float literals.
E3 skeleton groups for every standard tag of the quantifier and nested combinations.
"""
from io import StringIO
from typing import Union

from liquid import CachingDictLoader, Environment, RenderContext
from liquid.builtin.expressions.logical import (BooleanExpression, LogicalAndExpression, LogicalNotExpression,
                                                LogicalOrExpression)
from liquid.builtin.expressions.path import Path
from liquid.exceptions import LiquidError
from liquid.token import Token

from vf.hx import excluded, finish

PROPERTY = "C04"

V = Union[None, bool, int, str]
VS = Union[None, bool, int]


class Env(Environment):
    logical_not_operator = True
    logical_parentheses = True
    ternary_expressions = True


PARTIALS = {
    "p": "[{{ x }}|{{ y }}|{{ p }}|{{ q }}]",
    "q": "<{{ forloop.index }}:{{ q }}:{{ x }}>",
}
ENV = Env(loader=CachingDictLoader(PARTIALS, auto_reload=False))
for _p in PARTIALS:
    ENV.get_template(_p)  # fill the loader cache at import
ROOT = ENV.from_string("")
TOK = Token("", "", 0, "")


# ---------------------------------------------------------------------------
# round trip record and oracle
# ---------------------------------------------------------------------------
class RT:
    """src -> T -> S = str(T) -> T2 = parse(S) (or err) -> S2 = str(T2)."""
    __slots__ = ("src", "T", "S", "T2", "err", "S2")

    def __init__(self, src):
        self.src = src
        self.T = ENV.from_string(src)  # a source that does not parse is a harness error (import fails)
        self.S = str(self.T)
        try:
            self.T2 = ENV.from_string(self.S)
            self.err = None
            self.S2 = str(self.T2)
        except LiquidError as e:
            self.T2 = None
            self.err = type(e).__name__ + ": " + (str(e).splitlines() or [""])[0]
            self.S2 = None


def render(t, data):
    """BoundTemplate.render without its dict(**kwargs) / make_globals wrapper (a symbolic-aware dict copy per render
    is the dominant cost under tracing); the self-test compares it with t.render(**data)."""
    buf = StringIO()
    try:
        t.render_with_context(RenderContext(t, globals=data), buf)
        return buf.getvalue()
    except LiquidError as e:
        return "ERR:" + type(e).__name__
    except Exception as e:
        return "EXC:" + type(e).__name__


_TEXT_OK = {}


def text_ok(rec):
    """str(T) parses and is a fixpoint. The tree and its text are concrete, so the answer cannot depend on the
    path: str() is re-run once per process (symbolic run, replay) and remembered."""
    r = _TEXT_OK.get(id(rec))
    if r is None:
        s = str(rec.T)
        r = s == rec.S and rec.T2 is not None and rec.S2 == s
        _TEXT_OK[id(rec)] = r
    return r


def check(rec, data):
    """The three demands of the property for one template and one data set."""
    if not text_ok(rec):
        return False  # str() text does not parse, or str(parse(str(T))) != str(T)
    return render(rec.T, data) == render(rec.T2, data)


def check_all(recs, data):
    ok = True
    for rec in recs:
        ok = ok and check(rec, data)
    return ok


def describe(rec, data):
    d = {"source": rec.src, "str": rec.S}
    if rec.T2 is None:
        d["reparse"] = rec.err
        return d
    if rec.S2 != rec.S:
        d["str_of_reparsed"] = rec.S2
    d["render_original"] = render(rec.T, data)
    d["render_reparsed"] = render(rec.T2, data)
    return d


def failing(recs, data, limit=4):
    out = []
    for rec in recs:
        if not check(rec, data):
            out.append(describe(rec, data))
    return {"failing_members": len(out), "of": len(recs), "first": out[:limit]}


CONDITIONS = []
DETAIL = {}
FAMILIES = {}  # condition name -> list of records (for the report and the self-test)


def pick(recs, k):
    """Family member chosen by a symbolic selector, without indexing a list by a symbolic int."""
    for i in range(len(recs)):
        if k == i:
            return recs[i]
    return None


def sel_detail(recs, k, data):
    rec = pick(recs, k)
    return None if rec is None else describe(rec, data)


# ---------------------------------------------------------------------------
# E1 logical expressions
# ---------------------------------------------------------------------------
# Trees: leaf name | ("and"|"or", L, R) | ("not", X) | ("cmp", text, L, R)
NAMES = ("a", "b", "c", "d")


def shapes(names):
    if len(names) == 1:
        yield names[0]
        return
    for i in range(1, len(names)):
        for lt in shapes(names[:i]):
            for rt_ in shapes(names[i:]):
                yield ("and", lt, rt_)
                yield ("or", lt, rt_)


def one_not(t):
    """Every way to negate exactly one node."""
    yield ("not", t)
    if isinstance(t, tuple) and t[0] in ("and", "or"):
        for x in one_not(t[1]):
            yield (t[0], x, t[2])
        for x in one_not(t[2]):
            yield (t[0], t[1], x)


def any_nots(t):
    """Every way to negate any subset of nodes."""
    if isinstance(t, tuple):
        for l in any_nots(t[1]):
            for r in any_nots(t[2]):
                yield (t[0], l, r)
                yield ("not", (t[0], l, r))
    else:
        yield t
        yield ("not", t)


def depth(t):
    if not isinstance(t, tuple) or t[0] == "cmp":
        return 0
    if t[0] == "not":
        return 1 + depth(t[1])
    return 1 + max(depth(t[1]), depth(t[2]))


def is_op(t, ops):
    return isinstance(t, tuple) and t[0] in ops


def text(t, explicit, leaf=None):
    """Source of a tree. explicit: every compound operand is parenthesised, so the parser must build
    exactly this tree. Otherwise only where Liquid's grammar needs it (and/or group from the right,
    `not` takes everything to its right): around a binary or negated LEFT operand and a binary operand
    of `not`."""
    if not isinstance(t, tuple):
        return leaf[t] if leaf else t
    if t[0] == "not":
        inner = text(t[1], explicit, leaf)
        if is_op(t[1], ("and", "or")) or (explicit and is_op(t[1], ("not",))):
            inner = "(" + inner + ")"
        return "not " + inner
    ls = text(t[1], explicit, leaf)
    rs = text(t[2], explicit, leaf)
    if is_op(t[1], ("and", "or", "not")):
        ls = "(" + ls + ")"
    if explicit and is_op(t[2], ("and", "or", "not")):
        rs = "(" + rs + ")"
    return ls + " " + t[0] + " " + rs


def to_tree(e):
    """Tuple tree of a parsed liquid expression."""
    if isinstance(e, BooleanExpression):
        return to_tree(e.expression)
    if isinstance(e, LogicalAndExpression):
        return ("and", to_tree(e.left), to_tree(e.right))
    if isinstance(e, LogicalOrExpression):
        return ("or", to_tree(e.left), to_tree(e.right))
    if isinstance(e, LogicalNotExpression):
        return ("not", to_tree(e.right))
    if hasattr(e, "left") and hasattr(e, "right"):
        return ("cmp", type(e).__name__, to_tree(e.left), to_tree(e.right))
    return str(e)


def bare(child, parent):
    """Is `child` printed WITHOUT parentheses as an operand of `parent` ("and"/"or"/"not")?
    (`or` under `and` and any binary node under `not` get parentheses.)"""
    if not is_op(child, ("and", "or")):
        return True
    if parent == "not":
        return False
    return not (parent == "and" and child[0] == "or")


def ends_in_not(t):
    if is_op(t, ("not",)):
        return True
    if is_op(t, ("and", "or")):
        return bare(t[2], t[0]) and ends_in_not(t[2])
    return False


def ends_in_and(t):
    if is_op(t, ("and",)):
        return True
    if is_op(t, ("or",)):
        return bare(t[2], "or") and ends_in_and(t[2])
    return False


def subtrees(t):
    yield t
    if isinstance(t, tuple):
        for x in t[1:] if t[0] != "cmp" else t[2:]:
            if isinstance(x, (tuple, str)):
                for y in subtrees(x):
                    yield y


def shape_class(t):
    """safe | orand | barenot | cmpgroup (first that applies, most specific cause last)."""
    cls = "safe"
    for n in subtrees(t):
        if is_op(n, ("or",)) and bare(n[1], "or") and ends_in_and(n[1]):
            cls = "orand" if cls == "safe" else cls
    for n in subtrees(t):
        if is_op(n, ("and", "or")) and bare(n[1], n[0]) and ends_in_not(n[1]):
            cls = "barenot"
    for n in subtrees(t):
        if is_op(n, ("cmp",)) and (is_op(n[2], ("and", "or", "not")) or is_op(n[3], ("and", "or", "not"))):
            cls = "cmpgroup"
    return cls


def wrap(expr, tag):
    if tag == "if":
        return "{% if " + expr + " %}T{% else %}F{% endif %}"
    if tag == "unless":
        return "{% unless " + expr + " %}F{% else %}T{% endunless %}"
    if tag == "elsif":
        return "{% if nosuch %}X{% elsif " + expr + " %}T{% else %}F{% endif %}"
    if tag == "ternary":
        return "{{ 'T' if " + expr + " else 'F' }}"
    if tag == "assign":
        return "{% assign v = 'T' if " + expr + " else 'F' %}{{ v }}"
    return "{% echo 'T' if " + expr + " || append: '!' %}"


def classify_sources(exprs, tag="if"):
    """Parse each expression source in `tag` position and sort the records by the shape of the tree
    the real parser built."""
    out = {"safe": [], "orand": [], "barenot": [], "cmpgroup": []}
    seen = set()
    for e in exprs:
        if e in seen:
            continue
        seen.add(e)
        probe = ENV.from_string(wrap(e, "if"))
        cls = shape_class(to_tree(probe.nodes[0].condition))
        out[cls].append(RT(wrap(e, tag)))
    return out


T0_3 = [t for n in (1, 2, 3) for t in shapes(NAMES[:n])]
T0_4 = list(shapes(NAMES))
T1_3 = [c for t in T0_3 for c in one_not(t) if depth(c) <= 3]
T1_4 = [c for t in T0_4 for c in one_not(t) if depth(c) <= 3]
TN_3 = [c for t in T0_3 for c in any_nots(t) if depth(c) <= 3 and c not in T0_3 and c not in T1_3]
T_MORE = [("not", ("not", "a")), ("not", ("not", ("not", "a"))), ("and", "a", ("not", ("not", "b"))),
          ("or", ("not", ("not", "a")), "b")]

E1_SRC3 = classify_sources([text(t, True) for t in T0_3 + T1_3 + T_MORE] + [text(t, False) for t in T0_3 + T1_3 + T_MORE])
E1_SRC3N = classify_sources([text(t, True) for t in TN_3])
E1_SRC4 = classify_sources([text(t, True) for t in T0_4 + T1_4] + [text(t, False) for t in T0_4 + T1_4])
# sources written without any parentheses (what the default environment accepts too)
E1_FLAT = classify_sources([x for x in (text(t, False) for t in T0_3 + T0_4 + T1_3 + T1_4) if "(" not in x]
                           + ["not a and b", "not a or b and c", "a and not b or c", "not a and not b", "a or not b and c or d"])


def _mk_bool(name, recs):
    def f(a: bool, b: bool, c: bool, d: bool) -> bool:
        """
        post: _
        """
        if excluded(name, locals()):
            return True
        return finish(check_all(recs, {"a": a, "b": b, "c": c, "d": d}))
    f.__name__ = f.__qualname__ = name
    DETAIL[name] = lambda a, b, c, d: failing(recs, {"a": a, "b": b, "c": c, "d": d})
    return f


def _mk_mixed(name, recs):
    def f(a: VS, b: VS, c: VS, d: bool, au: bool) -> bool:
        """
        pre: not isinstance(a, int) or 0 <= a <= 9
        pre: not isinstance(b, int) or 0 <= b <= 9
        pre: not isinstance(c, int) or 0 <= c <= 9
        post: _
        """
        # leaves are nil / false / true / an integer (0 is truthy); `a` may be absent from the data
        if excluded(name, locals()):
            return True
        data = {"b": b, "c": c, "d": d}
        if not au:
            data["a"] = a
        return finish(check_all(recs, data))
    f.__name__ = f.__qualname__ = name

    def det(a, b, c, d, au):
        data = {"b": b, "c": c, "d": d}
        if not au:
            data["a"] = a
        return failing(recs, data)
    DETAIL[name] = det
    return f


def _mk_int(name, recs):
    def f(a: int, b: int, c: int, d: int) -> bool:
        """
        post: _
        """
        # leaves are comparisons of symbolic integers
        if excluded(name, locals()):
            return True
        return finish(check_all(recs, {"a": a, "b": b, "c": c, "d": d}))
    f.__name__ = f.__qualname__ = name
    DETAIL[name] = lambda a, b, c, d: failing(recs, {"a": a, "b": b, "c": c, "d": d})
    return f


def add(name, maker, recs, quick, thorough, **kw):
    if not recs:
        return
    name = "c04_" + name
    globals()[name] = maker(name, recs)
    FAMILIES[name] = recs
    c = {"fn": name, "quick": quick, "thorough": thorough}
    c.update(kw)
    CONDITIONS.append(c)


def chunks(xs, n):
    return [xs[i:i + n] for i in range(0, len(xs), n)]


add("e1_safe_d3", _mk_bool, E1_SRC3["safe"], 60, 120)
add("e1_safe_d3_nots", _mk_bool, E1_SRC3N["safe"], None, 200)
for _i, _c in enumerate(chunks(E1_SRC4["safe"], 63)):
    add("e1_safe_d4_%d" % _i, _mk_bool, _c, None, 200)
add("e1_safe_flat", _mk_bool, E1_FLAT["safe"], 60, 90)
add("e1_safe_mixed", _mk_mixed, E1_SRC3["safe"][::4], None, 300)
add("e1_orand_d3", _mk_bool, E1_SRC3["orand"], 30, 60)
add("e1_orand_d4", _mk_bool, E1_SRC4["orand"], None, 90)
add("e1_barenot_d3", _mk_bool, E1_SRC3["barenot"] + E1_SRC3N["barenot"], 30, 60)
add("e1_barenot_d4", _mk_bool, E1_SRC4["barenot"], None, 90)
add("e1_orand_flat", _mk_bool, E1_FLAT["orand"], None, 60)
add("e1_barenot_flat", _mk_bool, E1_FLAT["barenot"], None, 60)

# the same trees in the other positions that take a logical expression
_TAG_EXPRS = [text(t, True) for t in T0_3 + T1_3]
E1_TAGS = {tag: classify_sources(_TAG_EXPRS, tag) for tag in ("unless", "elsif", "ternary", "assign", "echo")}
for _tag in E1_TAGS:
    add("e1_safe_tag_" + _tag, _mk_bool, E1_TAGS[_tag]["safe"], None, 120)
add("e1_orand_tags", _mk_bool, [r for tag in E1_TAGS for r in E1_TAGS[tag]["orand"]], None, 90)
add("e1_barenot_tags", _mk_bool, [r for tag in E1_TAGS for r in E1_TAGS[tag]["barenot"]], None, 90)

# comparison leaves: relational operators bind tighter than and/or/not
LEAF_CMP = {"a": "a == 1", "b": "b < 2", "c": "c != d", "d": "0 >= d"}
_CMP_EXPRS = [text(t, ex, LEAF_CMP) for t in T0_3 + T1_3 for ex in (True, False)] + [
    "not a == 1", "not (a == 1)", "a == 1 and not b < 2", "c != d and not (a == 1 or b < 2)", "a <> b", "a <= b or c >= d",
    "a contains 'x' or b == 1", "x == 'a b' or y != \"it's\"", "a == true and b != false", "a == b == c"]
_CMP_GROUPED = ["(not a) == b", "(a and b) == c", "a == (b or c)", "(a or b) != (c and d)", "not (a and b) == c", "(not a) < 1",
                "a contains (b or c)"]
E1_CMP = classify_sources(_CMP_EXPRS + _CMP_GROUPED)
add("e1_safe_cmp", _mk_int, E1_CMP["safe"][::4], 40, 120)
for _i, _c in enumerate(chunks([r for i, r in enumerate(E1_CMP["safe"]) if i % 4], 16)):
    add("e1_safe_cmp_more_%d" % _i, _mk_int, _c, None, 200)
add("e1_orand_cmp", _mk_int, E1_CMP["orand"], None, 90)
add("e1_barenot_cmp", _mk_int, E1_CMP["barenot"], None, 90)
add("e1_cmpgroup", _mk_mixed, E1_CMP["cmpgroup"], 30, 90)


# --- the same trees built directly from expression objects ---------------------
class AstRT:
    """tree -> BooleanExpression B -> S = str(B) -> B2 = condition of parse('{% if S %}') -> S2 = str(B2)."""
    __slots__ = ("src", "B", "S", "B2", "err", "S2")

    def __init__(self, tree):
        self.src = "AST " + text(tree, True)
        self.B = BooleanExpression(TOK, build(tree))
        self.S = str(self.B)
        try:
            self.B2 = ENV.from_string("{% if " + self.S + " %}T{% endif %}").nodes[0].condition
            self.err = None
            self.S2 = str(self.B2)
        except LiquidError as e:
            self.B2 = None
            self.err = type(e).__name__
            self.S2 = None


def build(t):
    if not isinstance(t, tuple):
        return Path(TOK, [t])
    if t[0] == "not":
        return LogicalNotExpression(TOK, build(t[1]))
    if t[0] == "and":
        return LogicalAndExpression(TOK, build(t[1]), build(t[2]))
    return LogicalOrExpression(TOK, build(t[1]), build(t[2]))


def ev(b, ctx):
    try:
        return b.evaluate(ctx)
    except LiquidError as e:
        return "ERR:" + type(e).__name__


def check_ast(rec, ctx):
    r = _TEXT_OK.get(id(rec))
    if r is None:
        s = str(rec.B)
        r = s == rec.S and rec.B2 is not None and rec.S2 == s
        _TEXT_OK[id(rec)] = r
    return r and ev(rec.B, ctx) == ev(rec.B2, ctx)


def _mk_ast(name, recs):
    def f(a: bool, b: bool, c: bool, d: bool) -> bool:
        """
        post: _
        """
        if excluded(name, locals()):
            return True
        ctx = RenderContext(ROOT, globals={"a": a, "b": b, "c": c, "d": d})  # evaluation only reads it
        ok = True
        for rec in recs:
            ok = ok and check_ast(rec, ctx)
        return finish(ok)
    f.__name__ = f.__qualname__ = name

    def det(a, b, c, d):
        data = RenderContext(ROOT, globals={"a": a, "b": b, "c": c, "d": d})
        bad = [{"tree": r.src, "str": r.S, "reparse": r.err or r.S2, "value_original": ev(r.B, data),
                "value_reparsed": ev(r.B2, data) if r.B2 is not None else None} for r in recs if not check_ast(r, data)]
        return {"failing_members": len(bad), "of": len(recs), "first": bad[:4]}
    DETAIL[name] = det
    return f


def classify_trees(trees):
    out = {"safe": [], "orand": [], "barenot": [], "cmpgroup": []}
    for t in trees:
        out[shape_class(t)].append(AstRT(t))
    return out


E1_AST3 = classify_trees(T0_3 + T1_3 + TN_3 + T_MORE)
E1_AST4 = classify_trees(T0_4 + T1_4)
add("e1_ast_safe_d3", _mk_ast, E1_AST3["safe"], 30, 90)
add("e1_ast_safe_d4", _mk_ast, E1_AST4["safe"], None, 200)
add("e1_ast_orand", _mk_ast, E1_AST3["orand"] + E1_AST4["orand"], None, 60)
add("e1_ast_barenot", _mk_ast, E1_AST3["barenot"] + E1_AST4["barenot"], None, 60)

# ---------------------------------------------------------------------------
# E2 literals and paths
# ---------------------------------------------------------------------------
ALPHA = ("'", '"', "\\", "\n", "a", " ")
CONTENTS = [""] + list(ALPHA) + [x + y for x in ALPHA for y in ALPHA]
CONTENTS = [c for c in CONTENTS if not ("'" in c and '"' in c)]  # not expressible: Liquid strings have no escapes


def lit(c, i=0):
    q = '"' if "'" in c else "'" if '"' in c else ("'", '"')[i % 2]
    return q + c + q


def str_positions(c, i):
    l = lit(c, i)
    return [RT("{{ " + l + " }}"),
            RT("[{{ x | append: " + l + " | prepend: " + lit(c, i + 1) + " }}]"),
            RT("{% if x == " + l + " %}T{% else %}F{% endif %}"),
            RT("{% assign v = " + l + " %}{{ v | size }}{{ v }}"),
            RT("{% case x %}{% when " + l + " %}A{% else %}B{% endcase %}"),
            RT("{{ h[" + l + "] }}|{{ h[" + l + "].k }}"),
            RT("{% for ch in " + l + " %}<{{ ch }}>{% endfor %}{% cycle " + l + ", 'z' %}{% echo " + l + " %}")]


def str_class(c):
    return "backslash" if "\\" in c else "newline" if "\n" in c else "plain"


E2_STR = {"plain": [], "backslash": [], "newline": []}   # class -> list of (content, records)
for _i, _c in enumerate(CONTENTS):
    E2_STR[str_class(_c)].append((_c, str_positions(_c, _i)))
H_DATA = {}
for _c in CONTENTS:
    H_DATA[_c] = {"k": "v%d" % len(H_DATA)}


def _mk_str(name, entries):
    def f(k: int, x: str) -> bool:
        """
        pre: 0 <= k <= 24
        pre: len(x) <= 1
        post: _
        """
        # k selects the literal's content; x is compared with / appended to it
        if excluded(name, locals()):
            return True
        e = pick(entries, k)
        if e is None:
            return True
        return finish(check_all(e[1], {"x": x, "h": H_DATA}))
    f.__name__ = f.__qualname__ = name

    def det(k, x):
        e = pick(entries, k)
        return None if e is None else dict(failing(e[1], {"x": x, "h": H_DATA}), content=e[0])
    DETAIL[name] = det
    return f


def add_entries(name, maker, entries, quick, thorough, **kw):
    add(name, maker, entries, quick, thorough, **kw)
    if entries:
        FAMILIES["c04_" + name] = [r for e in entries for r in e[1]]


add_entries("e2_str_plain", _mk_str, E2_STR["plain"], 60, 120)
add_entries("e2_str_backslash", _mk_str, E2_STR["backslash"], 30, 60)
add_entries("e2_str_newline", _mk_str, E2_STR["newline"], 30, 60)

# --- paths -------------------------------------------------------------------------
P_HASH = [RT(s) for s in (
    "{{ a.b }}", '{{ a["b c"] }}', "{{ a['b c'] }}", "{{ a['b\"c'] }}", '{{ a["b\'c"] }}', '{{ a["b-c"] }}', "{{ a.b-c }}",
    '{{ a["1"] }}', '{{ a[""] }}', '{{ a["x?"] }}', "{{ a.k.d }}", '{{ a["k"]["d"] }}', "{{ a['k'].d }}", "{{ a[b.c] }}",
    "{{ a[b.k].d }}", "{{ a[ b.k ][b.e] }}", "{{ a.k[b.e] }}", "{{ a[b['c']] }}", "{{ a[b[c.f]] }}", "{{ a.b[c[d]] }}", '{{ ["a"].b }}', '{{ ["a"]["b c"] }}',
    "{{ ['a'].k.d }}", "{{ a.size }}", "{{ a.nosuch }}", "{{ a.nosuch.deeper }}", "{{ nosuch }}", "{{ a.k.size }}{{ a.b.size }}",
    "{% if a.b == a['b c'] %}T{% else %}F{% endif %}", "{% assign v = a[b.k] %}{{ v.d }}{{ v[b.e] }}", "{{ a.k.d | default: a['b c'] }}")]
P_ARR = [RT(s) for s in (
    "{{ xs[0] }}", "{{ xs[-1] }}", "{{ xs[ 1 ] }}", "{{ xs.first }}", "{{ xs.last }}", "{{ xs.size }}", "{{ xs[i] }}", "{{ xs[m.i] }}",
    "{{ rows[0].b }}", "{{ rows[-1]['b'] }}", "{{ rows.first.b }}", "{{ rows.last.c[0] }}", "{{ rows[i].c.first }}", "{{ rows[1].c[-1] }}",
    "{{ rows[xs[0]].b }}", "{{ m['i'] }}{{ m.rows[0][0] }}", "{% for r in rows[0].c %}{{ r }}{% endfor %}", "{{ xs[0] | default: xs[-1] }}")]
P_ROOT_QUOTED = [RT(s) for s in ('{{ ["a b"] }}', '{{ ["a b"].c }}', "{{ ['a b']['c'] }}", '{% if ["a b"].c %}T{% endif %}',
                                 '{% for i in ["a b"].list %}{{ i }}{% endfor %}', "{% assign v = ['a b'].c %}{{ v }}")]
P_ROOT_NESTED = [RT(s) for s in ("{{ [r] }}", "{{ [r2].b }}", "{{ [b.r] }}", "{{ [r2][b.c] }}", "{% if [r] %}T{% else %}F{% endif %}")]
P_KEY_ESC = [RT(s) for s in ('{{ a["b\\c"] }}', "{{ a['b\nc'] }}", '{{ a.k["\\"] }}')]


def _mk_hash(name, recs):
    def f(k: int, x: V, y: int, kb: bool) -> bool:
        """
        pre: 0 <= k <= 31
        pre: not isinstance(x, str) or len(x) <= 2
        pre: not isinstance(x, int) or 0 <= x <= 9
        pre: 0 <= y <= 9
        post: _
        """
        # k selects the template; x, y are values stored in the hashes; kb selects the key held by the nested path b.c
        if excluded(name, locals()):
            return True
        rec = pick(recs, k)
        if rec is None:
            return True
        return finish(check(rec, hash_data(x, y, kb)))
    f.__name__ = f.__qualname__ = name
    DETAIL[name] = lambda k, x, y, kb: sel_detail(recs, k, hash_data(x, y, kb))
    return f


def hash_data(x, y, kb):
    key = "b c" if kb else "b"  # both name scalars (a printed hash would go through repr of symbolic strings)
    a = {"b": x, "b c": y, 'b"c': "dq", "b'c": "sq", "b-c": "dash", "1": "one", "": "empty", "x?": "q", "k": {"d": x, "k": y, "\\": "bs"},
         "b\\c": "bs", "b\nc": "nl", "c": y}
    return {"a": a, "b": {"c": key, "k": "k", "e": "d", "r": "x"}, "c": {"f": "c", "d": "k"}, "d": "d", "x": x, "a b": {"c": y, "list": [1, 2]},
            "r": "x", "r2": "a"}


def _mk_arr(name, recs):
    def f(k: int, n: int, i: int, x: V) -> bool:
        """
        pre: 0 <= k <= 31
        pre: 0 <= n <= 3 and -2 <= i <= 2
        pre: not isinstance(x, str) or len(x) <= 2
        pre: not isinstance(x, int) or 0 <= x <= 9
        post: _
        """
        if excluded(name, locals()):
            return True
        rec = pick(recs, k)
        if rec is None:
            return True
        return finish(check(rec, arr_data(n, i, x)))
    f.__name__ = f.__qualname__ = name
    DETAIL[name] = lambda k, n, i, x: sel_detail(recs, k, arr_data(n, i, x))
    return f


def arr_data(n, i, x):
    rows = [{"b": x, "c": [1, x]}, {"b": "r1", "c": [x, 2]}, {"b": 3, "c": []}]
    return {"xs": list(range(n)), "i": i, "m": {"i": i, "rows": [[x]]}, "rows": rows[:n], "x": x}


add("e2_path_hash", _mk_hash, P_HASH, 60, 150)
add("e2_path_array", _mk_arr, P_ARR, 60, 150)
add("e2_path_root_quoted", _mk_hash, P_ROOT_QUOTED, 30, 60)
add("e2_path_root_nested", _mk_hash, P_ROOT_NESTED, 30, 60)
add("e2_path_key_escape", _mk_hash, P_KEY_ESC, 30, 60)

# --- ranges, filters, ternary -------------------------------------------------------
R_RANGE = [RT(s) for s in (
    "{{ (x..y) | join: ',' }}", "{{ (1..y) | size }}", "{% for i in (x..3) %}{{ i }}{% endfor %}", "{{ (x..y) }}",
    "{% if (x..y) contains 2 %}T{% else %}F{% endif %}", "{% assign r = (x..y) %}{{ r | first }}-{{ r | last }}",
    "{{ (m.lo..m['hi']) | join: '' }}", "{% for i in (x..y) reversed limit: 2 %}{{ i }}{% endfor %}", "{{ (0..2) | join: '#' }}",
    "{{ (-1..x) | size }}", "{% if x == (1..2) %}T{% else %}F{% endif %}", "{% case x %}{% when (1..2) %}A{% else %}B{% endcase %}")]


def _mk_range(name, recs):
    def f(k: int, x: int, y: int) -> bool:
        """
        pre: 0 <= k <= 15
        pre: 0 <= x <= 4 and 0 <= y <= 4
        post: _
        """
        if excluded(name, locals()):
            return True
        rec = pick(recs, k)
        if rec is None:
            return True
        return finish(check(rec, {"x": x, "y": y, "m": {"lo": x, "hi": y}}))
    f.__name__ = f.__qualname__ = name
    DETAIL[name] = lambda k, x, y: sel_detail(recs, k, {"x": x, "y": y, "m": {"lo": x, "hi": y}})
    return f


add("e2_range", _mk_range, R_RANGE, 40, 150)

F_KW = [RT(s) for s in (
    "{{ x | default: y, allow_false: true }}", "{{ x | default: y, allow_false: f }}", "{{ x | default: 'd' }}",
    "{{ x | default: y, allow_false: false | append: '!' }}", "{{ x | default: m.d, allow_false: m.f | append: m['k k'] }}",
    "{{ x | default: 'a b', allow_false: m['f'] | prepend: \"it's \" }}", "{% assign v = x | default: y, allow_false: f %}[{{ v }}]",
    "{% echo x | default: nosuch | default: y, allow_false: true %}")]
F_POS = [RT(s) for s in (
    "{{ s | slice: 1, 2 }}", "{{ s | slice: 0 }}", "{{ s | slice: -2, 2 }}", "{{ s | append: t | prepend: 'p' }}", "{{ s | replace: 'a', t }}",
    "{{ s | replace_first: 'a', 'b' | append: s }}", "{{ 'a,b' | split: ',' | join: t }}", "{{ s | append: 'x' | size }}", "{{ s | truncate: 2, '.' }}",
    "{{ 'abc' | slice: 1, 1 | append: s }}", "{{ \"it's\" | append: t | remove: 'a' }}", "{{ s | slice: m.i, m['j'] }}")]


def _mk_fkw(name, recs):
    def f(k: int, x: V, y: int, fl: bool) -> bool:
        """
        pre: 0 <= k <= 15
        pre: not isinstance(x, str) or len(x) <= 2
        pre: not isinstance(x, int) or 0 <= x <= 9
        pre: 0 <= y <= 9
        post: _
        """
        if excluded(name, locals()):
            return True
        rec = pick(recs, k)
        if rec is None:
            return True
        return finish(check(rec, {"x": x, "y": y, "f": fl, "m": {"d": y, "f": fl, "k k": "kk"}}))
    f.__name__ = f.__qualname__ = name
    DETAIL[name] = lambda k, x, y, fl: sel_detail(recs, k, {"x": x, "y": y, "f": fl, "m": {"d": y, "f": fl, "k k": "kk"}})
    return f


def _mk_fpos(name, recs):
    def f(k: int, s: str, t: str) -> bool:
        """
        pre: 0 <= k <= 15
        pre: len(s) <= 2 and len(t) <= 1
        post: _
        """
        if excluded(name, locals()):
            return True
        rec = pick(recs, k)
        if rec is None:
            return True
        return finish(check(rec, {"s": s, "t": t, "m": {"i": 0, "j": 1}}))
    f.__name__ = f.__qualname__ = name
    DETAIL[name] = lambda k, s, t: sel_detail(recs, k, {"s": s, "t": t, "m": {"i": 0, "j": 1}})
    return f


add("e2_filters_keyword", _mk_fkw, F_KW, 40, 150)
add("e2_filters_positional", _mk_fpos, F_POS, 40, 200)

TERNARY = [RT(s) for s in (
    "{{ a if b else c }}", "{{ a if b }}", "{{ a | upcase if b else c }}", "{{ a if b else c | upcase }}",
    "{{ a if b else c || append: 'x' }}", "{{ a if b else c | upcase || append: 'x' }}", "{{ a if b || append: 'x' | upcase }}",
    "{{ a | append: 'l' if b and d else 'q' | append: 'r' || prepend: '>' | append: '<' }}", "{{ 'T' if a == c else 'F' }}",
    "{{ 'T' if not b else 'F' }}", "{% assign v = a if b else c %}{{ v }}", "{% echo a if b else c || upcase %}",
    "{{ a if b or d and a else 'n' }}", "{{ a if (b or d) and a else 'n' }}", "{{ a | default: c, allow_false: true if b else 1 | append: a }}",
    "{{ a if b else c | default: 'z', allow_false: d || slice: 0, 1 }}", "{% liquid echo a if b else c\n assign w = c if d\n echo w %}",
    "{{ \"it's\" if b else 'say \"hi\"' }}")]


def _mk_ternary(name, recs):
    def f(k: int, a: str, b: V, c: str, d: bool) -> bool:
        """
        pre: 0 <= k <= 19
        pre: len(a) <= 1 and len(c) <= 1
        pre: not isinstance(b, str) or len(b) <= 1
        pre: not isinstance(b, int) or 0 <= b <= 9
        post: _
        """
        if excluded(name, locals()):
            return True
        rec = pick(recs, k)
        if rec is None:
            return True
        return finish(check(rec, {"a": a, "b": b, "c": c, "d": d}))
    f.__name__ = f.__qualname__ = name
    DETAIL[name] = lambda k, a, b, c, d: sel_detail(recs, k, {"a": a, "b": b, "c": c, "d": d})
    return f


add("e2_ternary", _mk_ternary, TERNARY, 60, 200)

# --- nil / null / empty / blank, floats ----------------------------------------------
SPECIAL = [RT(s) for s in (
    "{% if x == nil %}T{% else %}F{% endif %}", "{% if x == null %}T{% else %}F{% endif %}", "{% if x == empty %}T{% else %}F{% endif %}",
    "{% if x != blank %}T{% else %}F{% endif %}", "{% if empty == x %}T{% endif %}", "{{ nil }}", "{{ x | default: nil }}",
    "{% assign v = nil %}{{ v }}", "{{ 'a' if x == nil else 'b' }}", "{% case x %}{% when nil %}A{% when blank %}B{% endcase %}",
    "{% include 'p', x: nil %}", "{% unless x == empty %}T{% endunless %}", "{% for i in nil %}{% else %}E{% endfor %}", "{% cycle nil, 1 %}")]
FLOATS = [RT(s) for s in ("{{ 1.5 }}", "{{ 1.0 }}", "{{ -0.5 }}", "{{ 0.25 }}", "{{ 100.0 }}", "{% if 1 < 1.5 %}T{% endif %}",
                          "{% if 0.5 == 0.5 %}T{% endif %}", "{% cycle 1.5, 2.5 %}", "{% assign v = 2.5 %}{{ v }}")]
FLOATS_EXP = [RT(s) for s in ("{{ 10000000000000000.0 }}", "{{ 0.00001 }}", "{% if 1 < 10000000000000000.0 %}T{% endif %}",
                              "{% assign v = 0.00001 %}{{ v }}")]


def _mk_x(name, recs):
    def f(x: V) -> bool:
        """
        pre: not isinstance(x, str) or len(x) <= 2
        pre: not isinstance(x, int) or 0 <= x <= 9
        post: _
        """
        if excluded(name, locals()):
            return True
        return finish(check_all(recs, {"x": x}))
    f.__name__ = f.__qualname__ = name
    DETAIL[name] = lambda x: failing(recs, {"x": x}, 14)
    return f


def _mk_const(name, recs):
    def f() -> bool:
        """
        post: _
        """
        if excluded(name, locals()):
            return True
        return finish(check_all(recs, {}))
    f.__name__ = f.__qualname__ = name
    DETAIL[name] = lambda: failing(recs, {}, 10)
    return f


add("e2_nil_empty_blank", _mk_x, SPECIAL, 30, 60)
add("e2_float", _mk_const, FLOATS, 20, 30, sel_only=True)
add("e2_float_exponent", _mk_const, FLOATS_EXP, 20, 30, sel_only=True)

# ---------------------------------------------------------------------------
# E3 tags
# ---------------------------------------------------------------------------
E3_XY = {
    "if": (
        "{% if x %}A{% endif %}", "{% if x %}A{% else %}B{% endif %}", "{% if x %}A{% elsif y %}B{% else %}C{% endif %}",
        "{% if x == y %}A{% elsif x %}B{% elsif y %}C{% endif %}",
        "{% if x %}{% if y %}A{% else %}B{% endif %}{% else %}{% unless y %}C{% else %}D{% endunless %}{% endif %}",
        "{% if x %}{% else %}{% endif %}|{% if y %}{% endif %}", "{% if x and y %}{{ x }}{% elsif x or y %}{{ y }}{% else %}-{% endif %}",
        "{% if x != 1 and y contains 'a' %}A{% else %}B{% endif %}", "{% if x < y %}lt{% elsif x >= y %}ge{% endif %}",
        # branches with no nodes at all still decide which later branch runs
        "{% if x %}A{% elsif y %}{% else %}D{% endif %}", "{% if x %}A{% elsif y -%}   {%- elsif x == y %}C{% else %}D{% endif %}",
        "{% if x %}{% elsif y %}{% elsif true %}E{% endif %}|{% if x %}{% elsif y %}Y{% else %}{% endif %}"),
    "unless": (
        "{% unless x %}A{% endunless %}", "{% unless x %}A{% else %}B{% endunless %}", "{% unless x %}A{% elsif y %}B{% else %}C{% endunless %}",
        "{% unless x == y %}{{ x }}{% endunless %}", "{% unless x or y %}A{% endunless %}",
        "{% unless x %}{% unless y %}A{% endunless %}{% else %}{% if y %}B{% endif %}{% endunless %}",
        "{% unless x %}A{% elsif y %}{% else %}D{% endunless %}", "{% unless x %}{% elsif y -%} {%- else %}D{% endunless %}"),
    "case": (
        "{% case x %}{% when 1 %}A{% when 'a', y %}B{% when 2 or 3 %}C{% else %}D{% endcase %}", "{% case x %}{% when y %}A{% endcase %}",
        "{% case x %}{% else %}C{% endcase %}", "{% case x %}{% when 1, 1, y %}A{% else %}B{% endcase %}",
        "{% case x %}{% when 1 %}A{% else %}B{% else %}C{% endcase %}", "{% case x %}{% when 1 %}A{% else %}B{% when 2 %}C{% endcase %}",
        "{% case x %} junk {% when true %}A{% when false %}B{% endcase %}", "{% case 'a b' %}{% when y %}A{% when \"a b\" %}B{% endcase %}",
        "{% case x %}{% when 1 %}{% case y %}{% when 1 %}AA{% else %}AB{% endcase %}{% else %}{{ y }}{% endcase %}",
        "{% case x %}\n{% when 1 or y, 'b' or 2 %}\n  A\n{% else %}\n  B\n{% endcase %}", "{% case m.k %}{% when m['k'] %}A{% when m.j %}B{% endcase %}"),
    "capture_assign_echo": (
        "{% capture c %}a{{ x }}b{% endcapture %}[{{ c }}]", "{% capture c %}{% if x %}T{% endif %}{% endcapture %}{{ c }}{{ c }}",
        "{% assign v = x %}{{ v }}", "{% assign v = x | default: 'd' | append: y %}{{ v }}",
        "{% assign v = 'a,b' | split: ',' %}{{ v | join: '-' }}{{ v[1] }}", "{% assign v-w = y %}{{ v-w }}", "{% echo x %}",
        "{% echo x | default: y %}", "{% echo 'a' | append: 'e' | upcase %}", "{% echo %}",
        "{% assign v = x %}{% capture v %}{{ v }}!{% endcapture %}{{ v }}", "{% assign v = m['k'] %}{% assign w = v %}{{ w }}{{ m.j | default: v }}",
        "{% capture c-d %}{{ y }}{% endcapture %}{{ c-d | size }}"),
    "incdec": (
        "{% increment n %}{% increment n %}{{ n }}", "{% decrement n %}{% decrement n %}{{ n }}",
        "{% increment n %}{% decrement n %}{% decrement k %}{{ n }}{{ k }}", "{% assign n = x %}{% increment n %}{{ n }}",
        "{% increment x %}{{ x }}{% decrement y %}", "{% increment n-1 %}{% increment n-1 %}"),
    "ifchanged": (
        "{% ifchanged %}{{ x }}{% endifchanged %}", "{% ifchanged %}a{% endifchanged %}{% ifchanged %}a{% endifchanged %}",
        "{% for i in ys %}{% ifchanged %}{{ x }}{% endifchanged %}{% endfor %}", "{% ifchanged %}{% endifchanged %}"),
    "liquid": (
        "{% liquid assign z = x\n if z\n echo z\n else\n echo 'n'\n endif %}", "{% liquid\nfor i in ys\n echo i\nendfor %}",
        "{% liquid # c\n assign a = 1\n cycle 1, 2\n echo a %}", "{% liquid case x\n when 1\n echo 'a'\n else\n echo 'b'\n endcase %}", "{% liquid %}",
        "{% liquid echo x | append: 'b' %}", "{% liquid\n unless x\n  increment c\n endunless\n echo c %}",
        "{% liquid\n  assign v = y | default: 'd'\n\n  echo v\n  echo \"it's\"\n%}", "{% if x %}{% liquid echo y\n echo x %}{% endif %}",
        "{%- liquid\n echo x\n-%} tail"),
    "comment_raw_doc": (
        "{% comment %}hidden {{ x }}{% endcomment %}A{{ x }}", "{% comment %}a {% if %} b{% endcomment %}",
        "{% comment %}{% comment %}nested{% endcomment %}{% endcomment %}{{ y }}", "{% # inline %}{{ x }}", "{% #%}", "{% # a\n # b %}B",
        "{# hash #}{{ x }}", "{% doc %}some {{ x }} {% if %}{% enddoc %}{{ x }}", "{% raw %}abc{% endraw %}{{ x }}", "{% raw %}{% endraw %}",
        "a{% raw %} b }} %} c{% endraw %}", "{% if x %}{% comment %}c{% endcomment %}{% # d %}{% raw %}r{% endraw %}{% endif %}",
        "{% comment %}{% endcomment %}", "{% doc %}{% enddoc %}"),
    "raw_markup": (
        "{% raw %}{{ x }}{% endraw %}", "{% raw %}{% if %}{% endraw %}", "{% raw %}{{ {% endraw %}", "{% raw %}{% assign x = 1 %}{% endraw %}{{ x }}",
        "{% raw %}{% comment %}{% endraw %}"),
    "whitespace_control": (
        "{%- if x -%} A {%- endif -%}", " {{- x -}} b", "a {{ x -}}  b", "{% if x -%}\n A\n{%- else %} B {% endif %}", "{{ x }} \n {%- assign v = y %} {{- v }}",
        "{% for i in ys -%} {{ i }} {%- endfor %}"),
}
E3_POOL = {
    "cycle_plain": (
        "{% cycle 'a', 'b' %}{% cycle 'a', 'b' %}{% cycle 'a', 'b' %}", "{% cycle 'a', 'b' %}{% cycle 'a', 'c' %}{% cycle 'a', 'b' %}",
        "{% cycle 1, 2, 3 %}{% cycle 1, 2, 3 %}", "{% for i in ys %}{% cycle 'odd', 'even' %}{% endfor %}", "{% cycle 'a' %}{% cycle 'a' %}",
        "{% cycle x, 'b' %}{% cycle x, 'b' %}", "{% cycle true, false %}{% cycle true, false %}", "{% cycle m.k, 'z' %}{% cycle m['k'], 'z' %}{% cycle y, 'z' %}",
        "{% cycle \"it's\", 'a \"b\"' %}{% cycle \"it's\", 'a \"b\"' %}"),
    "cycle_vargroup": (
        "{% cycle g: 'a', 'b' %}{% cycle h: 'a', 'b' %}{% cycle g: 'a', 'b' %}", "{% cycle x: 1, 2 %}{% cycle y: 1, 2 %}{% cycle x: 1, 2 %}",
        "{% cycle 1: 'a', 'b' %}{% cycle 2: 'a', 'b' %}{% cycle 1: 'a', 'b' %}", "{% for i in ys %}{% cycle x: 'a', 'b' %}{% cycle 'a', 'b' %}{% endfor %}",
        "{% cycle x: 'a', 'b', 'c' %}{% cycle x: 'a', 'b' %}{% cycle nosuch: 'a', 'b' %}{% cycle nosuch2: 'a', 'b' %}"),
    "cycle_litgroup": (
        "{% cycle 'g': 'a', 'b' %}{% cycle 'h': 'a', 'b' %}", "{% cycle \"g\": 1, 2 %}{% cycle 'g': 1, 2 %}{% cycle 'k': 1, 2 %}",
        "{% cycle 'a b': 'a', 'b' %}", "{% for i in ys %}{% cycle 'x': 'a', 'b' %}{% cycle 'y': 'a', 'b' %}{% endfor %}"),
}
E3_LOOP = {
    "for_plain": (
        "{% for i in xs %}{{ i }}{% endfor %}", "{% for i in xs %}{{ i }}{% else %}E{% endfor %}", "{% for i in xs reversed limit: 2 %}{{ i }},{% endfor %}",
        "{% for i in xs limit: 1 %}a{{ i }}{% endfor %}{% for i in xs limit: 1 offset: continue %}b{{ i }}{% endfor %}{% for i in xs offset: continue %}c{{ i }}{% endfor %}",
        "{% for i in xs %}{% if i == o %}{% break %}{% endif %}{% if i == l %}{% continue %}{% endif %}{{ i }}{% endfor %}",
        "{% for c in 'ab' %}{{ c }}{% endfor %}", "{% for i in xs %}{{ forloop.first }}{{ forloop.last }}{{ forloop.rindex0 }}{% endfor %}",
        "{% for i in x %}{{ i }}{% else %}E{% endfor %}", "{% for i in (1..l) %}{{ i }}{% endfor %}"),
    "for_args": (
        "{% for i in xs limit: l offset: o reversed %}{{ i }}{% else %}E{% endfor %}",
        "{% for i in xs offset: 1, limit: l %}{{ forloop.index }}/{{ forloop.length }} {% endfor %}",
        "{% for i in xs limit: l %}{{ i }}{% endfor %}|{% for i in xs offset: continue %}{{ i }}{% endfor %}",
        "{% for i in (o..l) reversed %}{{ i }}{% endfor %}"),
    "for_args2": (
        "{% for i in xs %}{% for j in xs limit: l %}{{ i }}{{ j }}{{ forloop.parentloop.index }}{% endfor %};{% else %}E{% endfor %}",
        "{% for i in m.xs offset: m['o'] %}{{ i }}{% endfor %}", "{% for i in xs limit:l, offset:o %}{{ i }}{% else %}{% endfor %}",
        "{% for i in xs limit: l offset: o %}{{ forloop.index0 }}{{ forloop.rindex }}{% endfor %}"),
    "tablerow": (
        "{% tablerow i in xs %}{{ i }}{% endtablerow %}", "{% tablerow i in xs cols: 2 %}{{ i }}{% endtablerow %}",
        "{% tablerow i in xs cols: 2 limit: l offset: o %}{{ i }}{{ tablerowloop.col }}{% endtablerow %}",
        "{% tablerow i in (1..l) cols: o %}{{ tablerowloop.row }}{% endtablerow %}"),
    "include": (
        "{% include 'p' %}", "{% include 'p' with x %}", "{% include 'p' with x as q %}", "{% include 'q' for xs as q %}", "{% include 'q' for xs %}",
        "{% include 'p', x: 1, y: l %}", "{% include 'p' with x as q, y: 2 %}", "{% include \"p\" x: 'k' %}", "{% include nm %}",
        "{% for i in xs %}{% include 'q' %}{% endfor %}", "{% include 'p' with xs[0] as q, y: 'k' %}", "{% assign q = 'Q' %}{% include 'p' %}{{ q }}",
        "{% include nm with m.xs as q, x: m['o'], y: \"it's\" %}", "{% include 'q' with xs %}"),
    "render": (
        "{% render 'p' %}", "{% render 'p' with x %}", "{% render 'p' with x as q %}", "{% render 'q' for xs as q %}", "{% render 'q' for xs %}",
        "{% render 'p', x: 1, y: l %}", "{% render 'p' with x as q, y: 2 %}", "{% render \"p\" x: 'k' %}", "{% render 'q' with xs as q %}",
        "{% for i in xs %}{% render 'p', x: i, y: forloop.index %}{% endfor %}", "{% render 'p' with xs[0] as q, y: 'k' %}",
        "{% assign q = 'Q' %}{% render 'p' %}{{ q }}", "{% render 'q' for m.xs as q, x: m['o'] %}", "{% render 'q' for xs as q, x: \"it's\" %}"),
    "nested_a": (
        "{% for i in xs %}{% if i == l %}{% cycle 'a', 'b' %}{% else %}{% increment c %}{% endif %}{% endfor %}",
        "{% capture c %}{% for i in xs %}{{ i }}{% endfor %}{% endcapture %}{% if c == '' %}E{% else %}{{ c }}{% endif %}",
        "{% case x %}{% when 1 %}{% for i in xs %}{% if i == o %}{% break %}{% endif %}{{ i }}{% endfor %}{% else %}{% unless x %}U{% endunless %}{% endcase %}",
        "{% if x %}{% include 'p' with x %}{% else %}{% render 'q' for xs as q %}{% endif %}",
        "{% for i in xs %}{% liquid assign t = i | append: 'x'\n echo t %}{% endfor %}"),
    "nested_b": (
        "{% unless x %}{% for i in xs limit: l %}{% assign last = i %}{% endfor %}{{ last }}{% endunless %}",
        "{% for i in xs %}{% capture c %}{{ c }}{{ i }}{% endcapture %}{% endfor %}{{ c }}",
        "{% for i in xs %}{% case i %}{% when 0, 2 %}{% cycle 1: 'a', 'b' %}{% else %}{% continue %}{% endcase %}{{ forloop.index }}{% endfor %}",
        "{% liquid for i in xs\n if i == o\n  break\n endif\n render 'p', x: i\n endfor %}{% comment %}done{% endcomment %}",
        "{% assign n = 'p' %}{% for i in xs limit: l %}{% include n with i as y %}{% decrement d %}{% endfor %}{% echo d %}"),
}
E3 = {}
for _g in E3_XY:
    E3[_g] = [RT(s) for s in E3_XY[_g]]
for _g in E3_LOOP:
    E3[_g] = [RT(s) for s in E3_LOOP[_g]]
for _g in E3_POOL:
    E3[_g] = [RT(s) for s in E3_POOL[_g]]
YS = [0, 1, 2]
POOL = (None, True, 1, "1", "a")


def pool_value(i):
    for j in range(len(POOL)):
        if i == j:
            return POOL[j]
    return None


def pool_data(xi, yi):
    """x / y from a small pool (cycle group names and items become dictionary keys, which concretises symbolic
    strings); index 5 = the name is absent from the data."""
    d = {"ys": YS}
    if xi != 5:
        x = pool_value(xi)
        d["x"] = x
        d["g"] = x
        d["m"] = {"k": x}
    if yi != 5:
        y = pool_value(yi)
        d["y"] = y
        d["h"] = y
    return d


def xy_data(x, y):
    return {"x": x, "y": y, "g": x, "h": y, "ys": YS, "m": {"k": x, "j": y}}


def loop_data(n, l, o, x):
    xs = list(range(n))
    return {"xs": xs, "l": l, "o": o, "x": x, "nm": "p", "m": {"xs": xs, "o": o}}


def _mk_xy(name, recs):
    def f(k: int, x: V, y: VS) -> bool:
        """
        pre: 0 <= k <= 13
        pre: not isinstance(x, str) or len(x) <= 2
        pre: not isinstance(x, int) or 0 <= x <= 9
        pre: not isinstance(y, int) or 0 <= y <= 9
        post: _
        """
        # k selects the skeleton; x is nil / bool / 0..9 / a string of <= 2 characters, y is nil / bool / 0..9
        if excluded(name, locals()):
            return True
        rec = pick(recs, k)
        if rec is None:
            return True
        return finish(check(rec, xy_data(x, y)))
    f.__name__ = f.__qualname__ = name

    def det(k, x, y):
        rec = pick(recs, k)
        return None if rec is None else describe(rec, xy_data(x, y))
    DETAIL[name] = det
    return f


def _mk_pool(name, recs):
    def f(k: int, xi: int, yi: int) -> bool:
        """
        pre: 0 <= k <= 11
        pre: 0 <= xi <= 5 and 0 <= yi <= 5
        post: _
        """
        # k selects the skeleton; xi, yi select x / y from POOL (5 = undefined)
        if excluded(name, locals()):
            return True
        rec = pick(recs, k)
        if rec is None:
            return True
        return finish(check(rec, pool_data(xi, yi)))
    f.__name__ = f.__qualname__ = name
    DETAIL[name] = lambda k, xi, yi: sel_detail(recs, k, pool_data(xi, yi))
    return f


def _mk_loop_s(name, recs):
    def f(k: int, n: int, l: int, o: int, x: str) -> bool:
        """
        pre: 0 <= k <= 15
        pre: 0 <= n <= 3 and -1 <= l <= 2 and -1 <= o <= 2
        pre: len(x) <= 2
        post: _
        """
        # as _mk_loop with a string x (partials only print it)
        if excluded(name, locals()):
            return True
        rec = pick(recs, k)
        if rec is None:
            return True
        return finish(check(rec, loop_data(n, l, o, x)))
    f.__name__ = f.__qualname__ = name
    DETAIL[name] = lambda k, n, l, o, x: sel_detail(recs, k, loop_data(n, l, o, x))
    return f


def _mk_loop(name, recs):
    def f(k: int, n: int, l: int, o: int, x: V) -> bool:
        """
        pre: 0 <= k <= 15
        pre: 0 <= n <= 3 and -1 <= l <= 2 and -1 <= o <= 2
        pre: not isinstance(x, str) or len(x) <= 2
        pre: not isinstance(x, int) or 0 <= x <= 9
        post: _
        """
        # k selects the skeleton; xs = [0..n-1]; l, o are limit / offset / cols / break index
        if excluded(name, locals()):
            return True
        rec = pick(recs, k)
        if rec is None:
            return True
        return finish(check(rec, loop_data(n, l, o, x)))
    f.__name__ = f.__qualname__ = name

    def det(k, n, l, o, x):
        rec = pick(recs, k)
        return None if rec is None else describe(rec, loop_data(n, l, o, x))
    DETAIL[name] = det
    return f


_E3_BUDGET = {"for_plain": (60, 240), "for_args": (60, 300), "for_args2": (None, 300), "include": (60, 240), "render": (60, 240), "nested_a": (60, 240), "nested_b": (None, 240)}
for _g in E3_XY:
    _q, _t = _E3_BUDGET.get(_g, (60, 150))
    add("e3_" + _g, _mk_xy, E3[_g], _q, _t)
for _g in E3_LOOP:
    _q, _t = _E3_BUDGET.get(_g, (40, 150))
    add("e3_" + _g, _mk_loop_s if _g in ("include", "render") else _mk_loop, E3[_g], _q, _t)
for _g in E3_POOL:
    add("e3_" + _g, _mk_pool, E3[_g], 60, 150, sel_only=True)

# ---- the shared corpus (members built from the standard tags only): str() parses, is a fixed point, renders the same ----
from harness import corpus as _corpus  # noqa: E402

_CENV = _corpus.make_env(Env)


def _corpus_skip(w2, w1, leaf):
    src = _corpus.source(w2, w1, leaf)
    # extra tags: outside the quantifier; raw blocks: their str() drops the tags (listed known finding, c04_e3_raw_markup)
    return "{% with" in src or "{% macro" in src or "{% translate" in src or "{% raw" in src


def _corpus_check(w2, w1, leaf, d):
    t = _corpus.template(_CENV, w2, w1, leaf)
    if t is None:
        return None
    s = str(t)
    try:
        t2 = _CENV.from_string(s)
    except Exception as e:
        return {"str": s, "reparse": type(e).__name__}
    if str(t2) != s:
        return {"str": s, "str_of_reparsed": str(t2)}
    a = _corpus.outcome(lambda: t.render(**_corpus.data(d)))
    b = _corpus.outcome(lambda: t2.render(**_corpus.data(d)))
    return None if a == b else {"str": s, "render_original": a, "render_reparsed": b}


c04_corpus, _det = _corpus.mk_condition("c04_corpus", _corpus_check, _corpus_skip)
DETAIL["c04_corpus"] = _det
CONDITIONS.append({"fn": "c04_corpus", "quick": 90, "thorough": 200, "sel_only": True, "bounds": _corpus.BOUNDS + ", members with extra tags skipped"})

ASSUMPTIONS = [
    "template sources are concrete members of generated / listed families (harness/c04.py); parse, str and re-parse run once per member on the real code, "
    "rendering of the original and of the re-parsed template runs with symbolic data",
    "environment: default tags and filters, logical_not_operator, logical_parentheses and ternary_expressions enabled, partials 'p' and 'q' from a pre-filled caching loader",
    "render equality includes equality of the raised Liquid error class when both renders fail",
    "symbolic data: nil / bool / integers 0..9 / strings of <= 2 characters (<= 1 where the string is compared with or joined to a literal), "
    "arrays [0..n-1] with n <= 3, limit / offset / cols / break index -1..2, array index -2..2, range bounds 0..4",
    "cycle group names and cycle items come from the pool (nil, true, 1, '1', 'a', undefined): they become dictionary keys, which would concretise symbolic strings",
    "the harness renders with render_with_context on a fresh RenderContext(template, globals=data) instead of BoundTemplate.render(**data) "
    "(same code minus a dict copy; compared on every family member by the self-test)",
    "families are partitioned by the shape of the PARSED expression / literal content, never by the outcome of the round trip",
]
OUTSIDE = [
    "extra tags (with, macro/call, extends/block, translate ...), custom tags and filters",
    "whitespace control markers and the exact text of comments are not compared (only parse success, rendering and the str fixpoint)",
    "logical trees with more than 4 leaves, depth > 3, or more than one `not` on 4-leaf trees",
    "string literals longer than 2 characters or outside the alphabet {' \" \\ newline a space}; strings containing both quote characters are not expressible in Liquid",
    "arrays longer than 3, integers outside 0..9 in output position",
    "async rendering (C01), static analysis of the re-parsed template",
]


def selftest():
    fails = []
    # generator and shape classification against the real parser
    for t in T0_3 + T1_3 + TN_3 + T0_4 + T1_4 + T_MORE:
        got = to_tree(ENV.from_string(wrap(text(t, True), "if")).nodes[0].condition)
        if got != t:
            fails.append("explicit source does not parse into its tree: %r" % (text(t, True),))
        got = to_tree(ENV.from_string(wrap(text(t, False), "if")).nodes[0].condition)
        if got != t:
            fails.append("minimal source does not parse into its tree: %r" % (text(t, False),))
    want = {"a and b or c": None, "(a and b) or c": "orand", "(not a) and b": "barenot", "a or (b and c)": "safe", "(a or b) and c": "safe",
            "not (a and b)": "safe", "a and not b": "safe", "(a or not b) or c": "barenot", "(a or (b and c)) or d": "orand", "(not a) == b": "cmpgroup"}
    for e, cls in want.items():
        got = shape_class(to_tree(ENV.from_string(wrap(e, "if")).nodes[0].condition))
        if cls is not None and got != cls:
            fails.append("shape_class(%s) = %s, expected %s" % (e, got, cls))
    # round trips fixed by tests/test_template_str.py
    for s in ("Hello\n", "{{ a.b }}", "{% assign x = y %}", "{% capture foo %}Hello, {{ you }}!{% endcapture %}", "{% cycle 1, 2, 3 %}",
              "{% cycle foo: 1, 2, 3 %}", "{% decrement foo %}", "{% increment foo %}"):
        r = RT(s)
        if r.S != s or not check(r, {"a": {"b": 1}, "y": 2, "you": "u", "foo": "f"}):
            fails.append("repo-tested round trip changed: %r -> %r" % (s, r.S))
    # the oracle must reject a record whose re-parsed side is another template, does not parse, or has another text
    good = RT("{% if a %}T{% else %}F{% endif %}")
    bad = RT("{% if a %}T{% else %}F{% endif %}")
    bad.T2 = ENV.from_string("{% if a %}T{% else %}G{% endif %}")
    if not check(good, {"a": False}) or check(bad, {"a": False}) or not check(bad, {"a": True}):
        fails.append("oracle does not compare renders")
    bad.T2 = None
    _TEXT_OK.clear()
    if check(bad, {"a": True}):
        fails.append("oracle accepts a failed re-parse")
    bad.T2 = good.T2
    bad.S2 = bad.S + " "
    _TEXT_OK.clear()
    if check(bad, {"a": True}):
        fails.append("oracle accepts a str() that is not a fixpoint")
    # the harness's render() shortcut against BoundTemplate.render
    sample = {"x": 1, "y": "a", "xs": [0, 1, 2], "l": 2, "o": 1, "a": True, "b": False, "c": "c", "d": True, "nm": "p", "ys": YS, "m": {"k": 1, "xs": [3], "o": 0}}
    _TEXT_OK.clear()
    for name, recs in FAMILIES.items():
        if not recs:
            fails.append("empty family " + name)
        for rec in recs:
            if isinstance(rec, RT):
                try:
                    want_out = rec.T.render(**sample)
                except LiquidError as e:
                    want_out = "ERR:" + type(e).__name__
                if render(rec.T, sample) != want_out:
                    fails.append("render() shortcut differs from BoundTemplate.render on %r" % (rec.src,))
    return fails
