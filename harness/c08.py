"""C08 Resource limits only abort a render, never alter its output.

Relational. For each limit kind K (loop iterations, output bytes, local namespace size,
context depth, block nesting) and skeleton template T, with symbolic data sizes and symbolic
limits L1 <= L2: r(L) is either the unlimited output or a ResourceLimitError, and
ok(L1) => r(L2) == r(L1) (success is monotone in the limit).
"""
from liquid import CachingDictLoader, Environment
from liquid import context as ctxmod
from liquid.exceptions import LiquidError, ResourceLimitError

from vf.hx import cint, excluded, finish, untraced

PROPERTY = "C08"


class Env(Environment):
    loop_iteration_limit = None
    output_stream_limit = None
    local_namespace_limit = None
    context_depth_limit = 30


PARTIALS = {
    "p": "<{{ v }}{{ forloop.index }}{{ forloop.parentloop.index }}{{ forloop.length }}>",
    "rec": "{{ d }}{% if d < n %}{% assign d = d | plus: 1 %}{% include 'rec' %}{% endif %}",
    "rrec": "{{ d }}{% if d < n %}{% assign e = d | plus: 1 %}{% render 'rrec', d: e, n: n %}{% endif %}",
    "ploop": "{% for j in ys %}{{ j }}{{ forloop.parentloop.index }}{{ forloop.parentloop.length }}{{ forloop.index }}{{ forloop.length }}{% endfor %}{{ forloop.index }}",
    "base": "[{% block b %}{% for i in xs %}b{% endfor %}{% endblock %}]",
}
ENV = Env(extra=True, loader=CachingDictLoader(PARTIALS, auto_reload=False))
for _p in PARTIALS:
    ENV.get_template(_p)

SKEL = {
    "nested_loops": "{% for i in xs %}{% for j in ys %}{{ i }}{{ j }}{{ forloop.parentloop.index }}{{ forloop.parentloop.length }}{{ forloop.rindex }}{% endfor %};{% endfor %}",
    "tablerow_loop": "{% tablerow i in xs cols: 2 %}{% for j in ys %}{{ j }}{{ forloop.parentloop.index }}{{ tablerowloop.col }}{{ forloop.length }}{% endfor %}{% endtablerow %}",
    "capture_loop": "{% for i in xs %}{% capture c %}{{ c }}{{ i }}{% endcapture %}{% endfor %}{{ c }}",
    "assigns": "{% assign a = v %}{% for i in xs %}{% assign b = i %}{{ a }}{{ b }}{% endfor %}",
    "include_rec": "{% assign d = 0 %}{% assign n = m %}{% include 'rec' %}",
    "render_rec": "{% render 'rrec', d: 0, n: m %}",
    "render_for_loop": "{% render 'ploop' for xs, ys: ys %}",
    "render_for_in_for": "{% for i in ys %}{% render 'ploop' for xs, ys: ys %}{% render 'p' for xs as v %}{% endfor %}",
    "include_for_in_for": "{% for i in ys %}{% include 'ploop' for xs %}{% include 'p' for xs as v %}{% endfor %}",
    "include_for": "{% include 'p' for xs %}{% for i in ys %}{% include 'p', v: i %}{% endfor %}",
    "extends": "{% extends 'base' %}{% block b %}{{ block.super }}{% for j in ys %}c{% endfor %}{% endblock %}",
    "ifchanged_cycle": "{% for i in xs %}{% ifchanged %}{{ v }}{% endifchanged %}{% cycle 'a', 'b' %}{% endfor %}",
    "capture_unused": "{{ v }}{% capture c %}{% for i in xs %}{{ v }}{% endfor %}abc{% endcapture %}{% if m > 5 %}{{ c }}{% endif %}",
    "ifchanged_unused": "{{ v }}{% for i in ys %}{% ifchanged %}{% endifchanged %}{% capture d %}{{ v }}{{ i }}{% endcapture %}{% endfor %}",
    "super_unused": "{% extends 'base' %}{% block b %}{% capture s %}{{ block.super }}{{ v }}{% endcapture %}z{% endblock %}",
    "macro_loop": "{% macro f, q %}{% for j in ys %}{{ q }}{{ forloop.parentloop.index }}{{ forloop.index }}{% endfor %}{% endmacro %}{% for i in xs %}{% call f, i %}{% endfor %}",
}
T = {k: ENV.from_string(v) for k, v in SKEL.items()}

KINDS = ("loop", "output", "namespace", "depth")
ATTR = {"loop": "loop_iteration_limit", "output": "output_stream_limit", "namespace": "local_namespace_limit", "depth": "context_depth_limit"}
DEFAULT = {"loop": None, "output": None, "namespace": None, "depth": 30}


class _Sys:
    def getsizeof(self, obj, default=1):
        if issubclass(type(obj), str):  # type(), not isinstance(): strict undefined objects reject __class__
            return 1 + len(obj)
        return 1


_real_sys = ctxmod.sys


def reset():
    for k in KINDS:
        setattr(ENV, ATTR[k], DEFAULT[k])


def run(t, kind, L, data):
    reset()
    setattr(ENV, ATTR[kind], L)
    ctxmod.sys = _Sys()
    try:
        try:
            return ("ok", t.render(**data))
        except ResourceLimitError:
            return ("limit", None)
        except LiquidError as e:
            return ("err", type(e).__name__)
    finally:
        ctxmod.sys = _real_sys
        reset()


def _mk(kind, skel):
    nm = "c08_%s_%s" % (kind, skel)

    def f(n: int, k: int, m: int, L1: int, L2: int) -> bool:
        """
        pre: 0 <= n <= 3 and 0 <= k <= 2 and 0 <= m <= 3
        pre: 0 <= L1 <= L2 <= 40
        post: _
        """
        if excluded(nm, locals()):
            return True
        data = {"xs": list(range(n)), "ys": list(range(k)), "m": m, "v": "é" + chr(13) + chr(10)}
        reset()
        ctxmod.sys = _Sys()
        try:
            try:
                full = ("ok", T[skel].render(**data))
            except LiquidError as e:
                full = ("err", type(e).__name__)
        finally:
            ctxmod.sys = _real_sys
        r1 = run(T[skel], kind, L1, data)
        r2 = run(T[skel], kind, L2, data)
        ok = (r1 == full or r1[0] == "limit") and (r2 == full or r2[0] == "limit")
        if r1[0] == "ok":
            ok = ok and r2 == r1
        return finish(ok)
    f.__name__ = f.__qualname__ = nm
    return nm, f


CONDITIONS = []
_QUICK = {("loop", "render_for_in_for"), ("loop", "include_for_in_for"), ("output", "render_for_in_for"), ("depth", "render_for_in_for"), ("loop", "nested_loops"), ("loop", "tablerow_loop"), ("loop", "render_for_loop"), ("loop", "macro_loop"), ("loop", "include_for"),
          ("output", "capture_loop"), ("output", "capture_unused"), ("output", "ifchanged_unused"), ("output", "super_unused"), ("output", "nested_loops"), ("output", "include_rec"), ("output", "extends"), ("output", "ifchanged_cycle"),
          ("namespace", "assigns"), ("namespace", "capture_loop"), ("namespace", "render_rec"), ("namespace", "include_rec"),
          ("depth", "include_rec"), ("depth", "render_rec"), ("depth", "nested_loops"), ("depth", "extends"), ("depth", "macro_loop")}
for _kind in KINDS:
    for _s in SKEL:
        _nm, _f = _mk(_kind, _s)
        globals()[_nm] = _f
        CONDITIONS.append({"fn": _nm, "quick": 80 if (_kind, _s) in _QUICK else None, "thorough": 300})


# ---- strict undefined types: the limit accounting must not trip over an undefined local -------------------------------
from liquid import StrictDefaultUndefined, StrictUndefined  # noqa: E402


class SEnv(Env):
    pass


class SDEnv(Env):
    pass


S_ENVS = {"strict": SEnv(extra=True, undefined=StrictUndefined, loader=CachingDictLoader(PARTIALS, auto_reload=False)),
          "strictdefault": SDEnv(extra=True, undefined=StrictDefaultUndefined, loader=CachingDictLoader(PARTIALS, auto_reload=False))}
S_SKEL = {
    "assign_undefined": "{% assign t = nothing.here %}<{{ v }}>{% assign w = v %}{% capture c %}{{ w }}{% endcapture %}{{ c | size }}",
    "assign_undefined_render": "{% assign t = missing %}{% render 'p', v: 1 %}{% for i in xs %}{% assign q = i %}{% endfor %}{{ v }}",
}
ST = {(e, k): S_ENVS[e].from_string(v) for e in S_ENVS for k, v in S_SKEL.items()}


def _mk_strict(ename, kind, skel):
    nm = "c08_%s_%s_%s" % (ename, kind, skel)

    def f(n: int, L1: int, L2: int) -> bool:
        """
        pre: 0 <= n <= 2
        pre: 0 <= L1 <= L2 <= 40
        post: _
        """
        if excluded(nm, locals()):
            return True
        # CrossHair's isinstance() does not consult __class__, which is exactly how a strict undefined object
        # reacts to being inspected: these conditions run untraced on concrete values
        n, L1, L2 = cint(n, 0, 2), cint(L1, 0, 40), cint(L2, 0, 40)
        return finish(untraced(lambda: case(n, L1, L2)))

    def case(n, L1, L2):
        env = S_ENVS[ename]
        t = ST[(ename, skel)]
        data = {"xs": list(range(n)), "v": "é"}

        def run1(L):
            for k in KINDS:
                setattr(type(env), ATTR[k], DEFAULT[k])
            if L is not None:
                setattr(type(env), ATTR[kind], L)
            ctxmod.sys = _Sys()
            try:
                try:
                    return ("ok", t.render(**data))
                except ResourceLimitError:
                    return ("limit", None)
                except LiquidError as e:
                    return ("err", type(e).__name__)
            finally:
                ctxmod.sys = _real_sys
                for k in KINDS:
                    setattr(type(env), ATTR[k], DEFAULT[k])
        full = run1(None)
        r1 = run1(L1)
        r2 = run1(L2)
        ok = (r1 == full or r1[0] == "limit") and (r2 == full or r2[0] == "limit")
        if r1[0] == "ok":
            ok = ok and r2 == r1
        return ok
    f.__name__ = f.__qualname__ = nm
    return nm, f


for _e in S_ENVS:
    for _kind in ("namespace", "output", "loop"):
        for _s in S_SKEL:
            _nm, _f = _mk_strict(_e, _kind, _s)
            globals()[_nm] = _f
            CONDITIONS.append({"fn": _nm, "quick": 60 if _kind == "namespace" else None, "thorough": 200, "sel_only": True})


# ---- block nesting limit (parse time; sources are concrete, so depth is a selector) -----------------
def nest_src(d, kind):
    src = "x"
    for i in range(d):
        if kind == 0:
            src = "{% if true %}" + src + "{% endif %}"
        elif kind == 1:
            src = "{% for i in (1..1) %}" + src + "{% endfor %}"
        else:
            src = "{% unless false %}{% case 1 %}{% when 1 %}" + src + "{% endcase %}{% endunless %}"
    return src


class BEnv(Environment):
    block_nesting_limit = 30


BENV = BEnv()


def brun(src, L):
    BENV.block_nesting_limit = L
    try:
        try:
            return ("ok", BENV.from_string(src).render())
        except ResourceLimitError:
            return ("limit", None)
        except LiquidError as e:
            return ("err", type(e).__name__)
    finally:
        BENV.block_nesting_limit = 30


def c08_block_nesting(d: int, kind: int, L1: int, L2: int) -> bool:
    """
    pre: 0 <= d <= 5 and 0 <= kind <= 2
    pre: 0 <= L1 <= L2 <= 14
    post: _
    """
    if excluded("c08_block_nesting", locals()):
        return True
    d, kind, L1, L2 = cint(d, 0, 5), cint(kind, 0, 2), cint(L1, 0, 14), cint(L2, 0, 14)
    return finish(untraced(lambda: _nesting_case(d, kind, L1, L2)))


def _nesting_case(d, kind, L1, L2):
    src = nest_src(d, kind)
    full = brun(src, 1000)
    r1 = brun(src, L1)
    r2 = brun(src, L2)
    ok = (r1 == full or r1[0] == "limit") and (r2 == full or r2[0] == "limit")
    if r1[0] == "ok":
        ok = ok and r2 == r1
    return ok and full == ("ok", "x")


CONDITIONS.append({"fn": "c08_block_nesting", "quick": 90, "thorough": 300, "sel_only": True})

# ---- the shared corpus: generous limits of every kind leave the outcome of a render unchanged --------------------------
from harness import corpus as _corpus  # noqa: E402


class _GenerousEnv(_corpus.CorpusEnv):
    loop_iteration_limit = 10 ** 6
    output_stream_limit = 10 ** 7
    local_namespace_limit = 10 ** 7
    context_depth_limit = 30


_C_PLAIN = _corpus.make_env()
_C_LIMITED = _corpus.make_env(_GenerousEnv)


def _corpus_check(w2, w1, leaf, d):
    t0, t1 = _corpus.template(_C_PLAIN, w2, w1, leaf), _corpus.template(_C_LIMITED, w2, w1, leaf)
    if t0 is None or t1 is None:
        return None if t0 is t1 else {"parses": (t0 is not None, t1 is not None)}
    a = _corpus.outcome(lambda: t0.render(**_corpus.data(d)))
    b = _corpus.outcome(lambda: t1.render(**_corpus.data(d)))
    return None if a == b else {"no limits": a, "generous limits": b}


c08_corpus, _det = _corpus.mk_condition("c08_corpus", _corpus_check)
DETAIL = globals().get("DETAIL", {})
DETAIL["c08_corpus"] = _det
CONDITIONS.append({"fn": "c08_corpus", "quick": 90, "thorough": 200, "sel_only": True,
                   "bounds": _corpus.BOUNDS + "; loop 10**6, output 10**7, namespace 10**7 (real sys.getsizeof), depth 30"})


# ---- text that is awkward to encode or count (lone surrogates, NUL, CR LF, astral and multi-byte characters, separators): an
# output limit still only aborts, with OutputStreamLimitError, or leaves the unlimited output unchanged ----------------------
U_TEXT = ["\ud800", "a\udfffb", "\x00", "\u00e9\ud83d", "\r\n", "\U0001f600", "\u2028x", "\r", "plain", "\udc80\udcff"]
U_SRC = ["{{ v }}", "{% capture c %}{{ v }}{% endcapture %}{{ c }}{{ c | size }}", "{% for i in (1..2) %}{% ifchanged %}{{ v }}{% endifchanged %}{% endfor %}",
         "{% extends 'ub' %}{% block x %}{{ block.super }}{{ v }}{% endblock %}", "lit \ud800 {{ v }} \udfff", "{% render 'up', v: v %}{% include 'up' %}",
         "{{ v | append: v | upcase }}{% echo v %}", "{% cycle v, 'a' %}{% cycle v, 'a' %}"]
U_LIMITS = (0, 1, 2, 3, 4, 5, 8, 13, 21, 10 ** 7)


class _UEnv(Environment):
    output_stream_limit = None


_U_ENV = _UEnv(extra=True, loader=__import__("liquid").CachingDictLoader({"ub": "[{% block x %}b{{ v }}{% endblock %}]", "up": "<{{ v }}>"}, auto_reload=False))
_U_T = {}


def unusual_text_sweep(si, use_async):
    if si not in _U_T:
        _U_T[si] = _U_ENV.from_string(U_SRC[si])
    t = _U_T[si]
    bad = []

    def run(v):
        try:
            if use_async:
                from vf.hx import drive
                return ("ok", drive(t.render_async(v=v)))
            return ("ok", t.render(v=v))
        except LiquidError as e:
            return ("liquid", type(e).__name__)
        except Exception as e:
            return ("other", type(e).__name__)
    for v in U_TEXT:
        _U_ENV.output_stream_limit = None
        full = run(v)
        succeeded = False
        for L in U_LIMITS:
            _U_ENV.output_stream_limit = L
            try:
                r = run(v)
            finally:
                _U_ENV.output_stream_limit = None
            if r != full and r != ("liquid", "OutputStreamLimitError"):
                bad.append({"text": ascii(v), "limit": L, "limited": ascii(r), "unlimited": ascii(full)})
            elif succeeded and r != full:
                bad.append({"text": ascii(v), "limit": L, "limited": ascii(r), "but a smaller limit gave": ascii(full)})
            succeeded = succeeded or r == full
    return bad


def c08_unusual_text(si: int, use_async: bool) -> bool:
    """
    pre: 0 <= si <= 7
    post: _
    """
    if excluded("c08_unusual_text", locals()):
        return True
    from vf.hx import cbool, cint, untraced
    si, use_async = cint(si, 0, 7), cbool(use_async)
    return finish(untraced(lambda: not unusual_text_sweep(si, use_async)))


DETAIL["c08_unusual_text"] = lambda si, use_async: {"template": ascii(U_SRC[si]), "failing": unusual_text_sweep(si, use_async)[:3]}
CONDITIONS.append({"fn": "c08_unusual_text", "quick": 40, "thorough": 80, "sel_only": True,
                   "bounds": "8 templates x 10 texts (lone surrogates, NUL, CR, LF, astral, separators) x 10 output limits, sync and async"})

ASSUMPTIONS = [
    "limits are class attributes of a harness Environment subclass, set per run; data sizes, recursion depth m and both limits are symbolic",
    "sys.getsizeof in liquid.context is replaced by a deterministic size function (str: 1 + len, other: 1)",
    "block nesting: sources are generated from a symbolic depth selector (0..5) and kind; parsed inside the harness",
]
OUTSIDE = ["limits above 40", "data sizes above 3", "LAX/WARN modes (limit errors are suppressed there by design)"]


def selftest():
    fails = []
    reset()
    if T["include_rec"].render(m=2) != "012":
        fails.append("include_rec baseline: %r" % T["include_rec"].render(m=2))
    if T["render_rec"].render(m=2) != "012":
        fails.append("render_rec baseline: %r" % T["render_rec"].render(m=2))
    return fails
