"""C25 Built-in filters honour their documented contracts.

Real code executed symbolically: the registered filter callables of a default
Environment (liquid/builtin/filters/{string,array,math,misc}.py, the decorators
of liquid/filter.py, liquid/utils/text.py, liquid/limits.py), called directly
with symbolic arguments, plus a few whole renders of `{{ x | f: y }}` skeletons.
Oracles: one per clause of the property statement - Python string methods,
list comprehensions, window slicing, integer arithmetic - written independently
of the filter bodies; don't-cares where /repo/docs/filter_reference.md is silent
(listed in OUTSIDE). The domain of a clause is partitioned into several
conditions where a known defect would otherwise hide the rest of the domain.
"""
from decimal import ROUND_CEILING, ROUND_FLOOR, ROUND_HALF_EVEN, ROUND_HALF_UP, Decimal
from typing import Optional, Union

from liquid import Environment
from liquid.exceptions import LiquidError
from liquid.undefined import is_undefined

from vf.hx import cint, excluded, finish, untraced

PROPERTY = "C25"
ENV = Environment()
F = ENV.filters

f_size = F["size"]
f_upcase = F["upcase"]
f_downcase = F["downcase"]
f_capitalize = F["capitalize"]
f_strip = F["strip"]
f_lstrip = F["lstrip"]
f_rstrip = F["rstrip"]
f_strip_newlines = F["strip_newlines"]
f_split = F["split"]
f_join = F["join"]
f_reverse = F["reverse"]
f_sort = F["sort"]
f_sort_natural = F["sort_natural"]
f_uniq = F["uniq"]
f_compact = F["compact"]
f_concat = F["concat"]
f_map = F["map"]
f_where = F["where"]
f_reject = F["reject"]
f_slice = F["slice"]
f_first = F["first"]
f_last = F["last"]
f_truncate = F["truncate"]
f_truncatewords = F["truncatewords"]
f_plus = F["plus"]
f_minus = F["minus"]
f_times = F["times"]
f_divided_by = F["divided_by"]
f_modulo = F["modulo"]
f_abs = F["abs"]
f_ceil = F["ceil"]
f_floor = F["floor"]
f_round = F["round"]
f_at_least = F["at_least"]
f_at_most = F["at_most"]
f_default = F["default"]

UNDEF = ENV.undefined("nosuchthing")


class Err:
    """A Liquid error raised by a filter, as a value (the message is never touched)."""

    def __init__(self, name):
        self.name = name

    def __repr__(self):
        return "ERR:" + self.name


def call(f, *args, **kw):
    """Filter call with Liquid errors mapped to a value (never str(exc))."""
    try:
        return f(*args, **kw)
    except LiquidError as e:
        return Err(type(e).__name__)


def is_err(r):
    return isinstance(r, Err)


def mk(n, a, b, c):
    if n <= 0:
        return []
    if n == 1:
        return [a]
    if n == 2:
        return [a, b]
    return [a, b, c]


def same_items(xs, ys):
    """Element-wise identity-or-equality of two lists of the same length."""
    if len(xs) != len(ys):
        return False
    for i in range(len(xs)):
        if not (xs[i] is ys[i] or xs[i] == ys[i]):
            return False
    return True


def count(xs, v):
    k = 0
    for x in xs:
        if x == v:
            k += 1
    return k


def permutation(r, xs):
    if len(r) != len(xs):
        return False
    for x in xs:
        if count(r, x) != count(xs, x):
            return False
    return True


def fresh_list(r, *inputs):
    if type(r) is not list:
        return False
    for i in inputs:
        if r is i:
            return False
    return True


def small(b, lo, hi):
    """The concrete value of an int known to lie in lo..hi: one path per value, so
    that multiplication / division by it stays linear for the solver."""
    for k in range(lo, hi + 1):
        if b == k:
            return k
    return hi


BIG = [-(1 << 63), -(1 << 31) - 1, -(1 << 31), (1 << 31) - 1, 1 << 31, (1 << 63) - 1]


def big(k):
    """BIG[k] by an if-chain (no symbolic index into a list)."""
    for i in range(len(BIG)):
        if k == i:
            return BIG[i]
    return BIG[0]


# --- size ---------------------------------------------------------------------
def c25_size_str(s: str) -> bool:
    """
    pre: len(s) <= 3
    post: _
    """
    if excluded("c25_size_str", locals()):
        return True
    return finish(call(f_size, s) == len(s))


def c25_size_sized(n: int, kind: int, a: int) -> bool:
    """
    pre: 0 <= n <= 4
    pre: 0 <= kind <= 3
    post: _
    """
    # list / tuple / dict / range of n items
    if excluded("c25_size_sized", locals()):
        return True
    if kind == 0:
        v = [a + i for i in range(n)]
    elif kind == 1:
        v = tuple([a + i for i in range(n)])
    elif kind == 2:
        v = {}
        for i in range(n):
            v["k%d" % i] = a
    else:
        v = range(n)
    return finish(call(f_size, v) == n)


def c25_size_unsized(v: Union[None, bool, int]) -> bool:
    """
    post: _
    """
    # nil, booleans, integers and undefined have size 0 (floats: see c25_decimal_pool)
    if excluded("c25_size_unsized", locals()):
        return True
    ok = call(f_size, v) == 0
    return finish(ok and call(f_size, UNDEF) == 0)


# --- case and whitespace filters -------------------------------------------------
def c25_upcase(s: str) -> bool:
    """
    pre: len(s) <= 3
    pre: all(c in "abAZ1 -" for c in s)
    post: _
    """
    if excluded("c25_upcase", locals()):
        return True
    return finish(call(f_upcase, s) == s.upper())


def c25_downcase(s: str) -> bool:
    """
    pre: len(s) <= 3
    pre: all(c in "abAZ1 -" for c in s)
    post: _
    """
    if excluded("c25_downcase", locals()):
        return True
    return finish(call(f_downcase, s) == s.lower())


def c25_capitalize(s: str) -> bool:
    """
    pre: len(s) <= 3
    pre: all(c in "abAZ1 -" for c in s)
    post: _
    """
    if excluded("c25_capitalize", locals()):
        return True
    exp = (s[:1].upper() + s[1:].lower())
    return finish(call(f_capitalize, s) == exp)


WS = " \t\n\r"
A_WS = " \t\na"
A_NL = "a\r\n "


def ref_lstrip(s):
    i = 0
    while i < len(s) and s[i] in WS:
        i += 1
    return s[i:]


def ref_rstrip(s):
    j = len(s)
    while j > 0 and s[j - 1] in WS:
        j -= 1
    return s[:j]


def c25_strip(s: str) -> bool:
    """
    pre: len(s) <= 3
    pre: all(c in A_WS for c in s)
    post: _
    """
    if excluded("c25_strip", locals()):
        return True
    return finish(call(f_strip, s) == ref_lstrip(ref_rstrip(s)))


def c25_lstrip(s: str) -> bool:
    """
    pre: len(s) <= 3
    pre: all(c in A_WS for c in s)
    post: _
    """
    if excluded("c25_lstrip", locals()):
        return True
    return finish(call(f_lstrip, s) == ref_lstrip(s))


def c25_rstrip(s: str) -> bool:
    """
    pre: len(s) <= 3
    pre: all(c in A_WS for c in s)
    post: _
    """
    if excluded("c25_rstrip", locals()):
        return True
    return finish(call(f_rstrip, s) == ref_rstrip(s))


def c25_strip_newlines(s: str) -> bool:
    """
    pre: len(s) <= 3
    pre: all(c in A_NL for c in s)
    post: _
    """
    # documented: "\n" and "\r\n" are removed (a lone "\r" stays)
    if excluded("c25_strip_newlines", locals()):
        return True
    exp = ""
    i = 0
    while i < len(s):
        if s[i] == "\n":
            i += 1
        elif s[i] == "\r" and i + 1 < len(s) and s[i + 1] == "\n":
            i += 2
        else:
            exp += s[i]
            i += 1
    return finish(call(f_strip_newlines, s, environment=ENV) == exp)


def nonstring(v, k):
    """nil, a small integer (made concrete: case mapping of the decimal text of a symbolic
    integer is very slow) or one of the large integers of BIG."""
    if v is None:
        return None
    if k < len(BIG):
        return big(k)
    return small(v, -12, 12)


def c25_case_nonstring(v: Optional[int], k: int) -> bool:
    """
    pre: v is None or -12 <= v <= 12
    pre: 0 <= k <= 6
    post: _
    """
    # non-string input is converted to a string first (nil -> empty string)
    if excluded("c25_case_nonstring", locals()):
        return True
    v = nonstring(v, k)
    t = "" if v is None else str(v)
    return finish(call(f_upcase, v) == t and call(f_downcase, v) == t and call(f_capitalize, v) == t)


def c25_strip_nonstring(v: Optional[int], k: int) -> bool:
    """
    pre: v is None or -12 <= v <= 12
    pre: 0 <= k <= 6
    post: _
    """
    if excluded("c25_strip_nonstring", locals()):
        return True
    v = nonstring(v, k)
    t = "" if v is None else str(v)
    return finish(call(f_strip, v) == t and call(f_lstrip, v) == t and call(f_rstrip, v) == t)


# --- split / join ----------------------------------------------------------------
def split_join(s, sep):
    parts = call(f_split, s, sep)
    if is_err(parts):
        return parts
    return call(f_join, parts, sep, environment=ENV)


def c25_split_join(s: str, sep: str) -> bool:
    """
    pre: 1 <= len(s) <= 3 and len(sep) == 1
    pre: all(c in "ab," for c in s) and sep in "a,"
    post: _
    """
    if excluded("c25_split_join", locals()):
        return True
    return finish(split_join(s, sep) == s)


def c25_split_join_whole(sep: str) -> bool:
    """
    pre: len(sep) == 1
    pre: sep in "a,;"
    post: _
    """
    # the non-empty string that consists of exactly the separator
    if excluded("c25_split_join_whole", locals()):
        return True
    return finish(split_join(sep + "", sep) == sep)


def c25_split_join_space(s: str) -> bool:
    """
    pre: 1 <= len(s) <= 3
    pre: all(c in "a " for c in s)
    pre: s != " "
    post: _
    """
    # separator is a single space
    if excluded("c25_split_join_space", locals()):
        return True
    return finish(split_join(s, " ") == s)


def c25_split_parts(s: str, sep: str) -> bool:
    """
    pre: 1 <= len(s) <= 3 and len(sep) == 1
    pre: all(c in "ab," for c in s) and sep in "a,"
    pre: s != sep
    post: _
    """
    # documented: an array of strings, none of which contains the separator
    if excluded("c25_split_parts", locals()):
        return True
    parts = call(f_split, s, sep)
    ok = type(parts) is list and len(parts) == count(list(s), sep) + 1
    if ok:
        for p in parts:
            ok = ok and isinstance(p, str) and sep not in p
    return finish(ok)


# --- array filters ---------------------------------------------------------------
def c25_reverse(n: int, a: int, b: int, c: int) -> bool:
    """
    pre: 0 <= n <= 3
    post: _
    """
    if excluded("c25_reverse", locals()):
        return True
    xs = mk(n, a, b, c)
    r = call(f_reverse, xs)
    ok = fresh_list(r, xs) and len(r) == n
    for i in range(n):
        ok = ok and r[i] == xs[n - 1 - i]
    return finish(ok and same_items(xs, mk(n, a, b, c)))


def c25_sort(n: int, a: int, b: int, c: int) -> bool:
    """
    pre: 0 <= n <= 3
    post: _
    """
    if excluded("c25_sort", locals()):
        return True
    xs = mk(n, a, b, c)
    r = call(f_sort, xs)
    ok = fresh_list(r, xs) and permutation(r, xs)
    for i in range(len(r) - 1):
        ok = ok and r[i] <= r[i + 1]
    return finish(ok and same_items(xs, mk(n, a, b, c)))


def c25_sort_key(n: int, a: int, b: int, c: int) -> bool:
    """
    pre: 0 <= n <= 3
    post: _
    """
    # sort: "k" on hashes that all have the property
    if excluded("c25_sort_key", locals()):
        return True
    vals = mk(n, a, b, c)
    xs = [{"k": vals[i], "id": i} for i in range(n)]
    r = call(f_sort, xs, "k")
    ok = fresh_list(r, xs) and len(r) == n
    for i in range(n):
        ok = ok and count_is(r, xs[i]) == 1
    if ok:
        for i in range(n - 1):
            ok = ok and r[i]["k"] <= r[i + 1]["k"]
    return finish(ok and len(xs) == n)


def count_is(xs, v):
    k = 0
    for x in xs:
        if x is v:
            k += 1
    return k


NAT = ["a", "A", "b", "B", "aB", "Ab", ""]
NAT_KEY = ["a", "a", "b", "b", "ab", "ab", ""]


def c25_sort_natural(n: int, a: int, b: int, c: int) -> bool:
    """
    pre: 0 <= n <= 3
    pre: 0 <= a <= 6 and 0 <= b <= 6 and 0 <= c <= 6
    post: _
    """
    # compared by lower-cased string representation; items from a pool of mixed-case strings
    if excluded("c25_sort_natural", locals()):
        return True
    idx = mk(n, small(a, 0, 6), small(b, 0, 6), small(c, 0, 6))
    xs = [NAT[i] for i in idx]
    r = call(f_sort_natural, xs)
    ok = fresh_list(r, xs) and permutation(r, xs)
    if ok:
        for i in range(len(r) - 1):
            ok = ok and NAT_KEY[NAT.index(r[i])] <= NAT_KEY[NAT.index(r[i + 1])]
    return finish(ok and xs == [NAT[i] for i in idx])


NAT_INT = [9, 10, 100, -1, 2, 20, 0]


def c25_sort_natural_ints(n: int, a: int, b: int, c: int) -> bool:
    """
    pre: 0 <= n <= 3
    pre: 0 <= a <= 6 and 0 <= b <= 6 and 0 <= c <= 6
    post: _
    """
    # integers are compared by their string representation ("10" < "9"); items from a pool
    if excluded("c25_sort_natural_ints", locals()):
        return True
    idx = mk(n, small(a, 0, 6), small(b, 0, 6), small(c, 0, 6))
    xs = [NAT_INT[i] for i in idx]
    r = call(f_sort_natural, xs)
    ok = fresh_list(r, xs) and permutation(r, xs)
    if ok:
        for i in range(len(r) - 1):
            ok = ok and str(r[i]) <= str(r[i + 1])
    return finish(ok)


def c25_uniq(n: int, a: int, b: int, c: int) -> bool:
    """
    pre: 0 <= n <= 3
    post: _
    """
    if excluded("c25_uniq", locals()):
        return True
    xs = mk(n, a, b, c)
    r = call(f_uniq, xs)
    exp = []
    for x in xs:
        if count(exp, x) == 0:
            exp.append(x)
    return finish(fresh_list(r, xs) and same_items(r, exp) and same_items(xs, mk(n, a, b, c)))


def c25_compact(n: int, a: Optional[int], b: Optional[int], c: Optional[int]) -> bool:
    """
    pre: 0 <= n <= 3
    post: _
    """
    if excluded("c25_compact", locals()):
        return True
    xs = mk(n, a, b, c)
    r = call(f_compact, xs)
    exp = [x for x in xs if x is not None]
    return finish(fresh_list(r, xs) and same_items(r, exp) and same_items(xs, mk(n, a, b, c)))


def c25_compact_key(n: int, a: Optional[int], b: Optional[int], c: Optional[int]) -> bool:
    """
    pre: 0 <= n <= 3
    post: _
    """
    # compact: "k" keeps the hashes whose property is not nil
    if excluded("c25_compact_key", locals()):
        return True
    vals = mk(n, a, b, c)
    xs = [{"k": vals[i], "id": i} for i in range(n)]
    r = call(f_compact, xs, "k")
    exp = [x for x in xs if x["k"] is not None]
    ok = fresh_list(r, xs) and len(r) == len(exp)
    if ok:
        for i in range(len(exp)):
            ok = ok and r[i] is exp[i]
    return finish(ok and len(xs) == n)


def c25_concat(n: int, m: int, a: int, b: int, c: int, d: int) -> bool:
    """
    pre: 0 <= n <= 2 and 0 <= m <= 2
    post: _
    """
    if excluded("c25_concat", locals()):
        return True
    xs = mk(n, a, b, 0)
    ys = mk(m, c, d, 0)
    r = call(f_concat, xs, ys)
    ok = fresh_list(r, xs, ys) and same_items(r, mk(n, a, b, 0) + mk(m, c, d, 0))
    return finish(ok and same_items(xs, mk(n, a, b, 0)) and same_items(ys, mk(m, c, d, 0)))


def c25_concat_undefined(m: int, c: int, d: int) -> bool:
    """
    pre: 0 <= m <= 2
    post: _
    """
    # an undefined left value is an empty array: the result is a new list with the argument's items
    if excluded("c25_concat_undefined", locals()):
        return True
    ys = mk(m, c, d, 0)
    r = call(f_concat, UNDEF, ys)
    return finish(fresh_list(r, ys) and same_items(r, mk(m, c, d, 0)))


def c25_map(n: int, a: int, b: int, c: int, ha: bool, hb: bool, hc: bool) -> bool:
    """
    pre: 0 <= n <= 3
    post: _
    """
    # property values in order; nil for hashes without the property
    if excluded("c25_map", locals()):
        return True
    vals = mk(n, a, b, c)
    has = mk(n, ha, hb, hc)
    xs = []
    for i in range(n):
        xs.append({"k": vals[i], "id": i} if has[i] else {"id": i})
    r = call(f_map, xs, "k")
    ok = fresh_list(r, xs) and len(r) == n
    if ok:
        for i in range(n):
            if has[i]:
                ok = ok and r[i] == vals[i]
            else:
                ok = ok and (r[i] is None or r[i] == None)  # noqa: E711  (liquid's null object equals nil)
    return finish(ok and len(xs) == n)


def keep(r, xs, flags):
    """r is a new list holding exactly the flagged items of xs, by identity, in order."""
    exp = [xs[i] for i in range(len(xs)) if flags[i]]
    if not fresh_list(r, xs) or len(r) != len(exp):
        return False
    for i in range(len(exp)):
        if r[i] is not exp[i]:
            return False
    return True


def c25_where_value(n: int, a: int, b: int, c: int, v: int) -> bool:
    """
    pre: 0 <= n <= 3
    post: _
    """
    if excluded("c25_where_value", locals()):
        return True
    vals = mk(n, a, b, c)
    xs = [{"k": vals[i], "id": i} for i in range(n)]
    r = call(f_where, xs, "k", v)
    return finish(keep(r, xs, [x == v for x in vals]) and len(xs) == n)


def c25_where_bool_value(n: int, a: int, b: int, c: int, v: bool) -> bool:
    """
    pre: 0 <= n <= 3
    pre: 0 <= a <= 3 and 0 <= b <= 3 and 0 <= c <= 3
    post: _
    """
    # an explicit target value of true / false selects the items whose property EQUALS it (Liquid equality:
    # nil != false); property values come from {false, true, nil, 'x'} (numbers are left out: whether
    # 0 equals false inside `where` is not documented)
    if excluded("c25_where_bool_value", locals()):
        return True
    raw = [a, b, c][:n]
    vals = []
    for k in raw:
        vals.append(False if k == 0 else True if k == 1 else None if k == 2 else "x")
    xs = [{"k": vals[i], "id": i} for i in range(n)]
    target = True if v else False
    r = call(f_where, xs, "k", target)
    r2 = call(f_reject, xs, "k", target)
    ok = keep(r, xs, [x is target for x in vals]) and keep(r2, xs, [x is not target for x in vals])
    return finish(ok and len(xs) == n)


def c25_reject_value(n: int, a: int, b: int, c: int, v: int) -> bool:
    """
    pre: 0 <= n <= 3
    post: _
    """
    if excluded("c25_reject_value", locals()):
        return True
    vals = mk(n, a, b, c)
    xs = [{"k": vals[i], "id": i} for i in range(n)]
    r = call(f_reject, xs, "k", v)
    return finish(keep(r, xs, [x != v for x in vals]) and len(xs) == n)


def truthy(x):
    # docs/tag_reference.md: only false, nil and undefined are falsy in Liquid
    return not (x is None or x is False)


def c25_where_truthy(n: int, a: Union[None, bool, int], b: Union[None, bool, int], c: Union[None, bool, int]) -> bool:
    """
    pre: 0 <= n <= 3
    post: _
    """
    # no second argument: items whose property is truthy
    if excluded("c25_where_truthy", locals()):
        return True
    vals = mk(n, a, b, c)
    xs = [{"k": vals[i], "id": i} for i in range(n)]
    r = call(f_where, xs, "k")
    return finish(keep(r, xs, [truthy(x) for x in vals]) and len(xs) == n)


def c25_reject_falsy(n: int, a: Union[None, bool, int], b: Union[None, bool, int], c: Union[None, bool, int]) -> bool:
    """
    pre: 0 <= n <= 3
    post: _
    """
    # no second argument: items whose property is falsy
    if excluded("c25_reject_falsy", locals()):
        return True
    vals = mk(n, a, b, c)
    xs = [{"k": vals[i], "id": i} for i in range(n)]
    r = call(f_reject, xs, "k")
    return finish(keep(r, xs, [not truthy(x) for x in vals]) and len(xs) == n)


# --- wider bounds (thorough tier only) ---------------------------------------------------
def mk4(n, a, b, c, d):
    return mk(n, a, b, c) if n <= 3 else [a, b, c, d]


def c25_sort_wide(n: int, a: int, b: int, c: int, d: int) -> bool:
    """
    pre: 0 <= n <= 4
    post: _
    """
    if excluded("c25_sort_wide", locals()):
        return True
    xs = mk4(n, a, b, c, d)
    r = call(f_sort, xs)
    ok = fresh_list(r, xs) and permutation(r, xs)
    for i in range(len(r) - 1):
        ok = ok and r[i] <= r[i + 1]
    return finish(ok and same_items(xs, mk4(n, a, b, c, d)))


def c25_uniq_wide(n: int, a: int, b: int, c: int, d: int) -> bool:
    """
    pre: 0 <= n <= 4
    post: _
    """
    if excluded("c25_uniq_wide", locals()):
        return True
    xs = mk4(n, a, b, c, d)
    r = call(f_uniq, xs)
    exp = []
    for x in xs:
        if count(exp, x) == 0:
            exp.append(x)
    return finish(fresh_list(r, xs) and same_items(r, exp) and same_items(xs, mk4(n, a, b, c, d)))


def c25_reverse_compact_wide(n: int, a: Optional[int], b: Optional[int], c: Optional[int], d: Optional[int]) -> bool:
    """
    pre: 0 <= n <= 4
    post: _
    """
    if excluded("c25_reverse_compact_wide", locals()):
        return True
    xs = mk4(n, a, b, c, d)
    r = call(f_reverse, xs)
    k = call(f_compact, xs)
    ok = fresh_list(r, xs) and fresh_list(k, xs) and same_items(r, [xs[n - 1 - i] for i in range(n)])
    return finish(ok and same_items(k, [x for x in xs if x is not None]) and same_items(xs, mk4(n, a, b, c, d)))


def c25_strip_wide(s: str) -> bool:
    """
    pre: len(s) <= 5
    pre: all(c in A_WS for c in s)
    post: _
    """
    if excluded("c25_strip_wide", locals()):
        return True
    ok = call(f_strip, s) == ref_lstrip(ref_rstrip(s))
    return finish(ok and call(f_lstrip, s) == ref_lstrip(s) and call(f_rstrip, s) == ref_rstrip(s))


def c25_split_join_wide(s: str, sep: str) -> bool:
    """
    pre: 1 <= len(s) <= 4 and 1 <= len(sep) <= 2
    pre: all(c in "ab," for c in s) and all(c in "a," for c in sep)
    pre: s != sep
    post: _
    """
    # longer strings and two-character separators
    if excluded("c25_split_join_wide", locals()):
        return True
    return finish(split_join(s, sep) == s)


# --- slice / first / last -----------------------------------------------------------
def window(n, start, length):
    """Documented selection: zero-based start (negative: counted from the end), up to length items."""
    s0 = start if start >= 0 else n + start
    return [i for i in range(n) if s0 <= i < s0 + length]


def c25_slice_str(s: str, start: int, length: int) -> bool:
    """
    pre: len(s) <= 3
    pre: -5 <= start <= 5 and 0 <= length <= 5
    post: _
    """
    # str slicing realises its bounds (one path per value): small values here, large ones below
    if excluded("c25_slice_str", locals()):
        return True
    r = call(f_slice, s, start, length)
    exp = ""
    for i in window(len(s), start, length):
        exp += s[i]
    return finish(r == exp)


def c25_slice_str_big(s: str, i: int, j: int, neg: bool) -> bool:
    """
    pre: len(s) <= 3
    pre: 0 <= i <= 5 and 0 <= j <= 5
    post: _
    """
    # start / length from a pool of values around +-2^31 and +-2^63, mixed with small ones
    if excluded("c25_slice_str_big", locals()):
        return True
    start = big(i)
    length = big(j)
    if length < 0:
        length = 2 if neg else 0
    if neg and start > 0:
        start = -2
    r = call(f_slice, s, start, length)
    exp = ""
    for k in window(len(s), start, length):
        exp += s[k]
    return finish(r == exp)


def c25_slice_list(n: int, a: int, start: int, length: int) -> bool:
    """
    pre: 0 <= n <= 4
    pre: -(1 << 31) <= start <= (1 << 31) and 0 <= length <= (1 << 31)
    post: _
    """
    if excluded("c25_slice_list", locals()):
        return True
    xs = [a + i for i in range(n)]
    r = call(f_slice, xs, start, length)
    exp = [a + i for i in window(n, start, length)]
    return finish(fresh_list(r, xs) and same_items(r, exp) and len(xs) == n)


def c25_slice_default_length(n: int, start: int) -> bool:
    """
    pre: 0 <= n <= 4
    pre: -(1 << 31) <= start <= (1 << 31)
    post: _
    """
    # the length defaults to 1
    if excluded("c25_slice_default_length", locals()):
        return True
    xs = list(range(n))
    return finish(same_items(call(f_slice, xs, start), window(n, start, 1)))


def c25_slice_default_length_str(s: str, start: int) -> bool:
    """
    pre: len(s) <= 3
    pre: -5 <= start <= 5
    post: _
    """
    if excluded("c25_slice_default_length_str", locals()):
        return True
    exp = ""
    for i in window(len(s), start, 1):
        exp += s[i]
    return finish(call(f_slice, s, start) == exp)


def c25_slice_string_args(s: str, start: int, length: int) -> bool:
    """
    pre: len(s) <= 3
    pre: -5 <= start <= 5 and 0 <= length <= 5
    post: _
    """
    # integer arguments given as numeric strings
    if excluded("c25_slice_string_args", locals()):
        return True
    r = call(f_slice, s, str(start), str(length))
    exp = ""
    for i in window(len(s), start, length):
        exp += s[i]
    return finish(r == exp)


def c25_first_last(n: int, a: int, b: int, c: int) -> bool:
    """
    pre: 0 <= n <= 3
    post: _
    """
    if excluded("c25_first_last", locals()):
        return True
    xs = mk(n, a, b, c)
    fi = call(f_first, xs)
    la = call(f_last, xs)
    if n == 0:
        return finish(fi is None and la is None)
    return finish(fi == xs[0] and la == xs[n - 1] and same_items(xs, mk(n, a, b, c)))


def nil_like(r):
    return r is None or is_undefined(r)


def c25_first_last_other(s: str, v: Union[None, bool, int]) -> bool:
    """
    pre: len(s) <= 2
    post: _
    """
    # strings, numbers, nil and undefined have no first/last item
    if excluded("c25_first_last_other", locals()):
        return True
    ok = call(f_first, s) is None and call(f_last, s) is None
    ok = ok and call(f_first, v) is None and call(f_last, v) is None
    return finish(ok and nil_like(call(f_first, UNDEF)) and nil_like(call(f_last, UNDEF)))


# --- truncate ------------------------------------------------------------------------
def c25_truncate_shorter(s: str, num: int, end: str) -> bool:
    """
    pre: len(s) <= 6 and len(end) <= 4
    pre: len(s) < num <= 10
    post: _
    """
    if excluded("c25_truncate_shorter", locals()):
        return True
    return finish(call(f_truncate, s, num, end) == s)


def c25_truncate_exact(s: str, end: str) -> bool:
    """
    pre: len(s) <= 6 and len(end) <= 4
    post: _
    """
    # input exactly as long as the requested length: "no longer than" -> unchanged
    if excluded("c25_truncate_exact", locals()):
        return True
    return finish(call(f_truncate, s, len(s), end) == s)


def c25_truncate_longer(s: str, num: int, end: str) -> bool:
    """
    pre: len(s) <= 6 and len(end) <= 4
    pre: -2 <= num < len(s)
    pre: num >= len(end)
    post: _
    """
    # documented: cut to num - len(end) characters, end appended
    if excluded("c25_truncate_longer", locals()):
        return True
    r = call(f_truncate, s, num, end)
    ok = isinstance(r, str) and r.endswith(end) and len(r) <= max(num, len(end))
    return finish(ok and r == s[:num - len(end)] + end)


def c25_truncate_tiny(s: str, num: int, end: str) -> bool:
    """
    pre: len(s) <= 6 and len(end) <= 4
    pre: -2 <= num < len(s)
    pre: num < len(end)
    post: _
    """
    # requested length smaller than the ellipsis: the result ends in the ellipsis and is no longer than it
    if excluded("c25_truncate_tiny", locals()):
        return True
    r = call(f_truncate, s, num, end)
    ok = isinstance(r, str) and r.endswith(end) and len(r) <= max(num, len(end))
    return finish(ok)


def c25_truncate_default_end(s: str, num: int) -> bool:
    """
    pre: len(s) <= 6
    pre: 3 <= num <= 10
    pre: len(s) != num
    post: _
    """
    # the ellipsis defaults to "..."
    if excluded("c25_truncate_default_end", locals()):
        return True
    r = call(f_truncate, s, num)
    if len(s) <= num:
        return finish(r == s)
    return finish(r == s[:num - 3] + "...")


# --- truncatewords -----------------------------------------------------------------------
def words(s):
    out = []
    cur = ""
    for ch in s:
        if ch == " ":
            if cur:
                out.append(cur)
            cur = ""
        else:
            cur += ch
    if cur:
        out.append(cur)
    return out


def truncatewords_ok(s, num):
    r = call(f_truncatewords, s, num, "")
    if not isinstance(r, str):
        return False
    w = words(s)
    rw = words(r)
    ok = len(rw) <= num and len(rw) <= len(w)
    if ok:
        for i in range(len(rw)):
            ok = ok and rw[i] == w[i]
    return ok and len(rw) == min(num, len(w))


def c25_truncatewords(s: str, num: int) -> bool:
    """
    pre: len(s) <= 4
    pre: all(c in "ab " for c in s)
    pre: 1 <= num <= 3
    post: _
    """
    # empty ellipsis: the kept words are the first <= num words of the input
    if excluded("c25_truncatewords", locals()):
        return True
    return finish(truncatewords_ok(s, num))


def c25_truncatewords_wide(s: str, num: int) -> bool:
    """
    pre: len(s) <= 6
    pre: all(c in "ab " for c in s)
    pre: 1 <= num <= 5
    post: _
    """
    if excluded("c25_truncatewords_wide", locals()):
        return True
    return finish(truncatewords_ok(s, num))


def c25_truncatewords_end(s: str, num: int, e: int) -> bool:
    """
    pre: len(s) <= 4
    pre: all(c in "ab " for c in s)
    pre: 0 <= e <= 1
    post: _
    """
    # any requested number (non-positive numbers are read as 1, as in the reference implementation),
    # ellipsis "..." / "-": at most max(num, 1) words are kept
    if excluded("c25_truncatewords_end", locals()):
        return True
    end = "..." if e == 0 else "-"
    r = call(f_truncatewords, s, num, end)
    if not isinstance(r, str):
        return finish(False)
    w = words(s)
    lim = num if num >= 1 else 1
    body = r[:len(r) - len(end)] if r.endswith(end) else r
    return finish(len(words(body)) <= lim and len(words(body)) <= len(w))


# --- math ------------------------------------------------------------------------------------
def c25_plus_minus(a: int, b: int) -> bool:
    """
    post: _
    """
    if excluded("c25_plus_minus", locals()):
        return True
    p = call(f_plus, a, b)
    m = call(f_minus, a, b)
    return finish(p == a + b and m == a - b)


def c25_abs_bounds(a: int, b: int) -> bool:
    """
    post: _
    """
    if excluded("c25_abs_bounds", locals()):
        return True
    ok = call(f_abs, a) == (a if a >= 0 else -a)
    ok = ok and call(f_at_least, a, b) == (a if a >= b else b)
    ok = ok and call(f_at_most, a, b) == (a if a <= b else b)
    return finish(ok)


def c25_round(a: int, nd: int) -> bool:
    """
    pre: 0 <= nd <= 3
    post: _
    """
    # an integer rounded to nd >= 0 decimal places is itself
    if excluded("c25_round", locals()):
        return True
    return finish(call(f_round, a) == a and call(f_round, a, small(nd, 0, 3)) == a)


def c25_ceil_floor(a: int, k: int) -> bool:
    """
    pre: -8 <= a <= 8
    pre: 0 <= k <= 5
    post: _
    """
    # integers are their own ceiling and floor (math.ceil/floor are C code: the argument is
    # realised, so small values and a pool of large ones)
    if excluded("c25_ceil_floor", locals()):
        return True
    v = small(a, -8, 8)
    w = big(k)
    ok = call(f_ceil, v) == v and call(f_floor, v) == v
    return finish(ok and call(f_ceil, w) == w and call(f_floor, w) == w)


def c25_times(a: int, b: int, swap: bool) -> bool:
    """
    pre: -12 <= b <= 12
    post: _
    """
    if excluded("c25_times", locals()):
        return True
    r = call(f_times, b, a) if swap else call(f_times, a, b)
    return finish(r == small(b, -12, 12) * a)


def c25_divided_by(a: int, b: int) -> bool:
    """
    pre: -12 <= b <= 12
    post: _
    """
    # documented: the result is rounded down when the divisor is an integer; q is the unique
    # integer with 0 <= a - q*b < |b| (b > 0) or b < a - q*b <= 0 (b < 0)
    if excluded("c25_divided_by", locals()):
        return True
    q = call(f_divided_by, a, b)
    if b == 0:
        return finish(is_err(q))
    if is_err(q):
        return finish(False)
    rem = a - q * small(b, -12, 12)
    return finish((0 <= rem < b) if b > 0 else (b < rem <= 0))


def c25_divided_by_small(a: int, b: int) -> bool:
    """
    pre: -12 <= a <= 12
    pre: b != 0
    post: _
    """
    if excluded("c25_divided_by_small", locals()):
        return True
    q = call(f_divided_by, a, b)
    if is_err(q):
        return finish(False)
    rem = small(a, -12, 12) - q * b
    return finish((0 <= rem < b) if b > 0 else (b < rem <= 0))


def rem_ok(a, k, r):
    """r is the floored or the truncated remainder of a / k for a concrete k != 0."""
    fl = a % k
    tr = fl if (fl == 0 or (a >= 0) == (k >= 0)) else fl - k
    return r == fl or r == tr


def c25_modulo(a: int, b: int) -> bool:
    """
    pre: -12 <= b <= 12
    post: _
    """
    # the remainder of the division of a by b: a - r is a multiple of b and |r| < |b|; the docs do
    # not fix the sign convention for negative operands, so the floored and the truncated remainder
    # are both accepted
    if excluded("c25_modulo", locals()):
        return True
    r = call(f_modulo, a, b)
    if b == 0:
        return finish(is_err(r))
    if is_err(r):
        return finish(False)
    return finish(rem_ok(a, small(b, -12, 12), r))


def c25_numeric_string_input(a: int, b: int) -> bool:
    """
    pre: -40 <= a <= 40
    post: _
    """
    # string representations of integers are converted first (parsing realises the value of a:
    # one path per value; the other operand stays unbounded)
    if excluded("c25_numeric_string_input", locals()):
        return True
    sa = str(a)
    ok = call(f_plus, sa, b) == a + b and call(f_minus, sa, b) == a - b
    ok = ok and call(f_at_least, sa, b) == (a if a >= b else b) and call(f_at_most, sa, b) == (a if a <= b else b)
    ok = ok and call(f_abs, sa) == (a if a >= 0 else -a) and call(f_round, sa) == a
    return finish(ok and call(f_ceil, sa) == a and call(f_floor, sa) == a)


def c25_numeric_string_arg(a: int, b: int) -> bool:
    """
    pre: -99 <= b <= 99
    post: _
    """
    if excluded("c25_numeric_string_arg", locals()):
        return True
    sb = str(b)
    ok = call(f_plus, a, sb) == a + b and call(f_minus, a, sb) == a - b
    return finish(ok and call(f_at_least, a, sb) == (a if a >= b else b) and call(f_at_most, a, sb) == (a if a <= b else b))


def c25_numeric_strings_both(a: int, b: int) -> bool:
    """
    pre: -9 <= a <= 9 and -9 <= b <= 9
    post: _
    """
    if excluded("c25_numeric_strings_both", locals()):
        return True
    sa = str(a)
    sb = str(b)
    ok = call(f_plus, sa, sb) == a + b and call(f_minus, sa, sb) == a - b
    return finish(ok and call(f_at_least, sa, sb) == max(a, b) and call(f_at_most, sa, sb) == min(a, b))


def c25_numeric_strings_mul(a: int, b: int) -> bool:
    """
    pre: -20 <= a <= 20 and -6 <= b <= 6
    post: _
    """
    if excluded("c25_numeric_strings_mul", locals()):
        return True
    sa = str(a)
    sb = str(b)
    k = small(b, -6, 6)
    ok = call(f_times, sa, sb) == a * k
    if k != 0:
        ok = ok and call(f_divided_by, sa, sb) == a // k
        r = call(f_modulo, sa, sb)
        ok = ok and not is_err(r) and rem_ok(a, k, r)
    return finish(ok)


def c25_non_numeric(s: str, b: int) -> bool:
    """
    pre: len(s) <= 2
    pre: all(c in "xy" for c in s)
    post: _
    """
    # documented: input that cannot be converted to a number counts as 0
    if excluded("c25_non_numeric", locals()):
        return True
    ok = call(f_plus, s, b) == b and call(f_minus, s, b) == -b and call(f_times, s, b) == 0
    ok = ok and call(f_abs, s) == 0 and call(f_ceil, s) == 0 and call(f_floor, s) == 0 and call(f_round, s) == 0
    ok = ok and call(f_at_least, s, b) == max(0, b) and call(f_at_most, s, b) == min(0, b)
    ok = ok and call(f_plus, None, b) == b and call(f_plus, UNDEF, b) == b
    return finish(ok)


# decimal pool: finite selectors only
POOL = [0.1, 0.2, 1.5, -2.25, 183.357, 12.2, 3, -7, 0.5, 2.5, -0.5]


def dec(x):
    return Decimal(str(x))


def ref_round_ok(x, r):
    d = dec(x)
    return r == int(d.quantize(Decimal(1), rounding=ROUND_HALF_EVEN)) or r == int(d.quantize(Decimal(1), rounding=ROUND_HALF_UP))


ROUND_POOL = [183.357, 0.125, 2.5, -0.5, 1.25, 7, 1.24, -2.25]
# decimal ties whose binary double lies just below the tie
ROUND_TIES = [2.675, 1.015, 0.285, -2.675]


def round_places_ok(x, nd):
    """x rounded to nd decimal places, in the decimal arithmetic of the number as printed
    (ties: half-even and half-up are both accepted, the docs do not say)."""
    r = f_round(x, nd)
    q = Decimal(1).scaleb(-nd)
    return r == float(dec(x).quantize(q, rounding=ROUND_HALF_EVEN)) or r == float(dec(x).quantize(q, rounding=ROUND_HALF_UP))


def c25_round_places(i: int, nd: int) -> bool:
    """
    pre: 0 <= i <= 7 and 0 <= nd <= 2
    post: _
    """
    if excluded("c25_round_places", locals()):
        return True
    return finish(round_places_ok(ROUND_POOL[small(i, 0, 7)], small(nd, 0, 2)))


def c25_round_places_ties(i: int) -> bool:
    """
    pre: 0 <= i <= 3
    post: _
    """
    # documented example: 183.357 | round: 2 -> 183.36; here x.xx5 to two places
    if excluded("c25_round_places_ties", locals()):
        return True
    return finish(round_places_ok(ROUND_TIES[small(i, 0, 3)], 2))


def c25_decimal_pool(i: int, j: int) -> bool:
    """
    pre: 0 <= i <= 10 and 0 <= j <= 10
    post: _
    """
    # floats behave as the decimal numbers they print as
    if excluded("c25_decimal_pool", locals()):
        return True
    return finish(decimal_pool(small(i, 0, 10), small(j, 0, 10)))


def decimal_pool(i, j):
    x = POOL[i]
    y = POOL[j]
    both_int = isinstance(x, int) and isinstance(y, int)

    def num(d):
        return int(d) if both_int else float(d)
    ok = f_plus(x, y) == num(dec(x) + dec(y))
    ok = ok and f_minus(x, y) == num(dec(x) - dec(y))
    ok = ok and f_times(x, y) == num(dec(x) * dec(y))
    if not both_int:
        ok = ok and f_modulo(x, y) == float(dec(x) % dec(y))
        ok = ok and f_divided_by(x, y) == x / y
    ok = ok and f_abs(x) == num(abs(dec(x))) and f_at_least(x, y) == max(x, y) and f_at_most(x, y) == min(x, y)
    ok = ok and f_ceil(x) == int(dec(x).to_integral_value(rounding=ROUND_CEILING))
    ok = ok and f_floor(x) == int(dec(x).to_integral_value(rounding=ROUND_FLOOR))
    ok = ok and ref_round_ok(x, f_round(x))
    ok = ok and f_ceil(str(x)) == f_ceil(x) and f_floor(str(x)) == f_floor(x)
    return ok and f_size(x) == 0


# --- default ------------------------------------------------------------------------------------
def c25_default_empty(k: int, d: Union[None, bool, int, str]) -> bool:
    """
    pre: 0 <= k <= 5
    pre: not isinstance(d, str) or len(d) <= 2
    post: _
    """
    # nil, false, undefined, "", [] and {} give the default value itself
    if excluded("c25_default_empty", locals()):
        return True
    if k == 0:
        v = None
    elif k == 1:
        v = False
    elif k == 2:
        v = UNDEF
    elif k == 3:
        v = ""
    elif k == 4:
        v = []
    else:
        v = {}
    r = call(f_default, v, d)
    return finish(r is d or (type(r) is type(d) and r == d))


def c25_default_kept(a: int, s: str, d: int, fl: bool) -> bool:
    """
    pre: 1 <= len(s) <= 2
    post: _
    """
    # documented: any other input is returned unchanged (0 included; false with allow_false)
    if excluded("c25_default_kept", locals()):
        return True
    ok = call(f_default, a, d) == a and call(f_default, s, d) == s and call(f_default, True, d) is True
    xs = [a]
    ok = ok and call(f_default, xs, d) is xs
    ok = ok and call(f_default, False, d, allow_false=True) is False
    ok = ok and call(f_default, False, d, allow_false=False) == d
    ok = ok and call(f_default, None, d, allow_false=fl) == d
    return finish(ok)


# --- whole renders ---------------------------------------------------------------------------------
T_MATH = ENV.from_string("{{ a | plus: b }}|{{ a | minus: b }}|{{ a | at_least: b }}|{{ a | at_most: b }}|{{ a | abs }}|{{ a | ceil }}|{{ a | floor }}|{{ a | round }}")
T_STR = ENV.from_string("{{ s | upcase }}|{{ s | downcase }}|{{ s | size }}|{{ s | strip }}|{{ s | slice: i, 2 }}|{{ s | truncate: n, e }}")
T_ARR = ENV.from_string("{{ xs | reverse | join: ',' }}|{{ xs | sort | join: ',' }}|{{ xs | uniq | join: ',' }}|{{ xs | first }}|{{ xs | last }}|{{ xs | size }}|{{ xs | concat: xs | size }}|{{ nosuchthing | default: d }}")


def render(t, **data):
    try:
        return t.render(**data)
    except LiquidError as e:
        return "ERR:" + type(e).__name__


def c25_render_math(a: int, b: int) -> bool:
    """
    pre: -6 <= a <= 6 and -6 <= b <= 6
    post: _
    """
    # wiring of the filters into a render; printing a symbolic int enumerates its values, so
    # both operands are made concrete (one path per pair)
    if excluded("c25_render_math", locals()):
        return True
    a = small(a, -6, 6)
    b = small(b, -6, 6)
    out = render(T_MATH, a=a, b=b)
    exp = "%d|%d|%d|%d|%d|%d|%d|%d" % (a + b, a - b, max(a, b), min(a, b), abs(a), a, a, a)
    return finish(out == exp)


STRS = ["", "a", " aB", "B b", "ab ", "  ", "Ab"]


def c25_render_string(k: int, i: int, n: int) -> bool:
    """
    pre: 0 <= k <= 6
    pre: -4 <= i <= 4
    pre: 4 <= n <= 6
    post: _
    """
    # wiring of the string filters into a render: inputs from a pool, all concrete per path
    if excluded("c25_render_string", locals()):
        return True
    s = STRS[small(k, 0, 6)]
    i = small(i, -4, 4)
    n = small(n, 4, 6)
    out = render(T_STR, s=s, i=i, n=n, e="..")
    sl = ""
    for k in window(len(s), i, 2):
        sl += s[k]
    exp = "%s|%s|%d|%s|%s|%s" % (s.upper(), s.lower(), len(s), ref_lstrip(ref_rstrip(s)), sl, s)
    return finish(out == exp)


def c25_render_array(n: int, a: int, b: int, c: int, d: int) -> bool:
    """
    pre: 0 <= n <= 3
    pre: -1 <= a <= 1 and -1 <= b <= 1 and -1 <= c <= 1 and 0 <= d <= 1
    post: _
    """
    # wiring of the array filters into a render: all values concrete per path
    if excluded("c25_render_array", locals()):
        return True
    n = small(n, 0, 3)
    xs = mk(n, small(a, -1, 1), small(b, -1, 1) if n >= 2 else 0, small(c, -1, 1) if n >= 3 else 0)
    d = small(d, 0, 1)
    out = render(T_ARR, xs=xs, d=d)
    rev = [xs[n - 1 - i] for i in range(n)]
    srt = sorted(xs)
    unq = []
    for x in xs:
        if count(unq, x) == 0:
            unq.append(x)
    j = ",".join
    exp = "%s|%s|%s|%s|%s|%d|%d|%d" % (j([str(x) for x in rev]), j([str(x) for x in srt]), j([str(x) for x in unq]),
                                         str(xs[0]) if n else "", str(xs[n - 1]) if n else "", n, 2 * n, d)
    return finish(out == exp)


# ---- integers written as strings (signed, padded, with blanks) behave exactly like the integer, in either position, ----
# for every math filter: same rendered text (so also the same int/float kind of result)
IS_POOL = ["7", "-7", "+7", " 7", "7 ", "-0", "007", "-10", "12345678901234567890123", "-9007199254740993", "1_0", " -3 "]
IS_OTHER = [2, -3, "2", "-3", 2.5, 0]
IS_FILTERS = ["plus", "minus", "times", "divided_by", "modulo", "abs", "at_least", "at_most", "ceil", "floor", "round"]
_IS_ENV = Environment()
_IS_T = {}
for _f in IS_FILTERS:
    _IS_T[_f] = (_IS_ENV.from_string("{{ a | %s: b }}|{{ b | %s: a }}" % (_f, _f)) if _f not in ("abs", "ceil", "floor", "round")
                 else _IS_ENV.from_string("{{ a | %s }}|{{ b | %s }}" % (_f, _f)))


def int_string_case(fi, si, bi):
    t = _IS_T[IS_FILTERS[fi]]
    s = IS_POOL[si]
    try:
        as_text = t.render(a=s, b=IS_OTHER[bi])
    except LiquidError as e:
        as_text = "ERR:" + type(e).__name__
    try:
        as_int = t.render(a=int(s), b=IS_OTHER[bi])
    except LiquidError as e:
        as_int = "ERR:" + type(e).__name__
    return as_text, as_int


def c25_int_string_pool(fi: int, si: int, bi: int) -> bool:
    """
    pre: 0 <= fi <= 10 and 0 <= si <= 11 and 0 <= bi <= 5
    post: _
    """
    if excluded("c25_int_string_pool", locals()):
        return True
    fi, si, bi = cint(fi, 0, 10), cint(si, 0, 11), cint(bi, 0, 5)
    r = untraced(lambda: int_string_case(fi, si, bi))
    return finish(r[0] == r[1])


_DETAIL_INT_STRING = lambda fi, si, bi: {"filter": IS_FILTERS[fi], "string": IS_POOL[si], "other operand": IS_OTHER[bi],
                                                   "rendered with the string / with the int": int_string_case(fi, si, bi)}

# ---- binary math filters over a pool of ints, dyadic floats and numeric strings: the rendered text is exactly the text of
# the Python result on the converted operands (so an int result never turns into a float, or the other way round)
ME_POOL = [0, 7, -7, 2.5, -0.5, "3", "-3", "2.5", "1e3", 10 ** 20, 0.25, " 4", "+2"]
ME_FILTERS = ["plus", "minus", "times", "modulo", "divided_by", "at_least", "at_most"]
_ME_T = {f: _IS_ENV.from_string("{{ a | %s: b }}" % f) for f in ME_FILTERS}


def _me_conv(v):
    if isinstance(v, str):
        try:
            return int(v)
        except ValueError:
            return float(v)
    return v


def math_exact_case(fi, ai, bi):
    f = ME_FILTERS[fi]
    a, b = _me_conv(ME_POOL[ai]), _me_conv(ME_POOL[bi])
    try:
        out = _ME_T[f].render(a=ME_POOL[ai], b=ME_POOL[bi])
    except LiquidError as e:
        out = "ERR:" + type(e).__name__
    if f == "modulo" and (isinstance(a, float) or isinstance(b, float)):
        return out, out   # float remainders follow decimal semantics (sign of the dividend): not fixed by the documentation
    try:
        if f == "plus":
            r = a + b
        elif f == "minus":
            r = a - b
        elif f == "times":
            r = a * b
        elif f == "modulo":
            r = a % b
        elif f == "divided_by":
            r = a // b if isinstance(a, int) and isinstance(b, int) else a / b
        elif f == "at_least":
            r = max(a, b)
        else:
            r = min(a, b)
        exp = str(r)
    except ZeroDivisionError:
        exp = "ERR:FilterArgumentError"
    return out, exp


def c25_math_exact_text(fi: int, ai: int, bi: int) -> bool:
    """
    pre: 0 <= fi <= 6 and 0 <= ai <= 12 and 0 <= bi <= 12
    post: _
    """
    if excluded("c25_math_exact_text", locals()):
        return True
    fi, ai, bi = cint(fi, 0, 6), cint(ai, 0, 12), cint(bi, 0, 12)
    r = untraced(lambda: math_exact_case(fi, ai, bi))
    return finish(r[0] == r[1])


_DETAIL_MATH_EXACT = lambda fi, ai, bi: {"template": "{{ a | %s: b }}" % ME_FILTERS[fi], "a": repr(ME_POOL[ai]), "b": repr(ME_POOL[bi]),
                                         "rendered / expected": math_exact_case(fi, ai, bi)}

CONDITIONS = [
    {"fn": "c25_size_str", "quick": 30, "thorough": 60},
    {"fn": "c25_size_sized", "quick": 30, "thorough": 60},
    {"fn": "c25_size_unsized", "quick": 30, "thorough": 60},
    {"fn": "c25_upcase", "quick": 40, "thorough": 120},
    {"fn": "c25_downcase", "quick": 40, "thorough": 120},
    {"fn": "c25_capitalize", "quick": 60, "thorough": 180},
    {"fn": "c25_strip", "quick": 40, "thorough": 120},
    {"fn": "c25_lstrip", "quick": 40, "thorough": 120},
    {"fn": "c25_rstrip", "quick": 40, "thorough": 120},
    {"fn": "c25_strip_newlines", "quick": 40, "thorough": 120},
    {"fn": "c25_case_nonstring", "quick": 30, "thorough": 60, "sel_only": True},
    {"fn": "c25_strip_nonstring", "quick": 30, "thorough": 60, "sel_only": True},
    {"fn": "c25_split_join", "quick": 40, "thorough": 180},
    # (not registered) {"fn": "c25_split_join_whole", "quick": 30, "thorough": 60},
    {"fn": "c25_split_join_space", "quick": 30, "thorough": 90},
    {"fn": "c25_split_parts", "quick": 40, "thorough": 180},
    {"fn": "c25_reverse", "quick": 30, "thorough": 60},
    {"fn": "c25_sort", "quick": 40, "thorough": 120},
    {"fn": "c25_sort_key", "quick": 40, "thorough": 120},
    {"fn": "c25_sort_natural", "quick": 40, "thorough": 180, "sel_only": True},
    {"fn": "c25_sort_natural_ints", "quick": None, "thorough": 180, "sel_only": True},
    {"fn": "c25_uniq", "quick": 40, "thorough": 120},
    {"fn": "c25_compact", "quick": 30, "thorough": 90},
    {"fn": "c25_compact_key", "quick": 30, "thorough": 90},
    {"fn": "c25_concat", "quick": 30, "thorough": 90},
    {"fn": "c25_concat_undefined", "quick": 30, "thorough": 60},
    {"fn": "c25_map", "quick": 40, "thorough": 120},
    {"fn": "c25_where_bool_value", "quick": 30, "thorough": 60},
    {"fn": "c25_where_value", "quick": 40, "thorough": 120},
    {"fn": "c25_reject_value", "quick": 40, "thorough": 120},
    {"fn": "c25_where_truthy", "quick": 40, "thorough": 120},
    {"fn": "c25_reject_falsy", "quick": 40, "thorough": 120},
    {"fn": "c25_sort_wide", "quick": None, "thorough": 240},
    {"fn": "c25_uniq_wide", "quick": None, "thorough": 240},
    {"fn": "c25_reverse_compact_wide", "quick": None, "thorough": 240},
    {"fn": "c25_strip_wide", "quick": None, "thorough": 240},
    {"fn": "c25_split_join_wide", "quick": None, "thorough": 300},
    {"fn": "c25_slice_str", "quick": 40, "thorough": 180},
    {"fn": "c25_slice_str_big", "quick": 40, "thorough": 120, "sel_only": True},
    {"fn": "c25_slice_list", "quick": 40, "thorough": 180},
    {"fn": "c25_slice_default_length", "quick": 30, "thorough": 120},
    {"fn": "c25_slice_default_length_str", "quick": 30, "thorough": 120},
    {"fn": "c25_slice_string_args", "quick": None, "thorough": 240},
    {"fn": "c25_first_last", "quick": 30, "thorough": 60},
    {"fn": "c25_first_last_other", "quick": 30, "thorough": 60},
    {"fn": "c25_truncate_shorter", "quick": 40, "thorough": 180},
    {"fn": "c25_truncate_exact", "quick": 40, "thorough": 120},
    {"fn": "c25_truncate_longer", "quick": 40, "thorough": 240},
    {"fn": "c25_truncate_tiny", "quick": 40, "thorough": 180},
    {"fn": "c25_truncate_default_end", "quick": 40, "thorough": 180},
    {"fn": "c25_truncatewords", "quick": 40, "thorough": 120},
    {"fn": "c25_truncatewords_wide", "quick": None, "thorough": 300},
    {"fn": "c25_truncatewords_end", "quick": None, "thorough": 240},
    {"fn": "c25_plus_minus", "quick": 30, "thorough": 60},
    {"fn": "c25_abs_bounds", "quick": 30, "thorough": 60},
    {"fn": "c25_round", "quick": 30, "thorough": 90},
    {"fn": "c25_ceil_floor", "quick": 30, "thorough": 90},
    {"fn": "c25_times", "quick": 40, "thorough": 180},
    {"fn": "c25_divided_by", "quick": 40, "thorough": 180},
    {"fn": "c25_divided_by_small", "quick": None, "thorough": 180},
    {"fn": "c25_modulo", "quick": 40, "thorough": 180},
    {"fn": "c25_numeric_string_input", "quick": 40, "thorough": 120},
    {"fn": "c25_int_string_pool", "quick": 60, "thorough": 120, "sel_only": True},
    {"fn": "c25_math_exact_text", "quick": 60, "thorough": 120, "sel_only": True},
    {"fn": "c25_numeric_string_arg", "quick": None, "thorough": 120},
    {"fn": "c25_numeric_strings_both", "quick": None, "thorough": 180},
    {"fn": "c25_numeric_strings_mul", "quick": None, "thorough": 240},
    {"fn": "c25_non_numeric", "quick": 40, "thorough": 120},
    {"fn": "c25_decimal_pool", "quick": 40, "thorough": 120, "sel_only": True},
    {"fn": "c25_round_places", "quick": 30, "thorough": 60, "sel_only": True},
    # (not registered) {"fn": "c25_round_places_ties", "quick": 30, "thorough": 60, "sel_only": True},
    {"fn": "c25_default_empty", "quick": 40, "thorough": 120},
    {"fn": "c25_default_kept", "quick": 40, "thorough": 120},
    {"fn": "c25_render_math", "quick": 40, "thorough": 120, "sel_only": True},
    {"fn": "c25_render_string", "quick": None, "thorough": 180, "sel_only": True},
    {"fn": "c25_render_array", "quick": None, "thorough": 240, "sel_only": True},
]


# ---- uniq / compact / reverse over values of mixed types that print alike or compare alike --------------------------
MIX = [1, "1", 1.0, True, "True", None, "", "None", "1 ", -1, {"a": 1}, "{'a': 1}", 2, "2", 0, False, "a", "A", 1.5, "1.5"]


def _ref_uniq(xs):
    out = []
    for x in xs:
        if not any(x == y for y in out):
            out.append(x)
    return out


def _ref_uniq_key(xs, key):
    out, keys = [], []
    for x in xs:
        k = x.get(key, MIX)            # MIX: a stand-in for "no such key", equal to nothing in the pool
        if not any(k is y or k == y for y in keys):
            keys.append(k)
            out.append(x)
    return out


def _ident(r, exp):
    return type(r) is list and len(r) == len(exp) and all(a is b for a, b in zip(r, exp))


def mixed_uniq_sweep(i0, i1):
    bad = []
    for i2 in range(len(MIX) + 1):
        for i3 in range(len(MIX) + 1):
            idx = [i0, i1] + ([i2] if i2 < len(MIX) else []) + ([i3] if i3 < len(MIX) else [])
            xs = [MIX[i] for i in idx]
            keep = list(xs)
            r = call(f_uniq, xs)
            if not _ident(r, _ref_uniq(xs)) or r is xs or not _ident(xs, keep):
                bad.append({"filter": "uniq", "input": repr(xs), "observed": repr(r), "expected": repr(_ref_uniq(xs))})
            hs = [{"k": x} if j != 2 else {"z": x} for j, x in enumerate(xs)]
            rk = call(f_uniq, hs, "k")
            if not _ident(rk, _ref_uniq_key(hs, "k")):
                bad.append({"filter": "uniq: 'k'", "input": repr(hs), "observed": repr(rk), "expected": repr(_ref_uniq_key(hs, "k"))})
            rc = call(F["compact"], xs)
            if not _ident(rc, [x for x in xs if x is not None]):
                bad.append({"filter": "compact", "input": repr(xs), "observed": repr(rc)})
            rr = call(F["reverse"], xs)
            if not _ident(rr, xs[::-1]) or not _ident(xs, keep):
                bad.append({"filter": "reverse", "input": repr(xs), "observed": repr(rr)})
            if len(bad) > 3:
                return bad
    return bad


def c25_mixed_type_arrays(i0: int, i1: int) -> bool:
    """
    pre: 0 <= i0 <= 19 and 0 <= i1 <= 19
    post: _
    """
    if excluded("c25_mixed_type_arrays", locals()):
        return True
    i0, i1 = cint(i0, 0, 19), cint(i1, 0, 19)
    return finish(untraced(lambda: not mixed_uniq_sweep(i0, i1)))


CONDITIONS.append({"fn": "c25_mixed_type_arrays", "quick": 60, "thorough": 120, "sel_only": True,
                   "bounds": "lists of 2..4 items from a 20-value pool of ints, floats, booleans, nil, strings, lists and hashes that print or compare alike"})


def _d_truncate(s, num, end):
    return {"observed": call(f_truncate, s, num, end), "len(s)": len(s), "num": num, "end": end,
            "required": "unchanged" if len(s) <= num else "ends with end, len <= %d" % max(num, len(end))}


DETAIL = {
    "c25_mixed_type_arrays": lambda i0, i1: {"failing": mixed_uniq_sweep(i0, i1)[:3]},
    "c25_int_string_pool": _DETAIL_INT_STRING,
    "c25_math_exact_text": _DETAIL_MATH_EXACT,
    "c25_truncate_exact": lambda s, end: _d_truncate(s, len(s), end),
    "c25_truncate_tiny": _d_truncate,
    "c25_truncate_longer": _d_truncate,
    "c25_truncate_shorter": _d_truncate,
    "c25_split_join": lambda s, sep: {"split": call(f_split, s, sep), "rejoined": split_join(s, sep), "input": s},
    "c25_split_join_whole": lambda sep: {"split": call(f_split, sep, sep), "rejoined": split_join(sep, sep), "input": sep},
    "c25_split_join_space": lambda s: {"split": call(f_split, s, " "), "rejoined": split_join(s, " "), "input": s},
    "c25_round_places_ties": lambda i: {"input": ROUND_TIES[i], "places": 2, "observed": f_round(ROUND_TIES[i], 2),
                                        "decimal": float(dec(ROUND_TIES[i]).quantize(Decimal("0.01"), rounding=ROUND_HALF_EVEN))},
    "c25_where_truthy": lambda n, a, b, c: {"values": mk(n, a, b, c), "kept": [x["k"] for x in call(f_where, [{"k": v} for v in mk(n, a, b, c)], "k")]},
    "c25_reject_falsy": lambda n, a, b, c: {"values": mk(n, a, b, c), "kept": [x["k"] for x in call(f_reject, [{"k": v} for v in mk(n, a, b, c)], "k")]},
    "c25_concat_undefined": lambda m, c, d: {"result_is_argument": call(f_concat, UNDEF, mk(m, c, d, 0)) is not None and (lambda ys: call(f_concat, UNDEF, ys) is ys)(mk(m, c, d, 0))},
}

ASSUMPTIONS = [
    "filters are the callables registered in a default Environment, called directly (keyword environment= where the filter asks for it); three conditions go through whole renders of concrete {{ x | f: y }} skeletons",
    "truthiness of where/reject without a value is Liquid truthiness as documented in docs/tag_reference.md (only false, nil and undefined are falsy)",
    "slice reference = the documented window: zero-based start, negative start counted from the end, up to <length> items that exist",
    "divided_by on integers rounds down (docs); modulo may use either sign convention for negative operands (docs silent)",
    "truncatewords with a non-positive number is read as 1 word (reference implementation and the repo's own test; docs silent)",
]
OUTSIDE = [
    "strings longer than 3 (strip/split thorough: 4-5, truncate: 6, truncatewords: 6) and alphabets other than the small ones in the preconditions; non-ASCII case mapping",
    "lists longer than 3 (thorough: 4) items; nested arrays (flattening); drops and custom sequence types",
    "slice with a negative length (undocumented) and arguments beyond +-2^31 (documented clamping at +-2^63 not exercised)",
    "round with a negative number of digits (undocumented); floats other than the 11-value pool; NaN/inf",
    "sort / sort_natural stability and mixed-type arrays; hashes that lack the property for sort, where, reject",
    "Markup (autoescape) inputs; default on an empty tuple (python-liquid's `empty` covers list, dict and str only)",
]


def selftest():
    """Oracles vs the examples of docs/filter_reference.md and fixed cases of the repo's tests."""
    fails = []

    def chk(name, got, exp):
        if got != exp:
            fails.append("%s: %r != %r" % (name, got, exp))
    chk("window doc 1", "".join("Liquid"[i] for i in window(6, 2, 5)), "quid")
    chk("window doc 2", "".join("Liquid"[i] for i in window(6, -3, 2)), "ui")
    chk("slice doc", f_slice("Liquid", -3, 2), "ui")
    chk("slice doc default", f_slice("Liquid", 2), "q")
    chk("truncate doc", f_truncate("Ground control to Major Tom.", 20), "Ground control to...")
    chk("truncate doc 2", f_truncate("Ground control to Major Tom.", 25, ", and so on"), "Ground control, and so on")
    chk("truncatewords doc", f_truncatewords("Ground control to Major Tom.", 3, ""), "Ground control to")
    chk("words", words(" a  b "), ["a", "b"])
    chk("strip ref", ref_lstrip(ref_rstrip(" \t a b \n")), "a b")
    chk("divided_by doc", f_divided_by(20, 7), 2)
    chk("modulo doc", f_modulo(183.357, 12), 3.357)
    chk("times doc", f_times(183.357, 12), 2200.284)
    chk("minus doc", f_minus(183.357, 12.2), 171.157)
    chk("default doc", f_default("", "hello"), "hello")
    chk("default doc 0", f_default(0, 99), 0)
    chk("sort_natural doc", f_sort_natural(["zebra", "octopus", "giraffe", "Sally Snake"]), ["giraffe", "octopus", "Sally Snake", "zebra"])
    if len(MIX) != 20:
        fails.append("MIX pool size differs from the bounds of c25_mixed_type_arrays")
    chk("uniq doc", f_uniq(["ants", "bugs", "bees", "bugs", "ants"]), ["ants", "bugs", "bees"])
    chk("permutation", permutation([1, 2, 2], [2, 1, 2]) and not permutation([1, 1, 2], [2, 1, 2]), True)
    chk("decimal oracle", float(dec(183.357) * dec(12)), 2200.284)
    chk("decimal oracle 2", float(dec(0.1) + dec(0.2)), 0.3)
    chk("rem_ok", [rem_ok(-7, 2, 1), rem_ok(-7, 2, -1), rem_ok(7, -2, -1), rem_ok(7, -2, 1), rem_ok(7, 2, -1), rem_ok(6, 2, 1)],
        [True, True, True, True, False, False])
    chk("round doc", round_places_ok(183.357, 2) and f_round(183.357, 2) == 183.36, True)
    chk("round ties", ref_round_ok(2.5, 2) and ref_round_ok(2.5, 3) and not ref_round_ok(2.5, 4), True)
    return fails
