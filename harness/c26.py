"""C26 Null translations leave message text intact.

Real code executed symbolically (whole renders of pre-parsed templates on an
Environment(extra=True) without a `translations` variable): the filters
GetText / NGetText / PGetText / NPGetText / Translate (`t`) with
BaseTranslateFilter.format_message and _count, and TranslateTag.parse /
validate_message_block (at import) with TranslateNode.render_to_output,
resolve_count, resolve_message_context, gettext and _format_message.

Message text is concrete: a family generated from the fragments of the
property statement (k <= 2 fragments in the base conditions, exactly 3 in the
thorough-only `k3` conditions) plus a few hand-written messages, selected by a
symbolic index and passed to the filters as render data / compiled into the
translate tag. In the `sym` conditions the filter message is a symbolic string.
Variable values, the filter keyword argument and the count are symbolic.

Oracle (statement + docs/babel.md "Message variables"): the output is the
message text with every `%(identifier)s` replaced by the variable of that name
(filter/tag keyword arguments shadow the render context, missing variables
print as the empty string) and nothing else changed; the tag's placeholders are
`{{ identifier }}` output statements and its literal text (percent signs
included) is kept, modulo whitespace normalisation. The plural text is used iff
gettext.NullTranslations().ngettext(s, p, count) returns it (count != 1).

The statement is taken literally for percent signs ("for any message text
including percent signs", quantifier: %, %%, %s): `%%` stays `%%`. docs/babel.md
calls the placeholders "percent-style formatting", under which `%%` -> `%` would
be the convention; the statement wins, and the conditions are split by the kind
of percent token in the message (plain / ph / dbl / dblph / pcs / bare) so that
this reading only decides the `dbl` conditions; `dblph` (a doubled percent sign
directly followed by a placeholder, e.g. `%%%(name)s`) must substitute the
variable under either reading.
"""
import gettext
import itertools
import re
from typing import Optional

from liquid import Environment
from liquid.exceptions import LiquidError

from vf.hx import cint, excluded, finish, untraced

PROPERTY = "C26"
ENV = Environment(extra=True)
NULL = gettext.NullTranslations()
DETAIL = {}
CONDITIONS = []

RE_PH = re.compile(r"%\((\w+)\)s")
FRAGS = ["%", "%%", "%s", "%(name)s", "(", ")", " ", "\n", "<", "a"]
CLASSES = ("plain", "ph", "dbl", "dblph", "pcs", "bare")


def classify(msg):
    """Partition of message texts by the kinds of percent tokens they contain
    (greedy scan). Only used to split the family over conditions; the oracle is
    the same for every class."""
    kinds = set()
    i = 0
    dbl_end = -1
    while i < len(msg):
        if msg[i] != "%":
            i += 1
            continue
        m = RE_PH.match(msg, i)
        if m:
            # a placeholder directly after a doubled percent sign is its own class
            kinds.add("dblph" if dbl_end == i else "ph")
            i = m.end()
        elif msg.startswith("%%", i):
            kinds.add("dbl")
            i += 2
            dbl_end = i
        elif msg.startswith("%s", i):
            kinds.add("pcs")
            i += 2
        else:
            kinds.add("bare")
            i += 1
    # a doubled percent sign decides the class first: '%%' -> '%' is the listed known finding
    # (python percent-style convention), kept apart from the other percent forms
    for c in ("dblph", "dbl", "bare", "pcs", "ph"):
        if c in kinds:
            return c
    return "plain"


def split_placeholders(msg):
    """[lit, var, lit, var, ..., lit] for a concrete message text."""
    parts = []
    pos = 0
    for m in RE_PH.finditer(msg):
        parts.append(msg[pos:m.start()])
        parts.append(m.group(1))
        pos = m.end()
    parts.append(msg[pos:])
    return parts


def substitute(parts, variables):
    out = parts[0]
    for i in range(1, len(parts), 2):
        out = out + variables.get(parts[i], "") + parts[i + 1]
    return out


def _family(ks, extra):
    seen = []
    for k in ks:
        for fs in itertools.product(FRAGS, repeat=k):
            s = "".join(fs)
            if s not in seen:
                seen.append(s)
    for s in extra:
        if s not in seen:
            seen.append(s)
    return seen


EXTRA = ["Hello, %(you)s!", "%(name)s and %(you)s", "%(name)s%(name)s", "[%(other)s]", "%(you)s < %(name)s\n",
         "100%% sure", "100% sure", "50%", "%(name)d", "%(name)", "%()s", "%%(name)s", "%%%(name)s", "%s %(name)s"]
FAM2 = _family((0, 1, 2), EXTRA)
FAM3 = [s for s in _family((3,), []) if s not in FAM2]
BY_CLASS = {"k2": {c: [s for s in FAM2 if classify(s) == c] for c in CLASSES},
            "k3": {c: [s for s in FAM3 if classify(s) == c] for c in CLASSES}}
PARTS = {s: split_placeholders(s) for s in FAM2 + FAM3}


def pick(n, i):
    """Concrete int equal to the symbolic selector i in range(n): bisection, so
    that the solver steers the enumeration with log2(n) decisions per path
    (indexing a list with a symbolic int builds an n-way z3 disjunction)."""
    lo = 0
    hi = n - 1
    while lo < hi:
        mid = (lo + hi) // 2
        if i <= mid:
            hi = mid
        else:
            lo = mid + 1
    return lo


def render(t, data):
    try:
        return t.render(**data)
    except LiquidError as e:
        return "ERR:" + type(e).__name__
    except Exception as e:
        return "EXC:" + type(e).__name__


# ---------------------------------------------------------------------------
# filters: message family
# ---------------------------------------------------------------------------
# form -> (source without kw, uses context argument, uses plural+count)
FILTER_FORMS = {
    "gettext": ("{{ m | gettext%s }}", False, False),
    "pgettext": ("{{ m | pgettext: c%s }}", True, False),
    "ngettext": ("{{ m | ngettext: p, n%s }}", False, True),
    "npgettext": ("{{ m | npgettext: c, p, n%s }}", True, True),
    "t": ("{{ m | t%s }}", False, False),
    "t_ctx": ("{{ m | t: c%s }}", True, False),
    "t_plural": ("{{ m | t: plural: p, count: n%s }}", False, True),
    "t_ctx_plural": ("{{ m | t: c, plural: p, count: n%s }}", True, True),
}
T_FILTER = {}
VALUES = ("", "a", "%")
for _f, (_src, _c, _p) in FILTER_FORMS.items():
    _first = ": " if _f in ("gettext", "t") else ", "
    T_FILTER[(_f, False)] = ENV.from_string(_src % "")
    T_FILTER[(_f, True)] = ENV.from_string(_src % (_first + "name: k"))

# the forms of each filter exercised by its family conditions
FILTERS = {"gettext": ("gettext",), "pgettext": ("pgettext",), "ngettext": ("ngettext",),
           "npgettext": ("npgettext",), "t": ("t", "t_ctx", "t_plural", "t_ctx_plural")}


def filter_case(form, msg, parts, usekw, plural, v, k, y):
    """(observed, expected) of one filter application. `plural` routes the
    message through the plural argument (count 2) instead of the left value."""
    _src, _c, has_plural = FILTER_FORMS[form]
    data = {"c": "ctx"}
    names = parts[1::2]
    if "name" in names:
        if usekw:
            # the keyword argument shadows a different value in the render context
            ki = pick(3, k)
            k = VALUES[ki]
            data.update(name=VALUES[(ki + 1) % 3], k=k)
        else:
            v = VALUES[pick(3, v)]
            data["name"] = v
    if "you" in names:
        y = VALUES[pick(3, y)]
        data["you"] = y
    if has_plural:
        if plural:
            data.update(m="singular", p=msg, n=2)
        else:
            data.update(m=msg, p="plural", n=1)
    else:
        data["m"] = msg
    out = render(T_FILTER[(form, usekw)], data)
    exp = substitute(parts, {"name": k if usekw else v, "you": y})
    return out, exp


def redundant(form, msg, usekw, plural):
    """Selector combinations that repeat another one: the keyword argument form
    is only exercised with messages that have a placeholder, the plural route
    only by forms that take a plural."""
    if usekw and len(PARTS[msg]) == 1:
        return True
    if plural and not FILTER_FORMS[form][2]:
        return True
    return False


def _family_case(filt, msgs, mi, fi, usekw, plural, v, k, y):
    forms = FILTERS[filt]
    form = forms[fi]
    msg = msgs[mi]
    return filter_case(form, msg, PARTS[msg], usekw, plural, v, k, y)


def _mk_filter_family(name, filt, msgs):
    nforms = len(FILTERS[filt])

    def f(mi: int, fi: int, usekw: bool, plural: bool, v: int, k: int, y: int) -> bool:
        """
        pre: 0 <= mi and 0 <= fi
        pre: 0 <= v <= 2 and 0 <= k <= 2 and 0 <= y <= 2
        post: _
        """
        if excluded(name, locals()):
            return True
        if mi >= len(msgs) or fi >= nforms:
            return True
        mi = pick(len(msgs), mi)
        fi = pick(nforms, fi)
        if redundant(FILTERS[filt][fi], msgs[mi], usekw, plural):
            return True
        out, exp = _family_case(filt, msgs, mi, fi, usekw, plural, v, k, y)
        return finish(out == exp)

    def detail(mi, fi, usekw, plural, v, k, y):
        out, exp = _family_case(filt, msgs, mi, fi, usekw, plural, v, k, y)
        return {"form": FILTERS[filt][fi], "message": msgs[mi], "observed": out, "expected": exp}
    f.__name__ = f.__qualname__ = name
    DETAIL[name] = detail
    return f


_BUDGET = {"plain": (30, 90), "ph": (40, 120), "dbl": (30, 90), "dblph": (30, 90), "pcs": (30, 90), "bare": (30, 90)}
for _filt in FILTERS:
    for _cls in CLASSES:
        _n = "c26_%s_%s" % (_filt, _cls)
        globals()[_n] = _mk_filter_family(_n, _filt, BY_CLASS["k2"][_cls])
        CONDITIONS.append({"fn": _n, "quick": _BUDGET[_cls][0] * (2 if _filt == "t" else 1), "thorough": _BUDGET[_cls][1] * (2 if _filt == "t" else 1),
                           "bounds": "%d message texts of class %s from <= 2 fragments; %d filter forms; values: str len <= 1 over 'a%%'"
                                     % (len(BY_CLASS["k2"][_cls]), _cls, len(FILTERS[_filt]))})
        _n = "c26_%s_%s_k3" % (_filt, _cls)
        globals()[_n] = _mk_filter_family(_n, _filt, BY_CLASS["k3"][_cls])
        CONDITIONS.append({"fn": _n, "quick": None, "thorough": {"gettext": 150, "pgettext": 150, "ngettext": 240, "npgettext": 240, "t": 600}[_filt],
                           "bounds": "%d message texts of class %s from exactly 3 fragments; %d filter forms; values: str len <= 1 over 'a%%'"
                                     % (len(BY_CLASS["k3"][_cls]), _cls, len(FILTERS[_filt]))})


# ---------------------------------------------------------------------------
# filters: symbolic message text (passed as render data)
# ---------------------------------------------------------------------------
T_SYM = {"gettext": ENV.from_string("{{ m | gettext }}"), "t": ENV.from_string("{{ m | t }}"),
         "ngettext": ENV.from_string("{{ 'one' | ngettext: m, 2 }}")}


def _mk_sym_nopct(name, filt):
    def f(m: str) -> bool:
        """
        pre: len(m) <= 3
        pre: all(ch in "()sa " for ch in m)
        post: _
        """
        if excluded(name, locals()):
            return True
        out = render(T_SYM[filt], {"m": m})
        return finish(out == m)
    f.__name__ = f.__qualname__ = name
    DETAIL[name] = lambda m: {"observed": render(T_SYM[filt], {"m": m}), "expected": m}
    return f


def _mk_sym_pct(name, filt):
    def f(m: str) -> bool:
        """
        pre: len(m) <= 3
        pre: all(ch in "%()sa " for ch in m)
        pre: "%" in m
        post: _
        """
        # no placeholder fits in three characters: the text must come out unchanged
        if excluded(name, locals()):
            return True
        out = render(T_SYM[filt], {"m": m})
        return finish(out == m)
    f.__name__ = f.__qualname__ = name
    DETAIL[name] = lambda m: {"observed": render(T_SYM[filt], {"m": m}), "expected": m}
    return f


def _around(filt, a, b, v):
    out = render(T_SYM[filt], {"m": a + "%(name)s" + b, "name": v})
    return out, a + v + b


def _mk_sym_around_nopct(name, filt):
    def f(a: str, b: str, v: str) -> bool:
        """
        pre: len(a) <= 1 and len(b) <= 1 and len(v) <= 1
        pre: all(ch in "()sa " for ch in a + b)
        pre: all(ch in "%(a" for ch in v)
        post: _
        """
        if excluded(name, locals()):
            return True
        out, exp = _around(filt, a, b, v)
        return finish(out == exp)
    f.__name__ = f.__qualname__ = name
    DETAIL[name] = lambda a, b, v: dict(zip(("observed", "expected"), _around(filt, a, b, v)))
    return f


def _mk_sym_around_pct(name, filt):
    def f(a: str, b: str, v: str) -> bool:
        """
        pre: len(a) <= 1 and len(b) <= 1 and len(v) <= 1
        pre: all(ch in "%()sa " for ch in a + b)
        pre: "%" in a + b
        pre: all(ch in "%(a" for ch in v)
        post: _
        """
        if excluded(name, locals()):
            return True
        out, exp = _around(filt, a, b, v)
        return finish(out == exp)
    f.__name__ = f.__qualname__ = name
    DETAIL[name] = lambda a, b, v: dict(zip(("observed", "expected"), _around(filt, a, b, v)))
    return f


for _filt in ("gettext", "t", "ngettext"):
    for _kind, _mk, _q, _t in (("nopct", _mk_sym_nopct, 30, 90), ("pct", _mk_sym_pct, 30, 90),
                               ("around_nopct", _mk_sym_around_nopct, 30, 90), ("around_pct", _mk_sym_around_pct, 30, 90)):
        _n = "c26_sym_%s_%s" % (_filt, _kind)
        globals()[_n] = _mk(_n, _filt)
        CONDITIONS.append({"fn": _n, "quick": _q if _filt != "ngettext" else None, "thorough": _t})


# ---------------------------------------------------------------------------
# plural choice by count
# ---------------------------------------------------------------------------
S_TXT = "one %(name)s"
P_TXT = "many %(name)s"
COUNT_SOURCES = {
    # entry point -> list of (source, has plural)
    "t": [("{{ m | t: plural: p, count: n }}", True),
          ("{{ m | t: 'ctx', plural: p, count: n }}", True),
          ("{{ m | t: count: n }}", False),
          ("{{ m | t: plural: p, count: n, name: name }}", True)],
    "ngettext": [("{{ m | ngettext: p, n }}", True),
                 ("{{ m | ngettext: p, n, name: name }}", True)],
    "npgettext": [("{{ m | npgettext: 'ctx', p, n }}", True),
                  ("{{ m | npgettext: 'ctx', p, n, name: name }}", True)],
    "tag": [("{% translate count: n %}one {{ name }}{% plural %}many {{ name }}{% endtranslate %}", True),
            ("{% translate context: 'ctx', count: n %}one {{ name }}{% plural %}many {{ name }}{% endtranslate %}", True),
            ("{% translate count: n %}one {{ name }}{% endtranslate %}", False),
            ("{% translate count: n, name: name %}\n one\n {{ name }} {% plural %}\n many\n {{ name }} {% endtranslate %}", True)],
}
COUNT_FORMS = {e: [(ENV.from_string(src), pl) for src, pl in forms] for e, forms in COUNT_SOURCES.items()}


def count_case(entry, fi, n, v):
    """(observed, singular text, plural text, has plural) for a count value."""
    t, has_plural = COUNT_FORMS[entry][fi]
    out = render(t, {"m": S_TXT, "p": P_TXT, "n": n, "name": v})
    return out, "one " + v, "many " + v, has_plural


def _mk_count_int(name, entry, zero):
    nforms = len(COUNT_FORMS[entry])

    def f(fi: int, n: int, v: str) -> bool:
        """
        pre: 0 <= fi
        pre: len(v) <= 1
        pre: all(ch in "a%" for ch in v)
        post: _
        """
        if excluded(name, locals()):
            return True
        if fi >= nforms or (n == 0) != zero:
            return True
        fi = pick(nforms, fi)
        out, sing, plur, has_plural = count_case(entry, fi, n, v)
        exp = NULL.ngettext(sing, plur, n) if has_plural else sing
        return finish(out == exp)

    def detail(fi, n, v):
        out, sing, plur, has_plural = count_case(entry, fi, n, v)
        return {"template": COUNT_SOURCES[entry][fi][0], "observed": out, "expected": NULL.ngettext(sing, plur, n) if has_plural else sing}
    f.__name__ = f.__qualname__ = name
    DETAIL[name] = detail
    return f


def _mk_count_nonint(name, entry):
    nforms = len(COUNT_FORMS[entry])

    def f(fi: int, n: Optional[bool], v: str) -> bool:
        """
        pre: 0 <= fi
        pre: len(v) <= 1
        pre: all(ch in "a%" for ch in v)
        post: _
        """
        # true counts as one (singular); for false and nil the docs are silent whether
        # they mean "no count" (singular) or zero (plural): either text is accepted, for
        # nil also a Liquid error, but nothing else.
        if excluded(name, locals()):
            return True
        if fi >= nforms:
            return True
        fi = pick(nforms, fi)
        out, sing, plur, has_plural = count_case(entry, fi, n, v)
        if n is True or not has_plural:
            ok = out == sing or (n is None and out.startswith("ERR:"))
        elif n is False:
            ok = out == sing or out == plur
        else:
            ok = out == sing or out == plur or out.startswith("ERR:")
        return finish(ok)

    def detail(fi, n, v):
        out, sing, plur, has_plural = count_case(entry, fi, n, v)
        return {"template": COUNT_SOURCES[entry][fi][0], "observed": out, "accepted": [sing, plur, "ERR:<Liquid error> (nil only)"]}
    f.__name__ = f.__qualname__ = name
    DETAIL[name] = detail
    return f


for _e in COUNT_FORMS:
    for _n, _fn in (("c26_count_%s_nonzero" % _e, _mk_count_int("c26_count_%s_nonzero" % _e, _e, False)),
                    ("c26_count_%s_zero" % _e, _mk_count_int("c26_count_%s_zero" % _e, _e, True)),
                    ("c26_count_%s_nonint" % _e, _mk_count_nonint("c26_count_%s_nonint" % _e, _e))):
        globals()[_n] = _fn
        CONDITIONS.append({"fn": _n, "quick": 30, "thorough": 90,
                           "bounds": "%d call forms of %s; count: %s; value: str len <= 1 over 'a%%'"
                                     % (len(COUNT_FORMS[_e]), _e, "int != 0" if _n.endswith("nonzero") else "0" if _n.endswith("zero") else "nil|true|false")})


# ---------------------------------------------------------------------------
# translate tag: message family compiled into the template
# ---------------------------------------------------------------------------
TAG_FRAGS = FRAGS + ["{{ name }}"]
TAG_CLASSES = ("plain", "var", "pct", "pctvar")
RE_TAGVAR = re.compile(r"\{\{ (\w+) \}\}")
RE_WS_NL = re.compile(r"\s*\n\s*")
RE_WS_ALL = re.compile(r"\s+")


def tag_classify(msg):
    var = "{{" in msg
    pct = "%" in msg
    return "pctvar" if var and pct else "var" if var else "pct" if pct else "plain"


def tag_parts(msg):
    """The two accepted normalisations of a tag message, each as [lit, var, ..., lit]:
    whitespace runs containing a newline collapsed to one space (what the tag does
    to the message id), or every whitespace run collapsed; leading/trailing
    whitespace stripped. Variables are cut out before normalising."""
    pieces = RE_TAGVAR.split(msg)
    flat = ""
    for i in range(len(pieces)):
        flat += pieces[i] if i % 2 == 0 else "\x00"
    res = []
    for rx in (RE_WS_NL, RE_WS_ALL):
        lits = rx.sub(" ", flat.strip()).split("\x00")
        parts = [lits[0]]
        for i in range(1, len(lits)):
            parts.append(pieces[2 * i - 1])
            parts.append(lits[i])
        res.append(parts)
    return res


def _tag_family(ks):
    seen = []
    for k in ks:
        for fs in itertools.product(TAG_FRAGS, repeat=k):
            s = "".join(fs)
            if s not in seen:
                seen.append(s)
    return seen


TAG_EXTRA = ["Hello, {{ you }}!", "\n  Hello,\n  {{ you }}  and {{ name }}!\n", "{{ name }}{{ other }}|", "100% of {{ name }}",
             "{{ name }}% of %(name)s", "50%{{ name }}", "a  b"]
TFAM2 = _tag_family((0, 1, 2))
for _s in TAG_EXTRA:
    if _s not in TFAM2:
        TFAM2.append(_s)
TFAM3 = [s for s in _tag_family((3,)) if s not in TFAM2]
TAG_BY_CLASS = {"k2": {c: [s for s in TFAM2 if tag_classify(s) == c] for c in TAG_CLASSES},
                "k3": {c: [s for s in TFAM3 if tag_classify(s) == c] for c in TAG_CLASSES}}
TAG_PARTS = {s: tag_parts(s) for s in TFAM2 + TFAM3}
TAG_FORMS = ("{%% translate %%}%s{%% endtranslate %%}",
             "{%% translate context: 'ctx' %%}%s{%% endtranslate %%}",
             "{%% translate count: 2 %%}singular{%% plural %%}%s{%% endtranslate %%}",
             "{%% translate name: k %%}%s{%% endtranslate %%}")
T_TAG = {}
for _s in TFAM2 + TFAM3:
    for _i in range(len(TAG_FORMS)):
        T_TAG[(_s, _i)] = ENV.from_string(TAG_FORMS[_i] % _s)


def tag_case(msg, fi, v, k, y):
    parts = TAG_PARTS[msg]
    names = parts[0][1::2]
    data = {}
    val = ""
    if "name" in names:
        if fi == 3:
            ki = pick(3, k)
            val = VALUES[ki]
            data.update(name=VALUES[(ki + 1) % 3], k=val)
        else:
            val = VALUES[pick(3, v)]
            data["name"] = val
    if "you" in names:
        y = VALUES[pick(3, y)]
        data["you"] = y
    out = render(T_TAG[(msg, fi)], data)
    variables = {"name": val, "you": y}
    return out, substitute(parts[0], variables), substitute(parts[1], variables)


def _mk_tag_family(name, msgs):
    def f(mi: int, fi: int, v: int, k: int, y: int) -> bool:
        """
        pre: 0 <= mi and 0 <= fi <= 3
        pre: 0 <= v <= 2 and 0 <= k <= 2 and 0 <= y <= 2
        post: _
        """
        if excluded(name, locals()):
            return True
        if mi >= len(msgs):
            return True
        mi = pick(len(msgs), mi)
        fi = pick(4, fi)
        msg = msgs[mi]
        if fi == 3 and len(TAG_PARTS[msg][0]) == 1:
            return True  # keyword form without a placeholder repeats form 0
        out, e1, e2 = tag_case(msg, fi, v, k, y)
        return finish(out == e1 or out == e2)

    def detail(mi, fi, v, k, y):
        out, e1, e2 = tag_case(msgs[mi], fi, v, k, y)
        return {"template": TAG_FORMS[fi] % msgs[mi], "observed": out, "expected": sorted(set([e1, e2]))}
    f.__name__ = f.__qualname__ = name
    DETAIL[name] = detail
    return f


for _cls in TAG_CLASSES:
    _n = "c26_tag_%s" % _cls
    globals()[_n] = _mk_tag_family(_n, TAG_BY_CLASS["k2"][_cls])
    CONDITIONS.append({"fn": _n, "quick": 40, "thorough": 120,
                       "bounds": "%d tag message texts of class %s from <= 2 fragments; 4 tag forms; values: str len <= 1 over 'a%%'"
                                 % (len(TAG_BY_CLASS["k2"][_cls]), _cls)})
    _n = "c26_tag_%s_k3" % _cls
    globals()[_n] = _mk_tag_family(_n, TAG_BY_CLASS["k3"][_cls])
    CONDITIONS.append({"fn": _n, "quick": None, "thorough": 300,
                       "bounds": "%d tag message texts of class %s from exactly 3 fragments; 4 tag forms; values: str len <= 1 over 'a%%'"
                                 % (len(TAG_BY_CLASS["k3"][_cls]), _cls)})


# ---- the tag's whitespace collapsing with every kind of whitespace around a line break ---------------------------------
WS_POOL = ["", " ", chr(9), chr(13), chr(12), chr(11), chr(0xA0), chr(0x2003), chr(0x85), "  ", chr(13) + " ", " " + chr(13)]
_WS_T = {}


def ws_case(pi, qi, fi):
    msg = "x" + WS_POOL[pi] + chr(10) + WS_POOL[qi] + "{{ name }}y" + WS_POOL[qi] + chr(10) + WS_POOL[pi] + "z"
    key = (pi, qi, fi)
    if key not in _WS_T:
        _WS_T[key] = ENV.from_string(TAG_FORMS[fi] % msg)
    parts = tag_parts(msg)
    data = {"name": "N", "k": "K"}
    out = render(_WS_T[key], data)
    variables = {"name": "K" if fi == 3 else "N"}
    return out, substitute(parts[0], variables), substitute(parts[1], variables)


def c26_tag_whitespace(pi: int, qi: int, fi: int) -> bool:
    """
    pre: 0 <= pi <= 11 and 0 <= qi <= 11 and 0 <= fi <= 3
    post: _
    """
    if excluded("c26_tag_whitespace", locals()):
        return True
    pi, qi, fi = cint(pi, 0, 11), cint(qi, 0, 11), cint(fi, 0, 3)
    out, e1, e2 = untraced(lambda: ws_case(pi, qi, fi))
    return finish(out == e1 or out == e2)


DETAIL["c26_tag_whitespace"] = lambda pi, qi, fi: dict(zip(("observed", "expected (runs with a line break collapsed)", "expected (all runs collapsed)"),
                                                         [repr(x) for x in ws_case(pi, qi, fi)]))
CONDITIONS.append({"fn": "c26_tag_whitespace", "quick": 60, "thorough": 120, "sel_only": True,
                   "bounds": "12 x 12 whitespace strings (space, tab, CR, FF, VT, NBSP, em space, NEL, combinations) before / after a line break, 4 tag forms"})


# ---- whitespace-only text between two placeholders (a content node of its own), and at either end of the message -------
_WB_T = {}


def wb_case(pi, qi, fi):
    msg = WS_POOL[qi] + "{{ name }}" + WS_POOL[pi] + "{{ k }}" + WS_POOL[qi] + "{{ name }}" + WS_POOL[pi]
    key = (pi, qi, fi)
    if key not in _WB_T:
        _WB_T[key] = ENV.from_string(TAG_FORMS[fi] % msg)
    parts = tag_parts(msg)
    out = render(_WB_T[key], {"name": "N", "k": "K"})
    variables = {"name": "K" if fi == 3 else "N", "k": "K"}
    return out, substitute(parts[0], variables), substitute(parts[1], variables)


def c26_tag_ws_between(pi: int, qi: int, fi: int) -> bool:
    """
    pre: 0 <= pi <= 11 and 0 <= qi <= 11 and 0 <= fi <= 3
    post: _
    """
    if excluded("c26_tag_ws_between", locals()):
        return True
    pi, qi, fi = cint(pi, 0, 11), cint(qi, 0, 11), cint(fi, 0, 3)
    out, e1, e2 = untraced(lambda: wb_case(pi, qi, fi))
    return finish(out == e1 or out == e2)


DETAIL["c26_tag_ws_between"] = lambda pi, qi, fi: dict(zip(("observed", "expected (runs with a line break collapsed)", "expected (all runs collapsed)"),
                                                         [repr(x) for x in wb_case(pi, qi, fi)]))
CONDITIONS.append({"fn": "c26_tag_ws_between", "quick": 60, "thorough": 120, "sel_only": True,
                   "bounds": "12 x 12 whitespace strings between / around three placeholders, 4 tag forms"})


# ---- placeholder names outside ASCII (valid Liquid identifiers: the tokenizer's word pattern is Unicode) ------------------
U_NAMES = ["gr\u00f6\u00dfe", "pr\u00e9nom", "\u540d\u524d", "total_gr\u00f6\u00dfe", "\u00df", "x1", "_a", "\u0416", "\u00f1o", "\u0661x"]
U_FORMS = [("{{ 'A %(N)s, 100% B %(N)s' | t: N: v }}", "A V, 100% B V"),
           ("{{ 'A %(N)s' | gettext: N: v }}", "A V"),
           ("{{ 'one %(N)s' | ngettext: 'many %(N)s', 2, N: v }}", "many V"),
           ("{{ 'A %(N)s' | pgettext: 'ctx', N: v }}", "A V"),
           ("{{ 'one %(N)s' | npgettext: 'ctx', 'many %(N)s', 1, N: v }}", "one V"),
           ("{% translate N: v %}A {{ N }}, 100%{% endtranslate %}", "A V, 100%"),
           ("{% assign N = v %}{% translate %}A {{ N }} {{ N }}{% endtranslate %}", "A V V"),
           ("{% translate count: 2, N: v %}one {{ N }}{% plural %}many {{ N }}{% endtranslate %}", "many V"),
           ("{% assign N = v %}{{ 'A %(N)s' | t }}", "A V"),
           ("{{ 'A %(N)s %(other)s' | t: other: v, N: 'W' }}", "A W V")]
_U_T = {}


def unicode_name_case(ni, fi):
    key = (ni, fi)
    if key not in _U_T:
        _U_T[key] = ENV.from_string(U_FORMS[fi][0].replace("N", U_NAMES[ni]))
    return render(_U_T[key], {"v": "V"}), U_FORMS[fi][1]


def c26_unicode_names(ni: int, fi: int) -> bool:
    """
    pre: 0 <= ni <= 9 and 0 <= fi <= 9
    post: _
    """
    if excluded("c26_unicode_names", locals()):
        return True
    ni, fi = cint(ni, 0, 9), cint(fi, 0, 9)
    out, exp = untraced(lambda: unicode_name_case(ni, fi))
    return finish(out == exp)


DETAIL["c26_unicode_names"] = lambda ni, fi: {"template": U_FORMS[fi][0].replace("N", U_NAMES[ni]), "observed": unicode_name_case(ni, fi)[0], "expected": U_FORMS[fi][1]}
CONDITIONS.append({"fn": "c26_unicode_names", "quick": 40, "thorough": 80, "sel_only": True,
                   "bounds": "10 placeholder names (8 with letters or digits outside ASCII) x 10 filter / tag forms"})


# ---- one parsed translate tag formatting several messages: the same template rendered again with another count, and the
# tag inside a loop whose count changes per iteration (nothing learnt from one message may be applied to the next) ----------
RR_PAIRS = [("One item", "{{ count }} items"), ("{{ count }} item", "Many items"), ("One %", "{{ count }} %%"), ("{{ n }} thing", "{{ n }} things ({{ count }})"),
            ("plain", "plainer"), ("100%", "{{ count }}00%")]
_RR_T = {}


def rr_expected(pair, c, n):
    text = RR_PAIRS[pair][0 if c == 1 else 1]
    return text.replace("{{ count }}", str(c)).replace("{{ n }}", n)


def rerender_case(pair, c1, c2, c3):
    if pair not in _RR_T:
        s1, s2 = RR_PAIRS[pair]
        _RR_T[pair] = (ENV.from_string("{% translate count: c, n: n %}" + s1 + "{% plural %}" + s2 + "{% endtranslate %}"),
                       ENV.from_string("{% for c in cs %}{% translate count: c, n: n %}" + s1 + "{% plural %}" + s2 + "{% endtranslate %}|{% endfor %}"))
    t, tl = _RR_T[pair]
    got = [render(t, {"c": c, "n": "N"}) for c in (c1, c2, c3)] + [render(tl, {"cs": [c1, c2, c3], "n": "N"})]
    exp = [rr_expected(pair, c, "N") for c in (c1, c2, c3)]
    exp.append("".join(e + "|" for e in exp))
    return got, exp


def c26_tag_rerender(pair: int, c1: int, c2: int, c3: int) -> bool:
    """
    pre: 0 <= pair <= 5 and 0 <= c1 <= 3 and 0 <= c2 <= 3 and 0 <= c3 <= 3
    post: _
    """
    if excluded("c26_tag_rerender", locals()):
        return True
    pair, c1, c2, c3 = cint(pair, 0, 5), cint(c1, 0, 3), cint(c2, 0, 3), cint(c3, 0, 3)
    got, exp = untraced(lambda: rerender_case(pair, c1, c2, c3))
    return finish(got == exp)


DETAIL["c26_tag_rerender"] = lambda pair, c1, c2, c3: {"singular / plural": RR_PAIRS[pair], "counts": (c1, c2, c3), "observed / expected": rerender_case(pair, c1, c2, c3)}
CONDITIONS.append({"fn": "c26_tag_rerender", "quick": 40, "thorough": 80, "sel_only": True})


ASSUMPTIONS = [
    "message texts are concrete members of the generated fragment family (selected by a symbolic index) or, in the c26_sym_* conditions, symbolic strings of length <= 3 / a placeholder with symbolic neighbours",
    "no `translations` variable in the render context (NullTranslations), autoescape off, default filter/tag options",
    "oracle: only %(identifier)s is a placeholder in filter messages; in the tag only {{ identifier }} is one and literal text is kept; keyword arguments shadow the render context; undefined variables print as ''",
    "the tag may normalise whitespace either by collapsing every whitespace run or only the runs that contain a newline (both accepted), and strips the ends",
    "count true = singular; for false/nil either text is accepted (nil: also a Liquid error) - the docs do not say whether they are counts",
]
OUTSIDE = [
    "message texts of more than 3 fragments; placeholders with conversion flags other than plain %(name)s",
    "autoescape=True (Markup % escaping), non-default message_interpolation / trim_messages",
    "real message catalogues (GNUTranslations, Babel)",
    "counts given as floats or strings",
    "variable values longer than one character (they are substituted verbatim, the value is realised by the % operator)",
]


def selftest():
    fails = []
    # repo-tested behaviour (tests/test_translate_filters.py, tests/test_translate_tag.py, docs/babel.md)
    if ENV.from_string("{{ 'Hello, %(you)s!' | gettext: you: 'World' }}").render() != substitute(split_placeholders("Hello, %(you)s!"), {"you": "World"}):
        fails.append("placeholder oracle disagrees with gettext on the repo's own example")
    if ENV.from_string("{{ 'Hello, %(you)s!' | t: plural: 'Hello, %(you)ss!', count: 2, you: 'World' }}").render() != "Hello, Worlds!":
        fails.append("t plural example")
    if ENV.from_string("{% translate count: 2, you: 'World' %}\n  Hello, {{ you }}!\n{% plural %}\n  Hello, {{ you }}s!\n{% endtranslate %}").render() != "Hello, Worlds!":
        fails.append("tag plural example")
    e = tag_parts("\n  Hello,\n  {{ you }}  and {{ name }}!\n")
    if substitute(e[0], {"you": "A", "name": "B"}) != "Hello, A  and B!" or substitute(e[1], {"you": "A", "name": "B"}) != "Hello, A and B!":
        fails.append("tag_parts normalisation")
    if [NULL.ngettext("s", "p", n) for n in (0, 1, 2, -1)] != ["p", "s", "p", "p"]:
        fails.append("NullTranslations.ngettext reference")
    if classify("%%%(name)s") != "dblph" or classify("%%(name)s") != "dbl" or classify("%(name)s") != "ph" or classify("a%") != "bare" or classify("%s") != "pcs" or classify("(a)") != "plain":
        fails.append("classify")
    for grp in (BY_CLASS, TAG_BY_CLASS):
        for tier in grp:
            for c, v in grp[tier].items():
                if not v:
                    fails.append("empty message class %s/%s" % (tier, c))
    return fails
