"""C14 Variables resolve to their innermost binding.

V1 (layers): skeleton templates bind the name `x` through every binding construct
(for, tablerow, with, macro parameter, capture, assign, include argument, render
argument, increment, decrement) in every nesting order of two (thorough: three) and
print `[{{ x }}]` before, inside, between and after the blocks. Every binding carries
its own SYMBOLIC value; presence of the render() argument, front matter, template
globals and environment globals are symbolic selectors. The expected output is
computed by a small reference interpreter of the skeleton (`ref_run`) that encodes the
order of the property statement: block variables, assigned/captured, render
arguments, front matter, template globals, environment globals, now/today, counters.

V2 (paths): symbolic int indexes / symbolic key strings / nested-variable paths over
nested data, through whole renders and through RenderContext.get / get_item, against
a reference resolver written from docs/variables_and_drops.md and docs/environment.md.

Real code executed symbolically: BoundTemplate.render / make_globals,
Environment.make_globals, RenderContext.__init__/get/get_item/resolve/assign/extend/copy,
ReadOnlyChainMap, Path.evaluate, the assign/capture/for/tablerow/with/macro/call/include/
render/increment/decrement/if nodes, Undefined / StrictUndefined.
"""
import datetime as _real_datetime
from collections.abc import Mapping

import liquid.context as _lc
from liquid import DictLoader, Environment, StrictUndefined
from liquid.context import RenderContext
from liquid.exceptions import LiquidError
from liquid.template import BoundTemplate
from liquid.undefined import Undefined

from vf.hx import excluded, finish

PROPERTY = "C14"


# --- fixed clock: `now` / `today` are read from liquid.context.datetime ---------------
class _FixedDateTime:
    @staticmethod
    def now():
        return _real_datetime.datetime(2020, 1, 2, 3, 4, 5)


class _FixedDate:
    @staticmethod
    def today():
        return _real_datetime.date(2020, 1, 2)


class _FixedClock:
    datetime = _FixedDateTime
    date = _FixedDate


_lc.datetime = _FixedClock
NOW_S = "2020-01-02 03:04:05"
TODAY_S = "2020-01-02"

PARTIALS = {}


class PreparsedLoader(DictLoader):
    """DictLoader that parses every partial once, at import (a per-render parse of the
    concrete partial source under the tracer only costs time)."""

    def __init__(self, templates):
        super().__init__(templates)
        self.parsed = {}

    def warm(self, env):
        for name in self.templates:
            if name not in self.parsed:
                self.parsed[name] = DictLoader.load(self, env, name)

    def load(self, env, name, *, globals=None, context=None, **kwargs):  # noqa: A002
        t = self.parsed.get(name)
        if t is None:
            return DictLoader.load(self, env, name, globals=globals, context=context, **kwargs)
        return t


LOADER = PreparsedLoader(PARTIALS)
ENV = Environment(extra=True, loader=LOADER)


def is_sym(s):
    """True for a CrossHair symbolic value (never true on the plain interpreter)."""
    return hasattr(s, "__ch_pytype__")


class Parts:
    """Output buffer / expected-output accumulator that keeps symbolic pieces apart
    and merges adjacent concrete text, so that two outputs are compared piece by piece
    (one cheap solver query per symbolic piece) instead of as one long symbolic string."""

    def __init__(self):
        self.parts = []

    def write(self, s):
        if isinstance(s, Parts):
            self.extend(s)
            return 0
        if is_sym(s):
            for reg in CAPTURED:
                if reg[0] is s:
                    self.extend(reg[1])
                    return len(s)
            self.parts.append(s)
        elif s:
            if self.parts and not is_sym(self.parts[-1]):
                self.parts[-1] = self.parts[-1] + s
            else:
                self.parts.append(s)
        return len(s)

    def extend(self, other):
        for p in other.parts:
            self.write(p)

    def join(self):
        out = ""
        for p in self.parts:
            out = out + p
        return out

    def getvalue(self):
        """StringIO API used by the capture tag: the joined text; when it contains symbolic
        pieces the decomposition is remembered so that printing it later is compared piecewise."""
        out = self.join()
        if is_sym(out):
            CAPTURED.append((out, self))
        return out


# captured strings with symbolic content: (joined string, Parts); reset at the top of every body
CAPTURED = []


class Ctx(RenderContext):
    """RenderContext whose capture buffers are `Parts` (the output stream limit is not in play)."""

    def get_buffer(self, buf=None):
        return Parts()


class Tpl(BoundTemplate):
    context_class = Ctx


def same(a, b):
    """a, b: Parts or 'ERR:..' strings."""
    if isinstance(a, str) or isinstance(b, str):
        return isinstance(a, str) and isinstance(b, str) and a == b
    pa = a.parts
    pb = b.parts
    shape = len(pa) == len(pb)
    if shape:
        for i in range(len(pa)):
            if is_sym(pa[i]) != is_sym(pb[i]):
                shape = False
    if not shape:
        return a.join() == b.join()
    for i in range(len(pa)):
        if not is_sym(pa[i]) and pa[i] != pb[i]:
            return False
    for i in range(len(pa)):
        if is_sym(pa[i]) and not (pa[i] is pb[i] or pa[i] == pb[i]):
            return False
    return True


def render_parts(t, data):
    """BoundTemplate.render with the output collected piecewise."""
    try:
        context = t.context_class(t, globals=t.make_globals(dict(**data)))
        buf = Parts()
        t.render_with_context(context, buf)
        return buf
    except LiquidError as e:
        return "ERR:" + type(e).__name__


def pick(lst, k):
    """lst[k] through comparisons (the list holds templates; k is symbolic)."""
    for i in range(len(lst)):
        if k == i:
            return lst[i]
    return lst[0]


# =========================================================================================
# V1: skeletons
# =========================================================================================
# A skeleton is a list of nodes: "P" (print x) or a tuple (kind[, body]); kinds:
#   block scope : for, for2 (two items), tr (tablerow), with, inc (include 'p', x: v),
#                 incw (include 'p' with v as x), incf (include 'p' for l as x)
#   isolated    : ren (render 'p', x: v), renw (render with v as x), renf (render for l as x),
#                 macro (positional), macrok (keyword argument), macrod (parameter default), ren0 (no argument),
#                 mac0 (macro without parameters)
#   locals      : assign, capture
#   counters    : incr, decr
#   no scope    : if, inc0 (include without arguments)
# compile_skel numbers the value carriers (render arguments v<j> / l<j>) in pre-order.
PRINT = "[{{ x }}]"
N_CARRIERS = {"for": 1, "for2": 2, "tr": 1, "with": 1, "macro": 1, "macrok": 1, "macrod": 1, "assign": 1,
              "inc": 1, "incw": 1, "incf": 1, "ren": 1, "renw": 1, "renf": 1}
LEAVES = ("assign", "incr", "decr")
BLOCK_LIKE = ("for", "with", "inc", "incw", "incf")
RENDER_LIKE = ("ren", "renw", "renf", "macro", "macrok", "macrod")
ISOLATED = RENDER_LIKE + ("ren0", "mac0")
LIST_KINDS = ("for", "tr", "incf", "renf")


class _Counter:
    def __init__(self):
        self.n = 0

    def take(self, k):
        j = self.n
        self.n += k
        return j


def _partial(src):
    name = "p%d" % len(PARTIALS)
    PARTIALS[name] = src
    return name


def compile_skel(nodes, ctr):
    """-> (source, indexed nodes)"""
    src = ""
    out = []
    for nd in nodes:
        if nd == "P":
            src += PRINT
            out.append(("P",))
            continue
        kind = nd[0]
        j = ctr.take(N_CARRIERS.get(kind, 0))
        body_src, body = ("", [])
        if len(nd) > 1:
            body_src, body = compile_skel(nd[1], ctr)
        if kind in ("for", "for2"):
            src += "{%% for x in l%d %%}%s{%% endfor %%}" % (j, body_src)
        elif kind == "tr":
            src += "{%% tablerow x in l%d %%}%s{%% endtablerow %%}" % (j, body_src)
        elif kind == "with":
            src += "{%% with x: v%d %%}%s{%% endwith %%}" % (j, body_src)
        elif kind == "macro":
            src += "{%% macro m%d x %%}%s{%% endmacro %%}{%% call m%d v%d %%}" % (j, body_src, j, j)
        elif kind == "macrok":
            src += "{%% macro m%d x %%}%s{%% endmacro %%}{%% call m%d x: v%d %%}" % (j, body_src, j, j)
        elif kind == "macrod":
            src += "{%% macro m%d x: v%d %%}%s{%% endmacro %%}{%% call m%d %%}" % (j, j, body_src, j)
        elif kind == "mac0":
            src += "{%% macro n%d %%}%s{%% endmacro %%}{%% call n%d %%}" % (len(PARTIALS), body_src, len(PARTIALS))
            _partial(body_src)  # only to keep the macro names unique
        elif kind == "capture":
            src += "{%% capture x %%}%s{%% endcapture %%}" % body_src
        elif kind == "assign":
            src += "{%% assign x = v%d %%}" % j
        elif kind == "inc":
            src += "{%% include '%s', x: v%d %%}" % (_partial(body_src), j)
        elif kind == "incw":
            src += "{%% include '%s' with v%d as x %%}" % (_partial(body_src), j)
        elif kind == "incf":
            src += "{%% include '%s' for l%d as x %%}" % (_partial(body_src), j)
        elif kind == "inc0":
            src += "{%% include '%s' %%}" % _partial(body_src)
        elif kind == "ren":
            src += "{%% render '%s', x: v%d %%}" % (_partial(body_src), j)
        elif kind == "renw":
            src += "{%% render '%s' with v%d as x %%}" % (_partial(body_src), j)
        elif kind == "renf":
            src += "{%% render '%s' for l%d as x %%}" % (_partial(body_src), j)
        elif kind == "ren0":
            src += "{%% render '%s' %%}" % _partial(body_src)
        elif kind == "incr":
            src += "{% increment x %}"
        elif kind == "decr":
            src += "{% decrement x %}"
        elif kind == "if":
            src += "{%% if true %%}%s{%% endif %%}" % body_src
        else:
            raise ValueError(kind)
        out.append((kind, j, body))
    return src, out


def _lists(nodes, acc):
    for nd in nodes:
        if nd[0] == "P":
            continue
        if nd[0] in LIST_KINDS:
            acc.append((nd[1], 1))
        elif nd[0] == "for2":
            acc.append((nd[1], 2))
        _lists(nd[2], acc)
    return acc


def skeleton(nodes):
    ctr = _Counter()
    src, ix = compile_skel(nodes, ctr)
    return {"src": src, "nodes": ix, "n": ctr.n, "lists": _lists(ix, []), "t": ENV.from_string(src)}


# --- reference interpreter ----------------------------------------------------------------
class RefCtx:
    """One render context of the reference model. blocks: values of block-scoped bindings of x,
    innermost last; local: the assigned/captured value; globs: [present, value] pairs, highest
    priority first (render arguments, front matter, template globals, environment globals)."""

    def __init__(self, globs):
        self.blocks = []
        self.has_local = False
        self.local = None
        self.globs = globs
        self.has_counter = False
        self.counter = 0


def show(v):
    if v is None:
        return ""
    if isinstance(v, (str, Parts)):
        return v
    if v is True:
        return "true"
    if v is False:
        return "false"
    return str(v)


def ref_lookup(c):
    if c.blocks:
        return show(c.blocks[-1])
    if c.has_local:
        return show(c.local)
    for g in c.globs:
        if g[0]:
            return show(g[1])
    if c.has_counter:
        return show(c.counter)
    return ""


def ref_run(nodes, c, vals, out):
    for nd in nodes:
        kind = nd[0]
        if kind == "P":
            out.write("[")
            out.write(ref_lookup(c))
            out.write("]")
            continue
        j = nd[1]
        body = nd[2]
        if kind in BLOCK_LIKE:
            c.blocks.append(vals[j])
            ref_run(body, c, vals, out)
            c.blocks.pop()
        elif kind == "for2":
            for q in (0, 1):
                c.blocks.append(vals[j + q])
                ref_run(body, c, vals, out)
                c.blocks.pop()
        elif kind == "tr":
            c.blocks.append(vals[j])
            out.write('<tr class="row1">\n<td class="col1">')
            ref_run(body, c, vals, out)
            out.write("</td></tr>\n")
            c.blocks.pop()
        elif kind in ("inc0", "if"):
            ref_run(body, c, vals, out)
        elif kind in RENDER_LIKE:
            ref_run(body, RefCtx([[True, vals[j]]] + c.globs), vals, out)
        elif kind in ("ren0", "mac0"):
            ref_run(body, RefCtx(c.globs), vals, out)
        elif kind == "capture":
            cap = Parts()
            ref_run(body, c, vals, cap)
            c.has_local = True
            c.local = cap
        elif kind == "assign":
            c.has_local = True
            c.local = vals[j]
        elif kind == "incr":
            out.write(str(c.counter))
            c.counter = c.counter + 1
            c.has_counter = True
        elif kind == "decr":
            c.counter = c.counter - 1
            out.write(str(c.counter))
            c.has_counter = True
    return out


def run_layers(sk, vals, ra, fm, tg, eg, g):
    """Render skeleton `sk` with carriers `vals` and the four global layers g[0..3]
    (render argument, front matter, template globals, environment globals) present
    according to the flags; compare with the reference interpreter."""
    del CAPTURED[:]
    ENV.globals = {"x": g[3]} if eg else {}
    t = Tpl(ENV, sk["t"].nodes, name="main",
            globals=ENV.make_globals({"x": g[2]} if tg else None),
            matter={"x": g[1]} if fm else None)
    data = {}
    for j in range(sk["n"]):
        data["v%d" % j] = vals[j]
    for j, ln in sk["lists"]:
        data["l%d" % j] = [vals[j]] if ln == 1 else [vals[j], vals[j + 1]]
    if ra:
        data["x"] = g[0]
    out = render_parts(t, data)
    ENV.globals = {}
    exp = ref_run(sk["nodes"], RefCtx([[ra, g[0]], [fm, g[1]], [tg, g[2]], [eg, g[3]]]), vals, Parts())
    return same(out, exp)


# --- nests of two ---------------------------------------------------------------------------
OUTER = ("for", "tr", "with", "macro", "capture", "inc", "inc0", "ren", "ren0", "if")
INNER = OUTER + LEAVES
# inside render / macro: include is a disabled tag (property C15), and the docs are silent on whether a
# rendered partial / macro shares the caller's counters or sees an enclosing partial's arguments. Those
# five slots are filled with the other binding forms of render / macro and a two-item loop instead.
FILL = {"inc": "renw", "inc0": "renf", "incr": "macrok", "decr": "macrod", "ren0": "for2"}


def _node(kind, body):
    return (kind,) if kind in LEAVES else (kind, body)


def _inner(isolated, kind):
    return FILL.get(kind, kind) if isolated else kind


NEST2 = {}
for _a in INNER:
    NEST2[_a] = []
    for _b in INNER:
        _bb = _inner(_a in ISOLATED, _b)
        if _a in LEAVES:
            # leaf first, then every construct after it:  P a P B( P ) P
            NEST2[_a].append(skeleton(["P", (_a,), "P", _node(_bb, ["P"]), "P"]))
        else:
            # P A( P B( P ) P ) P B( P ) P
            NEST2[_a].append(skeleton(["P", (_a, ["P", _node(_bb, ["P"]), "P"]), "P", _node(_b, ["P"]), "P"]))


def _mk_nest2(a):
    sks = NEST2[a]

    def f(k: int, ra: bool, fm: bool, tg: bool, eg: bool, g0: str, g1: str, g2: str, g3: str,
          v0: str, v1: str, v2: str, v3: str, v4: str) -> bool:
        """
        pre: 0 <= k <= 12
        pre: len(g0) <= 1 and len(g1) <= 1 and len(g2) <= 1 and len(g3) <= 1
        pre: len(v0) <= 1 and len(v1) <= 1 and len(v2) <= 1 and len(v3) <= 1 and len(v4) <= 1
        post: _
        """
        if excluded("c14_nest2_" + a, locals()):
            return True
        sk = pick(sks, k)
        return finish(run_layers(sk, [v0, v1, v2, v3, v4], ra, fm, tg, eg, [g0, g1, g2, g3]))
    f.__name__ = f.__qualname__ = "c14_nest2_" + a
    return f


CONDITIONS = []
for _a in NEST2:
    globals()["c14_nest2_" + _a] = _mk_nest2(_a)
    CONDITIONS.append({"fn": "c14_nest2_" + _a, "quick": 40, "thorough": 120})

# --- nests of three (thorough) -------------------------------------------------------------
# P A( P B( P C( P ) P ) P ) P    B ranges over the constructs with a body, C over all
NEST3 = {}
for _a in OUTER:
    NEST3[_a] = []
    for _b in OUTER:
        _bb = _inner(_a in ISOLATED, _b)
        row = []
        for _c in INNER:
            _cc = _inner(_a in ISOLATED or _bb in ISOLATED, _c)
            row.append(skeleton(["P", (_a, ["P", (_bb, ["P", _node(_cc, ["P"]), "P"]), "P"]), "P"]))
        NEST3[_a].append(row)


def _mk_nest3(a):
    rows = NEST3[a]

    def f(kb: int, kc: int, ra: bool, fm: bool, tg: bool, eg: bool, g0: str, g1: str, g2: str, g3: str,
          v0: str, v1: str, v2: str, v3: str, v4: str) -> bool:
        """
        pre: 0 <= kb <= 9 and 0 <= kc <= 12
        pre: len(g0) <= 1 and len(g1) <= 1 and len(g2) <= 1 and len(g3) <= 1
        pre: len(v0) <= 1 and len(v1) <= 1 and len(v2) <= 1 and len(v3) <= 1 and len(v4) <= 1
        post: _
        """
        if excluded("c14_nest3_" + a, locals()):
            return True
        sk = pick(pick(rows, kb), kc)
        return finish(run_layers(sk, [v0, v1, v2, v3, v4], ra, fm, tg, eg, [g0, g1, g2, g3]))
    f.__name__ = f.__qualname__ = "c14_nest3_" + a
    return f


for _a in NEST3:
    globals()["c14_nest3_" + _a] = _mk_nest3(_a)
    CONDITIONS.append({"fn": "c14_nest3_" + _a, "quick": None, "thorough": 600})

# --- other binding forms, two-item loops ---------------------------------------------------------
FORMS = []
for _k in ("incw", "incf", "renw", "renf", "macrok", "macrod", "for2"):
    # P K( P assign P capture(P) P ) P incr P
    FORMS.append(skeleton(["P", (_k, ["P", ("assign",), "P", ("capture", ["P"]), "P"]), "P", ("incr",), "P"]))
for _k in ("assign", "capture", "incr", "inc0", "with", "incw"):
    # two iterations: what the first iteration assigned is not visible while the loop variable is bound,
    # and is visible after the loop
    FORMS.append(skeleton(["P", ("for2", ["P", _node(_k, [("assign",), "P"] if _k != "capture" else ["P"]), "P"]), "P"]))


# a macro without parameters sees the globals only, and what it assigns stays inside
FORMS.append(skeleton(["P", ("assign",), "P", ("mac0", ["P", ("assign",), "P"]), "P"]))
FORMS.append(skeleton(["P", ("for", ["P", ("mac0", ["P", ("capture", ["P"]), "P"]), "P"]), "P"]))


def c14_forms(k: int, ra: bool, fm: bool, tg: bool, eg: bool, g0: str, g1: str, g2: str, g3: str,
              v0: str, v1: str, v2: str, v3: str, v4: str) -> bool:
    """
    pre: 0 <= k <= 14
    pre: len(g0) <= 1 and len(g1) <= 1 and len(g2) <= 1 and len(g3) <= 1
    pre: len(v0) <= 1 and len(v1) <= 1 and len(v2) <= 1 and len(v3) <= 1 and len(v4) <= 1
    post: _
    """
    if excluded("c14_forms", locals()):
        return True
    sk = pick(FORMS, k)
    return finish(run_layers(sk, [v0, v1, v2, v3, v4], ra, fm, tg, eg, [g0, g1, g2, g3]))


CONDITIONS.append({"fn": "c14_forms", "quick": 40, "thorough": 120})

# --- falsy values shadow like any other value -----------------------------------------------------
T_FALSY = ENV.from_string("{% if a %}{% assign x = v %}{% endif %}[{{ x }}]{% if c %}{% capture x %}{% endcapture %}[{{ x }}]{% endif %}")
FALSY = (None, False, 0, "")
FALSY_S = ("", "false", "0", "")


def c14_falsy_layers(kind: int, a: bool, c: bool, ra: bool, fm: bool, tg: bool, eg: bool) -> bool:
    """
    pre: 0 <= kind <= 3
    post: _
    """
    # the innermost present layer holds a falsy value (nil, false, 0, ""); every
    # layer below it holds a marker. The falsy value must be what is printed; an empty capture shadows too.
    if excluded("c14_falsy_layers", locals()):
        return True
    del CAPTURED[:]
    fv = None
    fs = ""
    for i in range(4):
        if kind == i:
            fv = FALSY[i]
            fs = FALSY_S[i]
    used = False
    vals = []
    for present, marker in ((a, "A"), (ra, "R"), (fm, "M"), (tg, "T"), (eg, "E")):
        if present and not used:
            vals.append(fv)
            used = True
        else:
            vals.append(marker)
    ENV.globals = {"x": vals[4]} if eg else {}
    t = Tpl(ENV, T_FALSY.nodes, name="main", globals=ENV.make_globals({"x": vals[3]} if tg else None),
            matter={"x": vals[2]} if fm else None)
    data = {"a": a, "c": c, "v": vals[0]}
    if ra:
        data["x"] = vals[1]
    out = render_parts(t, data)
    ENV.globals = {}
    exp = "[" + (fs if used else "") + "]" + ("[]" if c else "")
    return finish(not isinstance(out, str) and out.join() == exp)


CONDITIONS.append({"fn": "c14_falsy_layers", "quick": 40, "thorough": 120, "sel_only": True})

# --- now / today sit between the globals and the counters ---------------------------------------
T_NOW = ENV.from_string("[{{ now }}|{{ today }}]{% increment now %}{% decrement today %}[{{ now }}|{{ today }}]"
                        "{% if a %}{% assign now = v0 %}{% capture today %}{{ v1 }}{% endcapture %}{% endif %}[{{ now }}|{{ today }}]")


def c14_now_today(a: bool, ra: bool, fm: bool, tg: bool, eg: bool, v0: str, v1: str,
                  g0: str, g1: str, g2: str, g3: str) -> bool:
    """
    pre: len(v0) <= 1 and len(v1) <= 1
    pre: len(g0) <= 1 and len(g1) <= 1 and len(g2) <= 1 and len(g3) <= 1
    post: _
    """
    # globals of every layer shadow the built-in now / today; a counter of the same name never does
    if excluded("c14_now_today", locals()):
        return True
    del CAPTURED[:]
    ENV.globals = {"now": g3, "today": g3} if eg else {}
    t = Tpl(ENV, T_NOW.nodes, name="main", globals=ENV.make_globals({"now": g2, "today": g2} if tg else None),
            matter={"now": g1, "today": g1} if fm else None)
    data = {"a": a, "v0": v0, "v1": v1}
    if ra:
        data["now"] = g0
        data["today"] = g0
    out = render_parts(t, data)
    ENV.globals = {}
    gl = [g0 if ra else g1 if fm else g2 if tg else g3 if eg else NOW_S,
          g0 if ra else g1 if fm else g2 if tg else g3 if eg else TODAY_S]
    exp = Parts()
    for rnd in range(3):
        if rnd == 1:
            exp.write("0")
            exp.write("-1")
        exp.write("[")
        exp.write(v0 if (a and rnd == 2) else gl[0])
        exp.write("|")
        exp.write(v1 if (a and rnd == 2) else gl[1])
        exp.write("]")
    return finish(same(out, exp))


CONDITIONS.append({"fn": "c14_now_today", "quick": 40, "thorough": 120})

# --- the scope chain, driven directly with symbolic NAMES -------------------------------------------
ROOT = ENV.from_string("")


def c14_scope_names(na: str, nb: str, nc: str, ng: str, ni: str, q: str) -> bool:
    """
    pre: len(na) == 1 and len(nb) == 1 and len(nc) == 1 and len(ng) == 1 and len(ni) == 1 and len(q) == 1
    pre: all(ch in "xy" for ch in na + nb + nc + ng + ni + q)
    post: _
    """
    # names are symbolic: which bindings coincide with the queried name q is decided by the solver
    if excluded("c14_scope_names", locals()):
        return True
    ENV.globals = {}
    ctx = RenderContext(ROOT, globals=ROOT.make_globals({ng: "G"}))
    ctx.increment(ni)
    ctx.assign(na, "A")

    def look(c):
        return str(c.resolve(q)) + str(c.get([q], token=None))

    def want(*layers):
        for name, val in layers:
            if q == name:
                return val + val
        return ""

    base = ((na, "A"), (ng, "G"), (ni, "1"))
    ok = look(ctx) == want(*base)
    with ctx.extend({nb: "B"}):
        ok = ok and look(ctx) == want((nb, "B"), *base)
        with ctx.extend({nc: "C"}):
            ok = ok and look(ctx) == want((nc, "C"), (nb, "B"), *base)
            ctx.assign(nc, "D")  # writes the top-level locals, under the two pushed namespaces
            ok = ok and look(ctx) == want((nc, "C"), (nb, "B"), (nc, "D"), *base)
        ok = ok and look(ctx) == want((nb, "B"), (nc, "D"), *base)
    ok = ok and look(ctx) == want((nc, "D"), *base)
    # render / macro style copy: the namespace and the globals only
    cp = ctx.copy({nb: "B"})
    ok = ok and look(cp) == want((nb, "B"), (ng, "G"))
    cp.assign(q, "Z")
    ok = ok and look(cp) == "ZZ" and look(ctx) == want((nc, "D"), *base)
    # block-scope copy (block / extends): the namespace and then everything the caller sees
    cb = ctx.copy({nb: "B"}, block_scope=True)
    ok = ok and look(cb) == want((nb, "B"), (nc, "D"), *base)
    return finish(ok)


CONDITIONS.append({"fn": "c14_scope_names", "quick": 40, "thorough": 120})

# =========================================================================================
# V2: paths
# =========================================================================================


class Drop(Mapping):
    """A mapping drop as in docs/variables_and_drops.md; keys are compared, not hashed, so a
    symbolic key stays symbolic."""

    def __init__(self, keys, vals):
        self.ks = keys
        self.vs = vals

    def __getitem__(self, k):
        for i in range(len(self.ks)):
            if self.ks[i] == k:
                return self.vs[i]
        raise KeyError(k)

    def __iter__(self):
        return iter(self.ks)

    def __len__(self):
        return len(self.ks)

    def has(self, k):
        for i in range(len(self.ks)):
            if self.ks[i] == k:
                return True
        return False


class HStrictUndefined(StrictUndefined):
    """StrictUndefined as configured by `Environment(undefined=StrictUndefined)`. CrossHair constructs
    instances as `obj = cls.__new__(cls); obj.__init__(...)`; reading `obj.__init__` trips
    StrictUndefined.__getattribute__ before `msg` exists, so that one attribute name is let through."""

    __slots__ = ()
    allowed_properties = StrictUndefined.allowed_properties | frozenset(["__init__"])


def _env_class(ss, sfl):
    class E(Environment):
        string_sequences = ss
        string_first_and_last = sfl
        template_class = Tpl
    return E


ENVS = {}
for _ss in (False, True):
    for _sfl in (False, True):
        ENVS[(_ss, _sfl)] = _env_class(_ss, _sfl)()
        ENVS[(_ss, _sfl, "strict")] = _env_class(_ss, _sfl)(undefined=HStrictUndefined)


def env_of(ss, sfl, strict):
    """if/elif selection of one of the eight pre-built environments"""
    if strict:
        if ss:
            return ENVS[(True, True, "strict")] if sfl else ENVS[(True, False, "strict")]
        return ENVS[(False, True, "strict")] if sfl else ENVS[(False, False, "strict")]
    if ss:
        return ENVS[(True, True)] if sfl else ENVS[(True, False)]
    return ENVS[(False, True)] if sfl else ENVS[(False, False)]


class TemplateFamily:
    """The same source parsed once per environment."""

    def __init__(self, src):
        self.src = src
        self.by_env = {}
        for key, env in ENVS.items():
            self.by_env[id(env)] = env.from_string(src)

    def of(self, env):
        return self.by_env[id(env)]


MISSING = ("missing",)
ANY = ("any",)


def _has(obj, key):
    if isinstance(obj, Drop):
        return obj.has(key)
    try:
        return key in obj
    except TypeError:
        return False


def _int_key(key):
    return isinstance(key, int) and not isinstance(key, bool)


def ref_item(obj, key, ss, sfl):
    """Reference for one path segment, from docs/variables_and_drops.md (`__getitem__` on
    mappings and sequences, negative indexes, special size / first / last) and
    docs/environment.md (string_sequences, string_first_and_last). MISSING = undefined,
    ANY = the documentation does not say."""
    if isinstance(obj, Mapping):
        if _has(obj, key):
            return obj[key]
        if key == "size":
            return len(obj)
        if key == "first":
            return ANY if len(obj) > 0 else MISSING
        return MISSING
    if isinstance(obj, str):
        n = len(obj)
        if key == "size":
            return n
        if key == "first":
            return obj[0] if sfl and n > 0 else MISSING
        if key == "last":
            return obj[n - 1] if sfl and n > 0 else MISSING
        if _int_key(key) and ss and -n <= key < n:
            return obj[key]
        return MISSING
    if isinstance(obj, (list, tuple)):
        n = len(obj)
        if _int_key(key):
            return obj[key] if -n <= key < n else MISSING
        if key == "size":
            return n
        if key == "first":
            return obj[0] if n > 0 else MISSING
        if key == "last":
            return obj[n - 1] if n > 0 else MISSING
        return MISSING
    return MISSING


def ref_get(scope, path, ss, sfl):
    """scope: Drop / dict of the global variables; path: list of already evaluated segments"""
    root = path[0]
    if root is MISSING or not isinstance(root, str) or not _has(scope, root):
        return MISSING
    obj = scope[root]
    for seg in path[1:]:
        if seg is MISSING:
            return MISSING
        obj = ref_item(obj, seg, ss, sfl)
        if obj is MISSING or obj is ANY:
            return obj
    return obj


def expect_prints(values, strict):
    """expected output of a template that prints each value as [v]; ANY anywhere = don't care (None)"""
    exp = Parts()
    for v in values:
        if v is ANY:
            return None
        if v is MISSING:
            if strict:
                return "ERR:UndefinedError"
            v = ""
        exp.write("[")
        exp.write(show(v))
        exp.write("]")
    return exp


def check_prints(t, data, values, strict):
    del CAPTURED[:]
    exp = expect_prints(values, strict)
    if exp is None:
        return True  # the documentation does not say: nothing is rendered, nothing is demanded
    out = render_parts(t, data)
    return same(out, exp)


# ---- list indexes -------------------------------------------------------------------------------------
F_LIST = TemplateFamily("[{{ xs[i] }}][{{ xs[j.k] }}][{{ a.b[i].c }}][{{ a['b'][j.k]['c'] }}]")


def c14_path_list_index(n: int, i: int, strict: bool, v0: str, v1: str, v2: str) -> bool:
    """
    pre: 0 <= n <= 3 and -5 <= i <= 5
    pre: len(v0) <= 1 and len(v1) <= 1 and len(v2) <= 1
    post: _
    """
    if excluded("c14_path_list_index", locals()):
        return True
    env = env_of(False, False, strict)
    xs = [v0, v1, v2][:n]
    data = {"xs": xs, "i": i, "j": {"k": i}, "a": {"b": [{"c": v} for v in xs]}}
    r = ref_get(data, ["xs", i], False, False)
    r2 = ref_get(data, ["a", "b", i, "c"], False, False)
    return finish(check_prints(F_LIST.of(env), data, [r, r, r2, r2], strict))


F_LIST_PROPS = TemplateFamily("[{{ xs.size }}][{{ xs.first }}][{{ xs.last }}][{{ xs['size'] }}][{{ a.b.last.c }}][{{ a.b.first.c }}]")


def c14_path_list_props(n: int, strict: bool, v0: str, v1: str, v2: str) -> bool:
    """
    pre: 0 <= n <= 3
    pre: len(v0) <= 1 and len(v1) <= 1 and len(v2) <= 1
    post: _
    """
    if excluded("c14_path_list_props", locals()):
        return True
    env = env_of(False, False, strict)
    xs = [v0, v1, v2][:n]
    data = {"xs": xs, "a": {"b": [{"c": v} for v in xs]}}
    vals = [ref_get(data, ["xs", "size"], False, False), ref_get(data, ["xs", "first"], False, False),
            ref_get(data, ["xs", "last"], False, False), ref_get(data, ["xs", "size"], False, False),
            ref_get(data, ["a", "b", "last", "c"], False, False), ref_get(data, ["a", "b", "first", "c"], False, False)]
    return finish(check_prints(F_LIST_PROPS.of(env), data, vals, strict))


F_KEY = TemplateFamily("[{{ o[k] }}]")
F_KEY2 = TemplateFamily("[{{ o[k] }}][{{ w.o[k] }}][{{ o[j.k] }}]")


def c14_path_list_key(n: int, k: str, strict: bool, v0: str, v1: str, v2: str) -> bool:
    """
    pre: 0 <= n <= 3 and len(k) <= 5
    pre: all(ch in "sizefrtlapkq" for ch in k)
    pre: len(v0) <= 1 and len(v1) <= 1 and len(v2) <= 1
    post: _
    """
    # a string key on an array: only size / first / last mean something
    if excluded("c14_path_list_key", locals()):
        return True
    env = env_of(False, False, strict)
    xs = [v0, v1, v2][:n]
    data = {"o": xs, "k": k}
    r = ref_get(data, ["o", k], False, False)
    return finish(check_prints(F_KEY.of(env), data, [r], strict))


# ---- strings ----------------------------------------------------------------------------------------------
F_STR = TemplateFamily("[{{ s[i] }}][{{ s.first }}][{{ s.last }}][{{ w.s[j.i] }}]")
F_STR_SIZE = TemplateFamily("[{{ s.size }}][{{ w.s.size }}]")


def c14_path_string_index(s: str, i: int, ss: bool, sfl: bool, strict: bool) -> bool:
    """
    pre: len(s) <= 2 and -4 <= i <= 4
    post: _
    """
    if excluded("c14_path_string_index", locals()):
        return True
    env = env_of(ss, sfl, strict)
    data = {"s": s, "i": i, "w": {"s": s}, "j": {"i": i}}
    vals = [ref_get(data, ["s", i], ss, sfl), ref_get(data, ["s", "first"], ss, sfl),
            ref_get(data, ["s", "last"], ss, sfl), ref_get(data, ["w", "s", i], ss, sfl)]
    return finish(check_prints(F_STR.of(env), data, vals, strict))


def c14_path_string_size(s: str, ss: bool, sfl: bool, strict: bool) -> bool:
    """
    pre: len(s) <= 3
    post: _
    """
    if excluded("c14_path_string_size", locals()):
        return True
    env = env_of(ss, sfl, strict)
    data = {"s": s, "w": {"s": s}}
    r = ref_get(data, ["s", "size"], ss, sfl)
    return finish(check_prints(F_STR_SIZE.of(env), data, [r, r], strict))


def c14_path_string_key(s: str, k: str, ss: bool, sfl: bool, strict: bool) -> bool:
    """
    pre: len(s) <= 2 and len(k) <= 5
    pre: all(ch in "sizefrtlapkq" for ch in k)
    post: _
    """
    if excluded("c14_path_string_key", locals()):
        return True
    env = env_of(ss, sfl, strict)
    data = {"o": s, "k": k}
    r = ref_get(data, ["o", k], ss, sfl)
    return finish(check_prints(F_KEY.of(env), data, [r], strict))


# ---- mappings ----------------------------------------------------------------------------------------------
def _drop(own, v0, v1, v2, v3):
    if own:
        return Drop(["p", "k k", "size", "first", "last"], [v0, v1, v2, v3, v0])
    return Drop(["p", "k k", "q"], [v0, v1, v2])


def c14_path_drop_key(k: str, own: bool, strict: bool, v0: str, v1: str, v2: str, v3: str) -> bool:
    """
    pre: len(k) <= 5
    pre: all(ch in "sizefrtlapkq" for ch in k)
    pre: len(v0) <= 1 and len(v1) <= 1 and len(v2) <= 1 and len(v3) <= 1
    post: _
    """
    # symbolic key on a mapping drop, with and without own keys named size / first / last
    if excluded("c14_path_drop_key", locals()):
        return True
    env = env_of(False, False, strict)
    d = _drop(own, v0, v1, v2, v3)
    data = {"o": d, "k": k, "w": Drop(["o"], [d]), "j": Drop(["k"], [k])}
    r = ref_get(data, ["o", k], False, False)
    return finish(check_prints(F_KEY2.of(env), data, [r, r, r], strict))


KEY_POOL = ("p", "k k", "size", "first", "last", "zz", "")


def c14_path_dict_key(kk: int, own: bool, strict: bool, v0: str, v1: str, v2: str, v3: str) -> bool:
    """
    pre: 0 <= kk <= 6
    pre: len(v0) <= 1 and len(v1) <= 1 and len(v2) <= 1 and len(v3) <= 1
    post: _
    """
    # the same over a plain dict (keys are hashed, so the key is a selector from a pool)
    if excluded("c14_path_dict_key", locals()):
        return True
    env = env_of(False, False, strict)
    k = pick(KEY_POOL, kk)
    d = {"p": v0, "k k": v1, "size": v2, "first": v3, "last": v0} if own else {"p": v0, "k k": v1, "q": v2}
    data = {"o": d, "k": k, "w": {"o": d}, "j": {"k": k}}
    r = ref_get(data, ["o", k], False, False)
    return finish(check_prints(F_KEY2.of(env), data, [r, r, r], strict))


# ---- quoted keys, bracketed roots, nested variables --------------------------------------------------------
F_QUOTED = TemplateFamily("[{{ d[\"k k\"] }}][{{ d['k k'] }}][{{ [\"d\"].p }}][{{ ['d'][\"k k\"] }}][{{ d.p }}][{{ d['p'] }}]"
                          "[{{ d.xs[0] }}][{{ d[\"xs\"][-1] }}][{{ d.xs[-2] }}]")


def c14_path_quoted(strict: bool, has_kk: bool, has_p: bool, n: int, v0: str, v1: str, v2: str, v3: str) -> bool:
    """
    pre: 0 <= n <= 2
    pre: len(v0) <= 1 and len(v1) <= 1 and len(v2) <= 1 and len(v3) <= 1
    post: _
    """
    if excluded("c14_path_quoted", locals()):
        return True
    env = env_of(False, False, strict)
    d = {"xs": [v2, v3][:n]}
    if has_kk:
        d["k k"] = v0
    if has_p:
        d["p"] = v1
    data = {"d": d}
    kk = ref_get(data, ["d", "k k"], False, False)
    pp = ref_get(data, ["d", "p"], False, False)
    vals = [kk, kk, pp, kk, pp, pp, ref_get(data, ["d", "xs", 0], False, False),
            ref_get(data, ["d", "xs", -1], False, False), ref_get(data, ["d", "xs", -2], False, False)]
    return finish(check_prints(F_QUOTED.of(env), data, vals, strict))


F_NESTED = TemplateFamily("[{{ d[j.k] }}][{{ d[j.k][j.i] }}][{{ [j.r][j.k] }}][{{ d[j.zz] }}][{{ d[j.k][j.zz] }}][{{ d[d.name] }}]")
ROOT_POOL = ("d", "zz", "j")
NKEY_POOL = ("xs", "p", "zz", "size", "name")


def c14_path_nested(kr: int, kk: int, i: int, strict: bool, v0: str, v1: str, v2: str) -> bool:
    """
    pre: 0 <= kr <= 2 and 0 <= kk <= 4 and -3 <= i <= 3
    pre: len(v0) <= 1 and len(v1) <= 1 and len(v2) <= 1
    post: _
    """
    # a[b.c]: the inner path is resolved first and its value used as key / index / root name
    if excluded("c14_path_nested", locals()):
        return True
    env = env_of(False, False, strict)
    r = pick(ROOT_POOL, kr)
    k = pick(NKEY_POOL, kk)
    d = {"xs": [v0, v1], "p": v2, "name": "p"}
    data = {"d": d, "j": {"k": k, "i": i, "r": r}}
    one = ref_get(data, ["d", k], False, False)
    two = ref_get(data, ["d", k, i], False, False)
    three = ref_get(data, [r, k], False, False)
    # printing a whole array / hash is outside this property: don't-care
    vals = [ANY if isinstance(one, (list, dict)) else one, two, ANY if isinstance(three, (list, dict)) else three,
            MISSING, MISSING, v2]
    return finish(check_prints(F_NESTED.of(env), data, vals, strict))


# ---- presence of every level of a path of length 1..4 ----------------------------------------------------------
F_DEPTH = TemplateFamily("[{{ a }}][{{ a.b }}][{{ a.b.c }}][{{ a.b.c.d }}]")
F_DEPTH_EACH = [TemplateFamily("[{{ a }}]"), TemplateFamily("[{{ a.b }}]"), TemplateFamily("[{{ a.b.c }}]"),
                TemplateFamily("[{{ a.b.c.d }}]")]
BLOCKERS = (None, 7, "str", True, [], {})


def c14_path_depth(depth: int, plen: int, blk: int, strict: bool, v0: str) -> bool:
    """
    pre: 0 <= depth <= 4 and 1 <= plen <= 4 and 0 <= blk <= 5
    pre: len(v0) <= 1
    post: _
    """
    # data is nested `depth` levels deep and ends in a scalar / nil / empty container (blk) or, at full
    # depth, in the value; the path a.b.c.d is cut to `plen` segments
    if excluded("c14_path_depth", locals()):
        return True
    env = env_of(False, False, strict)
    names = ("a", "b", "c", "d")
    leaf = v0 if depth == 4 else pick(BLOCKERS, blk)
    obj = leaf
    lv = 4 if depth == 4 else depth
    # build {a: {b: {c: {d: leaf}}}} truncated: `depth` nested names exist
    for q in range(lv - 1, -1, -1):
        obj = {names[q]: obj}
    data = obj if lv > 0 else {}
    path = [names[q] for q in range(4) if q < plen]
    r = ref_get(data, path, False, False)
    if isinstance(r, (list, dict, bool, int)) or r is None:
        # the path ends on the blocker itself or on a hash: printing those is not this property
        return finish(True)
    t = pick(F_DEPTH_EACH, plen - 1).of(env)
    return finish(check_prints(t, data, [r], strict))


# ---- RenderContext.get / get_item called directly ------------------------------------------------------------------
ROOTS = {}
for _key, _env in ENVS.items():
    ROOTS[id(_env)] = _env.from_string("")


def is_undef(v):
    return issubclass(type(v), Undefined)  # isinstance() trips StrictUndefined.__getattribute__


def agrees(got, want):
    """got: what liquid returned; want: reference value / MISSING / ANY"""
    if want is ANY:
        return True
    if want is MISSING:
        return is_undef(got)
    if is_undef(got):
        return False
    return got is want or got == want


def _api_get(path, xs, s, v0, v1, ss, sfl, strict):
    env = env_of(ss, sfl, strict)
    d = Drop(["p", "xs", "s", "size"], [v0, xs, s, v1])
    scope = Drop(["xs", "d", "s"], [xs, d, s])
    ctx = Ctx(ROOTS[id(env)], globals=scope)
    want = ref_get(scope, path, ss, sfl)
    got = ctx.get(path, token=None)
    sentinel = ("default",)
    got_d = ctx.get(path, token=None, default=sentinel)
    ok = agrees(got, want)
    if want is MISSING:
        ok = ok and got_d is sentinel
    elif want is not ANY:
        ok = ok and got_d is not sentinel and (got_d is want or got_d == want)
    return ok


def c14_api_get_index(n: int, i: int, which: int, ss: bool, sfl: bool, strict: bool, s: str,
                      v0: str, v1: str, v2: str) -> bool:
    """
    pre: 0 <= n <= 3 and -4 <= i <= 4 and 0 <= which <= 3 and len(s) <= 2
    pre: len(v0) <= 1 and len(v1) <= 1 and len(v2) <= 1
    post: _
    """
    # RenderContext.get(path, token=None[, default=...]) with a symbolic index against the reference resolver
    if excluded("c14_api_get_index", locals()):
        return True
    xs = [v0, v1, v2][:n]
    if which == 0:
        path = ["xs", i]
    elif which == 1:
        path = ["d", "xs", i]
    elif which == 2:
        path = ["s", i]
    else:
        path = [i, "xs"]  # a root that is not a name
    return finish(_api_get(path, xs, s, v0, v1, ss, sfl, strict))


def c14_api_get_key(n: int, k: str, which: int, sfl: bool, s: str, v0: str, v1: str, v2: str) -> bool:
    """
    pre: 0 <= n <= 2 and len(k) <= 5 and 0 <= which <= 2 and len(s) <= 2
    pre: all(ch in "sizefrtlapkqxd" for ch in k)
    pre: len(v0) <= 1 and len(v1) <= 1 and len(v2) <= 1
    post: _
    """
    # the same with a symbolic key string (a symbolic ROOT name would be hashed by the locals dict and
    # realised value by value: roots come from a pool in c14_path_nested / c14_scope_names)
    if excluded("c14_api_get_key", locals()):
        return True
    xs = [v0, v1, v2][:n]
    if which == 0:
        path = ["xs", k]
    elif which == 1:
        path = ["d", k]
    else:
        path = ["d", "s", k]
    return finish(_api_get(path, xs, s, v0, v1, False, sfl, False))


def c14_api_get_item(kind: int, i: int, k: str, use_int: bool, ss: bool, sfl: bool, s: str, n: int,
                     v0: str, v1: str) -> bool:
    """
    pre: 0 <= kind <= 5 and -4 <= i <= 4 and len(k) <= 5 and len(s) <= 2 and 0 <= n <= 2
    pre: len(v0) <= 1 and len(v1) <= 1
    post: _
    """
    # RenderContext.get_item(obj, key): value, or KeyError / IndexError / TypeError exactly when the
    # reference says the segment is missing; no other exception type
    if excluded("c14_api_get_item", locals()):
        return True
    env = env_of(ss, sfl, False)
    ctx = Ctx(ROOTS[id(env)], globals={})
    if kind == 0:
        obj = [v0, v1][:n]
    elif kind == 1:
        obj = s
    elif kind == 2:
        obj = Drop(["p", "size"], [v0, v1])
    elif kind == 3:
        obj = Drop(["p", "q"][:n], [v0, v1][:n])
    elif kind == 4:
        obj = None
    else:
        obj = 7
    key = i if use_int else k
    want = ref_item(obj, key, ss, sfl)
    try:
        got = ctx.get_item(obj, key)
    except (KeyError, IndexError, TypeError):
        return finish(want is MISSING)
    if want is MISSING:
        return finish(False)
    return finish(want is ANY or got is want or got == want)


for _fn, _q, _t in (("c14_path_list_index", 40, 120), ("c14_path_list_props", 40, 120), ("c14_path_list_key", 40, 150),
                    ("c14_path_string_index", 40, 150), ("c14_path_string_size", 40, 120), ("c14_path_string_key", 40, 200),
                    ("c14_path_drop_key", 40, 200), ("c14_path_dict_key", 40, 120), ("c14_path_quoted", 40, 120),
                    ("c14_path_nested", 40, 200), ("c14_path_depth", 40, 150), ("c14_api_get_index", 40, 240), ("c14_api_get_key", 40, 200),
                    ("c14_api_get_item", 40, 240)):
    CONDITIONS.append({"fn": _fn, "quick": _q, "thorough": _t})

LOADER.warm(ENV)

# ---- the special property names as CONTENT of the value they are looked up on: an array holding the string "size", a
# string containing "first", a hash with a key "last" (the lookup must not confuse membership with keys) ---------------------
SPECIAL_OBJS = [["size"], ["x", "size", "first"], ["first"], ["last", "size"], "size", "oversized", "first", "last one", "", [],
                {"size": 9}, {"first": 8, "x": 1}, {"last": 7}, {"x": 1}, ["a", "b"], "ab", ["siz", "e"], ("size", "x")]
SPECIAL_KEYS = ["size", "first", "last"]
F_SPECIAL = TemplateFamily("[{{ o.size }}][{{ o.first }}][{{ o.last }}][{{ o['size'] }}][{{ w.o.size }}][{{ o[k] }}]")


def special_case(oi, ki, ss, sfl, strict):
    env = env_of(ss, sfl, strict)
    o = SPECIAL_OBJS[oi]
    k = SPECIAL_KEYS[ki]
    data = {"o": o, "w": {"o": o}, "k": k}
    vals = [ref_get(data, ["o", "size"], ss, sfl), ref_get(data, ["o", "first"], ss, sfl), ref_get(data, ["o", "last"], ss, sfl),
            ref_get(data, ["o", "size"], ss, sfl), ref_get(data, ["w", "o", "size"], ss, sfl), ref_get(data, ["o", k], ss, sfl)]
    return check_prints(F_SPECIAL.of(env), data, vals, strict)


def c14_path_special_names(oi: int, ki: int, ss: bool, sfl: bool, strict: bool) -> bool:
    """
    pre: 0 <= oi <= 17 and 0 <= ki <= 2
    post: _
    """
    if excluded("c14_path_special_names", locals()):
        return True
    from vf.hx import cbool, cint, untraced
    oi, ki, ss, sfl, strict = cint(oi, 0, 17), cint(ki, 0, 2), cbool(ss), cbool(sfl), cbool(strict)
    return finish(untraced(lambda: special_case(oi, ki, ss, sfl, strict)))


CONDITIONS.append({"fn": "c14_path_special_names", "quick": 40, "thorough": 80, "sel_only": True})

# ---- block-scoped names vanish after their block also when the block is left by an interrupt or an error ----------
from liquid import CachingDictLoader as _CDL, Mode as _Mode  # noqa: E402

_IP = {"brk": "{{ x }}{% if x == b %}{% break %}{% endif %}{% if x == c %}{% continue %}{% endif %}.",
       "inner": "{% for y in ys %}{% include 'brk' %}{% endfor %}"}
_IENV = Environment(extra=True, loader=_CDL(_IP, auto_reload=False))
_IENV_LAX = Environment(extra=True, loader=_CDL(_IP, auto_reload=False), tolerance=_Mode.LAX)
for _e in (_IENV, _IENV_LAX):
    for _n in _IP:
        _e.get_template(_n)
_T_INT = _IENV.from_string("{% for x in xs %}{% include 'brk' %}{% endfor %}|x={{ x }}|f={{ forloop.index }}|{% assign x = 'A' %}{{ x }}|"
                           "{% for x in xs %}{% with x: 'w' %}{% if forloop.index0 == b %}{% break %}{% endif %}{% endwith %}{{ x }}{% endfor %}|{{ x }}")
_T_LAX = _IENV_LAX.from_string("{% for x in xs %}{{ x }}{% if x == b %}{{ x | divided_by: 0 }}{% endif %},{% endfor %}|x={{ x }}|f={{ forloop.length }}|"
                               "{% with q: 1 %}{{ q | divided_by: 0 }}{% endwith %}|q={{ q }}|{% assign x = 'A' %}{{ x }}")


def c14_scope_after_interrupt(n: int, b: int, c: int, g: int) -> bool:
    """
    pre: 0 <= n <= 3 and 0 <= g <= 9
    pre: -1 <= b <= 3 and -1 <= c <= 3
    post: _
    """
    # break / continue raised inside an included partial (or a with block) inside a for loop: afterwards the loop
    # variable and forloop are gone, the render argument x is visible again and a later assign wins
    if excluded("c14_scope_after_interrupt", locals()):
        return True
    xs = list(range(n))
    try:
        out = _T_INT.render(xs=xs, b=b, c=c, x=100 + g)
    except LiquidError as e:
        return finish(False)
    exp = ""
    for i in xs:
        exp += str(i)
        if i == b:
            break
        if i == c:
            continue
        exp += "."
    exp += "|x=%d|f=|A|" % (100 + g)
    for i in xs:
        if i == b:
            break
        exp += "A" if False else str(i)
    exp += "|A"
    return finish(out == exp)


def c14_scope_after_lax_error(n: int, b: int, g: int) -> bool:
    """
    pre: 0 <= n <= 3 and 0 <= g <= 9 and -1 <= b <= 3
    post: _
    """
    # lax mode: an error inside a for / with block is swallowed and rendering continues with the next top-level
    # node; the block's names must be gone
    if excluded("c14_scope_after_lax_error", locals()):
        return True
    xs = list(range(n))
    try:
        out = _T_LAX.render(xs=xs, b=b, x=100 + g)
    except LiquidError:
        return finish(False)
    loop = ""
    hit = False
    for i in xs:
        loop += str(i)
        if i == b:
            hit = True
            break
        loop += ","
    exp = loop + "|x=%d|f=|" % (100 + g) + "|q=|A"
    return finish(out == exp)


CONDITIONS.append({"fn": "c14_scope_after_interrupt", "quick": 60, "thorough": 200})
CONDITIONS.append({"fn": "c14_scope_after_lax_error", "quick": 60, "thorough": 200})


# ---- arguments of one tag are all evaluated in the enclosing scope: a later argument never sees an earlier one --------
_AP = {"ab": "[{{ a }},{{ b }}]"}
_AENV = Environment(extra=True, loader=_CDL(_AP, auto_reload=False))
_AENV.get_template("ab")
_ARG_SRC = [
    "{% include 'ab', a: v, b: a %}",
    "{% include 'ab', a: 'arg', b: a %}",
    "{% render 'ab', a: v, b: a %}",
    "{% with a: v, b: a %}[{{ a }},{{ b }}]{% endwith %}",
    "{% macro m a, b %}[{{ a }},{{ b }}]{% endmacro %}{% call m a: v, b: a %}",
    "{% macro m a, b: 5 %}[{{ a }},{{ b }}]{% endmacro %}{% call m v, b: a %}",
    "{% for i in (1..1) %}{% include 'ab', a: v, b: a %}{% endfor %}",
    "{% assign a = w %}{% include 'ab', a: v, b: a %}",
    "{% capture a %}{{ w }}{% endcapture %}{% render 'ab', a: v, b: a %}",
    "{% include 'ab', b: a, a: v %}",
    "{% include 'ab', a: v, b: a, a: w %}",
]
_ARG_T = [_AENV.from_string(_s) for _s in _ARG_SRC]


def args_case(k, v, w, has_a, ga):
    data = {"v": v, "w": w}
    if has_a:
        data["a"] = ga
    out = _ARG_T[k].render(**data)
    outer = str(w) if k in (7, 8) else (str(ga) if has_a else "")
    first = "arg" if k == 1 else (str(w) if k == 10 else str(v))
    return out, "[%s,%s]" % (first, outer)


def c14_args_in_caller_scope(k: int, v: int, w: int, has_a: bool, ga: int) -> bool:
    """
    pre: 0 <= k <= 10 and 0 <= v <= 9 and 0 <= w <= 9 and 0 <= ga <= 9
    post: _
    """
    if excluded("c14_args_in_caller_scope", locals()):
        return True
    kk = pick(list(range(len(_ARG_SRC))), k)
    if kk is None:
        return True
    out, exp = args_case(kk, v, w, has_a, ga)
    return finish(out == exp)


DETAIL = globals().get("DETAIL", {})
DETAIL["c14_args_in_caller_scope"] = lambda k, v, w, has_a, ga: {"source": _ARG_SRC[k], "observed_expected": args_case(k, v, w, has_a, ga)}
CONDITIONS.append({"fn": "c14_args_in_caller_scope", "quick": 60, "thorough": 120})


# ---- nested isolated partials (render inside render inside render, macro inside macro): at every depth a name resolves to
# the partial's own arguments, else to the template's render arguments / globals - never to an enclosing render tag's arguments
_DP = {"d1": "1[{{ who }}|{{ item }}|{{ forloop.index }}]{% render 'd2' %}", "d2": "2[{{ who }}|{{ item }}]{% render 'd3', mine: who %}",
       "d3": "3[{{ who }}|{{ item }}|{{ mine }}|{{ forloop.index }}]{% render 'd4' %}", "d4": "4[{{ who }}|{{ item }}|{{ mine }}]"}
_DENV = Environment(extra=True, loader=_CDL(dict(_DP), auto_reload=False), globals={"item": "env-item"})
for _n in _DP:
    _DENV.get_template(_n)
_D_SRC = ["{% render 'd1', who: a %}", "{% render 'd1' for xs as item %}", "{% render 'd1' with a as who %}", "{% for who in xs %}{% render 'd1' %}{% endfor %}",
          "{% assign who = a %}{% render 'd1', item: a %}",
          "{% capture who %}{{ a }}{% endcapture %}{% with item: a %}{% render 'd1', who: who %}{% endwith %}"]
_D_T = [_DENV.from_string(_s) for _s in _D_SRC]


def depth_case(k, a, has_who, gw):
    data = {"a": a, "xs": [a]}
    if has_who:
        data["who"] = gw
    out = _D_T[k].render(**data)
    top_who = str(gw) if has_who else ""
    w1 = str(a) if k in (0, 2, 5) else top_who
    i1 = str(a) if k in (1, 4) else "env-item"
    f1 = "1" if k == 1 else ""
    exp = "1[%s|%s|%s]2[%s|env-item]3[%s|env-item|%s|]4[%s|env-item|]" % (w1, i1, f1, top_who, top_who, top_who, top_who)
    return out, exp


def c14_nested_isolated_partials(k: int, a: int, has_who: bool, gw: int) -> bool:
    """
    pre: 0 <= k <= 5 and 0 <= a <= 9 and 10 <= gw <= 19
    post: _
    """
    if excluded("c14_nested_isolated_partials", locals()):
        return True
    kk = pick(list(range(len(_D_SRC))), k)
    out, exp = depth_case(kk, a, has_who, gw)
    return finish(out == exp)


DETAIL["c14_nested_isolated_partials"] = lambda k, a, has_who, gw: {"source": _D_SRC[k], "partials": _DP, "observed_expected": depth_case(k, a, has_who, gw)}
CONDITIONS.append({"fn": "c14_nested_isolated_partials", "quick": 60, "thorough": 120})



# ---- template globals are a layer of the scope too: with a caching loader, the globals given with one request never stay bound
# for a later request that gives none (or others) --------------------------------------------------------------------------
_TG_SRC = {"t": "[{{ g }}|{{ h }}|{{ e }}]", "page": "{% include 't' %}{% render 't' %}"}
_TG_GLOBALS = [None, {}, {"g": "G1"}, {"g": "G2", "h": "H2"}, {"h": 0}]


def template_globals_case(kind, env_globals, i1, i2, i3, name_page, use_async):
    from liquid import CachingChoiceLoader, ChoiceLoader
    from vf.hx import drive
    res = []
    for caching in (True, False):
        if kind == 0:
            loader = _CDL(dict(_TG_SRC)) if caching else DictLoader(dict(_TG_SRC))
        else:
            loader = CachingChoiceLoader([DictLoader(dict(_TG_SRC))]) if caching else ChoiceLoader([DictLoader(dict(_TG_SRC))])
        env = Environment(loader=loader, globals={"e": "E"} if env_globals else None)
        one = []
        for gi in (i1, i2, i3):
            name = "page" if name_page else "t"
            try:
                if use_async:
                    t = drive(env.get_template_async(name, globals=_TG_GLOBALS[gi]))
                    one.append(drive(t.render_async()))
                else:
                    t = env.get_template(name, globals=_TG_GLOBALS[gi])
                    one.append(t.render())
            except LiquidError as e:
                one.append("ERR:" + type(e).__name__)
        res.append(one)
    return res


def c14_template_globals_cached(kind: int, env_globals: bool, i1: int, i2: int, i3: int, name_page: bool, use_async: bool) -> bool:
    """
    pre: 0 <= kind <= 1 and 0 <= i1 <= 4 and 0 <= i2 <= 4 and 0 <= i3 <= 4
    post: _
    """
    if excluded("c14_template_globals_cached", locals()):
        return True
    from vf.hx import cbool, cint, untraced
    args = (cint(kind, 0, 1), cbool(env_globals), cint(i1, 0, 4), cint(i2, 0, 4), cint(i3, 0, 4), cbool(name_page), cbool(use_async))
    r = untraced(lambda: template_globals_case(*args))
    return finish(r[0] == r[1])


DETAIL["c14_template_globals_cached"] = lambda kind, env_globals, i1, i2, i3, name_page, use_async: {
    "request globals": [_TG_GLOBALS[i] for i in (i1, i2, i3)], "environment globals": env_globals, "caching / plain loader": template_globals_case(kind, env_globals, i1, i2, i3, name_page, use_async)}
CONDITIONS.append({"fn": "c14_template_globals_cached", "quick": 60, "thorough": 120, "sel_only": True,
                   "bounds": "3 requests for one template with globals from a 5-value pool (none, empty, two bindings), with and without environment globals, dict and choice caching loaders, sync and async"})

ASSUMPTIONS = [
    "template sources are concrete skeletons generated in harness/c14.py (the name x bound by for, tablerow, with, macro, capture, assign, include, render, increment, decrement in every nesting order of two, thorough: three); the bound values, the four global layers' values and their presence are symbolic",
    "values are strings of length <= 1 (symbolic ints would be realised by str()); falsy non-string values come from a pool (c14_falsy_layers)",
    "output is collected piecewise (harness buffer passed to render_with_context, RenderContext.get_buffer overridden for capture) so that symbolic pieces are compared one by one; BoundTemplate.render's three lines are reproduced in render_parts",
    "partials are parsed once at import by a DictLoader subclass; liquid.context.datetime is replaced by a fixed clock",
    "StrictUndefined is configured through a harness subclass that lets the attribute name __init__ through (CrossHair's constructor interception reads obj.__init__)",
    "reference semantics: property statement order (block variables, assigned/captured, render arguments, front matter, template globals, environment globals, now/today, counters); render / macro start from the globals plus their arguments; path segments per docs/variables_and_drops.md and docs/environment.md",
]
OUTSIDE = [
    "what a rendered partial or macro sees of an enclosing partial's arguments and of the caller's counters (docs silent; not in the skeletons)",
    "`first` of a mapping without such a key, printing of whole arrays/hashes, bool / float keys (docs silent: don't-care)",
    "symbolic key strings over plain dicts and symbolic root names (hashing realises them: pools instead); key strings through templates / RenderContext.get use the alphabet 'sizefrtlapkq' (other characters make the undefined hint's repr()/regex fork per character; get_item itself is checked with unrestricted keys of length <= 5); strings longer than 2-3, arrays longer than 3",
    "async rendering (C01 relates sync and async), {% extends %}/{% block %} scoping, custom RenderContext.get_item overrides",
]


def selftest():
    """Oracle vs real code on cases fixed by the documentation / repo tests."""
    fails = []
    # docs/variables_and_drops.md "Paths to variables"
    products = [{"title": "Some Shoes", "available": 5, "colors": ["blue", "red"]},
                {"title": "A Hat", "available": 2, "colors": ["grey", "brown"]}]
    data = {"products": products}
    for path, want in ((["products", 0, "title"], "Some Shoes"), (["products", -2, "available"], 5),
                       (["products", "last", "title"], "A Hat"), (["products", "first", "colors", 1], "red"),
                       (["products", "size"], 2)):
        if ref_get(data, path, False, False) != want:
            fails.append("ref_get %r" % (path,))
    if ref_get(data, ["products", 2], False, False) is not MISSING or ref_get(data, ["nope"], False, False) is not MISSING:
        fails.append("ref_get missing")
    if ref_item("abc", 1, False, False) is not MISSING or ref_item("abc", 1, True, False) != "b":
        fails.append("ref_item string_sequences")
    if ref_item("abc", "last", False, False) is not MISSING or ref_item("abc", "last", False, True) != "c":
        fails.append("ref_item string_first_and_last")
    # docs/render_context.md: render args > matter > template globals > environment globals; counters last
    sk = NEST2["incr"][10]
    for flags in ((True, True, True, True), (False, True, True, True), (False, False, True, True),
                  (False, False, False, True), (False, False, False, False)):
        if not run_layers(sk, ["a", "b", "c", "d", "e"], flags[0], flags[1], flags[2], flags[3], ["R", "M", "T", "E"]):
            fails.append("layers %r: %s" % (flags, sk["src"]))
    c = RefCtx([[False, "R"], [True, "M"], [True, "T"], [True, "E"]])
    if ref_lookup(c) != "M":
        fails.append("ref_lookup matter over template globals")
    if ENV.from_string("{{ x }}{% increment x %}{{ x }}{% assign x = 'a' %}{{ x }}").render() != "01a":
        fails.append("counter example")
    return fails
