"""C19 Static analysis reports everything a render can touch.

Real code executed: whole renders (BoundTemplate.render -> every tag module, Path.evaluate,
RenderContext.get/copy/extend, Filter.evaluate) of concrete skeleton templates with SYMBOLIC
data (branch flags, list lengths 0..2, a case selector int, presence of optional keys), so
the solver drives each render down every feasible branch combination. `T.analyze()`
(liquid/static_analysis.py + children()/expressions()/block_scope()/template_scope()/
partial_scope() of every tag) runs once per skeleton at import.

The render is TRACED by wrappers installed at import on RenderContext.get/get_async/resolve,
Filter.evaluate/evaluate_async and Node.render/render_async (class attributes; no repo
change). Each variable event records the path, the token (template, position), the stack of
nodes being rendered and WHICH namespace of the scope chain resolved the root:
pushed block namespace / render-tag or macro argument / locals / globals (render arguments,
front matter, template+environment globals) / builtin / counters.

Oracle per explored path:
  * every traced path has a reported Variable under its root in analysis.variables whose
    segments match (nested-path segments, reported as lists, match any value);
  * every applied filter name is in analysis.filters; every rendered registered tag name
    is in analysis.tags;
  * every root resolved from the globals layer is in analysis.globals, unless an assignment
    (assign/capture/increment/decrement/snippet) to it precedes the reference in source
    order (computed from the SOURCE TEXT with regexes, independent of liquid: earlier in
    the same template, or before the enclosing include tag in an including template, or
    inside a partial included earlier). "Not inside a block binding the name" needs no
    static model: a root resolved from the globals layer was, by definition, not bound by
    any enclosing block at that moment.
"""
import re

from liquid import CachingDictLoader, Environment
from liquid.ast import Node
from liquid.builtin.expressions.filtered import Filter
from liquid.builtin.tags.include_tag import IncludeNode
from liquid.builtin.tags.render_tag import RenderNode
from liquid.context import RenderContext, builtin as _BUILTIN
from liquid.extra.tags import SnippetTag
from liquid.extra.tags.extends_tag import ExtendsNode
from liquid.extra.tags.macro_tag import CallNode
from liquid.token import TOKEN_TAG
from liquid.undefined import UNDEFINED
from liquid.utils import ReadOnlyChainMap

from vf.hx import drive, excluded, finish

PROPERTY = "C19"

# --------------------------------------------------------------------------- tracer
TRACE = []   # ("var", root, path tuple, layer, template, pos, frames) | ("filter", name) | ("tag", name)
STACK = []   # nodes currently being rendered, outermost first
SRC2NAME = {}  # template source text -> template name


def _has(m, key):
    try:
        m[key]
        return True
    except Exception:
        return False


def _layer(ctx, root):
    """Which namespace of ctx.scope resolves `root` (first match wins, like the chain map)."""
    for m in ctx.scope._maps:
        if m is ctx.locals:
            if _has(m, root):
                return "local"
        elif m is ctx.globals:
            r = _glayer(ctx, m, root)
            if r is not None:
                return r
        elif m is _BUILTIN:
            if _has(m, root):
                return "builtin"
        elif m is ctx.counters:
            if _has(m, root):
                return "counter"
        elif _has(m, root):
            return "block"
    return None


def _glayer(ctx, g, root):
    parent = ctx.parent_context
    if parent is None or not isinstance(g, ReadOnlyChainMap):
        return "global" if _has(g, root) else None
    maps = g._maps
    # a copied context: (arguments namespace, parent scope | outermost globals)
    if _has(maps[0], root):
        return "arg"
    if len(maps) > 1:
        if maps[1] is parent.scope:
            return _layer(parent, root)
        if _has(maps[1], root):
            return "global"
    return None


def _tname(token):
    return SRC2NAME.get(token.source, "?") if token is not None else "?"


def _frames(token):
    """(template, position) of the reference, then of every enclosing include tag, walking
    the dynamic node stack outwards; stops at an isolating tag (render, call)."""
    fr = [(_tname(token), token.start_index if token is not None else -1)]
    ext = None
    for node in STACK:
        if isinstance(node, ExtendsNode) and ext is None:
            ext = _tname(node.token)
    i = len(STACK) - 1
    while i >= 0:
        node = STACK[i]
        if isinstance(node, (RenderNode, CallNode)):
            break
        if isinstance(node, IncludeNode):
            fr.append((_tname(node.token), node.token.start_index))
        i -= 1
    return (tuple(fr), ext)


def _record_var(ctx, path, token):
    root = path[0]
    if not isinstance(root, str):
        return
    TRACE.append(("var", root, tuple(path), _layer(ctx, root), _tname(token),
                  token.start_index if token is not None else -1, _frames(token)))


_orig_get = RenderContext.get
_orig_get_async = RenderContext.get_async
_orig_resolve = RenderContext.resolve
_orig_fe = Filter.evaluate
_orig_fe_async = Filter.evaluate_async
_orig_render = Node.render
_orig_render_async = Node.render_async


def _t_get(self, path, *, token, default=UNDEFINED):
    _record_var(self, path, token)
    return _orig_get(self, path, token=token, default=default)


async def _t_get_async(self, path, *, token, default=UNDEFINED):
    _record_var(self, path, token)
    return await _orig_get_async(self, path, token=token, default=default)


def _t_resolve(self, name, *, token=None, default=UNDEFINED):
    TRACE.append(("resolve", str(name)))
    return _orig_resolve(self, name, token=token, default=default)


def _t_fe(self, left, context):
    TRACE.append(("filter", self.name))
    return _orig_fe(self, left, context)


async def _t_fe_async(self, left, context):
    TRACE.append(("filter", self.name))
    return await _orig_fe_async(self, left, context)


def _note_tag(node, context):
    tok = node.token
    if tok.kind == TOKEN_TAG and tok.value in context.env.tags:
        TRACE.append(("tag", tok.value))


def _t_render(self, context, buffer):
    _note_tag(self, context)
    STACK.append(self)
    try:
        return _orig_render(self, context, buffer)
    finally:
        STACK.pop()


async def _t_render_async(self, context, buffer):
    _note_tag(self, context)
    STACK.append(self)
    try:
        return await _orig_render_async(self, context, buffer)
    finally:
        STACK.pop()


RenderContext.get = _t_get
RenderContext.get_async = _t_get_async
RenderContext.resolve = _t_resolve
Filter.evaluate = _t_fe
Filter.evaluate_async = _t_fe_async
Node.render = _t_render
Node.render_async = _t_render_async


# --------------------------------------------------------------------------- environment
class Env(Environment):
    ternary_expressions = True
    logical_not_operator = True
    logical_parentheses = True


PARTIALS = {
    "px": "{{ x }}",
    "pxy": "[{{ x }}:{{ y | upcase }}]",
    "pa": "{% assign x = 'L' %}{{ x }}",
    "pn": "<{% include 'px' %}>",
    "pnn": "<{% include 'pn' %}>",
    "pr": "<{% render 'px' %}>",
    "prx": "<{% render 'pxy', x: c %}>",
    "pfor": "{% for x in ys %}{{ x }}{% endfor %}{{ x }}",
    "pif": "{% if f %}{{ x }}{% else %}{{ y | downcase }}{% endif %}",
    "item": "{{ item }}{{ x }}",
    "y.html": "[{{ y }}]",
    "pcap": "{% capture y %}{{ x }}{% endcapture %}{{ y }}",
    "base": "{{ t }}{% block b %}{{ u }}{% endblock %}<{% block c %}{{ x }}{% endblock %}>",
    "mid": "{% extends 'base' %}{% block b %}{{ y | upcase }}{{ block.super }}{% endblock %}",
    "base2": "{% for x in xs %}{% block b %}{% endblock %}{% endfor %}{% block c %}{% endblock %}",
    "base3": "{% if f %}{% assign x = 1 %}{% endif %}{% block b %}{% endblock %}{% include 'pxy' %}",
}
ENV = Env(extra=True, loader=CachingDictLoader(PARTIALS, auto_reload=False),
          globals={"site": {"name": "S"}})
ENV.add_tag(SnippetTag)
for _n in PARTIALS:
    ENV.get_template(_n)   # pre-fill the cache: nothing is parsed under the solver
    SRC2NAME[PARTIALS[_n]] = _n

# name -> (source, quick?)      A = no partials, B = partials
SKEL = {
    # ---- scopes inside one template
    "nested_for": ("{% for x in xs %}{% for y in ys %}{{ x }}{{ y }}{{ forloop.parentloop.index }}{% endfor %}{{ y }}{{ forloop.last }}{% endfor %}{{ x }}", True),
    "capture": ("{% capture x %}{{ y }}{% if f %}{{ a.b.c }}{% endif %}{% endcapture %}{{ x }}{{ c | append: y }}", True),
    "assign_after_use": ("{{ x }}{% assign x = y | default: c %}{{ x }}{% assign y = x %}{{ y }}", True),
    "assign_untaken": ("{% if f %}{% assign x = 1 %}{% endif %}{{ x }}{{ y }}{% unless g %}{% capture y %}{% endcapture %}{% endunless %}{{ y }}", True),
    "assign_self": ("{% assign x = x | append: c %}{% assign q = y %}{{ x }}{{ q }}", False),
    "if_else": ("{% if f %}{{ x }}{% elsif g %}{{ y | upcase }}{% else %}{{ c | downcase }}{% endif %}{% if x and y or f %}{{ d }}{% endif %}", True),
    "case_when": ("{% case k %}{% when 1 %}{{ x }}{% when 2, z %}{{ y | size }}{% else %}{{ c }}{% endcase %}{% unless f %}{{ d }}{% else %}{{ a.d }}{% endunless %}", True),
    "macro_shadow": ("{% macro m x, z: y %}{{ x }}{{ z }}{{ c }}{% endmacro %}{% call m a.d %}{% if f %}{% call m z: d %}{% endif %}{{ x }}", True),
    "macro_args": ("{% macro m %}{{ args[0] }}{{ kwargs.q }}{{ x }}{% endmacro %}{% call m y, q: c %}{% for x in xs %}{% call m %}{% endfor %}", False),
    "macro_in_for": ("{% macro m q %}{{ x }}{{ q | upcase }}{% endmacro %}{% for x in xs %}{% call m x %}{% endfor %}{% if f %}{% call m y %}{% endif %}", False),
    "with_block": ("{% with x: y, q: a.b %}{{ x }}{{ q.c }}{{ c }}{% if f %}{{ y }}{% endif %}{% endwith %}{{ x }}{{ q }}", True),
    "counters": ("{% increment n %}{{ n }}{% decrement n %}{% if f %}{{ x }}{% endif %}{% increment y %}{{ y }}", False),
    "cycle": ("{% for i in xs %}{% cycle x, y, 'z' %}{% cycle c: 'a', d %}{% endfor %}", False),
    "tablerow": ("{% tablerow x in xs cols: k %}{{ x }}{{ y }}{{ tablerowloop.col }}{% endtablerow %}{{ x }}", True),
    "ifchanged": ("{% for i in xs %}{% ifchanged %}{{ x }}{% if f %}{{ i }}{% endif %}{% endifchanged %}{% endfor %}", False),
    "liquid_echo": ("{% liquid\nif f\n echo x | upcase\nelse\n assign y = c\n echo y\nendif\necho y\nfor i in xs\n echo i | plus: k\nendfor %}{% echo d | append: x %}", True),
    "filter_args": ("{{ x | default: y | append: a.b.c }}{{ c | replace: d, x | size }}{% assign z = xs | join: y | append: d %}{{ z }}", True),
    # o and z are read only through ranges that are filter arguments (the oracle matches by name, not by position)
    "filter_arg_range": ("{{ x | default: (o..z) | join: d }}{% assign q = y | default: (o..2) %}{{ q | first }}{% echo c | default: (1..z) | size %}{% for i in (1..k) %}{{ i }}{% endfor %}", True),
    # the loop variable has the name of a variable read by the loop's own expression (source, limit, offset, cols): those are
    # read before the loop variable exists, i.e. from the render arguments
    "loop_var_is_source": ("{% for site in site.pages %}[{{ site }}]{% endfor %}{% for k in xs limit: k %}{{ k }}{% endfor %}{% tablerow z in ys cols: z %}{{ z }}{% endtablerow %}"
                           "{% for o in xs offset: o %}{{ o }}{% endfor %}{% for page in page %}{{ page }}{% endfor %}", True),
    "nested_path": ("{{ a[b.c] }}{{ a[y].c }}{{ h[x][y] }}{{ xs[0] }}{{ xs.first }}{{ a['d'] }}{{ h[a.d].Y }}", True),
    "ternary": ("{{ x if f else y }}{{ c | upcase if g else d | downcase || append: x }}{% assign q = y if x else c %}{{ q }}", False),
    "for_args": ("{% for i in xs limit: k offset: o %}{{ i }}{{ y }}{% else %}{{ x }}{% endfor %}{% for i in xs reversed %}{{ forloop.index0 }}{% endfor %}", False),
    "break_continue": ("{% for i in xs %}{% if f %}{% break %}{% endif %}{{ x }}{% if g %}{% continue %}{% endif %}{{ y }}{% endfor %}", False),
    "range_loop": ("{% for i in (1..k) %}{{ i }}{{ x }}{% endfor %}{% for i in (o..2) %}{{ y }}{% endfor %}", False),
    "comment_raw": ("{% comment %}{{ x }}{% endcomment %}{% raw %}{{ y }}{% endraw %}{% # c %}{{ c }}{% doc %}d{% enddoc %}{% if f %}{{ x }}{% endif %}", False),
    "tmpl_globals": ("{{ site.name }}{{ page.title }}{{ x }}{% for page in xs %}{{ page }}{% endfor %}{{ page.title }}{% if f %}{{ site }}{% endif %}", True),
    "loop_shadow": ("{{ x }}{% for x in xs %}{{ x }}{% for x in ys %}{{ x }}{% endfor %}{{ x }}{% endfor %}{% for i in ys %}{{ x }}{% endfor %}", False),
    "expr_ops": ("{% if x == y or c contains d and not f %}{{ a.b.c }}{% endif %}{% if (x or y) and k < z %}{{ d }}{% endif %}{% if x != blank and y != empty %}{{ c }}{% endif %}", False),
    "kwarg_filters": ("{{ x | default: y, allow_false: f }}{{ c | slice: o, z }}{{ xs | join: d | split: c | first }}{% assign q = ys | sort | reverse | last %}{{ q }}", False),
    "tablerow_args": ("{% tablerow i in xs cols: z limit: k offset: o %}{{ i }}{{ y }}{% endtablerow %}{% cycle g: x, y %}", False),
    "for_continue": ("{% for i in xs limit: k %}{{ i }}{% endfor %}{% for i in xs offset: continue %}{{ i }}{{ x }}{% endfor %}{% for i in (k..z) %}{{ y }}{% endfor %}", False),
    # ---- partials
    "inc_once": ("{% include 'pif' %}{% include 'pfor' %}{{ x }}", True),
    "inc_order_ok": ("{% include 'px' %}{% for x in xs %}{% include 'px' %}{% endfor %}", True),
    "inc_assign_between": ("{% include 'pxy' %}{% assign x = 1 %}{% include 'pxy' %}", True),
    "inc_capture": ("{% capture x %}{% include 'pxy' %}{% endcapture %}{% include 'pxy' %}{{ x }}", False),
    "inc_partial_assigns": ("{% if f %}{% include 'pa' %}{% endif %}{{ x }}{% include 'px' %}{{ y }}", False),
    "inc_nested2": ("{% include 'pnn' %}{% if f %}{% include 'pn' %}{% endif %}", True),
    "inc_render_mix": ("{% for x in xs %}{% include 'px' %}{% endfor %}{% render 'px' %}", True),
    "inc_in_for_render": ("{% for x in xs %}{% include 'pr' %}{% endfor %}", False),
    "render_isolated": ("{% assign x = 1 %}{% for y in ys %}{% render 'pxy' %}{% endfor %}{{ x }}", True),
    "render_assign_isolated": ("{% render 'pa' %}{{ x }}{% if f %}{% render 'pcap' %}{% endif %}{{ y }}", False),
    "render_args_differ": ("{% render 'pxy', x: c %}{% if f %}{% render 'pxy', y: d %}{% endif %}", True),
    "render_args_same": ("{% for i in xs %}{% render 'pxy', x: i %}{% endfor %}{% render 'pxy', x: c %}", False),
    "render_for_with": ("{% render 'item' for xs %}{% render 'pxy' with c as x %}{% render 'px' for ys as x %}", True),
    "render_nested": ("{% render 'prx' %}{% if f %}{% render 'pr' %}{% endif %}", False),
    "render_in_macro": ("{% macro m x %}{% render 'pxy' %}{{ x }}{% endmacro %}{% call m c %}", False),
    "inc_with_for": ("{% include 'item' for xs %}{% include 'pxy' with c as x %}", False),
    "extends_mid": ("{% extends 'mid' %}{% block c %}{{ d }}{% if f %}{{ block.super }}{% endif %}{% endblock %}", True),
    "extends_for": ("{% extends 'base2' %}{% block b %}{{ x }}{% endblock %}{% block c %}{{ x }}{{ y }}{% endblock %}", False),
    "extends_assign": ("{% extends 'base3' %}{% block b %}{{ x }}{{ y }}{% endblock %}", False),
    "snippet_args": ("{% snippet s %}{{ x }}{{ y | upcase }}{% endsnippet %}{% render s, x: c %}{% if f %}{% render s, y: d %}{% endif %}", False),
    # ---- composites: every symbolic dimension is consulted
    "combo_macro_loops": ("{% macro m q, r: y %}{% if q %}{{ x }}{% else %}{{ r | upcase }}{% endif %}{% render 'pxy', x: q %}{% endmacro %}{% for x in xs %}{% capture cap %}{% include 'pif' %}{% endcapture %}{{ cap }}{% for y in ys %}{% call m x, r: y %}{% include 'pxy' %}{% endfor %}{% endfor %}{% case k %}{% when 1 %}{% with x: c %}{% render 'pif', f: g %}{% endwith %}{% when 2 %}{% call m f %}{% else %}{{ y }}{% endcase %}{{ x }}", False),
    "combo_extends": ("{% extends 'base' %}{% block b %}{% for x in xs %}{% if f %}{% include 'pcap' %}{% else %}{{ block.super }}{% endif %}{% endfor %}{% endblock %}{% block c %}{% assign q = y | default: c %}{% if g %}{{ q | append: x }}{% endif %}{{ block.super }}{% endblock %}", False),
    "combo_liquid": ("{% liquid\nassign acc = c\nfor i in xs\n if f\n  assign acc = acc | append: x\n else\n  increment cnt\n endif\n render 'item' for ys, x: i\nendfor\necho acc\necho cnt %}{% tablerow r in ys cols: z %}{% if g %}{{ y }}{% else %}{% render 'px' with r as x %}{% endif %}{% endtablerow %}{% render 'item' for ys, x: k %}", False),
    # ---- one partial reached twice from different scopes. On the unmodified tree these are refuted, three causes:
    #  d_inc_*     static_analysis.py:207-211 (and 328-332): a shared-scope (include) partial has key None, which is in
    #              seen[name] after its first visit, so later includes from another scope are never revisited for globals
    #  d_render_*  render_tag.py:316: Partial.key hashes only the keyword-argument names, not the name bound by with/for..as
    #  d_snippet_* render_tag.py:315-316 + static_analysis.py:207: all inline snippets share partial name "" (same key =>
    #              second snippet never visited; other key => visited "globals only", its variables/filters/tags are lost)
    "inc_named_like_var": ("{% include 'y.html' %}{{ x }}", True),
    "inc_named_like_var_mixed": ("{% include 'y.html' with x %}{% include 'y.html' %}{% for y in xs %}{% include 'y.html' %}{% endfor %}", True),
    "render_named_like_var": ("{% render 'y.html' %}{% render 'y.html' with x %}{% render 'y.html', y: c %}", True),
    "d_inc_for_then_top": ("{% for x in xs %}{% include 'px' %}{% endfor %}{% include 'px' %}", True),
    "d_inc_branchy": ("{% if f %}{% for x in xs %}{% include 'pxy' %}{% endfor %}{% endif %}{{ y }}{% if g %}{% include 'pxy' %}{% endif %}", False),
    "d_inc_two_loops": ("{% for y in ys %}{% include 'pxy' %}{% endfor %}{% for x in xs %}{% include 'pxy' %}{% endfor %}", False),
    "d_inc_with_then_top": ("{% with x: c %}{% include 'px' %}{% endwith %}{% include 'px' %}", False),
    "d_inc_kwarg_then_plain": ("{% include 'px', x: c %}{% include 'px' %}", False),
    "d_inc_bound_then_plain": ("{% include 'item' for xs %}{% include 'item' %}", False),
    "d_inc_nested_then_top": ("{% for x in xs %}{% include 'pn' %}{% endfor %}{% include 'px' %}", False),
    "d_inc_nested_twice": ("{% for x in xs %}{% include 'pn' %}{% endfor %}|{% include 'pn' %}", True),
    "d_inc_nested3_twice": ("{% for x in xs %}{% include 'pnn' %}{% endfor %}{% if f %}{% include 'pnn' %}{% endif %}", True),
    "d_inc_nested_with_then_top": ("{% with x: c %}{% include 'pn' %}{% endwith %}{% include 'pn' %}{% capture x %}{% include 'pnn' %}{% endcapture %}", True),
    "d_render_with_then_plain": ("{% render 'item' with c %}{% render 'item' %}", True),
    "d_render_for_as_then_plain": ("{% render 'px' for xs as x %}{% render 'px' %}", False),
    "d_snippet_args_differ": ("{% snippet s %}{{ x }}{% endsnippet %}{% snippet t %}{{ y }}{% endsnippet %}{% render s %}{% if f %}{% render t, q: c %}{% endif %}", False),
    "d_snippet_filter_tag": ("{% snippet s %}{{ x }}{% endsnippet %}{% snippet t %}{{ 'v' | upcase }}{% cycle 'a', 'b' %}{% endsnippet %}{% render s %}{% render t, q: c %}", False),
    "d_snippet_two": ("{% snippet s %}{{ x }}{% endsnippet %}{% snippet t %}{{ y | upcase }}{% endsnippet %}{% render s %}{% render t %}", True),
}

_RE_PARTIAL = re.compile(r"(?:include|render|extends)\s+'(\w+)'")
_RE_WORD = re.compile(r"[A-Za-z_]\w*")


def _uses(src, seen):
    """Words of a template and of every partial it can reach (decides which symbolic
    dimensions a skeleton consults, so unused ones do not multiply the path tree)."""
    out = set(_RE_WORD.findall(src))
    for part in _RE_PARTIAL.findall(src):
        if part not in seen and part in PARTIALS:
            seen.add(part)
            out |= _uses(PARTIALS[part], seen)
    return out


T = {}
AN = {}        # BoundTemplate.analyze()
AN_ASYNC = {}  # BoundTemplate.analyze_async()
USES = {}
for _k, (_src, _q) in SKEL.items():
    T[_k] = ENV.from_string(_src, name="main:" + _k, globals={"page": {"title": "P"}})
    SRC2NAME[_src] = "main:" + _k
    AN[_k] = T[_k].analyze()
    AN_ASYNC[_k] = drive(T[_k].analyze_async())
    USES[_k] = _uses(_src, set())

# --------------------------------------------------------------------------- static "preceded by an assignment" (source text only)
_RE_ASSIGN = re.compile(r"\bassign\s+([A-Za-z_]\w*)\s*=[^%\n]*")
_RE_BIND = re.compile(r"(?:\{%-?\s*|\n\s*)(capture|increment|decrement|snippet)\s+([A-Za-z_]\w*)")
_RE_INCLUDE = re.compile(r"\binclude\s+'(\w+)'")
_RE_EXTENDS = re.compile(r"\bextends\s+'(\w+)'")
ASSIGNS = {}    # template -> [(position after which the name is assigned, name)]
INCLUDES = {}   # template -> [(position, partial)]
EXTENDS = {}    # template -> parent


def _scan(name, src):
    a = []
    for m in _RE_ASSIGN.finditer(src):
        a.append((m.end(), m.group(1)))          # the right-hand side is evaluated before the binding
    for m in _RE_BIND.finditer(src):
        a.append((m.start(), m.group(2)))
    ASSIGNS[name] = a
    INCLUDES[name] = [(m.start(), m.group(1)) for m in _RE_INCLUDE.finditer(src)]
    m = _RE_EXTENDS.search(src)
    if m:
        EXTENDS[name] = m.group(1)


for _src, _n in list(SRC2NAME.items()):
    _scan(_n, _src)


def _assigned_in(name, seen=None):
    """Names assigned anywhere in a template or in partials it includes (shared scope)."""
    seen = seen if seen is not None else set()
    if name in seen or name not in ASSIGNS:
        return set()
    seen.add(name)
    out = {n for (_p, n) in ASSIGNS[name]}
    for (_p, part) in INCLUDES[name]:
        out |= _assigned_in(part, seen)
    return out


ASSIGNED_IN = {n: _assigned_in(n) for n in ASSIGNS}


def preceded(root, frames):
    """True when, in source order, an assignment to `root` precedes the reference."""
    fr, ext = frames
    if ext is not None:
        # template inheritance: conservative, any assignment along the extends chain counts
        t = ext
        chain = []
        while t is not None and t not in chain:
            chain.append(t)
            t = EXTENDS.get(t)
        for c in chain:
            if root in ASSIGNED_IN.get(c, ()):
                return True
    for (tn, pos) in fr:
        for (p, n) in ASSIGNS.get(tn, ()):
            if n == root and p <= pos:
                return True
        for (p, part) in INCLUDES.get(tn, ()):
            if p < pos and root in ASSIGNED_IN.get(part, ()):
                return True
    return False


# --------------------------------------------------------------------------- oracle
def _seg_match(static, dyn):
    if len(static) != len(dyn):
        return False
    for i in range(len(static)):
        s = static[i]
        if isinstance(s, list):
            continue   # nested path: its value is whatever it evaluated to (traced on its own)
        if isinstance(s, str) != isinstance(dyn[i], str):
            return False
        if s != dyn[i]:
            return False
    return True


def check_trace(an, trace):
    """First trace entry the analysis does not account for, or None."""
    memo = {}
    for ev in trace:
        kind = ev[0]
        if kind == "var":
            _k, root, path, layer, tn, pos, frames = ev
            key = (tn, pos, layer, frames)
            if key in memo:
                continue
            memo[key] = True
            vs = an.variables.get(root)
            if vs is None:
                return ("variable root not reported", ev)
            found = False
            for v in vs:
                if _seg_match(v.segments, path):
                    found = True
                    break
            if not found:
                return ("variable path not reported", ev)
            if layer == "global" and root not in an.globals and not preceded(root, frames):
                return ("global read not reported in globals", ev)
        elif kind == "filter":
            if ev[1] not in an.filters:
                return ("filter not reported", ev)
        elif kind == "tag":
            if ev[1] not in an.tags:
                return ("tag not reported", ev)
    return None


def make_data(uses, f, g, k, n, m, px, py):
    data = {"f": f, "g": g, "k": k,
            "a": {"b": {"c": 0}, "d": "D", "0": "z", "Y": {"c": 1}}, "b": {"c": "d"}, "c": "C", "d": "D",
            "h": {"X": {"Y": 1}, "D": {"Y": 2}}, "o": 0, "t": "T", "u": "U", "item": "I", "z": 3}
    if "xs" in uses:
        data["xs"] = list(range(n))
    if "ys" in uses:
        data["ys"] = list(range(m))
    if "x" in uses and px:
        data["x"] = "X"
    if "y" in uses and py:
        data["y"] = "Y"
    return data


def run(name, f, g, k, n, m, px, py, use_async=False):
    del TRACE[:]
    del STACK[:]
    data = make_data(USES[name], f, g, k, n, m, px, py)
    try:
        if use_async:
            drive(T[name].render_async(**data))
        else:
            T[name].render(**data)
    except Exception:
        pass   # a Liquid error ends the render early; whatever was traced until then still counts
    del STACK[:]
    return check_trace((AN_ASYNC if use_async else AN)[name], list(TRACE))


def _mk(name):
    def fn(f: bool, g: bool, k: int, n: int, m: int, px: bool, py: bool) -> bool:
        """
        pre: 0 <= n <= 2 and 0 <= m <= 2
        pre: 0 <= k <= 3
        post: _
        """
        if excluded("c19_" + name, locals()):
            return True
        return finish(run(name, f, g, k, n, m, px, py) is None)
    fn.__name__ = fn.__qualname__ = "c19_" + name
    return fn


def _mk_async(name):
    def fn(f: bool, g: bool, k: int, n: int, m: int, px: bool, py: bool) -> bool:
        """
        pre: 0 <= n <= 2 and 0 <= m <= 2
        pre: 0 <= k <= 3
        post: _
        """
        if excluded("c19_async_" + name, locals()):
            return True
        return finish(run(name, f, g, k, n, m, px, py, True) is None)
    fn.__name__ = fn.__qualname__ = "c19_async_" + name
    return fn


def _mk_detail(name, use_async):
    def detail(f, g, k, n, m, px, py):
        r = run(name, f, g, k, n, m, px, py, use_async)
        an = (AN_ASYNC if use_async else AN)[name]
        return {"source": SKEL[name][0], "unaccounted": r,
                "globals": sorted(an.globals), "variables": {kk: [str(v) for v in vv] for kk, vv in an.variables.items()},
                "filters": sorted(an.filters), "tags": sorted(an.tags)}
    return detail


CONDITIONS = []
DETAIL = {}
ASYNC_TWINS = ("nested_for", "macro_shadow", "inc_once", "render_for_with", "extends_mid", "d_inc_for_then_top")
for _k, (_src, _q) in SKEL.items():
    globals()["c19_" + _k] = _mk(_k)
    DETAIL["c19_" + _k] = _mk_detail(_k, False)
    CONDITIONS.append({"fn": "c19_" + _k, "quick": 30 if _q else None, "thorough": 240 if _k.startswith("combo_") else 90, "twin": 25})
for _k in ASYNC_TWINS:
    globals()["c19_async_" + _k] = _mk_async(_k)
    DETAIL["c19_async_" + _k] = _mk_detail(_k, True)
    CONDITIONS.append({"fn": "c19_async_" + _k, "quick": 30 if _k in ("nested_for", "inc_once") else None, "thorough": 90, "twin": 25})

# ---- the shared corpus: whatever a render of a member evaluates, applies or renders is in the member's static analysis ----
from harness import corpus as _corpus  # noqa: E402

_CENV = _corpus.make_env(Env)
for _n in ("p", "q", "brk", "n1", "n2", "cbase"):
    SRC2NAME[_corpus.PARTIALS[_n]] = _n
    _scan(_n, _corpus.PARTIALS[_n])
    ASSIGNED_IN[_n] = _assigned_in(_n)
_C_AN = {}


def _corpus_check(w2, w1, leaf, d):
    t = _corpus.template(_CENV, w2, w1, leaf)
    if t is None:
        return None
    src = _corpus.source(w2, w1, leaf)
    key = (w2, w1, leaf)
    if key not in _C_AN:
        name = "corpus-%d-%d-%d" % key
        SRC2NAME[src] = name
        _scan(name, src)
        ASSIGNED_IN[name] = _assigned_in(name)
        try:
            _C_AN[key] = (t.analyze(), drive(t.analyze_async()))
        except Exception as e:
            _C_AN[key] = ("analysis raised " + type(e).__name__, None)
    an, an_async = _C_AN[key]
    if an_async is None:
        return an
    bad = []
    for a, use_async in ((an, False), (an_async, True)):
        del TRACE[:]
        del STACK[:]
        try:
            if use_async:
                drive(t.render_async(**_corpus.data(d)))
            else:
                t.render(**_corpus.data(d))
        except Exception:
            pass
        del STACK[:]
        r = check_trace(a, list(TRACE))
        if r is not None:
            bad.append(("async" if use_async else "sync", r[0], repr(r[1])[:200]))
    return bad or None


def _corpus_skip(w2, w1, leaf):
    # a macro DEFINED inside a with block that binds x: the macro body is isolated at run time (its x is the render argument)
    # but lies, in the source, inside a block binding x - a reference the statement exempts; the oracle cannot tell
    return w2 == 4 and w1 == 12


c19_corpus, _det = _corpus.mk_condition("c19_corpus", _corpus_check, _corpus_skip)
DETAIL["c19_corpus"] = _det
CONDITIONS.append({"fn": "c19_corpus", "quick": 120, "thorough": 240, "sel_only": True, "bounds": _corpus.BOUNDS})

ASSUMPTIONS = [
    "template and partial sources are the concrete skeletons listed in harness/c19.py; render data: two branch flags, a selector int 0..3, two list lengths 0..2 and presence of the optional keys x and y are symbolic, other values fixed",
    "analysis = BoundTemplate.analyze() with include_partials=True, computed once per skeleton at import",
    "'read from render arguments or globals' = the root was resolved by the globals layer of the scope chain (render kwargs, front matter, template/environment globals); a root bound by a for/tablerow/with/macro/render argument/include binding is resolved by a pushed namespace instead",
    "'preceded in source order by an assignment' is decided on the source text (assign after its right-hand side; capture/increment/decrement/snippet at the tag), in the same template, before an enclosing include tag, or inside a partial included earlier; along an extends chain any assignment counts",
    "RenderContext.resolve() lookups (inline snippet names given to the render tag) are traced but not asserted: the property speaks of variable paths",
    "variable paths are matched by root and segments (nested paths, reported as lists, match any value); spans are not compared (C20)",
]
OUTSIDE = [
    "partial names that are not string literals (the analysis cannot load them)",
    "a reference to the loop variable's name inside the `else` clause of its own for block: statically inside the binding block (so not covered by the property's wording) although the render resolves it from the globals; not generated",
    "lists longer than 2, more than two flags per skeleton",
    "macros defined in one template and called from another",
    "custom tags/filters, drops resolving names lazily",
]


def selftest():
    fails = []
    t = ENV.from_string("{{ a.b }}{% for i in xs %}{{ i | upcase }}{% endfor %}")
    del TRACE[:]
    del STACK[:]
    t.render(a={"b": 1}, xs=["p", "q"])
    vs = [(e[1], e[2], e[3]) for e in TRACE if e[0] == "var"]
    if ("a", ("a", "b"), "global") not in vs:
        fails.append("tracer: a.b from globals missing: %r" % (vs,))
    if ("xs", ("xs",), "global") not in vs:
        fails.append("tracer: xs missing")
    if vs.count(("i", ("i",), "block")) != 2:
        fails.append("tracer: i from the loop namespace expected twice: %r" % (vs,))
    if [e for e in TRACE if e[0] == "filter"] != [("filter", "upcase")] * 2:
        fails.append("tracer: filter upcase expected twice")
    if ("tag", "for") not in TRACE:
        fails.append("tracer: tag for missing")
    if STACK:
        fails.append("tracer: node stack not empty after render")
    # layers: locals, counters, render arguments, template globals
    t = ENV.from_string("{% assign l = 1 %}{{ l }}{% increment n %}{{ n }}{{ site.name }}{{ page }}{{ nope }}{% render 'px', x: l %}{% render 'px' %}",
                        globals={"page": 1})
    del TRACE[:]
    t.render(x="X")
    vs = [(e[1], e[3]) for e in TRACE if e[0] == "var"]
    want = [("l", "local"), ("n", "counter"), ("site", "global"), ("page", "global"), ("nope", None), ("l", "local"), ("x", "arg"), ("x", "global")]
    if vs != want:
        fails.append("tracer layers: %r" % (vs,))
    # async tracer and oracle agree with sync on a fixed case
    if run("nested_for", True, False, 1, 2, 1, True, True) != run("nested_for", True, False, 1, 2, 1, True, True, True):
        fails.append("sync/async oracle differ")
    # the oracle accepts the documented example of docs/static_analysis.md
    if check_trace(AN["filter_args"], [("var", "nope", ("nope",), None, "?", 0, ((("?", 0),), None))]) is None:
        fails.append("oracle accepts an unreported variable")
    if preceded("x", ((("main:assign_self", 14),), None)):
        fails.append("preceded: the right-hand side of an assign must not count as preceded")
    if not preceded("x", ((("main:assign_untaken", 40),), None)):
        fails.append("preceded: assignment in an untaken branch must count")
    return fails
