"""C21 Tag analysis is total and raises no false alarms.

Real code executed: liquid.analyze_tags.TagAnalysis.__init__/_all_tags/_audit_tags/
_valid_inner_tag/_BlockStackItem, Environment.analyze_tags_from_string (real lexer) and,
for the no-false-alarm family, the real parser in strict mode.

A1 totality        c21_total_*   : TagAnalysis(env=, name=, tokens=[...]) on token lists built
                                   from selectors (kind, tag name) and on lists with genuinely
                                   symbolic tag names; oracle: no exception of any kind.
                                   The region "an end tag arrives while no block is open" is split
                                   off into c21_stray_* (same oracle) because the unmodified tree
                                   raises IndexError there.
A2 completeness    c21_unknown_* : a tag whose (symbolic) name is not registered, not an inner
                                   tag and not end... is in unknown_tags whatever surrounds it;
                   c21_unclosed_*: a registered block tag without its end tag is in unclosed_tags.
A3 no false alarms c21_valid_*   : generated valid templates (each parses in strict mode in the
                                   same environment) -> unclosed/unexpected/unknown all empty.
                                   One condition per sub-family so that each defect of the
                                   unmodified tree sits in a condition of its own.
"""
from liquid import DictLoader, Environment
from liquid.analyze_tags import TagAnalysis
from liquid.exceptions import LiquidError
from liquid.token import TOKEN_COMMENT, TOKEN_CONTENT, TOKEN_DOC, TOKEN_EXPRESSION, TOKEN_OUTPUT, TOKEN_TAG, Token

from vf.hx import cbool, cint, excluded, finish, untraced

PROPERTY = "C21"
PARTIALS = {"p": "partial {{ x }}", "base": "A{% block b %}base{% endblock %}Z"}
ENV_D = Environment(loader=DictLoader(PARTIALS))
ENV_X = Environment(extra=True, loader=DictLoader(PARTIALS))
SRC = "0123456789" * 4  # the source the hand-built tokens claim to come from


def env_of(extra):
    return ENV_X if extra else ENV_D


def pick(n, i):
    """Concrete int equal to the symbolic selector i in range(n) (bisection: log2(n) decisions)."""
    lo = 0
    hi = n - 1
    while lo < hi:
        mid = (lo + hi) // 2
        if i <= mid:
            hi = mid
        else:
            lo = mid + 1
    return lo


# ---------------------------------------------------------------------------------------------
# token pools. An entry is (kind, value).
BLOCK_NAMES = ["if", "for", "case", "unless", "capture", "tablerow", "comment", "ifchanged", "doc",
               "macro", "block", "with", "translate"]
INNER_NAMES = ["else", "elsif", "when", "break", "continue", "plural"]
END_NAMES = ["endif", "endfor", "endcase", "endunless", "endcapture", "endtablerow", "endcomment",
             "endmacro", "endblock", "endwith"]
INLINE_NAMES = ["assign", "echo", "liquid", "#", "include"]
UNKNOWN_NAMES = ["foo", "endfoo", "end", "", "endassign", "endend"]
OTHER_KINDS = [TOKEN_CONTENT, TOKEN_EXPRESSION, TOKEN_OUTPUT, TOKEN_COMMENT, TOKEN_DOC]

POOL_FULL = ([(TOKEN_TAG, n) for n in BLOCK_NAMES + INNER_NAMES + END_NAMES + INLINE_NAMES + UNKNOWN_NAMES]
             + [(k, "if") for k in OTHER_KINDS] + [(TOKEN_EXPRESSION, "endif"), (TOKEN_CONTENT, "")])
POOL_SMALL = [(TOKEN_TAG, n) for n in ("if", "for", "case", "capture", "else", "when", "break",
                                       "endif", "endfor", "endcase", "endfoo", "end", "assign", "foo")] + [(TOKEN_CONTENT, "endif")]

# names the partition model treats as block openers, per environment
_REG_BLOCKS = {False: tuple(sorted(set(t.name for t in ENV_D.tags.values() if t.block))),
               True: tuple(sorted(set(t.name for t in ENV_X.tags.values() if t.block)))}


def is_stray(pairs, extra):
    """Partition predicate (NOT an oracle): does an end tag (a tag named end...) arrive while no
    block is open? A block is opened by a registered block tag or by a tag X for which a tag endX
    occurs somewhere in the list (the convention stated in analyze_tags.py)."""
    names = [v for (k, v) in pairs if k == TOKEN_TAG]
    depth = 0
    for nm in names:
        opener = nm in _REG_BLOCKS[extra]
        if not opener:
            for other in names:
                if other == "end" + nm:
                    opener = True
                    break
        if opener:
            depth += 1
        elif nm.startswith("end"):
            if depth == 0:
                return True
            depth -= 1
    return False


def build(pairs):
    toks = []
    pos = 3
    for (k, v) in pairs:
        toks.append(Token(k, v, pos, SRC))
        pos += 7
    return toks


def analyse(extra, pairs):
    """'ok' or the class name of whatever escaped."""
    try:
        a = TagAnalysis(env=env_of(extra), name="t", tokens=build(pairs))
    except Exception as e:
        return "ERR:" + type(e).__name__
    if not (isinstance(a.unclosed_tags, dict) and isinstance(a.unexpected_tags, dict) and isinstance(a.unknown_tags, dict)
            and isinstance(a.all_tags, dict) and isinstance(a.tags, dict)):
        return "BAD-RESULT"
    return "ok"


def pairs_from(pool, n, sels):
    out = []
    for j in range(n):
        out.append(pool[pick(len(pool), sels[j])])
    return out


POOL4 = [pv for pv in POOL_SMALL if pv[1] != "capture"]
NF = len(POOL_FULL)
NS = len(POOL_SMALL)
N4 = len(POOL4)


def _mk_total2(extra, stray):
    name = "c21_%s2_%s" % ("stray" if stray else "total", "extra" if extra else "default")

    def f(n: int, s0: int, s1: int) -> bool:
        """
        pre: 0 <= n <= 2
        pre: 0 <= s0 < 47 and 0 <= s1 < 47
        post: _
        """
        # every list of <= 2 tokens over the full pool (47 kind/name pairs)
        if excluded(name, locals()):
            return True
        if n < 2 and s1 != 0:
            return True
        if n < 1 and s0 != 0:
            return True
        pairs = pairs_from(POOL_FULL, n, (s0, s1))
        if is_stray(pairs, extra) != stray:
            return True
        return finish(analyse(extra, pairs) == "ok")
    f.__name__ = f.__qualname__ = name
    return f, name


def _mk_total3(extra, stray):
    name = "c21_%s3_%s" % ("stray" if stray else "total", "extra" if extra else "default")

    def f(s0: int, s1: int, s2: int) -> bool:
        """
        pre: 0 <= s0 < 15 and 0 <= s1 < 15 and 0 <= s2 < 15
        post: _
        """
        # every list of exactly 3 tokens over the reduced pool (15 kind/name pairs)
        if excluded(name, locals()):
            return True
        pairs = pairs_from(POOL_SMALL, 3, (s0, s1, s2))
        if is_stray(pairs, extra) != stray:
            return True
        return finish(analyse(extra, pairs) == "ok")
    f.__name__ = f.__qualname__ = name
    return f, name


def _mk_total4(first):
    name = "c21_total4_%02d" % first

    def f(s1: int, s2: int, s3: int) -> bool:
        """
        pre: 0 <= s1 < 14 and 0 <= s2 < 14 and 0 <= s3 < 14
        post: _
        """
        # every list of exactly 4 tokens over the reduced pool (without capture) whose first token is
        # fixed and is not an end tag (those lists are all in the c21_stray region); default
        # environment: the reduced pool has no name that only the extra environment registers
        if excluded(name, locals()):
            return True
        extra = False
        pairs = [POOL4[first]] + pairs_from(POOL4, 3, (s1, s2, s3))
        if is_stray(pairs, extra):
            return True
        return finish(analyse(extra, pairs) == "ok")
    f.__name__ = f.__qualname__ = name
    return f, name


CONDITIONS = []
DETAIL = {}


def _d2(extra):
    return lambda n, s0, s1: {"tokens": pairs_from(POOL_FULL, n, (s0, s1)), "extra_env": extra, "result": analyse(extra, pairs_from(POOL_FULL, n, (s0, s1)))}


def _d3(extra):
    return lambda s0, s1, s2: {"tokens": pairs_from(POOL_SMALL, 3, (s0, s1, s2)), "extra_env": extra, "result": analyse(extra, pairs_from(POOL_SMALL, 3, (s0, s1, s2)))}


def _d4(first):
    return lambda s1, s2, s3: {"tokens": [POOL4[first]] + pairs_from(POOL4, 3, (s1, s2, s3)), "extra_env": False,
                               "result": analyse(False, [POOL4[first]] + pairs_from(POOL4, 3, (s1, s2, s3)))}


for _x in (False, True):
    for _s in (False, True):
        _f, _n = _mk_total2(_x, _s)
        globals()[_n] = _f
        DETAIL[_n] = _d2(_x)
        CONDITIONS.append({"fn": _n, "quick": 100, "thorough": 300, "sel_only": True})
        _f, _n = _mk_total3(_x, _s)
        globals()[_n] = _f
        DETAIL[_n] = _d3(_x)
        CONDITIONS.append({"fn": _n, "quick": (100 if not _x else None) if not _s else 40, "thorough": 400, "sel_only": True})
for _i in range(N4):
    if POOL4[_i][0] == TOKEN_TAG and POOL4[_i][1].startswith("end"):
        continue
    _f, _n = _mk_total4(_i)
    globals()[_n] = _f
    DETAIL[_n] = _d4(_i)
    CONDITIONS.append({"fn": _n, "quick": None, "thorough": 420, "sel_only": True})


# --- A1 with genuinely symbolic tag names ------------------------------------------------------
def c21_total_symstr(v0: str, v1: str, v2: str, n: int, t0: bool, t1: bool, t2: bool, extra: bool) -> bool:
    """
    pre: 0 <= n <= 3
    pre: len(v0) <= 6 and len(v1) <= 6 and len(v2) <= 6
    post: _
    """
    # tag names are arbitrary strings; t_i says whether token i is a tag or an expression token.
    # Bug hunting: the sets/dicts of the real code realise the strings, the space is not exhausted.
    if excluded("c21_total_symstr", locals()):
        return True
    allp = [(TOKEN_TAG if t0 else TOKEN_EXPRESSION, v0), (TOKEN_TAG if t1 else TOKEN_EXPRESSION, v1),
            (TOKEN_TAG if t2 else TOKEN_EXPRESSION, v2)]
    pairs = allp[:n]
    if is_stray(pairs, extra):
        return True
    return finish(analyse(extra, pairs) == "ok")


CONDITIONS.append({"fn": "c21_total_symstr", "quick": 60, "thorough": 200})


# --- A1 at source level: everything the real lexer accepts ------------------------------------
PIECES = ["{% if x %}", "{% endif %}", "{% else %}", "{% for i in y %}", "{% endfor %}", "{% break %}", "text ", "{{ x }}",
          "{% foo %}", "{% endfoo %}", "{% comment %}", "{% endcomment %}", "{% raw %}", "{% endraw %}", "{% doc %}", "{% enddoc %}",
          "{% liquid if x\n else\n endif %}", "{% liquid endif %}", "{% %}", "{%- case x -%}", "{% when 1 %}", "{% endcase %}",
          "{% # c %}", "{% end %}"]
NP = len(PIECES)
PIECES3 = ["{% if x %}", "{% endif %}", "{% else %}", "{% for i in y %}", "{% endfor %}", "{% break %}", "text ", "{% foo %}", "{% endfoo %}",
           "{% comment %}", "{% endcomment %}", "{% liquid if x\n else\n endif %}"]


def lex_pairs(extra, src):
    try:
        toks = list(env_of(extra).tokenizer()(src))
    except LiquidError:
        return None
    return [(t.kind, t.value) for t in toks]


def analyse_src(extra, src):
    try:
        a = env_of(extra).analyze_tags_from_string(src)
    except Exception as e:
        return "ERR:" + type(e).__name__
    return "ok" if isinstance(a.unknown_tags, dict) else "BAD-RESULT"


def _src3(n, s0, s1, s2):
    src = ""
    sels = (s0, s1, s2)
    for j in range(n):
        src += PIECES[pick(NP, sels[j])]
    return src


def _mk_total_src2(stray):
    name = "c21_%s_src2" % ("stray" if stray else "total")

    def f(n: int, s0: int, s1: int, extra: bool) -> bool:
        """
        pre: 0 <= n <= 2
        pre: 0 <= s0 < 24 and 0 <= s1 < 24
        post: _
        """
        # sources assembled from <= 2 markup pieces; whatever the real lexer accepts must be analysable
        if excluded(name, locals()):
            return True
        if (n < 2 and s1 != 0) or (n < 1 and s0 != 0):
            return True
        src = _src3(n, s0, s1, 0)
        pairs = lex_pairs(extra, src)
        if pairs is None:
            return True  # rejected by the lexer: outside the statement
        if is_stray(pairs, extra) != stray:
            return True
        return finish(analyse_src(extra, src) == "ok")
    f.__name__ = f.__qualname__ = name
    return f, name


def _src33(a, b, c):
    return PIECES3[pick(12, a)] + PIECES3[pick(12, b)] + PIECES3[pick(12, c)]


def _mk_total_src3(group):
    name = "c21_total_src3_g%d" % group

    def f(s0: int, s1: int, s2: int, extra: bool) -> bool:
        """
        pre: 0 <= s0 < 4 and 0 <= s1 < 12 and 0 <= s2 < 12
        post: _
        """
        # sources of exactly 3 pieces from a 12-piece pool; the first piece is one of 4 (group)
        if excluded(name, locals()):
            return True
        src = _src33(group * 4 + s0, s1, s2)
        pairs = lex_pairs(extra, src)
        if pairs is None:
            return True
        if is_stray(pairs, extra):
            return True
        return finish(analyse_src(extra, src) == "ok")
    f.__name__ = f.__qualname__ = name
    return f, name


for _s in (False, True):
    _f, _n = _mk_total_src2(_s)
    globals()[_n] = _f
    DETAIL[_n] = (lambda n, s0, s1, extra: {"source": _src3(n, s0, s1, 0), "result": analyse_src(extra, _src3(n, s0, s1, 0))})
    CONDITIONS.append({"fn": _n, "quick": 100 if not _s else 40, "thorough": 300, "sel_only": True})


def _dsrc3(g):
    return lambda s0, s1, s2, extra: {"source": _src33(g * 4 + s0, s1, s2), "result": analyse_src(extra, _src33(g * 4 + s0, s1, s2))}


for _g in range(3):
    _f, _n = _mk_total_src3(_g)
    globals()[_n] = _f
    DETAIL[_n] = _dsrc3(_g)
    CONDITIONS.append({"fn": _n, "quick": None, "thorough": 450, "sel_only": True})


# ---------------------------------------------------------------------------------------------
# A2 completeness
# contexts around the subject tag S: (tokens before, tokens after); "S" / "endS" are placeholders
CTX = [
    ([], []),
    (["if"], ["endif"]),
    (["for"], ["endfor"]),
    (["case", "when"], ["endcase"]),
    ([], ["endS"]),
    (["if"], ["endS", "endif"]),
    (["if"], []),
    (["S"], ["assign"]),
    (["capture"], ["else", "endcapture"]),
]
NCTX = len(CTX)
_INNER_ALL = ("else", "elsif", "when", "break", "continue")


def _ctx_pairs(ci, name):
    before, after = CTX[ci]
    seq = list(before) + ["S"] + list(after)
    out = []
    for s in seq:
        if s == "S":
            out.append((TOKEN_TAG, name))
        elif s == "endS":
            out.append((TOKEN_TAG, "end" + name))
        else:
            out.append((TOKEN_TAG, s))
    return out


def unknown_reported(extra, ci, name):
    pairs = _ctx_pairs(ci, name)
    toks = build(pairs)
    try:
        a = TagAnalysis(env=env_of(extra), name="t", tokens=toks)
    except Exception as e:
        return "ERR:" + type(e).__name__
    spans = a.unknown_tags.get(name)
    if not spans:
        return "MISSING"
    want = [t.start_index for t in toks if t.value == name]
    got = [s.index for s in spans]
    ok = len(want) == len(got)
    for w in want:
        ok = ok and (w in got)
    return "ok" if ok else "BAD-SPANS"


def c21_unknown_sym2(name: str, ctx: int, extra: bool) -> bool:
    """
    pre: 1 <= len(name) <= 2
    pre: all(c in "aden" for c in name)
    pre: 0 <= ctx < 9
    post: _
    """
    # a tag name that is a word, not registered, not an inner tag, not end...
    if excluded("c21_unknown_sym2", locals()):
        return True
    if name.startswith("end"):
        return True
    ci = pick(NCTX, ctx)
    if name in env_of(extra).tags or name in _INNER_ALL:
        return True
    return finish(unknown_reported(extra, ci, name) == "ok")


def _mk_unknown_sym3(group):
    nm = "c21_unknown_sym3_g%d" % group

    def f(name: str, ctx: int, extra: bool) -> bool:
        """
        pre: 1 <= len(name) <= 3
        pre: all(c in "aden" for c in name)
        pre: 0 <= ctx < 3
        post: _
        """
        # names up to 3 characters; contexts 3*group .. 3*group+2
        if excluded(nm, locals()):
            return True
        if name.startswith("end"):
            return True
        ci = group * 3 + pick(3, ctx)
        if name in env_of(extra).tags or name in _INNER_ALL:
            return True
        return finish(unknown_reported(extra, ci, name) == "ok")
    f.__name__ = f.__qualname__ = nm
    return f, nm


def _dsym3(g):
    return lambda name, ctx, extra: {"tokens": _ctx_pairs(g * 3 + ctx, name), "result": unknown_reported(extra, g * 3 + ctx, name)}


UNK_POOL = ["foo", "x", "iff", "En", "fi", "elseif", "send", "nd", "e", "_", "If", "render2", "9", "with", "macro", "pluralx", "snippet"]


def c21_unknown_pool(k: int, ctx: int, extra: bool) -> bool:
    """
    pre: 0 <= k < 17 and 0 <= ctx < 9
    post: _
    """
    # unregistered names from a pool (includes tags that exist only in the extra environment)
    if excluded("c21_unknown_pool", locals()):
        return True
    name = UNK_POOL[pick(len(UNK_POOL), k)]
    ci = pick(NCTX, ctx)
    if name in env_of(extra).tags or name in _INNER_ALL or name.startswith("end"):
        return True
    return finish(unknown_reported(extra, ci, name) == "ok")


# end tags that no block registers (`endelse`, `endwhen`, `endfoo`, `endassign`): the unknown name is reported, either itself
# or - when its stem is an unknown tag too - through the stem
END_STEMS = ["else", "elsif", "when", "plural", "foo", "assign", "echo", "i", "break", "liquid", "x_y"]
END_CTX = [["if", "S", "E", "endif"], ["if", "S", "endif", "E"], ["E"], ["if", "E", "endif"], ["case", "S", "E", "endcase"], ["S", "E"], ["for", "if", "S", "E", "endif", "endfor"],
           ["if", "S", "E"], ["E", "S"], ["if", "else", "E", "endif"]]


def unknown_end_sweep(extra, si):
    stem = END_STEMS[si]
    bad = []
    for ctx in END_CTX:
        names = [stem if x == "S" else ("end" + stem if x == "E" else x) for x in ctx]
        env = env_of(extra)
        if ("end" + stem) in [getattr(t, "end", None) for t in env.tags.values()] or any(("end" + stem) in (getattr(t, "end_block", ()) or ()) for t in env.tags.values()):
            continue
        toks = build([(TOKEN_TAG, n) for n in names])
        try:
            a = TagAnalysis(env=env, name="t", tokens=toks)
        except Exception as e:
            bad.append((names, "ERR:" + type(e).__name__))
            continue
        if ("end" + stem) not in a.unknown_tags and stem not in a.unknown_tags:
            bad.append((names, {"unknown": sorted(a.unknown_tags), "unclosed": sorted(a.unclosed_tags), "unexpected": sorted(a.unexpected_tags)}))
    return bad


def c21_unknown_end_tags(si: int, extra: bool) -> bool:
    """
    pre: 0 <= si <= 10
    post: _
    """
    if excluded("c21_unknown_end_tags", locals()):
        return True
    from vf.hx import cbool, cint, untraced
    si, extra = cint(si, 0, 10), cbool(extra)
    return finish(untraced(lambda: not unknown_end_sweep(extra, si)))


DETAIL["c21_unknown_end_tags"] = lambda si, extra: {"end tag": "end" + END_STEMS[si], "failing (tags, report)": unknown_end_sweep(extra, si)[:3]}
CONDITIONS.append({"fn": "c21_unknown_end_tags", "quick": 30, "thorough": 60, "sel_only": True})

for _n in ("c21_unknown_sym2", "c21_unknown_pool"):
    DETAIL[_n] = (lambda name, ctx, extra: {"tokens": _ctx_pairs(pick(NCTX, ctx), name if isinstance(name, str) else UNK_POOL[name]),
                                            "result": unknown_reported(extra, pick(NCTX, ctx), name if isinstance(name, str) else UNK_POOL[name])})
CONDITIONS.append({"fn": "c21_unknown_sym2", "quick": 100, "thorough": None})  # thorough: subsumed by c21_unknown_sym3_g*
for _g in range(3):
    _f, _n = _mk_unknown_sym3(_g)
    globals()[_n] = _f
    DETAIL[_n] = _dsym3(_g)
    CONDITIONS.append({"fn": _n, "quick": None, "thorough": 400})
CONDITIONS.append({"fn": "c21_unknown_pool", "quick": 60, "thorough": 200, "sel_only": True})

# unclosed block tags: contexts; "B" is the subject (never closed)
UCTX = [
    ["B"],
    ["B", "assign"],
    ["if", "B", "endif"],
    ["B", "if", "endif"],
    ["for", "if", "B", "endif", "endfor"],
    ["B", "foo"],
    ["B", "else"],
    ["if", "endif", "B"],
    ["B", "B", "endB"],
]
NUCTX = len(UCTX)


def _uctx_pairs(ci, b):
    out = []
    for s in UCTX[ci]:
        out.append((TOKEN_TAG, b if s == "B" else ("end" + b if s == "endB" else s)))
    return out


def unclosed_reported(extra, ci, b):
    if b in ("if", "for") and ci in (2, 3, 4, 7):
        return "skip"  # the context's own end tag would close the subject
    toks = build(_uctx_pairs(ci, b))
    try:
        a = TagAnalysis(env=env_of(extra), name="t", tokens=toks)
    except Exception as e:
        return "ERR:" + type(e).__name__
    spans = a.unclosed_tags.get(b)
    if not spans:
        return "MISSING"
    first = [t.start_index for t in toks if t.value == b][0]
    return "ok" if first in [s.index for s in spans] else "BAD-SPANS"


def c21_unclosed_reported(k: int, ctx: int, extra: bool) -> bool:
    """
    pre: 0 <= k < 13 and 0 <= ctx < 9
    post: _
    """
    # every registered block tag of the environment, left open, is reported (at its first occurrence)
    if excluded("c21_unclosed_reported", locals()):
        return True
    b = BLOCK_NAMES[pick(len(BLOCK_NAMES), k)]
    ci = pick(NUCTX, ctx)
    t = env_of(extra).tags.get(b)
    if t is None or not t.block:
        return True
    r = unclosed_reported(extra, ci, b)
    return finish(r == "ok" or r == "skip")


DETAIL["c21_unclosed_reported"] = lambda k, ctx, extra: {"tokens": _uctx_pairs(pick(NUCTX, ctx), BLOCK_NAMES[k]), "result": unclosed_reported(extra, pick(NUCTX, ctx), BLOCK_NAMES[k])}
CONDITIONS.append({"fn": "c21_unclosed_reported", "quick": 60, "thorough": 200, "sel_only": True})

USRC = ["{% if a %}x", "{% for i in a %}{% if i %}{% endif %}", "{% if a %}{% for i in a %}{% endif %}", "{% capture c %}{{ x }}",
        "{% case a %}{% when 1 %}", "{% unless a %}{% else %}", "{% tablerow i in a %}", "{%- if a -%}{% liquid echo 1 %}",
        "{% comment %} never closed {% if %}", "{% ifchanged %}x", "{% if a %}{% if b %}{% endif %}"]
UWANT = ["if", "for", "for", "capture", "case", "unless", "tablerow", "if", "comment", "ifchanged", "if"]


def unclosed_src(extra, k):
    try:
        a = env_of(extra).analyze_tags_from_string(USRC[k])
    except Exception as e:
        return "ERR:" + type(e).__name__
    return "ok" if a.unclosed_tags.get(UWANT[k]) else "MISSING"


def c21_unclosed_src(k: int, extra: bool) -> bool:
    """
    pre: 0 <= k < 11
    post: _
    """
    # the same through the real lexer: sources with one block left open
    if excluded("c21_unclosed_src", locals()):
        return True
    return finish(unclosed_src(extra, pick(len(USRC), k)) == "ok")


DETAIL["c21_unclosed_src"] = lambda k, extra: {"source": USRC[k], "result": unclosed_src(extra, k)}
CONDITIONS.append({"fn": "c21_unclosed_src", "quick": 40, "thorough": 100, "sel_only": True})


# every sequence of up to 5 tags over a pool of openings, end tags and inner tags: an opening with no end tag of its
# own name anywhere after it has no end tag and must be reported, at its own position. The solver selects the first
# three tags (8^3 paths); the body runs every choice of the last two on the plain interpreter.
GPOOL = ["if", "for", "case", "unless", "endif", "endfor", "endcase", "else"]
GOPEN = ("if", "for", "case", "unless")


def general_missing(extra, names):
    toks = build([(TOKEN_TAG, n) for n in names])
    try:
        a = TagAnalysis(env=env_of(extra), name="t", tokens=toks)
    except Exception as e:
        return [("ERR", type(e).__name__)]
    out = []
    for p, n in enumerate(names):
        if n in GOPEN and ("end" + n) not in names[p + 1:]:
            if toks[p].start_index not in [sp.index for sp in a.unclosed_tags.get(n, [])]:
                out.append((p, n))
    return out


def general_sweep(extra, a, b, c):
    bad = []
    for d in [None] + GPOOL:
        for e in [None] + GPOOL:
            if d is None and e is not None:
                continue
            names = [x for x in (GPOOL[a], GPOOL[b], GPOOL[c], d, e) if x is not None]
            miss = general_missing(extra, names)
            if miss:
                bad.append((names, miss))
    return bad


def c21_unclosed_general(a: int, b: int, c: int, extra: bool) -> bool:
    """
    pre: 0 <= a <= 7 and 0 <= b <= 7 and 0 <= c <= 7
    post: _
    """
    if excluded("c21_unclosed_general", locals()):
        return True
    a, b, c, extra = cint(a, 0, 7), cint(b, 0, 7), cint(c, 0, 7), cbool(extra)
    return finish(untraced(lambda: not general_sweep(extra, a, b, c)))


DETAIL["c21_unclosed_general"] = lambda a, b, c, extra: {"unreported": general_sweep(extra, a, b, c)[:3]}
CONDITIONS.append({"fn": "c21_unclosed_general", "quick": 60, "thorough": 120, "sel_only": True})


# tags written as lines of a {% liquid %} tag: the template lexer hands them over as one expression token
LSRC = [("{% liquid foo %}", "unknown", "foo"), ("{% liquid echo 1\n foo 2 %}", "unknown", "foo"), ("{% liquid if a\n echo 1 %}", "unclosed", "if"),
        ("{% if a %}{% liquid for i in a\n echo i %}{% endif %}", "unclosed", "for")]


def liquid_inner(extra, k):
    src, what, name = LSRC[k]
    try:
        a = env_of(extra).analyze_tags_from_string(src)
    except Exception as e:
        return "ERR:" + type(e).__name__
    m = a.unknown_tags if what == "unknown" else a.unclosed_tags
    return "ok" if m.get(name) else "MISSING"


def c21_liquid_inner_reported(k: int, extra: bool) -> bool:
    """
    pre: 0 <= k < 4
    post: _
    """
    # unknown tag names / unclosed blocks on the lines of a liquid tag
    if excluded("c21_liquid_inner_reported", locals()):
        return True
    return finish(liquid_inner(extra, pick(len(LSRC), k)) == "ok")


DETAIL["c21_liquid_inner_reported"] = lambda k, extra: {"source": LSRC[k][0], "expected_in": LSRC[k][1], "result": liquid_inner(extra, k)}
CONDITIONS.append({"fn": "c21_liquid_inner_reported", "quick": 30, "thorough": 60, "sel_only": True})


# ---------------------------------------------------------------------------------------------
# A3 no false alarms: generated valid templates
LEAVES = ["{{ x | upcase }}", "{% assign y = x | append: 'a' %}", "{% echo x %}", "{% comment %}{% if %} {% endfor %}{% endcomment %}",
          "{% raw %}{% endif %} {{ {% endraw %}", "{% # inline {% comment %}", "{% cycle 1, 2 %}", "{% increment n %}{% decrement n %}",
          "{% include 'p' %}", "{% render 'p', x: 1 %}", "{% doc %} {% if %} {% enddoc %}", "plain text"]

# kind -> (sections, close); a section is an opening/inner tag followed by a body slot
BLK = {
    "if": (["{% if a %}", "{% elsif b %}", "{% else %}"], "{% endif %}"),
    "unless": (["{% unless a %}", "{% elsif b %}", "{% else %}"], "{% endunless %}"),
    "case": (["{% case a %}{% when 1 %}", "{% when 2, 3 %}"], "{% endcase %}"),
    "for": (["{% for i in xs limit: 2 %}"], "{% endfor %}"),
    "tablerow": (["{% tablerow i in xs cols: 2 %}"], "{% endtablerow %}"),
    "capture": (["{% capture c %}"], "{% endcapture %}"),
    "ifchanged": (["{% ifchanged %}"], "{% endifchanged %}"),
}
BLK_X = {
    "with": (["{% with a: 1, b: x %}"], "{% endwith %}"),
}
# translate blocks may only contain text and output statements: they are leaves
LEAVES_X = ["{% translate you: x %}Hello {{ you }}{% endtranslate %}", "{% translate %}Hello{% endtranslate %}",
            "{% translate context: 'c', you: x %}Hi {{ you }}{% endtranslate %}", "{% with a: 1 %}{{ a }}{% endwith %}",
            "{{ x | upcase }}", "{% assign y = x %}", "{% comment %}{% endwith %}{% endcomment %}", "{% include 'p' %}"]
FOR_ELSE = (["{% for i in xs %}", "{% else %}"], "{% endfor %}")
CASE_ELSE = (["{% case a %}{% when 1 %}", "{% else %}"], "{% endcase %}")
CASE_ONLY_ELSE = (["{% case a %}{% else %}"], "{% endcase %}")
MACRO = (["{% macro m, q %}"], "{% endmacro %}")
BLOCK = (["{% block b %}"], "{% endblock %}")
BLOCK_NAMED = (["{% block b %}"], "{% endblock b %}")
PLURAL = (["{% translate count: n %}One", "{% plural %}Many"], "{% endtranslate %}")
INTERRUPT = "{% if i %}{% break %}{% else %}{% continue %}{% endif %}"


def wrap(spec, bodies):
    secs, close = spec
    out = ""
    for j in range(len(secs)):
        out += secs[j] + bodies[j % len(bodies)]
    return out + close


def _family(blocks, LEAVES=LEAVES, extra_specs=()):
    """singles, all ordered pairs, a triple per pair; leaves rotate through the body slots."""
    fam = []
    kinds = list(blocks)
    li = 0
    for k in kinds:
        fam.append(wrap(blocks[k], [LEAVES[li % len(LEAVES)], LEAVES[(li + 1) % len(LEAVES)]]))
        li += 2
    for o in kinds:
        for i in kinds:
            inner = wrap(blocks[i], [LEAVES[li % len(LEAVES)]])
            fam.append("a\n" + wrap(blocks[o], [inner, LEAVES[(li + 1) % len(LEAVES)] + inner]) + "\nz")
            li += 1
    for n, o in enumerate(kinds):
        for m, i in enumerate(kinds):
            third = kinds[(n + m + 1) % len(kinds)]
            deep = wrap(blocks[third], [LEAVES[li % len(LEAVES)]])
            fam.append(wrap(blocks[o], [wrap(blocks[i], [deep, "t"])]))
            li += 1
    for spec in extra_specs:
        for k in kinds:
            fam.append(wrap(spec, [wrap(blocks[k], ["u"])]))
            fam.append(wrap(blocks[k], [wrap(spec, ["v"])]))
    return fam


FAM_DEFAULT = _family(BLK) + list(LEAVES) + [
    "", "{%- if a -%} x {%- endif -%}", "{% if a %}{% endif %}\n{% if b %}{% endif %}",
    "{% for i in xs %}" + INTERRUPT + "{% endfor %}",
    "{% for i in xs %}{% capture c %}{% break %}{% endcapture %}{% endfor %}",
    "{% for i in xs %}{% case i %}{% when 1 %}{% continue %}{% endcase %}{% endfor %}",
    "{% for i in xs %}{% unless i %}{% break %}{% endunless %}{% endfor %}",
    "{% for i in xs %}{% for j in xs %}{% break %}{% endfor %}{% continue %}{% endfor %}",
    "{% for i in xs %}{% tablerow j in xs %}" + INTERRUPT + "{% endtablerow %}{% endfor %}",
    "{% liquid if a\n echo 1\n elsif b\n echo 2\n else\n echo 3\n endif %}",
    "{% liquid for i in xs\n if i\n break\n endif\n endfor\n assign y = 2 %}",
    "{% liquid case a\n when 1\n echo 'a'\n when 2\n unless b\n echo 'b'\n else\n echo 'c'\n endunless\n endcase %}",
    "{% if a %}{% liquid if b\n echo 1\n endif %}{% else %}{% endif %}",
    "{% liquid %}",
    "{% comment %}{% comment %} nested {% endcomment %}{% endcomment %}",
    "{% if a %}{% comment %}{% else %}{% endcomment %}{% endif %}",
    "{% capture c %}{% if a %}{% raw %}{% else %}{% endraw %}{% endif %}{% endcapture %}",
]
FAM_DEFAULT += ["{% liquid for i in xs\n echo i\n else\n echo 'e'\n endfor %}", "{% liquid case a\n when 1\n echo 1\n else\n echo 2\n endcase %}",
                "{% liquid tablerow i in xs\n break\n endtablerow %}"]
FAM_FOR_ELSE = [wrap(FOR_ELSE, ["x", "y"]), wrap(BLK["if"], [wrap(FOR_ELSE, ["{{ i }}", "none"])]),
                wrap(FOR_ELSE, [wrap(BLK["if"], ["1", "2", "3"]), "e"]), wrap(FOR_ELSE, [wrap(FOR_ELSE, ["p", "q"]), "r"])]
FAM_CASE_ELSE = [wrap(CASE_ELSE, ["x", "y"]), wrap(CASE_ONLY_ELSE, ["x"]), wrap(BLK["for"], [wrap(CASE_ELSE, ["{{ i }}", "d"])]),
                 wrap(CASE_ELSE, [wrap(BLK["if"], ["1", "2", "3"]), "y"])]
FAM_TR_INTERRUPT = ["{% tablerow i in xs %}" + INTERRUPT + "{% endtablerow %}", "{% tablerow i in xs %}{% break %}{% endtablerow %}",
                    "{% tablerow i in xs cols: 2 %}{% continue %}{% endtablerow %}",
                    "{% if a %}{% tablerow i in xs %}{% unless i %}{% continue %}{% endunless %}{% endtablerow %}{% endif %}"]
_BX = dict(BLK)
_BX.update(BLK_X)
FAM_EXTRA = _family({k: _BX[k] for k in ("with", "if", "for", "case", "capture")}, LEAVES_X) + LEAVES_X + [
    "{% extends 'base' %}", "{% with a: 1 %}{% for i in xs %}" + INTERRUPT + "{% endfor %}{% endwith %}",
    "{% for i in xs %}{% with a: i %}{% break %}{% endwith %}{% endfor %}",
    "{% translate %}Hello{% endtranslate %}", "{% translate context: 'c', you: x %}Hi {{ you }}{% endtranslate %}",
    "{% liquid with a: 1\n echo a\n endwith %}", "{% liquid macro m, q\n echo q\n endmacro\n call m, 2 %}",
]
FAM_MACRO = [wrap(MACRO, ["{{ q }}"]) + "{% call m, 1 %}", wrap(MACRO, [wrap(BLK["if"], ["1", "2", "3"])]),
             wrap(BLK["if"], [wrap(MACRO, ["x"]), "{% call m %}"])]
FAM_BLOCK = ["{% extends 'base' %}" + wrap(BLOCK, ["x"]), "{% extends 'base' %}" + wrap(BLOCK_NAMED, ["x"]),
             wrap(BLOCK, [wrap(BLK["if"], ["1", "2", "3"])]), wrap(BLOCK, ["{{ block.super }}"]),
             wrap(BLK["if"], [wrap(BLOCK, ["x"])])]
FAM_PLURAL = [wrap(PLURAL, ["", ""]), wrap(BLK["if"], [wrap(PLURAL, ["", ""])]),
              "{% translate count: n, you: x %}One {{ you }}{% plural %}Many {{ you }}{% endtranslate %}"]


def valid_result(extra, src):
    """'ok', 'PARSE:<error>' when the family member is not valid after all, or what was falsely reported."""
    env = env_of(extra)
    try:
        env.from_string(src)
    except LiquidError as e:
        return "PARSE:" + type(e).__name__
    try:
        a = env.analyze_tags_from_string(src)
    except Exception as e:
        return "ERR:" + type(e).__name__
    if a.unclosed_tags or a.unexpected_tags or a.unknown_tags:
        return "FALSE-ALARM unclosed=%s unexpected=%s unknown=%s" % (sorted(a.unclosed_tags), sorted(a.unexpected_tags), sorted(a.unknown_tags))
    return "ok"


def _mk_valid(name, fam, envs):
    name = "c21_valid_" + name
    nf = len(fam)

    def f(k: int, extra: bool) -> bool:
        """
        pre: 0 <= k < 400
        post: _
        """
        if excluded(name, locals()):
            return True
        if k >= nf:
            return True
        if extra and "x" not in envs:
            return True
        if not extra and "d" not in envs:
            return True
        src = fam[pick(nf, k)]
        return finish(valid_result(extra, src) == "ok")
    f.__name__ = f.__qualname__ = name
    DETAIL[name] = lambda k, extra: {"source": fam[k], "extra_env": extra, "result": valid_result(extra, fam[k])}
    globals()[name] = f
    return name


VALID = [("default", FAM_DEFAULT, "dx", 110, 400), ("for_else", FAM_FOR_ELSE, "dx", 40, 100), ("case_else", FAM_CASE_ELSE, "dx", 40, 100),
         ("tablerow_interrupt", FAM_TR_INTERRUPT, "dx", 40, 100), ("extra", FAM_EXTRA, "x", 100, 400),
         ("extra_macro", FAM_MACRO, "x", 40, 100), ("extra_block", FAM_BLOCK, "x", 40, 100), ("extra_plural", FAM_PLURAL, "x", 40, 100)]
for (_nm, _fam, _envs, _q, _t) in VALID:
    CONDITIONS.append({"fn": _mk_valid(_nm, _fam, _envs), "quick": _q, "thorough": _t, "sel_only": True})

# ---- the tag register changes between two analyses of one environment: each analysis reflects the register as it is ----
from liquid.extra.tags import WithTag as _WithTag  # noqa: E402
from liquid.builtin.tags.if_tag import IfTag as _IfTag  # noqa: E402


class _BoxTag(_IfTag):
    name = "box"
    end = "endbox"


_REG_SRC = ["{% with x: 1 %}{% if x %}{{ x }}{% endif %}{% endwith %}", "{% box x %}a{% endbox %}", "{% if x %}a{% endif %}{% unless x %}b{% endunless %}",
            "{% with x: 1 %}{% box x %}{% endbox %}"]


def registry_case(first, change, second, via_async):
    env = Environment()

    def analyse(src):
        try:
            if via_async:
                from vf.hx import drive
                from liquid import DictLoader
                env.loader = DictLoader({"t": src})
                a = drive(env.analyze_tags_async("t"))
            else:
                a = env.analyze_tags_from_string(src)
        except Exception as e:
            return ("raised", type(e).__name__)
        return (sorted(a.unknown_tags), sorted(a.unclosed_tags), sorted(a.unexpected_tags))
    if first >= 0:
        analyse(_REG_SRC[first])
    if change == 0:
        env.add_tag(_WithTag)
    elif change == 1:
        env.add_tag(_BoxTag)
    elif change == 2:
        del env.tags["unless"]
    elif change == 3:
        env.add_tag(_WithTag)
        env.add_tag(_BoxTag)
    got = analyse(_REG_SRC[second])
    # reference: the same analysis in an environment that was never analysed before the change
    fresh = Environment()
    if change in (0, 3):
        fresh.add_tag(_WithTag)
    if change in (1, 3):
        fresh.add_tag(_BoxTag)
    if change == 2:
        del fresh.tags["unless"]
    a = fresh.analyze_tags_from_string(_REG_SRC[second])
    return got, (sorted(a.unknown_tags), sorted(a.unclosed_tags), sorted(a.unexpected_tags))


def c21_registry_changes(first: int, change: int, second: int, via_async: bool) -> bool:
    """
    pre: -1 <= first <= 3 and 0 <= change <= 3 and 0 <= second <= 3
    post: _
    """
    if excluded("c21_registry_changes", locals()):
        return True
    first, change, second, via_async = cint(first, -1, 3), cint(change, 0, 3), cint(second, 0, 3), cbool(via_async)
    got, want = untraced(lambda: registry_case(first, change, second, via_async))
    return finish(got == want)


DETAIL["c21_registry_changes"] = lambda first, change, second, via_async: {
    "analysed first": None if first < 0 else _REG_SRC[first], "then": ("add_tag(WithTag)", "add_tag(BoxTag)", "del tags['unless']", "add both")[change],
    "then analysed": _REG_SRC[second], "(unknown, unclosed, unexpected) observed / in a fresh environment": registry_case(first, change, second, via_async)}
CONDITIONS.append({"fn": "c21_registry_changes", "quick": 40, "thorough": 80, "sel_only": True})


# ---- the shared corpus: every member parses in strict mode, so tag analysis reports nothing unclosed/unexpected/unknown ----
from harness import corpus as _corpus  # noqa: E402

_CENV = _corpus.make_env()


def _corpus_check(w2, w1, leaf, d):
    if d != 0:
        return None
    src = _corpus.source(w2, w1, leaf)
    t = _corpus.template(_CENV, w2, w1, leaf)
    if t is None:
        return None
    try:
        a = _CENV.analyze_tags_from_string(src)
    except Exception as e:
        return {"raised": type(e).__name__}
    if a.unclosed_tags or a.unexpected_tags or a.unknown_tags:
        return {"unclosed": sorted(a.unclosed_tags), "unexpected": sorted(a.unexpected_tags), "unknown": sorted(a.unknown_tags)}
    return None


def _corpus_skip(w2, w1, leaf):
    # `{% continue %}` outside a loop gets through the parser, but a render that reaches it fails with LiquidSyntaxError
    # ("unexpected 'continue'") and tag analysis, by design, reports it as unexpected: not a valid source
    return leaf == 24 and w2 != 1 and w1 not in (5, 6, 7, 13, 14)


c21_corpus, _det = _corpus.mk_condition("c21_corpus", _corpus_check, _corpus_skip)
DETAIL["c21_corpus"] = _det
CONDITIONS.append({"fn": "c21_corpus", "quick": 90, "thorough": 200, "sel_only": True, "bounds": _corpus.BOUNDS})

ASSUMPTIONS = [
    "token lists are built by the harness: kinds from {tag, content, expression, output, comment, doc}, tag names from pools of registered block / inner / end / inline / unknown names (47 pairs for lists <= 2, 15 pairs for lists of 3, 14 for lists of 4); only c21_total_symstr / c21_unknown_sym* use symbolic strings",
    "c21_total_* assume that no end tag arrives while no block is open (partition predicate is_stray); that region is checked by c21_stray_* with the same oracle",
    "'valid template' = a member of the generated families that parses without error in strict mode in the same environment (checked inside the condition and by the self-test)",
    "break/continue are only placed inside for/tablerow bodies; a top-level {% break %} parses but is not treated as valid",
]
OUTSIDE = ["token lists longer than 4 (statement: up to 8)", "custom inner_tags maps and custom tags", "non-default delimiters / template_comments",
           "Environment.analyze_tags through a loader (only analyze_tags_from_string and the TagAnalysis constructor)"]


def selftest():
    fails = []
    # repo-tested facts (tests/test_analyze_template_tags.py)
    a = ENV_D.analyze_tags_from_string("{% if foo %}{% endif %}")
    if a.unclosed_tags or a.unexpected_tags or a.unknown_tags or sorted(a.all_tags) != ["endif", "if"]:
        fails.append("one block tag")
    a = ENV_D.analyze_tags_from_string("{% foo %}")
    if sorted(a.unknown_tags) != ["foo"]:
        fails.append("unknown tag")
    a = ENV_D.analyze_tags_from_string("{% if foo %}")
    if sorted(a.unclosed_tags) != ["if"]:
        fails.append("unclosed tag")
    # partition predicate on fixed cases
    T = TOKEN_TAG
    for pairs, want in (([(T, "endif")], True), ([(T, "if"), (T, "endif")], False), ([(T, "foo"), (T, "endfoo")], False),
                        ([(T, "if"), (T, "endif"), (T, "endif")], True), ([(TOKEN_CONTENT, "endif")], False), ([(T, "end")], True)):
        if is_stray(pairs, False) != want or is_stray(pairs, True) != want:
            fails.append("is_stray %r" % (pairs,))
    # every family member is a valid template in its environment(s)
    for (nm, fam, envs, _q, _t) in VALID:
        for src in fam:
            for extra in (False, True):
                if ("x" if extra else "d") not in envs:
                    continue
                try:
                    env_of(extra).from_string(src).render(xs=[0, 1], a=1, x="s", n=2)
                except LiquidError as e:
                    fails.append("family %s member does not parse/render (%s): %r" % (nm, type(e).__name__, src))
    if len(POOL_FULL) != 47 or len(POOL_SMALL) != 15 or len(POOL4) != 14 or len(PIECES3) != 12 or len(PIECES) != 24 or len(UNK_POOL) != 17 or len(BLOCK_NAMES) != 13 or len(USRC) != 11:
        fails.append("pool sizes drifted from the preconditions")
    return fails
