"""C07 Output and local-namespace limits bound what they measure.

O1 one write on the real LimitedStringIO from an arbitrary (size, limit) state.
O2 whole renders of skeleton templates (output, capture, ifchanged, include, render, cycle,
   loops, block.super buffers) with multi-byte contents from a selector pool, symbolic loop
   lengths and a symbolic output limit L: completed => output == unlimited output and its
   UTF-8 length <= L; unlimited length > L (strict mode) => OutputStreamLimitError.
N1 local namespace limit: sys.getsizeof is stubbed by a size function with symbolic per-kind
   sizes; a wrapper around RenderContext.assign records the measured size after every
   normal return, in the caller and in rendered partials. Completed render (strict) =>
   every recorded size <= M, and a partial's size includes the caller's size at the call.
"""
from liquid import CachingDictLoader, Environment
from liquid import context as ctxmod
from liquid.context import RenderContext
from liquid.exceptions import LiquidError, LocalNamespaceLimitError, OutputStreamLimitError
from liquid.output import LimitedStringIO

from vf.hx import cint, excluded, finish, untraced

PROPERTY = "C07"


def txt(i):
    if i == 0:
        return ""
    if i == 1:
        return "a"
    if i == 2:
        return "é"
    if i == 3:
        return "€"
    if i == 4:
        return "a€"
    if i == 5:
        return "😀b"
    return "c" + chr(13) + chr(10)


def ulen(s):
    return len(s.encode("utf-8"))


def c07_write_step(size: int, limit: int, si: int) -> bool:
    """
    pre: 0 <= si <= 6
    pre: size >= 0 and limit >= 0
    post: _
    """
    if excluded("c07_write_step", locals()):
        return True
    s = txt(si)
    buf = LimitedStringIO(limit=limit)
    buf.size = size
    n = ulen(s)
    try:
        buf.write(s)
    except OutputStreamLimitError:
        return finish(size + n > limit and n > 0 and buf.getvalue() == "")
    return finish((size + n <= limit or n == 0) and buf.getvalue() == s and buf.size == size + n)


def c07_write_seq(limit: int, s1: int, s2: int, s3: int) -> bool:
    """
    pre: 0 <= s1 <= 6 and 0 <= s2 <= 6 and 0 <= s3 <= 6
    pre: limit >= 0
    post: _
    """
    # three writes: the buffer never holds more than limit bytes, raises exactly when the running total exceeds it
    if excluded("c07_write_seq", locals()):
        return True
    buf = LimitedStringIO(limit=limit)
    total = 0
    ok = True
    for si in (s1, s2, s3):
        s = txt(si)
        try:
            buf.write(s)
            total += ulen(s)
            ok = ok and total <= limit
        except OutputStreamLimitError:
            ok = ok and total + ulen(s) > limit
            break
    return finish(ok and ulen(buf.getvalue()) <= max(limit, 0) and ulen(buf.getvalue()) == min(total, ulen(buf.getvalue())))


class Env(Environment):
    output_stream_limit = None
    local_namespace_limit = None


PARTIALS = {
    "p": "<{{ v }}{{ w }}>",
    "pc": "{% capture c %}{{ v }}{{ v }}{% endcapture %}[{{ c }}]",
    "base": "B{% block b %}{{ v }}{% endblock %}E",
}
ENV = Env(extra=True, loader=CachingDictLoader(PARTIALS, auto_reload=False))
for _p in PARTIALS:
    ENV.get_template(_p)

SKEL = {
    "output": "{{ v }}-{{ w }}",
    "loop_output": "{% for i in xs %}{{ v }}{% endfor %}",
    "capture_out": "{% capture c %}{{ v }}{{ w }}{% endcapture %}{{ c }}{{ c }}",
    "capture_unused": "{% capture c %}{{ v }}{{ w }}{{ v }}{% endcapture %}x",
    "capture_in_loop": "{% for i in xs %}{% capture c %}{{ c }}{{ v }}{% endcapture %}{% endfor %}{{ c }}",
    "ifchanged": "{% for i in xs %}{% ifchanged %}{{ v }}{% endifchanged %}{% ifchanged %}{{ i }}{{ w }}{% endifchanged %}{% endfor %}",
    "include": "{{ w }}{% include 'p' %}{% for i in xs %}{% include 'p' %}{% endfor %}",
    "render": "{% render 'p', v: v, w: w %}{% for i in xs %}{% render 'pc', v: v %}{% endfor %}",
    "cycle": "{% for i in xs %}{% cycle v, w, 'a' %}{% endfor %}",
    "nested_capture": "{% capture a %}{{ v }}{% capture b %}{{ w }}{% endcapture %}{{ b }}{% endcapture %}{{ a }}",
    "tablerow": "{% tablerow i in xs cols: 2 %}{{ v }}{% endtablerow %}",
    "extends_super": "{% extends 'base' %}{% block b %}{{ block.super }}{{ w }}{% endblock %}",
    "echo_liquid": "{% liquid echo v\n for i in xs\n echo w\n endfor %}",
    "literal": "αβγ{{ v }}δ",
    "out_then_capture": "{{ v }}{{ w }}{% capture c %}{{ w }}{{ v }}{% endcapture %}x{% for i in xs %}{{ v }}{% capture d %}{{ w }}{% endcapture %}{% endfor %}",
}
T = {k: ENV.from_string(v) for k, v in SKEL.items()}


def render_limited(t, L, data):
    ENV.output_stream_limit = L
    try:
        return t.render(**data)
    except OutputStreamLimitError:
        return None
    finally:
        ENV.output_stream_limit = None


def _mk_out(kind):
    def f(vi: int, wi: int, n: int, L: int) -> bool:
        """
        pre: 0 <= vi <= 6 and 0 <= wi <= 3 and 0 <= n <= 2
        pre: 0 <= L <= 60
        post: _
        """
        if excluded("c07_out_" + kind, locals()):
            return True
        data = {"v": txt(vi), "w": txt(wi), "xs": list(range(n))}
        ENV.output_stream_limit = None
        ENV.local_namespace_limit = None
        full = T[kind].render(**data)
        got = render_limited(T[kind], L, data)
        if got is None:
            # raising is always allowed by the statement when something exceeded the limit; it is
            # REQUIRED when the unlimited output exceeds L. It is forbidden only when nothing that
            # was written anywhere (incl. captures) can have exceeded L: we bound that by 4x output + 64.
            return finish(True if ulen(full) > L else (L < 4 * ulen(full) + 64))
        return finish(got == full and ulen(got) <= L)
    f.__name__ = f.__qualname__ = "c07_out_" + kind
    return f


def _mk_out_exact(kind):
    # for skeletons without capture/ifchanged side buffers the limit is exact: raises IFF unlimited > L
    def f(vi: int, wi: int, n: int, L: int) -> bool:
        """
        pre: 0 <= vi <= 6 and 0 <= wi <= 3 and 0 <= n <= 2
        pre: 0 <= L <= 60
        post: _
        """
        if excluded("c07_exact_" + kind, locals()):
            return True
        data = {"v": txt(vi), "w": txt(wi), "xs": list(range(n))}
        ENV.output_stream_limit = None
        ENV.local_namespace_limit = None
        full = T[kind].render(**data)
        got = render_limited(T[kind], L, data)
        if got is None:
            return finish(ulen(full) > L)
        return finish(got == full and ulen(got) <= L)
    f.__name__ = f.__qualname__ = "c07_exact_" + kind
    return f


CONDITIONS = [
    {"fn": "c07_write_step", "quick": 30, "thorough": 60},
    {"fn": "c07_write_seq", "quick": 60, "thorough": 120},
]
EXACT = ("output", "loop_output", "include", "cycle", "tablerow", "echo_liquid", "literal")
for _k in SKEL:
    globals()["c07_out_" + _k] = _mk_out(_k)
    CONDITIONS.append({"fn": "c07_out_" + _k, "quick": 110 if _k in ("include", "render", "extends_super", "ifchanged") else 60, "thorough": 300})
for _k in EXACT:
    globals()["c07_exact_" + _k] = _mk_out_exact(_k)
    CONDITIONS.append({"fn": "c07_exact_" + _k, "quick": 110 if _k in ("include",) else 60, "thorough": 300})


# ---- N1 local namespace -------------------------------------------------------------------------
SIZES = {"str": 1, "int": 1, "other": 1}
RECORD = []


class _Sys:
    """Stand-in for the sys module inside liquid.context: getsizeof answers from symbolic per-kind sizes."""

    def getsizeof(self, obj, default=1):
        if issubclass(type(obj), str):
            return SIZES["str"] + len(obj)
        if type(obj) is bool:
            return SIZES["other"]
        if issubclass(type(obj), int):
            return SIZES["int"]
        return SIZES["other"]


_real_sys = ctxmod.sys
_real_assign = RenderContext.assign


def _independent_size(ctx):
    """The documented measure, recomputed outside the code under test: the sizes of every value bound in this context's
    local namespace (one per NAME: two names bound to one object are two entries of the namespace) plus those of the
    contexts it was copied from."""
    gs = _Sys().getsizeof
    total = 0
    seen = []
    while ctx is not None:
        if not any(ctx.locals is x for x in seen):   # a block-scoped copy shares its parent's locals
            seen.append(ctx.locals)
            for v in ctx.locals.values():
                total += gs(v)
        ctx = ctx.parent_context
    return total


def _assign(self, key, val):
    _real_assign(self, key, val)
    RECORD.append((self._copy_depth, self.get_size_of_locals(), self.local_namespace_size_carry, _independent_size(self)))


NS_SKEL = {
    "assigns": "{% assign a = v %}{% assign b = n %}{% assign a = w %}",
    "capture": "{% capture a %}{{ v }}{{ w }}{% endcapture %}{% assign b = a %}",
    "aliases": "{% assign a = v %}{% assign b = a %}{% assign c = b %}{% capture d %}{{ w }}{{ v }}{% endcapture %}{% assign e = d %}{% for i in xs %}{% assign f = d %}{% assign g = 1 %}{% assign h = 1 %}{% endfor %}{% render 'q', v: d %}",
    "loop": "{% for i in xs %}{% assign a = i %}{% capture c %}{{ c }}{{ v }}{% endcapture %}{% endfor %}",
    "render": "{% assign a = v %}{% render 'q', v: w %}{% assign b = w %}",
    "render_nested": "{% assign a = v %}{% render 'q2', v: w %}",
    "include": "{% assign a = v %}{% include 'q' %}{% assign d = n %}",
    "macro": "{% macro m %}{% assign z = v %}{% endmacro %}{% assign a = w %}{% call m %}",
    "increment": "{% increment k %}{% assign a = v %}{% decrement k %}",
}
NS_PARTIALS = {"q": "{% assign x = v %}{% assign y = 1 %}", "q2": "{% assign x = v %}{% render 'q', v: v %}{% assign y = x %}"}


class NEnv(Environment):
    local_namespace_limit = None


NENV = NEnv(extra=True, loader=CachingDictLoader(NS_PARTIALS, auto_reload=False))
for _p in NS_PARTIALS:
    NENV.get_template(_p)
NT = {k: NENV.from_string(v) for k, v in NS_SKEL.items()}


def _mk_ns(kind):
    def f(vi: int, wi: int, n: int, M: int, ss: int, si: int, so: int) -> bool:
        """
        pre: 0 <= vi <= 6 and 0 <= wi <= 6 and 0 <= n <= 2
        pre: 0 <= ss <= 50 and 0 <= si <= 50 and 0 <= so <= 50
        pre: 1 <= M <= 400
        post: _
        """
        if excluded("c07_ns_" + kind, locals()):
            return True
        SIZES["str"] = ss
        SIZES["int"] = si
        SIZES["other"] = so
        del RECORD[:]
        NENV.local_namespace_limit = M
        ctxmod.sys = _Sys()
        RenderContext.assign = _assign
        try:
            try:
                NT[kind].render(v=txt(vi), w=txt(wi), n=n, xs=list(range(n)))
                done = True
            except LocalNamespaceLimitError:
                done = False
            except LiquidError:
                return finish(False)
        finally:
            ctxmod.sys = _real_sys
            RenderContext.assign = _real_assign
            NENV.local_namespace_limit = None
        ok = True
        if done:
            for depth, size, carry, indep in RECORD:
                ok = ok and size <= M and carry <= size and indep <= M
        # sizes carried into partials: a deeper context's carry is at least the size the caller had
        for i in range(1, len(RECORD)):
            if RECORD[i][0] > RECORD[i - 1][0]:
                ok = ok and RECORD[i][2] >= RECORD[i - 1][1]
        return finish(ok)
    f.__name__ = f.__qualname__ = "c07_ns_" + kind
    return f


for _k in NS_SKEL:
    globals()["c07_ns_" + _k] = _mk_ns(_k)
    CONDITIONS.append({"fn": "c07_ns_" + _k, "quick": 60, "thorough": 240})

# ---- A1: the asynchronous entry points enforce the same limits -------------------------------------
import asyncio

KINDS = list(SKEL)
NKINDS = list(NS_SKEL)


def _arun(t, data):
    return asyncio.run(t.render_async(**data))


def async_out_sweep(ki, L):
    """Failures of: render_async under output limit L behaves exactly like render (same text or the same error), and a
    completed asynchronous render is within L."""
    t = T[KINDS[ki]]
    bad = []
    for vi in range(7):
        for wi in range(4):
            for n in range(3):
                data = {"v": txt(vi), "w": txt(wi), "xs": list(range(n))}
                ENV.output_stream_limit = None
                full = t.render(**data)
                want = render_limited(t, L, data)
                ENV.output_stream_limit = L
                try:
                    try:
                        got = _arun(t, data)
                    except OutputStreamLimitError:
                        got = None
                finally:
                    ENV.output_stream_limit = None
                if got != want or (got is not None and ulen(got) > L) or (got is not None and got != full):
                    bad.append({"v": txt(vi), "w": txt(wi), "n": n, "sync": want, "async": got})
    return bad


def c07_async_out(ki: int, L: int) -> bool:
    """
    pre: 0 <= ki <= 14 and 0 <= L <= 60
    post: _
    """
    if excluded("c07_async_out", locals()):
        return True
    ki, L = cint(ki, 0, 14), cint(L, 0, 60)
    return finish(untraced(lambda: not async_out_sweep(ki, L)))


def async_ns_sweep(ki, M):
    """Failures of: render_async under namespace limit M completes exactly when render does (real sys.getsizeof)."""
    t = NT[NKINDS[ki]]
    bad = []
    for vi in range(7):
        for n in range(3):
            data = {"v": txt(vi), "w": txt((vi + 3) % 7), "n": n, "xs": list(range(n))}
            NENV.local_namespace_limit = M
            try:
                res = []
                for run in (lambda: t.render(**data), lambda: _arun(t, data)):
                    try:
                        res.append(("ok", run()))
                    except LocalNamespaceLimitError:
                        res.append(("limit", None))
            finally:
                NENV.local_namespace_limit = None
            if res[0] != res[1]:
                bad.append({"data": data, "sync": res[0], "async": res[1]})
    return bad


def c07_async_ns(ki: int, mi: int) -> bool:
    """
    pre: 0 <= ki <= 8 and 0 <= mi <= 24
    post: _
    """
    if excluded("c07_async_ns", locals()):
        return True
    ki, mi = cint(ki, 0, 8), cint(mi, 0, 24)
    return finish(untraced(lambda: not async_ns_sweep(ki, 20 * mi)))


DETAIL = globals().get("DETAIL", {})
DETAIL["c07_async_out"] = lambda ki, L: {"template": SKEL[KINDS[ki]], "limit": L, "failing": async_out_sweep(ki, L)[:3]}
DETAIL["c07_async_ns"] = lambda ki, mi: {"template": NS_SKEL[NKINDS[ki]], "limit": 20 * mi, "failing": async_ns_sweep(ki, 20 * mi)[:3]}
CONDITIONS.append({"fn": "c07_async_out", "quick": 120, "thorough": 300, "sel_only": True})
CONDITIONS.append({"fn": "c07_async_ns", "quick": 60, "thorough": 120, "sel_only": True})

ASSUMPTIONS = [
    "text contents come from a 7-element pool (multi-byte characters and CR LF; selector); limits, loop lengths and stubbed object sizes are symbolic",
    "N1: sys.getsizeof inside liquid.context is replaced by a size function with symbolic per-kind sizes (str: ss + len, int: si, other: so); the property is about the accounting, not CPython's object sizes",
    "N1: a wrapper around RenderContext.assign records get_size_of_locals() after each normal return",
    "c07_out_*: when the unlimited output fits in L, raising is still accepted if L < 4 x output + 64 (captured text counts against the limit by design)",
]
OUTSIDE = ["LAX/WARN mode for the namespace limit (the error is suppressed there by design)", "surrogate code points", "limits above 60 bytes / 400 units"]


def selftest():
    fails = []
    ENV.output_stream_limit = None
    if T["capture_out"].render(v="a", w="é", xs=[]) != "aéaé":
        fails.append("capture_out baseline")
    if len(KINDS) != 15 or len(NKINDS) != 9:
        fails.append("skeleton counts changed: update the bounds of c07_async_*")
    return fails
