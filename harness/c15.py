"""C15 Rendered partials and macros are isolated from their caller.

2-safety (non-interference). Every condition renders the SAME pre-parsed caller
skeleton twice: the caller-local value (v1 vs v2) differs, the explicit
arguments, the bound variable and the global data are identical. The caller
binds its locals (selector b) by assign / capture / for / tablerow / increment /
with, using exactly the names the partial reads, around one render / call tag
(one condition per tag form). The partial / macro / inline-snippet body prints
the names between sentinels and then assigns, captures and increments them.

Oracle (documented behaviour, docs/tag_reference.md#render, optional_tags.md
"macro and call", experimental_tags.md "snippet"): the body sees its keyword
arguments, its bound variable (+ forloop for `render .. for`) and global data,
nothing else; what it assigns is invisible to the caller; `include` inside a
rendered template raises DisabledTagError.
  * whole output == reference output built from (arguments, bound variable,
    globals) for the body and from the caller's own bindings after the tag;
  * the part of the output produced by the body is identical in both runs.
Real code executed: RenderNode.render_to_output(_async), CallNode/MacroNode,
SnippetNode, RenderContext.copy/extend/get/assign, ReadOnlyChainMap,
BoundTemplate.render_with_context, Node.render/raise_for_disabled, BlockNode.
"""
from liquid import CachingDictLoader, DictLoader, Environment, Mode
from liquid.exceptions import LiquidError
from liquid.extra import SnippetTag

from vf.hx import drive, excluded, finish

PROPERTY = "C15"


def _no_optional_shortcircuit():
    """CrossHair may replace any call of repr() by an unconstrained symbolic string (its `_repr`
    stand-in carries a `post[]: True` contract) and forks on that choice. liquid builds the hint
    of every undefined variable with f"{root!r} is undefined", so each undefined lookup doubled
    the number of paths. Always calling into the real function is the precise choice."""
    import sys
    core = sys.modules.get("crosshair.core")
    if core is None or getattr(core.consider_shortcircuit, "vf_patched", False):
        return
    orig = core.consider_shortcircuit

    def consider_shortcircuit(fn, sig, bound, subconditions, allow_interpretation):
        if allow_interpretation:
            return None
        return orig(fn, sig, bound, subconditions, allow_interpretation)
    consider_shortcircuit.vf_patched = True
    core.consider_shortcircuit = consider_shortcircuit


def _init_on_type():
    """CrossHair replaces every `Cls(*args)` in traced code by __new__ followed by
    `obj.__init__(*args)`, looking __init__ up on the INSTANCE. StrictUndefined.__getattribute__
    rejects every attribute outside its allow-list (before `msg` exists: AttributeError), so no
    strict undefined could be constructed under tracing. Python itself calls type(obj).__init__."""
    import sys
    enf = sys.modules.get("crosshair.enforce")
    if enf is None or getattr(enf.manual_constructor, "vf_patched", False):
        return
    from liquid.undefined import Undefined as undefined_base
    with_enforcement = enf.WithEnforcement
    orig = enf.manual_constructor

    def manual_constructor(typ):
        if not issubclass(typ, undefined_base):
            return orig(typ)

        def manually_construct(*a, **kw):
            obj = with_enforcement(typ.__new__)(typ, *a, **kw)
            with_enforcement(typ.__init__)(obj, *a, **kw)
            return obj
        return manually_construct
    manual_constructor.vf_patched = True
    enf.manual_constructor = manual_constructor


_no_optional_shortcircuit()
_init_on_type()

NAMES = ("x", "y", "a", "p", "q", "c", "w")
READ = "<P:{{ x }}|{{ y }}|{{ a }}|{{ p }}|{{ q }}|{{ c }}|{{ w }}|{{ forloop.index }}|{{ tablerowloop.index }}{{ forloop.parentloop.index }}{{ forloop.parentloop.length }}{{ forloop.parentloop.parentloop.index }}{{ tablerowloop.col }}{% for j_ in (1..1) %}{{ forloop.parentloop.index }}{{ forloop.parentloop.length }}{{ forloop.parentloop.first }}{% endfor %}>"
# (forloop.parentloop.*, tablerowloop.col of the CALLER must never be visible, neither directly nor as the parent of a loop
# of the body's own: they always print nothing)
# the body assigns / captures / increments every name it has read
WRITE_ALL = ("{% assign x = 'X' %}{% capture y %}Y{% endcapture %}{% assign a = 'A' %}{% assign p = 'B' %}"
             "{% assign q = 'C' %}{% assign w = 'D' %}{% assign c = 'E' %}"
             "{% capture u_ %}{% increment c %}{% increment x %}{% endcapture %}")
# body used under `render .. for`: the scope is shared by the iterations of one tag (as in the
# reference implementation), so only x and y are assigned and iterations >= 2 get a don't-care
WRITE_XY = "{% assign x = 'X' %}{% capture y %}Y{% endcapture %}"
BODY = READ + WRITE_ALL
BODY_F = READ + WRITE_XY
POST = "#{{ x }}|{{ y }}|{{ a }}|{{ p }}|{{ q }}|{{ c }}|{{ w }}"

PARTIALS = {
    "p": BODY,
    "q": "<Q:{{ x }}>",
    # include in various positions inside a rendered template
    "i_plain": "{% include 'q' %}",
    "i_if": "{% if true %}{% include 'q' %}{% endif %}",
    "i_for": "{% for k in (1..2) %}{% include 'q' %}{% endfor %}",
    "i_capture": "{% capture z %}{% include 'q' %}{% endcapture %}{{ z }}",
    "i_with": "{% with z: 1 %}{% include 'q' %}{% endwith %}",
    "i_liquid": "{% liquid\n include 'q'\n %}",
    "i_case": "{% case 1 %}{% when 1 %}{% include 'q' %}{% endcase %}",
    "i_unless": "{% unless false %}{% include 'q' %}{% endunless %}",
    "i_tablerow": "{% tablerow k in (1..1) %}{% include 'q' %}{% endtablerow %}",
    "i_nested": "{% render 'i_plain' %}",
    "i_macro": "{% macro mm %}{% include 'q' %}{% endmacro %}{% call mm %}",
    "i_snippet": "{% snippet ss %}{% include 'q' %}{% endsnippet %}{% render ss %}",
    "i_block": "{% block bb %}{% include 'q' %}{% endblock %}",
    "base": "[{% block bb %}{% endblock %}]",
    "i_extends": "{% extends 'base' %}{% block bb %}{% include 'q' %}{% endblock %}",
    "i_after": "ok{% assign k = 1 %}{% include 'q' %}",
    # nested callers: the caller of 'p' is itself a rendered template / macro
    "outer_plain": "{% render 'p' %}" + POST,
    "outer_arg": "{% render 'p', a: e %}" + POST,
    "outer_call": "{% macro m a %}" + BODY + "{% endmacro %}{% call m e %}" + POST,
    # stateful tags
    "st": ("<S:{% cycle 1, 2, 3 %}|{% ifchanged %}z{% endifchanged %}|"
           "{% for i in zs limit: 1 offset: continue %}{{ i }}{% endfor %}{% for i in zs offset: continue %}{{ i }}{% endfor %}>"),
}
PARTIALS_F = dict(PARTIALS)
PARTIALS_F["p"] = BODY_F

# caching loaders, filled at import: a plain DictLoader re-parses the partial on every render tag
ENV = Environment(extra=True, loader=CachingDictLoader(PARTIALS, auto_reload=False))
ENV_F = Environment(extra=True, loader=CachingDictLoader(PARTIALS_F, auto_reload=False))
ENV_LAX = Environment(extra=True, loader=CachingDictLoader(PARTIALS, auto_reload=False), tolerance=Mode.LAX)
for _e in (ENV, ENV_F, ENV_LAX):
    _e.add_tag(SnippetTag)  # experimental tag, not part of extra=True
    for _n in PARTIALS:
        _e.get_template(_n)

DEFS = "{% macro m a %}" + BODY + "{% endmacro %}{% snippet s %}" + BODY + "{% endsnippet %}"
DEFS_F = "{% snippet s %}" + BODY_F + "{% endsnippet %}"

# ---- caller bindings (selector b) ---------------------------------------------
# (prefix, open, close, html-open, html-close)
BIND = {
    0: ("", "", "", "", ""),
    1: ("".join("{%% assign %s = v %%}" % n for n in NAMES), "", "", "", ""),
    2: ("".join("{%% capture %s %%}{{ v }}{%% endcapture %%}" % n for n in NAMES), "", "", "", ""),
    3: ("", "{% for x in vs %}{% for a in vs %}{% for p in vs %}", "{% endfor %}{% endfor %}{% endfor %}", "", ""),
    4: ("", "{% tablerow x in vs %}", "{% endtablerow %}", '<tr class="row1">\n<td class="col1">', "</td></tr>\n"),
    5: ("{% capture u_ %}{% for k in ks %}{% increment x %}{% increment c %}{% endfor %}{% endcapture %}", "", "", "", ""),
    6: ("", "{% with x: v, a: v, p: v, w: v %}", "{% endwith %}", "", ""),
}
NB = len(BIND)


def caller_val(b, name, v, has_g, gv):
    """What the caller sees for `name` inside its binding scope ('' when undefined)."""
    bound = False
    if b == 1 or b == 2:
        bound = True
    elif b == 3:
        bound = name in ("x", "a", "p")
    elif b == 4:
        bound = name == "x"
    elif b == 6:
        bound = name in ("x", "a", "p", "w")
    if bound:
        return v
    if has_g:
        return gv[name]
    if b == 5 and name in ("x", "c"):
        return 1 if v < 5 else 2  # counters are searched after globals
    return ""


# ---- tag forms (one condition each) ---------------------------------------------
# name -> (fragment, uses ENV_F, kind)
FORMS = {
    "render_plain": ("{% render 'p' %}", False),
    "render_arg": ("{% render 'p', a: e %}", False),
    "render_arg_local": ("{% render 'p', a: x, w: y %}", False),
    "render_with": ("{% render 'p' with e %}", False),
    "render_with_as": ("{% render 'p' with e as q, a: e2 %}", False),
    "render_with_local": ("{% render 'p' with x as q %}", False),
    "render_with_list": ("{% render 'p' with es as q %}", False),
    "render_for": ("{% render 'p' for es %}", True),
    "render_for_as": ("{% render 'p' for es as q, a: e %}", True),
    "render_for_scalar": ("{% render 'p' for e %}", False),
    "call_pos": ("{% call m e %}", False),
    "call_kw": ("{% call m a: e %}", False),
    "call_local": ("{% call m x %}", False),
    "snippet_arg": ("{% render s, a: e %}", False),
    "snippet_with": ("{% render s with e as q %}", False),
    "snippet_for": ("{% render s for es as q %}", True),
}
LOCAL_ARGS = ("render_arg_local", "render_with_local", "call_local")
LOOPS = ("render_for", "render_for_as", "snippet_for")

T = {}
for _f, (_frag, _isf) in FORMS.items():
    for _b, (_pre, _open, _close, _ho, _hc) in BIND.items():
        _env = ENV_F if _isf else ENV
        _defs = DEFS_F if _isf else DEFS
        T[(_f, _b)] = _env.from_string(_defs + _pre + _open + _frag + POST + _close)


def s(v):
    return v if isinstance(v, str) else str(v)


def bindings(form, b, v, has_g, gv, e, n):
    """Per execution of the body: the names bound by the tag (arguments, bound variable, forloop)."""
    if form == "render_plain":
        return [{}]
    if form in ("render_arg", "call_pos", "call_kw", "snippet_arg"):
        return [{"a": e}]
    if form == "render_arg_local":
        return [{"a": caller_val(b, "x", v, has_g, gv), "w": caller_val(b, "y", v, has_g, gv)}]
    if form == "call_local":
        return [{"a": caller_val(b, "x", v, has_g, gv)}]
    if form in ("render_with", "render_for_scalar"):
        return [{"p": e}]
    if form == "render_with_as":
        return [{"q": e, "a": e + 1}]
    if form == "snippet_with":
        return [{"q": e}]
    if form == "render_with_local":
        return [{"q": caller_val(b, "x", v, has_g, gv)}]
    if form == "render_with_list":
        return [{"q": "".join(s(e + k) for k in range(n))}]  # a list is output as its joined items
    if form == "render_for":
        return [{"p": e + k, "forloop": k + 1} for k in range(n)]
    if form == "render_for_as":
        return [{"q": e + k, "a": e, "forloop": k + 1} for k in range(n)]
    if form == "snippet_for":
        return [{"q": e + k, "forloop": k + 1} for k in range(n)]
    raise RuntimeError(form)


def seg(bd, has_g, gv, shared_xy):
    out = "<P:"
    for name in NAMES:
        if shared_xy and name == "x":
            val = "X"
        elif shared_xy and name == "y":
            val = "Y"
        elif name in bd:
            val = bd[name]
        elif has_g:
            val = gv[name]
        else:
            val = ""
        out += s(val) + "|"
    out += s(bd.get("forloop", "")) + "|>"
    return out


def expected(form, b, v, has_g, g, e, n):
    """(accepted outputs, body part) of the reference."""
    gv = {}
    for i in range(len(NAMES)):
        gv[NAMES[i]] = g + i
    bds = bindings(form, b, v, has_g, gv, e, n)
    ho, hc = BIND[b][3], BIND[b][4]
    post = "#" + "|".join(s(caller_val(b, name, v, has_g, gv)) for name in NAMES)
    fresh = "".join(seg(bd, has_g, gv, False) for bd in bds)
    shared = "".join(seg(bds[k], has_g, gv, k > 0) for k in range(len(bds)))
    return [ho + fresh + post + hc, ho + shared + post + hc]


def data(b, v, has_g, g, e, n):
    d = {"v": v, "vs": [v], "e": e, "e2": e + 1, "es": [e + k for k in range(n)]}
    if b == 5:
        d["ks"] = [0] if v < 5 else [0, 0]
    if has_g:
        for i in range(len(NAMES)):
            d[NAMES[i]] = g + i
    return d


def render(t, d, use_async=False):
    try:
        if use_async:
            return drive(t.render_async(**d))
        return t.render(**d)
    except LiquidError as err:
        return "ERR:" + type(err).__name__


def check(form, b, has_g, v1, v2, g, e, n, use_async=False):
    if b < 0 or b >= NB:
        return True
    t = None
    for k in range(NB):  # selector compared first, then a concrete key
        if b == k:
            t = T[(form, k)]
            b = k
    out1 = render(t, data(b, v1, has_g, g, e, n), use_async)
    out2 = render(t, data(b, v2, has_g, g, e, n), use_async)
    exp1 = expected(form, b, v1, has_g, g, e, n)
    exp2 = expected(form, b, v2, has_g, g, e, n)
    ok = (out1 == exp1[0] or out1 == exp1[1]) and (out2 == exp2[0] or out2 == exp2[1])
    if ok and form not in LOCAL_ARGS:
        # non-interference proper: the body's part of the output is the same in both runs
        ok = out1.partition("#")[0] == out2.partition("#")[0]
    return ok


def detail(form, b, has_g, v1, v2, g, e, n, use_async=False):
    t = T[(form, b)]
    return {"tag": FORMS[form][0], "binding": BIND[b][0] + BIND[b][1],
            "run1": render(t, data(b, v1, has_g, g, e, n), use_async), "expected1": expected(form, b, v1, has_g, g, e, n)[0],
            "run2": render(t, data(b, v2, has_g, g, e, n), use_async), "expected2": expected(form, b, v2, has_g, g, e, n)[0]}


DETAIL = {}
CONDITIONS = []


def _mk(form, use_async):
    name = "c15_" + form + ("_async" if use_async else "")
    if form in LOOPS or form == "render_with_list":
        def f(b: int, has_g: bool, v1: int, v2: int, g: int, e: int, n: int) -> bool:
            """
            pre: 0 <= b <= 6 and 0 <= n <= 2
            pre: 0 <= v1 <= 9 and 0 <= v2 <= 9 and 0 <= g <= 3 and 0 <= e <= 8
            post: _
            """
            if excluded(name, locals()):
                return True
            return finish(check(form, b, has_g, v1, v2, g, e, n, use_async))

        def d(b, has_g, v1, v2, g, e, n):
            return detail(form, b, has_g, v1, v2, g, e, n, use_async)
    else:
        def f(b: int, has_g: bool, v1: int, v2: int, g: int, e: int) -> bool:
            """
            pre: 0 <= b <= 6
            pre: 0 <= v1 <= 9 and 0 <= v2 <= 9 and 0 <= g <= 3 and 0 <= e <= 8
            post: _
            """
            if excluded(name, locals()):
                return True
            return finish(check(form, b, has_g, v1, v2, g, e, 0, use_async))

        def d(b, has_g, v1, v2, g, e):
            return detail(form, b, has_g, v1, v2, g, e, 0, use_async)
    f.__name__ = f.__qualname__ = name
    DETAIL[name] = d
    return f


for _f in FORMS:
    globals()["c15_" + _f] = _mk(_f, False)
    CONDITIONS.append({"fn": "c15_" + _f, "quick": 60 if _f in LOOPS or _f == "render_with_list" else 40, "thorough": 150})
    globals()["c15_" + _f + "_async"] = _mk(_f, True)
    CONDITIONS.append({"fn": "c15_" + _f + "_async", "quick": None, "thorough": 150})


# ---- string-valued caller locals, arguments and globals --------------------------------
T_STR = {
    "render": ENV.from_string("{% assign x = v %}{% capture y %}{{ v }}{% endcapture %}{% for a in vs %}{% render 'p', w: e %}#{{ x }}|{{ y }}|{{ a }}{% endfor %}"),
    "call": ENV.from_string("{% macro m w %}" + BODY + "{% endmacro %}{% assign x = v %}{% capture y %}{{ v }}{% endcapture %}{% for a in vs %}{% call m e %}#{{ x }}|{{ y }}|{{ a }}{% endfor %}"),
}


def str_check(kind, v1, v2, g, e):
    t = T_STR[kind]
    out1 = render(t, {"v": v1, "vs": [v1], "e": e, "x": g, "a": g})
    out2 = render(t, {"v": v2, "vs": [v2], "e": e, "x": g, "a": g})
    body = "<P:" + str(g) + "||" + str(g) + "||||" + str(e) + "||>"
    return out1 == body + "#" + v1 + "|" + v1 + "|" + v1 and out2 == body + "#" + v2 + "|" + v2 + "|" + v2


def c15_str_render(v1: str, v2: str, g: int, e: int) -> bool:
    """
    pre: len(v1) <= 1 and len(v2) <= 1 and 0 <= g <= 9 and 0 <= e <= 9
    pre: all(ch in "a<" for ch in v1 + v2)
    post: _
    """
    if excluded("c15_str_render", locals()):
        return True
    return finish(str_check("render", v1, v2, g, e))


def c15_str_call(v1: str, v2: str, g: int, e: int) -> bool:
    """
    pre: len(v1) <= 1 and len(v2) <= 1 and 0 <= g <= 9 and 0 <= e <= 9
    pre: all(ch in "a<" for ch in v1 + v2)
    post: _
    """
    if excluded("c15_str_call", locals()):
        return True
    return finish(str_check("call", v1, v2, g, e))


CONDITIONS.append({"fn": "c15_str_render", "quick": 40, "thorough": 120})
CONDITIONS.append({"fn": "c15_str_call", "quick": 40, "thorough": 120})


# ---- stateful tags of the caller (cycle, ifchanged, offset: continue) ----------------------
T_STATE = ENV.from_string("{% for k in ks %}{% cycle 1, 2, 3 %}{% ifchanged %}z{% endifchanged %}{% for i in zs limit: 1 %}{% endfor %}{% endfor %}"
                          "#{% render 'st' %}#{% cycle 1, 2, 3 %}")


def c15_caller_state(n1: int, n2: int, z: int) -> bool:
    """
    pre: 0 <= n1 <= 2 and 0 <= n2 <= 2 and 0 <= z <= 8
    post: _
    """
    # the rendered template starts from fresh cycle / ifchanged / continue state and leaves the caller's alone
    if excluded("c15_caller_state", locals()):
        return True
    zs = [z, z + 1]
    out1 = render(T_STATE, {"ks": list(range(n1)), "zs": zs})
    out2 = render(T_STATE, {"ks": list(range(n2)), "zs": zs})
    body = "<S:1|z|" + str(z) + str(z + 1) + ">"
    ok = True
    for out, n in ((out1, n1), (out2, n2)):
        rest = out.partition("#")[2]
        ok = ok and rest == body + "#" + str(n % 3 + 1)
    return finish(ok)


CONDITIONS.append({"fn": "c15_caller_state", "quick": 40, "thorough": 120})



# ---- a macro parameter the call leaves unbound is undefined inside the body whatever locals the caller has by that name ----
T_UNBOUND = ENV.from_string(
    "{% macro mm p, q, r: 'R' %}[{{ p }}|{{ q }}|{{ r }}]{% endmacro %}{% assign p = a %}{% capture q %}{{ b }}{% endcapture %}{% call mm %}"
    "{% for q in (1..1) %}{% call mm q: 7 %}{% for p in (2..2) %}{% call mm %}{% endfor %}{% endfor %}"
    "{% with p: b, q: a, r: a %}{% call mm %}{% endwith %}{% increment r %}{% call mm p: r %}")


def c15_unbound_parameters(a: int, b: int, has_g: bool, g: int) -> bool:
    """
    pre: 0 <= a <= 9 and 0 <= b <= 9 and 10 <= g <= 19
    post: _
    """
    # with has_g the names p and q also exist as render arguments: a macro body sees render arguments (documented), so an
    # unbound parameter... is still undefined: the parameter shadows them with the undefined value
    if excluded("c15_unbound_parameters", locals()):
        return True
    d = {"a": a, "b": b}
    if has_g:
        d["p"] = g
        d["q"] = g
    out = render(T_UNBOUND, d)
    return finish(out == "[||R][|7|R][||R][||R]0[1||R]")


CONDITIONS.append({"fn": "c15_unbound_parameters", "quick": 30, "thorough": 60})


# ---- no global data at all: the bound variable / forloop must still reach the body ------------
NG_FORMS = ("{% render 'p' with h %}", "{% render 'p' with h as q %}", "{% render 'p' for hs %}", "{% render 'p' for hs as q %}",
            "{% render 'p' for h %}", "{% render s with h as q %}", "{% render s for hs as q %}", "{% render 'p', a: h %}",
            "{% render 'p' with h, a: h %}", "{% call m h %}")
NG_BOUND = ("p", "q", "p", "q", "p", "q", "q", "a", "pa", "a")
T_NG = {}
for _k in range(len(NG_FORMS)):
    for _lit in (1, 2):
        T_NG[(_k, _lit)] = ENV_F.from_string("{% macro m a %}" + BODY_F + "{% endmacro %}" + DEFS_F + "{% assign h = " + str(_lit) + " %}{% assign hs = '"
                                             + str(_lit) + "' | split: ',' %}{% assign x = h %}" + NG_FORMS[_k] + "#{{ x }}|{{ y }}")


def ng_expected(k, lit):
    bound = NG_BOUND[k]
    loop = "for hs" in NG_FORMS[k]
    out = "<P:"
    for name in NAMES:
        out += (str(lit) if name in bound else "") + "|"
    return out + ("1" if loop else "") + "|>#" + str(lit) + "|"


def ng_check(k, lit, lo, hi):
    ok = True
    for kk in range(lo, hi + 1):
        for ll in (1, 2):
            if k == kk and lit == ll:
                ok = render(T_NG[(kk, ll)], {}) == ng_expected(kk, ll) and render(T_NG[(kk, ll)], {}, True) == ng_expected(kk, ll)
    return ok


def c15_no_globals_bound(k: int, lit: int) -> bool:
    """
    pre: 0 <= k <= 6 and 1 <= lit <= 2
    post: _
    """
    # docs/tag_reference.md: `{% assign greetings = .. %}{% render "greeting" with greetings.first %}`, rendered without data
    if excluded("c15_no_globals_bound", locals()):
        return True
    return finish(ng_check(k, lit, 0, 6))


def c15_no_globals_args(k: int, lit: int) -> bool:
    """
    pre: 7 <= k <= 9 and 1 <= lit <= 2
    post: _
    """
    if excluded("c15_no_globals_args", locals()):
        return True
    return finish(ng_check(k, lit, 7, 9))


CONDITIONS.append({"fn": "c15_no_globals_bound", "quick": 40, "thorough": 90, "sel_only": True})
CONDITIONS.append({"fn": "c15_no_globals_args", "quick": 30, "thorough": 60, "sel_only": True})
DETAIL["c15_no_globals_bound"] = DETAIL["c15_no_globals_args"] = lambda k, lit: {"source": "{% assign h = L %}{% assign hs = 'L' | split: ',' %}{% assign x = h %}".replace("L", str(lit)) + NG_FORMS[k] + "#{{ x }}|{{ y }}",
                                           "p": BODY_F, "observed": render(T_NG[(k, lit)], {}), "expected": ng_expected(k, lit)}

# ---- include is disabled inside rendered templates ----------------------------------------
INC = ("i_plain", "i_if", "i_for", "i_capture", "i_with", "i_liquid", "i_case", "i_unless", "i_tablerow",
       "i_nested", "i_macro", "i_snippet", "i_block", "i_after")
T_INC = {}
T_INC_LAX = {}
for _k in range(len(INC)):
    for _j, _frag in enumerate(("{%% render '%s' %%}", "{%% render '%s' for es %%}", "{%% render '%s' with x %%}",
                                "{%% render '%s', x: x %%}")):
        T_INC[(_k, _j)] = ENV.from_string("{% assign x = v %}" + (_frag % INC[_k]))
        T_INC_LAX[(_k, _j)] = ENV_LAX.from_string("{% assign x = v %}" + (_frag % INC[_k]))
T_INC_SNIP = ENV.from_string("{% snippet s %}{% include 'q' %}{% endsnippet %}{% assign x = v %}{% render s %}")
T_INC_EXT = {j: ENV.from_string("{% assign x = v %}" + (frag % "i_extends"))
             for j, frag in enumerate(("{%% render '%s' %%}", "{%% render '%s' for es %%}", "{%% render '%s' with x %%}",
                                       "{%% render '%s', x: x %%}"))}


def c15_include_disabled(k: int, j: int, v: int, x: int) -> bool:
    """
    pre: 0 <= k <= 13 and 0 <= j <= 3 and 0 <= v <= 9 and 0 <= x <= 9
    post: _
    """
    if excluded("c15_include_disabled", locals()):
        return True
    t = None
    tl = None
    for kk in range(len(INC)):
        for jj in range(4):
            if k == kk and j == jj:
                t = T_INC[(kk, jj)]
                tl = T_INC_LAX[(kk, jj)]
    d = {"v": v, "x": x, "es": [1]}
    ok = render(t, d) == "ERR:DisabledTagError"
    ok = ok and render(t, d, True) == "ERR:DisabledTagError"
    # lax mode: the error is swallowed, but the included template is still not rendered
    ok = ok and "<Q:" not in render(tl, d)
    ok = ok and render(T_INC_SNIP, d) == "ERR:DisabledTagError"
    return finish(ok)


def c15_include_disabled_extends(j: int, v: int, x: int) -> bool:
    """
    pre: 0 <= j <= 3 and 0 <= v <= 9 and 0 <= x <= 9
    post: _
    """
    # the rendered template extends a base template and uses include inside the overriding block
    if excluded("c15_include_disabled_extends", locals()):
        return True
    t = None
    for jj in range(4):
        if j == jj:
            t = T_INC_EXT[jj]
    d = {"v": v, "x": x, "es": [1]}
    return finish(render(t, d) == "ERR:DisabledTagError" and render(t, d, True) == "ERR:DisabledTagError")


CONDITIONS.append({"fn": "c15_include_disabled", "quick": 60, "thorough": 200, "sel_only": True})
CONDITIONS.append({"fn": "c15_include_disabled_extends", "quick": 30, "thorough": 60, "sel_only": True})
DETAIL["c15_include_disabled_extends"] = lambda j, v, x: {
    "source": "{% assign x = v %}" + ("{% render 'i_extends' %}", "{% render 'i_extends' for es %}", "{% render 'i_extends' with x %}", "{% render 'i_extends', x: x %}")[j],
    "i_extends": PARTIALS["i_extends"], "base": PARTIALS["base"], "expected": "ERR:DisabledTagError",
    "observed": render(T_INC_EXT[j], {"v": v, "x": x, "es": [1]})}


# ---- nested callers: the caller of the body is itself a rendered template or a macro -----------
# The caller's locals here are the names bound by the OUTER render / call tag (its keyword
# arguments, bound variable, forloop, macro parameters). They are not arguments of the inner
# tag, not its bound variable and not global data.
NEST = {
    "render_render_arg": ("{% render 'outer_plain', x: v, a: v %}", ("x", "a"), {}, None),
    "render_render_with": ("{% render 'outer_plain' with v as x %}", ("x",), {}, None),
    "render_render_for": ("{% render 'outer_plain' for vs as x %}", ("x",), {}, None),
    "render_render_shadow": ("{% render 'outer_arg', a: v, x: v %}", ("x", "a"), {"a": "e"}, None),
    "render_call": ("{% render 'outer_call', x: v, a: v %}", ("x", "a"), {"a": "e"}, None),
    "call_render": ("{% macro o x, w %}{% render 'p' %}" + POST + "{% endmacro %}{% call o v, v %}", ("x", "w"), {}, None),
    "call_render_arg": ("{% macro o x, a %}{% render 'p', a: e %}" + POST + "{% endmacro %}{% call o v, v %}", ("x", "a"), {"a": "e"}, None),
    "snippet_render": ("{% snippet o %}{% render 'p' %}" + POST + "{% endsnippet %}{% render o, x: v, w: v %}", ("x", "w"), {}, None),
}
T_NEST = {k: ENV.from_string(src) for k, (src, _o, _i, _x) in NEST.items()}


def nest_expected(kind, v, has_g, g, e):
    outer = NEST[kind][1]
    inner = NEST[kind][2]
    out = "<P:"
    post = "#"
    for i in range(len(NAMES)):
        name = NAMES[i]
        gval = s(g + i) if has_g else ""
        out += (s(e) if name in inner else gval) + "|"
        post += (s(v) if name in outer else gval) + ("|" if i < len(NAMES) - 1 else "")
    return out + "|>" + post


def nest_check(kind, has_g, v1, v2, g, e):
    t = T_NEST[kind]
    out1 = render(t, data(0, v1, has_g, g, e, 0))
    out2 = render(t, data(0, v2, has_g, g, e, 0))
    ok = out1 == nest_expected(kind, v1, has_g, g, e) and out2 == nest_expected(kind, v2, has_g, g, e)
    return ok and out1.partition("#")[0] == out2.partition("#")[0]


NEST_GROUPS = {
    "render_in_render": ("render_render_arg", "render_render_with", "render_render_for", "render_render_shadow"),
    "macro": ("render_call", "call_render", "call_render_arg"),
    "render_in_snippet": ("snippet_render",),
}


def _mk_nest(group):
    name = "c15_nested_" + group
    kinds = NEST_GROUPS[group]

    def f(k: int, has_g: bool, v1: int, v2: int, g: int, e: int) -> bool:
        """
        pre: 0 <= k <= 3
        pre: 0 <= v1 <= 9 and 0 <= v2 <= 9 and 0 <= g <= 3 and 0 <= e <= 8
        post: _
        """
        if excluded(name, locals()):
            return True
        ok = True
        for kk in range(len(kinds)):
            if k == kk:
                ok = nest_check(kinds[kk], has_g, v1, v2, g, e)
        return finish(ok)

    def d(k, has_g, v1, v2, g, e):
        kind = kinds[k]
        t = T_NEST[kind]
        return {"source": NEST[kind][0], "run1": render(t, data(0, v1, has_g, g, e, 0)), "expected1": nest_expected(kind, v1, has_g, g, e),
                "run2": render(t, data(0, v2, has_g, g, e, 0)), "expected2": nest_expected(kind, v2, has_g, g, e)}
    f.__name__ = f.__qualname__ = name
    DETAIL[name] = d
    return f


for _k in NEST_GROUPS:
    globals()["c15_nested_" + _k] = _mk_nest(_k)
    CONDITIONS.append({"fn": "c15_nested_" + _k, "quick": 30, "thorough": 90})


# ---- render / call issued from inside a {% block %} of a template that extends another ------------------------------
_XP = dict(PARTIALS)
_XP["xbase"] = ("{% assign x = v %}{% capture y %}{{ v }}{% endcapture %}{% for a in vs %}{% block bb %}{% endblock %}{% endfor %}"
                "{% block cc %}{% endblock %}#{{ x }}|{{ y }}")
_XP["xchild"] = ("{% extends 'xbase' %}{% block bb %}{% render 'p', w: e %}{% endblock %}"
                 "{% block cc %}{% macro m w %}" + READ + "{% endmacro %}{% call m e %}{% render 'p' with e as q %}{% endblock %}")
XENV = Environment(extra=True, loader=CachingDictLoader(_XP, auto_reload=False))
XENV.add_tag(SnippetTag)
for _n in _XP:
    XENV.get_template(_n)
XCHILD = XENV.get_template("xchild")


def c15_render_in_block(v1: int, v2: int, e: int, n: int, use_async: bool) -> bool:
    """
    pre: 0 <= v1 <= 9 and 0 <= v2 <= 9 and 0 <= e <= 9 and 0 <= n <= 2
    post: _
    """
    # the caller is a template that extends a base; the render / call tags sit inside overridden blocks, one of
    # them inside a for loop of the base, after the base assigned and captured x and y
    if excluded("c15_render_in_block", locals()):
        return True
    outs = []
    for v in (v1, v2):
        d = {"v": v, "vs": [v + k for k in range(n)], "e": e}
        outs.append(render(XCHILD, d, use_async))
    body = seg({"w": e}, False, {}, False)
    exp_body = body * n + seg({"w": e}, False, {}, False) + seg({"q": e}, False, {}, False)
    ok = True
    for k in range(2):
        v = (v1, v2)[k]
        ok = ok and outs[k] == exp_body + "#%s|%s" % (s(v), s(v))
    return finish(ok)


CONDITIONS.append({"fn": "c15_render_in_block", "quick": 60, "thorough": 200})


ASSUMPTIONS = [
    "caller, partial, macro and snippet sources are the concrete skeletons of harness/c15.py; caller-local values, arguments, bound values and globals are symbolic one-digit ints (CrossHair forks str(int) per digit count), strings <= 1 over {a,b} in c15_str_*",
    "global data = keyword arguments of BoundTemplate.render; the two runs differ only in the data items v / vs / ks, which only the caller reads to bind its locals",
    "names bound by a tag of the calling template (assign, capture, for, tablerow, increment, with, macro parameters, arguments/bound variable/forloop of an enclosing render) are caller locals",
    "`render .. for`: whether iterations of one tag share assigned variables is a don't-care (both accepted)",
]
OUTSIDE = [
    "macro parameter defaults that mention caller locals (documented as evaluated at call time in the caller)",
    "environment / template / front-matter globals (only render keyword arguments are used as globals)",
    "drops and non-int values other than the one-character strings of c15_str_*",
    "render .. for over more than 2 items",
]


def selftest():
    fails = []
    env = Environment(loader=DictLoader({"greeting": "{{ greeting }}!", "p": "{{ a }}{{ x }}"}))
    # docs/tag_reference.md render/with and render/for examples (list given as data)
    if env.from_string("{% render 'greeting' with greetings.first %}").render(greetings=["Hello", "Goodbye"]) != "Hello!":
        fails.append("render with example")
    if env.from_string("{% render 'greeting' for greetings as greeting %}").render(greetings=["Hello", "Goodbye"]) != "Hello!Goodbye!":
        fails.append("render for example")
    # tests/test_render_extra / golden: keyword arguments and globals are visible, assigned variables are not
    if env.from_string("{% assign x = 1 %}{% render 'p', a: 2 %}").render() != "2":
        fails.append("caller assign visible or argument missing")
    if env.from_string("{% render 'p', a: 2 %}").render(x=3) != "23":
        fails.append("global not visible")
    exp = expected("render_arg", 1, 5, True, 10, 7, 0)[0]
    if exp != "<P:10|11|7|13|14|15|16||>#5|5|5|5|5|5|5":
        fails.append("reference render_arg/assign: %r" % exp)
    if render(T[("render_arg", 1)], data(1, 5, True, 10, 7, 0)) != exp:
        fails.append("reference disagrees with real code on render_arg/assign")
    exp = expected("render_for", 4, 5, False, 10, 7, 2)
    if exp[1] != '<tr class="row1">\n<td class="col1"><P:|||7||||1|><P:X|Y||8||||2|>#5||||||</td></tr>\n':
        fails.append("reference render_for/tablerow: %r" % exp[1])
    return fails
