"""C01 Synchronous and asynchronous APIs behave identically.

Relational, no model: the same pre-parsed template / loader / analysis is driven through
the synchronous and the asynchronous API with the same symbolic data and the outcomes
(output string, or exception class) must be equal. Coroutines are driven with send(None).

G1 whole renders of a skeleton family covering every node class and expression form that
   has a hand-written async twin.
G3 context kernels: RenderContext.get vs get_async, get_item vs get_item_async.
G4 loaders (dict, choice, caching dict, file system, caching file system) and static analysis.
"""
import os
import shutil
import tempfile
from typing import Union

import liquid.builtin.loaders.file_system_loader as FS
from liquid import (CachingChoiceLoader, CachingDictLoader, CachingFileSystemLoader, ChoiceLoader, DictLoader, Environment,
                    FileSystemLoader)
from liquid.context import RenderContext
from liquid.exceptions import LiquidError

from vf.hx import cbool, cint, drive, excluded, finish, untraced

PROPERTY = "C01"
V = Union[None, bool, int, str]

PARTIALS = {
    "p": "<{{ v }}|{{ p }}|{{ x }}>",
    "sub/q.liquid": "<{{ q }}|{{ v }}>",
    "loop": "{% for j in ys %}{{ j }}{{ forloop.index }}{% endfor %}",
    "brk": "{% if v == x %}{% break %}{% endif %}[{{ v }}]",
    "base": "A{% block one %}1{{ x }}{% endblock %}B{% block two %}2{% block three %}3{{ y }}{% endblock %}{% endblock %}C",
    "mid": "{% extends 'base' %}{% block one %}m{{ block.super }}{% endblock %}",
    "err": "{{ x | plus: 1 }}{% if y > 1 %}z{% endif %}",
    "snip": "{{ a }}-{{ b }}",
}


class Env(Environment):
    ternary_expressions = True
    logical_not_operator = True
    logical_parentheses = True


ENV = Env(extra=True, loader=CachingDictLoader(PARTIALS, auto_reload=False))
from liquid.extra.tags import SnippetTag  # noqa: E402
ENV.add_tag(SnippetTag)
for _p in PARTIALS:
    ENV.get_template(_p)

SKEL = {
    # output / paths / filters
    "out_plain": "{{ x }}|{{ y }}|{{ nothing }}",
    "out_bracket_root": "{{ ['x'] }}|{{ [y] }}|{{ d[x] }}|{{ d['k'] }}",
    "out_nested_path": "{{ d[d.k] }}|{{ d.a.b }}|{{ xs[x] }}|{{ xs.first }}|{{ xs.last }}|{{ xs.size }}|{{ d.size }}",
    "out_filters": "{{ x | default: y }}|{{ x | append: y | upcase }}|{{ xs | join: x }}|{{ xs | first | plus: 1 }}",
    "out_filter_kwargs": "{{ x | default: y, allow_false: true }}|{{ x | default: 'd', allow_false: z }}",
    "out_math": "{{ x | plus: y }}|{{ x | minus: 1 | times: 2 }}|{{ xs | sum }}|{{ xs | map: 'a' | compact | size }}",
    "out_ternary": "{{ x if z else y }}|{{ 'a' if x == y else 'b' | upcase }}|{{ x if y }}|{{ x | upcase if not z else y || append: '!' }}",
    "out_range": "{{ (1..3) | join: ',' }}|{% for i in (x..y) limit: 3 %}{{ i }}{% endfor %}",
    "out_string_ops": "{{ x | size }}|{{ x | slice: 0, 1 }}|{{ x | replace: 'a', y }}|{{ x | split: ',' | size }}",
    "echo_assign": "{% echo x | default: 'n' %}{% assign a = y | default: x %}{{ a }}{% assign b = xs | reverse %}{{ b | join: '' }}",
    # conditionals
    "if_chain": "{% if x %}a{% elsif y %}b{% elsif z %}c{% else %}d{% endif %}",
    "if_ops": "{% if x == y %}e{% endif %}{% if x != y and z %}n{% endif %}{% if x or y and z %}o{% endif %}{% if not x and (y or z) %}p{% endif %}",
    "if_contains": "{% if xs contains x %}c{% endif %}{% if d contains 'k' %}k{% endif %}{% if x contains 'a' %}a{% else %}-{% endif %}",
    "if_lt": "{% if x < y %}lt{% elsif x >= y %}ge{% endif %}",
    "if_all_ops": "{% if x <= y %}le{% endif %}{% if x > y %}gt{% endif %}{% if x != y %}ne{% endif %}{% if x <> y %}lg{% endif %}{% if y >= x %}ge{% endif %}{% if y < x %}lt{% endif %}{% if xs <= xs %}L{% endif %}{% if d >= d %}D{% endif %}{{ 'a' if x <= y else 'b' }}{{ 'a' if y >= nothing else 'b' }}",
    "if_empty_blank": "{% if x == empty %}e{% endif %}{% if x == blank %}b{% endif %}{% if xs == empty %}E{% endif %}{% if x == nil %}n{% endif %}",
    "unless_chain": "{% unless x %}a{% elsif y %}b{% else %}c{% endunless %}",
    "case_when": "{% case x %}{% when 1 %}one{% when y, 'a' %}y-or-a{% when z or 2 %}z2{% else %}other{% endcase %}",
    "case_no_else": "{% case x %}{% when y %}hit{% endcase %}|{% case xs.size %}{% when 0 %}zero{% when 1 %}one{% else %}many{% endcase %}",
    # loops
    "for_basic": "{% for i in xs %}{{ i }}{{ forloop.index }}{{ forloop.last }}{% else %}E{% endfor %}",
    "for_args": "{% for i in xs limit: x offset: y reversed %}{{ i }}{% else %}E{% endfor %}",
    "for_continue": "{% for i in xs limit: 1 %}{{ i }}{% endfor %}|{% for i in xs offset: continue %}{{ i }}{% endfor %}",
    "for_break": "{% for i in xs %}{% if i == x %}{% break %}{% endif %}{% if i == y %}{% continue %}{% endif %}{{ i }}{% endfor %}",
    "for_nested": "{% for i in xs %}{% for j in xs %}{{ forloop.parentloop.index0 }}{{ j }}{% endfor %}{% endfor %}",
    "for_hash_string": "{% for kv in d %}{{ kv[0] }}={{ kv[1] }};{% endfor %}{% for c in x %}[{{ c }}]{% endfor %}",
    "tablerow_cols": "{% tablerow i in xs cols: 2 %}{{ i }}{{ tablerowloop.col }}{% endtablerow %}",
    "tablerow_args": "{% tablerow i in xs cols: x limit: 2 offset: y %}{{ i }}{{ tablerowloop.col_last }}{% endtablerow %}",
    "tablerow_break": "{% tablerow i in xs %}{% if i == x %}{% break %}{% endif %}{{ i }}{% endtablerow %}",
    "tablerow_cols_break": "{% tablerow i in xs cols: 2 %}{{ i }}{% if i == x %}{% break %}{% endif %}{% if i == y %}{% continue %}{% endif %}{{ tablerowloop.col_last }}{% endtablerow %}|{% tablerow i in xs cols: 1 limit: 3 %}{% if i == y %}{% break %}{% endif %}{% endtablerow %}",
    # stateful tags
    "capture": "{% capture c %}{{ x }}-{{ y }}{% endcapture %}[{{ c }}]{{ c | size }}",
    "cycle": "{% for i in xs %}{% cycle x, y, 'c' %}{% cycle 'g': 1, 2 %}{% cycle z: 'p', 'q' %}{% endfor %}",
    "counters": "{% increment n %}{% increment n %}{% decrement m %}{{ n }}{{ m }}{% increment x %}",
    "ifchanged": "{% for i in xs %}{% ifchanged %}{{ x }}{% endifchanged %}{% ifchanged %}{{ i }}{% endifchanged %}{% endfor %}",
    "liquid_tag": "{% liquid assign a = x | default: y\n if a\n echo a\n else\n echo 'none'\n endif\n for i in xs\n echo i\n endfor %}",
    "comments_raw": "{% comment %}{{ x }}{% endcomment %}{% # inline %}{% raw %}{{ x }}{% endraw %}{{ y }}",
    # partials
    "include_plain": "{% assign v = x %}{% include 'p' %}{% include 'p', v: y %}",
    "include_with_for": "{% include 'p' with x %}{% include 'p' with y as v %}{% include 'p' for xs %}{% include 'p' for xs as v %}",
    "include_dir_name": "{% include 'sub/q.liquid' with x %}{% include 'sub/q.liquid' with x as v %}",
    "include_dynamic": "{% assign name = 'p' %}{% include name, v: x %}{% include missing %}",
    "include_break": "{% for v in xs %}{% include 'brk' %}{% endfor %}",
    "render_break": "{% for v in xs %}{% render 'brk', v: v, x: x %}|{% endfor %}done{% tablerow v in xs cols: 2 %}{% render 'brk', v: v, x: y %}{% endtablerow %}"
                    "{% macro m v %}{% if v == x %}{% continue %}{% endif %}({{ v }}){% endmacro %}{% for v in xs %}{% call m v %}{% endfor %}",
    "render_plain": "{% assign v = x %}{% render 'p' %}{% render 'p', v: y, p: x %}",
    "render_with_for": "{% render 'p' with x %}{% render 'p' with y as v %}{% render 'p' for xs %}{% render 'p' for xs as v %}",
    "render_dir_name": "{% render 'sub/q.liquid' with x %}{% render 'sub/q.liquid' for xs as v %}",
    "render_loop_partial": "{% render 'loop', ys: xs %}{% for i in xs %}{% render 'loop', ys: xs %}{% endfor %}",
    "render_missing": "a{% render 'nope' %}b",
    # a bound variable, an alias, a keyword argument and a caller variable sharing one name; arguments that mention each other
    "include_name_clash": "{% include 'p' with x, x: y %}{% include 'p' with x as v, x: y %}{% include 'p' for xs, xs: y %}{% include 'p' for xs as v, v: y %}{% include 'p' with v, v: x, p: v %}{% include 'p', v: x, p: v, x: p %}",
    "render_name_clash": "{% render 'p' with x, x: y %}{% render 'p' with x as v, x: y %}{% render 'p' for xs, xs: y %}{% render 'p' for xs as v, v: y %}{% render 'p' with y as v, v: x, p: v %}{% render 'p', v: x, p: v, x: p %}",
    "with_macro_name_clash": "{% with x: y, y: x %}{{ x }}{{ y }}{% endwith %}{% macro m x, y: x %}{{ x }}/{{ y }}{% endmacro %}{% call m y, y: x %}{% call m x: y %}",
    "render_error_inside": "{% render 'err', x: x, y: y %}",
    # extra tags
    "extends_chain": "{% extends 'mid' %}{% block three %}t{{ x }}{{ block.super }}{% endblock %}",
    "extends_base_direct": "{% extends 'base' %}{% block two %}T{{ y }}{% endblock %}ignored{{ x }}",
    "block_standalone": "{% block solo %}s{{ x }}{% endblock %}{% block req required %}{% endblock %}",
    "macro_call": "{% macro m a, b: y %}{{ a }}/{{ b }}/{{ args | join: ',' }}/{{ kwargs.k }}{% endmacro %}{% call m x %}{% call m x, 1, 2, k: y %}{% call nomacro %}",
    "with_tag": "{% with a: x, b: y %}{{ a }}{{ b }}{% with a: z %}{{ a }}{% endwith %}{% endwith %}{{ a }}",
    "snippet": "{% snippet s %}{{ a }}-{{ b }}{% endsnippet %}{% render s, a: x, b: y %}{% render s with x as a %}",
    "translate": "{% translate greeting: x, count: y %}Hello %(greeting)s{% plural %}Hellos %(greeting)s{% endtranslate %}{{ 'm %(v)s' | t: v: x }}",
    "gettext_filters": "{{ 'a' | gettext }}|{{ 'a' | ngettext: 'b', x }}|{{ 'c' | pgettext: 'ctx' }}|{{ 'a' | npgettext: 'ctx', 'b', y }}",
}
T = {}
for _k in list(SKEL):
    try:
        T[_k] = ENV.from_string(SKEL[_k])
    except LiquidError:
        del SKEL[_k]


def data(x, y, z, n):
    return {"x": x, "y": y, "z": z, "xs": list(range(n)), "d": {"k": "a", "a": {"b": y}, "size": n}}


def sync_async(t, d):
    try:
        a = ("ok", t.render(**d))
    except Exception as e:
        a = ("err", type(e).__name__)
    try:
        b = ("ok", drive(t.render_async(**d)))
    except Exception as e:
        b = ("err", type(e).__name__)
    return a, b


W = Union[None, bool, int]


def _mk_render(kind):
    def f(x: W, y: W, z: bool, n: int) -> bool:
        """
        pre: 0 <= n <= 3
        pre: not isinstance(x, int) or -1 <= x <= 3
        pre: not isinstance(y, int) or -1 <= y <= 3
        post: _
        """
        if excluded("c01_render_" + kind, locals()):
            return True
        a, b = sync_async(T[kind], data(x, y, z, n))
        return finish(a == b)
    f.__name__ = f.__qualname__ = "c01_render_" + kind
    return f


def _mk_render_str(kind):
    def f(x: str, y: Union[None, int, str], z: bool, n: int) -> bool:
        """
        pre: 0 <= n <= 2
        pre: len(x) <= 1
        pre: not isinstance(y, str) or len(y) <= 1
        pre: not isinstance(y, int) or 0 <= y <= 2
        post: _
        """
        if excluded("c01_renderstr_" + kind, locals()):
            return True
        a, b = sync_async(T[kind], data(x, y, z, n))
        return finish(a == b)
    f.__name__ = f.__qualname__ = "c01_renderstr_" + kind
    return f


CONDITIONS = []
_QUICK = {"out_bracket_root", "out_nested_path", "out_filters", "out_ternary", "if_chain", "if_ops", "unless_chain", "case_when", "for_args",
          "for_continue", "for_break", "tablerow_args", "tablerow_cols_break", "capture", "cycle", "ifchanged", "liquid_tag", "include_with_for", "include_dir_name",
          "include_break", "render_break", "render_with_for", "render_dir_name", "render_missing", "extends_chain", "macro_call", "with_tag", "snippet",
          "include_name_clash", "render_name_clash", "with_macro_name_clash", "translate", "counters", "block_standalone", "render_error_inside", "if_lt", "if_all_ops", "if_contains", "out_range", "gettext_filters"}
_QUICK_STR = {"out_bracket_root", "out_filters", "out_string_ops", "if_contains", "if_empty_blank", "case_when", "for_hash_string", "include_with_for",
              "render_with_for", "translate", "capture", "out_ternary"}
for _k in SKEL:
    globals()["c01_render_" + _k] = _mk_render(_k)
    CONDITIONS.append({"fn": "c01_render_" + _k, "quick": 60 if _k in _QUICK else None, "thorough": 240})
    globals()["c01_renderstr_" + _k] = _mk_render_str(_k)
    CONDITIONS.append({"fn": "c01_renderstr_" + _k, "quick": 60 if _k in _QUICK_STR else None, "thorough": 240})


# ---- G3 context kernels -----------------------------------------------------------------------------
ROOT_T = ENV.from_string("")


def container(kind, n):
    if kind == 0:
        return list(range(n))
    if kind == 1:
        return {"k": 1, "size": 7, "first": "f"}
    if kind == 2:
        return "abc"
    if kind == 3:
        return n
    if kind == 4:
        return None
    if kind == 5:
        return range(n)
    if kind == 6:
        return {}
    return (1, 2)


class SEnv(Environment):
    string_sequences = True
    string_first_and_last = True


SENV = SEnv()
SROOT = SENV.from_string("")


def keysel(i, n):
    if i == 0:
        return "size"
    if i == 1:
        return "first"
    if i == 2:
        return "last"
    if i == 3:
        return "k"
    if i == 4:
        return "nope"
    if i == 5:
        return 0
    if i == 6:
        return -1
    if i == 7:
        return n
    return ""


def rootsel(i):
    if i == 0:
        return "a"
    if i == 1:
        return ""
    if i == 2:
        return "zz"
    if i == 3:
        return 0
    if i == 4:
        return 7
    if i == 5:
        return None
    if i == 6:
        return "now"
    return True


def _get_case(kind, ri, ki, kj, n, flags, nseg):
    t = SROOT if flags else ROOT_T
    g = {"a": container(kind, n), "": 5}
    path = [rootsel(ri)] + [keysel(ki, n), keysel(kj, n)][:nseg]
    r = []
    for use_async in (False, True):
        ctx = RenderContext(t, globals=g)
        try:
            if use_async:
                v = drive(ctx.get_async(list(path), token=None))
            else:
                v = ctx.get(list(path), token=None)
            r.append(("ok", type(v).__name__, str(v) if not type(v).__name__.startswith("date") else "D"))
        except Exception as e:
            r.append(("err", type(e).__name__))
    return r[0] == r[1]


def _mk_get(kind):
    def f(ri: int, ki: int, kj: int, n: int, flags: bool, nseg: int) -> bool:
        """
        pre: 0 <= ri <= 7 and 0 <= n <= 2 and 0 <= nseg <= 2 and 0 <= ki <= 8 and 0 <= kj <= 3
        post: _
        """
        # path root and segments come from pools (the undefined hint calls repr() on them, which enumerates
        # code points for symbolic text); get_item below keeps a symbolic key
        if excluded("c01_get_k%d" % kind, locals()):
            return True
        args = (cint(ri, 0, 7), cint(ki, 0, 8), cint(kj, 0, 3), cint(n, 0, 2), cbool(flags), cint(nseg, 0, 2))
        return finish(untraced(lambda: _get_case(kind, *args)))
    f.__name__ = f.__qualname__ = "c01_get_k%d" % kind
    return f


def _mk_get_item(kind):
    def f(key: Union[str, int], n: int, flags: bool) -> bool:
        """
        pre: 0 <= n <= 3
        pre: not isinstance(key, str) or len(key) <= 5
        post: _
        """
        if excluded("c01_get_item_k%d" % kind, locals()):
            return True
        t = SROOT if flags else ROOT_T
        obj = container(kind, n)
        r = []
        for use_async in (False, True):
            ctx = RenderContext(t)
            try:
                if use_async:
                    v = drive(ctx.get_item_async(obj, key))
                else:
                    v = ctx.get_item(obj, key)
                r.append(("ok", type(v).__name__, str(v)))
            except Exception as e:
                r.append(("err", type(e).__name__))
        return finish(r[0] == r[1])
    f.__name__ = f.__qualname__ = "c01_get_item_k%d" % kind
    return f


for _kind in range(8):
    globals()["c01_get_k%d" % _kind] = _mk_get(_kind)
    CONDITIONS.append({"fn": "c01_get_k%d" % _kind, "quick": 90, "thorough": 300, "sel_only": True})
    globals()["c01_get_item_k%d" % _kind] = _mk_get_item(_kind)
    CONDITIONS.append({"fn": "c01_get_item_k%d" % _kind, "quick": 60, "thorough": 200})


# ---- G4 loaders and analysis ------------------------------------------------------------------------------
WORK = os.path.join(os.path.dirname(os.path.dirname(os.path.abspath(__file__))), ".work")
os.makedirs(WORK, exist_ok=True)
FSROOT = tempfile.mkdtemp(prefix="c01-", dir=WORK)
import atexit  # noqa: E402
atexit.register(shutil.rmtree, FSROOT, True)
for _name, _src in (("a.liquid", "A{{ g }}"), ("sub/b.liquid", "B{{ g }}{% render 'a.liquid' %}"), ("c.txt", "C")):
    _pth = os.path.join(FSROOT, _name)
    os.makedirs(os.path.dirname(_pth), exist_ok=True)
    with open(_pth, "w") as _fd:
        _fd.write(_src)


class InlineLoop:
    def run_in_executor(self, ex, fn, *args):
        async def _r():
            return fn(*args)
        return _r()


class _Asyncio:
    def get_running_loop(self):
        return InlineLoop()


def lname(i):
    if i == 0:
        return "a.liquid"
    if i == 1:
        return "sub/b.liquid"
    if i == 2:
        return "a"
    if i == 3:
        return "c.txt"
    if i == 4:
        return "sub/b"
    return "missing"


DSRC = {"a.liquid": "A{{ g }}", "sub/b.liquid": "B{{ g }}{% render 'a.liquid' %}", "a": "bare", "c.txt": "C"}


def mk_loader(kind, nskey):
    key = "ns" if nskey else ""
    if kind == 0:
        return DictLoader(dict(DSRC))
    if kind == 1:
        return ChoiceLoader([DictLoader({"a": "first"}), DictLoader(dict(DSRC))])
    if kind == 2:
        return CachingDictLoader(dict(DSRC), namespace_key=key)
    if kind == 3:
        return CachingChoiceLoader([DictLoader({"a": "first"}), DictLoader(dict(DSRC))], namespace_key=key)
    if kind == 4:
        return FileSystemLoader(FSROOT, ext=".liquid")
    return CachingFileSystemLoader(FSROOT, ext=".liquid", namespace_key=key)


def snap(thunk):
    try:
        t = thunk()
    except Exception as e:
        return ("err", type(e).__name__)
    try:
        out = t.render()
    except Exception as e:
        out = "ERR:" + type(e).__name__
    try:
        outa = drive(t.render_async())
    except Exception as e:
        outa = "ERR:" + type(e).__name__
    return ("ok", t.name, str(t.path), str(t), out, outa, sorted(t.globals.items()))


def c01_loaders(kind: int, i: int, nskey: bool, ns: bool, g: Union[None, int], second: bool) -> bool:
    """
    pre: 0 <= kind <= 5 and 0 <= i <= 5
    pre: g is None or 0 <= g <= 9
    post: _
    """
    # get_template vs get_template_async on two fresh, identically configured loaders; optionally a
    # second request of the other kind first (warm cache)
    if excluded("c01_loaders", locals()):
        return True
    gc = None if g is None else cint(g, 0, 9)
    args = (cint(kind, 0, 5), cint(i, 0, 5), cbool(nskey), cbool(ns), gc, cbool(second))
    return finish(untraced(lambda: _loader_case(*args)))


def _loader_case(kind, i, nskey, ns, g, second):
    saved = FS.asyncio
    FS.asyncio = _Asyncio()
    try:
        kw = {"ns": "n1"} if ns else {}
        gl = None if g is None else {"g": g}
        e1 = Environment(loader=mk_loader(kind, nskey))
        e2 = Environment(loader=mk_loader(kind, nskey))
        if second:
            snap(lambda: drive(e1.get_template_async(lname(i), **kw)))
            snap(lambda: e2.get_template(lname(i), **kw))
        a = snap(lambda: e1.get_template(lname(i), globals=gl, **kw))
        b = snap(lambda: drive(e2.get_template_async(lname(i), globals=gl, **kw)))
        # once more on the warm caches (sync after sync, async after async: the up-to-date checks of both kinds run)
        a2 = snap(lambda: e1.get_template(lname(i), **kw))
        b2 = snap(lambda: drive(e2.get_template_async(lname(i), **kw)))
    finally:
        FS.asyncio = saved
    return a == b and a2 == b2


CONDITIONS.append({"fn": "c01_loaders", "quick": 100, "thorough": 400, "sel_only": True})

AN_SKEL = ["include_plain", "include_with_for", "render_with_for", "render_loop_partial", "extends_chain", "macro_call", "with_tag",
           "for_nested", "out_filters", "capture", "liquid_tag", "case_when", "snippet"]


def amap(m):
    out = []
    for k in sorted(m):
        out.append((k, [(str(s.template_name), s.start) if hasattr(s, "start") else str(s) for s in m[k]]))
    return out


def an_snapshot(a):
    out = []
    for name in ("variables", "globals", "locals", "filters", "tags"):
        m = getattr(a, name, None)
        if m is None:
            continue
        out.append((name, sorted((str(k), len(v)) for k, v in m.items())))
    return out


HELPERS = ("variables", "variable_paths", "variable_segments", "global_variables", "global_variable_paths",
           "global_variable_segments", "filter_names", "tag_names")


def _an_deep(a):
    return an_deep(a)


def _analyze_case(i, partials):
    name = AN_SKEL[i]
    if name not in T:
        return True
    t = T[name]
    ok = True
    try:
        a = ("ok", an_snapshot(t.analyze(include_partials=partials)), _an_deep(t.analyze(include_partials=partials)))
    except Exception as e:
        a = ("err", type(e).__name__)
    try:
        b = ("ok", an_snapshot(drive(t.analyze_async(include_partials=partials))), _an_deep(drive(t.analyze_async(include_partials=partials))))
    except Exception as e:
        b = ("err", type(e).__name__)
    ok = ok and a == b
    for hname in HELPERS:
        try:
            ra = ("ok", repr(getattr(t, hname)(include_partials=partials)))
        except Exception as e:
            ra = ("err", type(e).__name__)
        try:
            rb = ("ok", repr(drive(getattr(t, hname + "_async")(include_partials=partials))))
        except Exception as e:
            rb = ("err", type(e).__name__)
        ok = ok and ra == rb
    # Environment.render / analyze_tags convenience twins
    src = SKEL[name]
    try:
        ra = ("ok", ENV.render(src, x=1, y="a", z=True, xs=[0, 1], d={"k": "a"}))
    except Exception as e:
        ra = ("err", type(e).__name__)
    try:
        rb = ("ok", drive(ENV.render_async(src, x=1, y="a", z=True, xs=[0, 1], d={"k": "a"})))
    except Exception as e:
        rb = ("err", type(e).__name__)
    ok = ok and ra == rb
    for pname in ("p", "mid", "loop"):
        try:
            ta = ENV.analyze_tags(pname)
            ra = ("ok", repr((ta.all_tags, ta.tags, ta.unclosed_tags, ta.unexpected_tags, ta.unknown_tags)))
        except Exception as e:
            ra = ("err", type(e).__name__)
        try:
            tb = drive(ENV.analyze_tags_async(pname))
            rb = ("ok", repr((tb.all_tags, tb.tags, tb.unclosed_tags, tb.unexpected_tags, tb.unknown_tags)))
        except Exception as e:
            rb = ("err", type(e).__name__)
        ok = ok and ra == rb
    return ok


def c01_analyze(i: int, partials: bool) -> bool:
    """
    pre: 0 <= i <= 12
    post: _
    """
    # analyze(), every convenience accessor, Environment.render and Environment.analyze_tags: sync vs async
    if excluded("c01_analyze", locals()):
        return True
    i, partials = cint(i, 0, 12), cbool(partials)
    return finish(untraced(lambda: _analyze_case(i, partials)))


CONDITIONS.append({"fn": "c01_analyze", "quick": 60, "thorough": 120, "sel_only": True})

# ---- the shared corpus: render == render_async on every member -------------------------------------------------------
from harness import corpus as _corpus  # noqa: E402

from liquid import Mode as _Mode, StrictUndefined as _StrictUndefined  # noqa: E402


class _LimEnv(Env):
    loop_iteration_limit = 6
    output_stream_limit = 40
    local_namespace_limit = 400


class _LimEnv2(Env):
    loop_iteration_limit = 3
    output_stream_limit = 8
    local_namespace_limit = 150


class _LimEnv3(Env):
    output_stream_limit = 3


# the same member under several configurations: the two render paths must agree in each of them
_CENVS = {"strict": _corpus.make_env(Env), "lax": _corpus.make_env(Env, tolerance=_Mode.LAX), "warn": _corpus.make_env(Env, tolerance=_Mode.WARN),
          "autoescape": _corpus.make_env(Env, autoescape=True), "strict undefined": _corpus.make_env(Env, undefined=_StrictUndefined),
          "tight limits": _corpus.make_env(_LimEnv), "tighter limits": _corpus.make_env(_LimEnv2), "output limit 3": _corpus.make_env(_LimEnv3)}


def _corpus_check(w2, w1, leaf, d):
    import warnings
    bad = {}
    for label, env in _CENVS.items():
        t = _corpus.template(env, w2, w1, leaf)
        if t is None:
            continue
        with warnings.catch_warnings():
            warnings.simplefilter("ignore")
            a = _corpus.outcome(lambda: t.render(**_corpus.data(d)))
            b = _corpus.outcome(lambda: drive(t.render_async(**_corpus.data(d))))
        if a != b:
            bad[label] = {"render": a, "render_async": b}
    return bad or None


def an_deep(a):
    """Everything an analysis reports, spans included (template name and index of every occurrence)."""
    out = []
    for name in ("variables", "globals", "locals"):
        out.append((name, sorted((str(k), sorted((str(v), str(v.span.template_name), v.span.index) for v in vs)) for k, vs in getattr(a, name).items())))
    for name in ("filters", "tags"):
        out.append((name, sorted((str(k), sorted((str(sp.template_name), sp.index) for sp in sps)) for k, sps in getattr(a, name).items())))
    return out


def _corpus_analyze_check(w2, w1, leaf, d):
    if d != 0:
        return None
    t = _corpus.template(_CENVS["strict"], w2, w1, leaf)
    if t is None:
        return None
    bad = {}
    for partials in (True, False):
        a = _corpus.outcome(lambda: an_deep(t.analyze(include_partials=partials)))
        b = _corpus.outcome(lambda: an_deep(drive(t.analyze_async(include_partials=partials))))
        if a != b:
            diff = [(x, y) for x, y in zip(a[1], b[1]) if x != y] if a[0] == b[0] == "ok" else (a, b)
            bad["include_partials=%s" % partials] = {"analyze vs analyze_async (differing maps)": repr(diff)[:600]}
    return bad or None


c01_corpus_analyze, _det_a = _corpus.mk_condition("c01_corpus_analyze", _corpus_analyze_check)
c01_corpus, _det = _corpus.mk_condition("c01_corpus", _corpus_check)
DETAIL = globals().get("DETAIL", {})
DETAIL["c01_corpus"] = _det
DETAIL["c01_corpus_analyze"] = _det_a
CONDITIONS.append({"fn": "c01_corpus_analyze", "quick": 120, "thorough": 240, "sel_only": True, "bounds": _corpus.BOUNDS + "; analyze() vs analyze_async(), with and without partials, every reported span compared"})
CONDITIONS.append({"fn": "c01_corpus", "quick": 240, "thorough": 300, "sel_only": True, "bounds": _corpus.BOUNDS + "; strict, lax, warn, autoescape, StrictUndefined and three tight-limit environments"})

ASSUMPTIONS = [
    "template sources are the concrete skeletons of harness/c01.py; x, y in None|bool|int(-1..3)|str<=1, z bool, list length 0..3 are symbolic",
    "coroutines are driven with send(None): none of the exercised awaits may suspend (asyncio's executor in the file system loader is replaced by an inline loop)",
    "any exception class is compared (a non-Liquid error on both sides is C02's business)",
]
OUTSIDE = ["custom drops with __getitem_async__ / async filters", "third-party async loaders", "templates outside the skeleton family"]


def selftest():
    fails = []
    if T["include_dir_name"].render(x=1, y=2, z=True, xs=[], d={}) != "<1|>" + "<|1>":
        fails.append("include_dir_name baseline: %r" % T["include_dir_name"].render(x=1, y=2, z=True, xs=[], d={}))
    return fails
