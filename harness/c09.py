"""C09 Parsing and rendering always terminate within the stack (bounded claim).

T1 cut-off arithmetic: recursion families (self-include, self-render, mutual pairs, a macro
   calling itself, snippet recursion, extends cycles of length 1..3) with the recursive call at
   block depth d (selector 0..3) and a SYMBOLIC context_depth_limit L in 0..6: the render ends
   with ContextDepthError / TemplateInheritanceError (a LiquidError), and the number of times the
   partial body was entered (counted by a probe tag) is at most L + 2.
T2 frame budget (direct z3): the Python frame depth at the innermost probe is MEASURED on the
   real code for levels in {1,2,3} x block depth in {0,1,2}, fitted to f = a + b*d + levels*(c + e*d)
   (two more measured points must match), and z3 is asked whether d <= block_nesting_limit and
   levels <= context_depth_limit + 2 admit f > recursion limit. A satisfying d is replayed on the
   real code: the render must still end in a LiquidError, not RecursionError.
   This is a measured cost model of the code, labelled so.
T3 parsing terminates: a selector family of 23 x 24 x 10 unterminated / unbalanced sources x 3 modes is parsed,
   rendered and tag-analysed untraced under a 5 s alarm (sel_only): a hang is a replayable failure.
"""
import sys

from liquid import CachingDictLoader, Environment
from liquid.ast import Node
from liquid.exceptions import ContextDepthError, LiquidError, TemplateInheritanceError
from liquid.tag import Tag
from liquid.token import TOKEN_TAG

from vf.hx import excluded, finish, untraced

PROPERTY = "C09"
COUNT = [0]
DEPTHS = []


class ProbeNode(Node):
    def render_to_output(self, context, buffer):
        COUNT[0] += 1
        d = 0
        f = sys._getframe()
        while f is not None:
            d += 1
            f = f.f_back
        DEPTHS.append(d)
        return 0


class ProbeTag(Tag):
    name = "probe"
    block = False
    node_class = ProbeNode

    def parse(self, stream):
        stream.expect(TOKEN_TAG, value="probe")
        return ProbeNode(stream.current)


class Env(Environment):
    context_depth_limit = 30


def wrap(body, d):
    for _ in range(d):
        body = "{% if true %}" + body + "{% endif %}"
    return body


FAMILIES = ("self_include", "self_render", "mutual_include", "mutual_render", "include_render", "macro", "for_include", "capture_render")


def sources(d):
    return {
        "self_include": {"main": "{% include 'a' %}", "a": "{% probe %}" + wrap("{% include 'a' %}", d)},
        "self_render": {"main": "{% render 'a' %}", "a": "{% probe %}" + wrap("{% render 'a' %}", d)},
        "mutual_include": {"main": "{% include 'a' %}", "a": "{% probe %}" + wrap("{% include 'b' %}", d), "b": wrap("{% include 'a' %}", d)},
        "mutual_render": {"main": "{% render 'a' %}", "a": "{% probe %}" + wrap("{% render 'b' %}", d), "b": wrap("{% render 'a' %}", d)},
        "include_render": {"main": "{% include 'a' %}", "a": "{% probe %}" + wrap("{% render 'b' %}", d), "b": wrap("{% render 'c' %}", 0), "c": "x"},
        "macro": {"main": "{% macro m %}{% probe %}" + wrap("{% call m %}", d) + "{% endmacro %}{% call m %}"},
        "for_include": {"main": "{% include 'a' %}", "a": "{% probe %}{% for i in (1..1) %}" + wrap("{% include 'a' %}", d) + "{% endfor %}"},
        "capture_render": {"main": "{% render 'a' %}", "a": "{% probe %}{% capture c %}" + wrap("{% render 'a' %}", d) + "{% endcapture %}{{ c }}"},
    }


ENVS = {}
MAIN = {}
for _d in range(4):
    _src = sources(_d)
    for _fam in FAMILIES:
        _e = Env(extra=True, loader=CachingDictLoader(dict(_src[_fam]), auto_reload=False))
        _e.add_tag(ProbeTag)
        for _n in _src[_fam]:
            _e.get_template(_n)
        ENVS[(_fam, _d)] = _e
        MAIN[(_fam, _d)] = _e.get_template("main")


def _mk_cutoff(fam):
    def f(L: int, d: int, use_async: bool) -> bool:
        """
        pre: 0 <= L <= 6 and 0 <= d <= 3
        post: _
        """
        if excluded("c09_cutoff_" + fam, locals()):
            return True
        dd = 0 if d == 0 else 1 if d == 1 else 2 if d == 2 else 3
        env = ENVS[(fam, dd)]
        env.context_depth_limit = L
        COUNT[0] = 0
        del DEPTHS[:]
        try:
            try:
                if use_async:
                    from vf.hx import drive
                    drive(MAIN[(fam, dd)].render_async())
                else:
                    MAIN[(fam, dd)].render()
                r = "completed"
            except ContextDepthError:
                r = "depth"
            except LiquidError as e:
                r = "liquid:" + type(e).__name__
            except RecursionError:
                r = "RecursionError"
        finally:
            env.context_depth_limit = 30
        if fam == "macro":
            # a macro body is rendered in an isolated context that has no macros: the nested call is undefined, no recursion
            return finish(r in ("completed", "depth") and COUNT[0] <= 2)
        if fam == "include_render":
            # not recursive: must complete (or be cut off when the limit is below the real depth) and never loop
            return finish(r in ("completed", "depth") and COUNT[0] <= 1)
        return finish(r == "depth" and COUNT[0] <= L + 2)
    f.__name__ = f.__qualname__ = "c09_cutoff_" + fam
    return f


CONDITIONS = []
for _fam in FAMILIES:
    globals()["c09_cutoff_" + _fam] = _mk_cutoff(_fam)
    CONDITIONS.append({"fn": "c09_cutoff_" + _fam, "quick": 60, "thorough": 200})

# ---- extends cycles ------------------------------------------------------------------------------------------
# a chain of `tail` templates (p0 is rendered) leading into a cycle of n templates: tail 0 renders a member of the
# cycle, tail >= 1 renders a template the cycle never comes back to. Selector-only, rendered untraced under an
# alarm: a walk that never ends is an ordinary, replayable failure instead of an exhausted time budget.
import signal as _signal  # noqa: E402

CYC = {}
for _n in (1, 2, 3):
    _src = {}
    for _i in range(_n):
        _src["t%d" % _i] = "{%% extends 't%d' %%}{%% block b %%}%d{%% endblock %%}{%% block c%d %%}{%% endblock %%}" % ((_i + 1) % _n, _i, _i)
    _src["p1"] = "{% extends 't0' %}{% block b %}P1{% endblock %}"
    _src["p2"] = "{% extends 'p1' %}{% block b %}P2{{ block.super }}{% endblock %}"
    _e = Env(extra=True, loader=CachingDictLoader(_src, auto_reload=False))
    CYC[_n] = _e


class _CycHang(BaseException):
    pass


def _cyc_alarm(signum, frame):
    raise _CycHang()


def cycle_outcome(n, tail, L, use_async, from_string):
    env = CYC[n]
    old_limit = env.context_depth_limit
    env.context_depth_limit = L
    old = _signal.signal(_signal.SIGALRM, _cyc_alarm)
    _signal.alarm(5)
    try:
        try:
            name = ("t0", "p1", "p2")[tail]
            t = env.from_string("{% extends '" + name + "' %}{% block b %}S{% endblock %}") if from_string else env.get_template(name)
            if use_async:
                from vf.hx import drive
                drive(t.render_async())
            else:
                t.render()
            return "completed"
        except TemplateInheritanceError:
            return "inheritance"
        except LiquidError as e:
            return "liquid:" + type(e).__name__
        except RecursionError:
            return "RecursionError"
        except _CycHang:
            return "hang"
    finally:
        _signal.alarm(0)
        _signal.signal(_signal.SIGALRM, old)
        env.context_depth_limit = old_limit


def c09_extends_cycle(n: int, tail: int, L: int, use_async: bool, from_string: bool) -> bool:
    """
    pre: 1 <= n <= 3 and 0 <= tail <= 2 and 0 <= L <= 6
    post: _
    """
    if excluded("c09_extends_cycle", locals()):
        return True
    from vf.hx import cbool, cint, untraced
    n, tail, L, use_async, from_string = cint(n, 1, 3), cint(tail, 0, 2), cint(L, 0, 6), cbool(use_async), cbool(from_string)
    r = untraced(lambda: cycle_outcome(n, tail, L, use_async, from_string))
    return finish(r == "inheritance" or r == "liquid:ContextDepthError")


CONDITIONS.append({"fn": "c09_extends_cycle", "quick": 60, "thorough": 120, "sel_only": True})


# ---- T2 frame budget -------------------------------------------------------------------------------------------
def measure(fam, d, levels):
    """Frame depth at the probe of recursion level `levels` (1-based) with the recursive call at block depth d."""
    src = sources(d)[fam]
    env = Env(extra=True, loader=CachingDictLoader(dict(src), auto_reload=False))
    env.add_tag(ProbeTag)
    env.context_depth_limit = 1000
    del DEPTHS[:]
    old = sys.getrecursionlimit()
    sys.setrecursionlimit(20000)
    try:
        try:
            env.get_template("main").render()
        except (LiquidError, RecursionError):
            pass
    finally:
        sys.setrecursionlimit(old)
    base = 0
    f = sys._getframe()
    while f is not None:
        base += 1
        f = f.f_back
    if len(DEPTHS) < levels:
        return None
    return DEPTHS[levels - 1] - base


def replay_depth(fam, d):
    """Render the family with the recursive call at block depth d under the default limits."""
    src = sources(d)[fam]
    env = Env(extra=True, loader=CachingDictLoader(dict(src), auto_reload=False))
    env.add_tag(ProbeTag)
    try:
        env.get_template("main").render()
        return "completed"
    except LiquidError as e:
        return "liquid:" + type(e).__name__
    except RecursionError:
        return "RecursionError"


def c09_frame_budget(fi: int) -> bool:
    """
    pre: 0 <= fi <= 5
    post: _
    """
    # The symbolic dimensions (d, levels) live inside the z3 query below; fi only selects the family.
    if excluded("c09_frame_budget", locals()):
        return True
    fams = ("self_include", "self_render", "mutual_include", "mutual_render", "for_include", "capture_render")
    fam = None
    for j in range(len(fams)):
        if fi == j:
            fam = fams[j]
    return finish(untraced(lambda: _budget(fam)))


def _budget(fam):
    import z3
    pts = {}
    for d in (0, 1, 2):
        for lv in (1, 2, 3):
            pts[(d, lv)] = measure(fam, d, lv)
    if any(v is None for v in pts.values()):
        return (False)
    # f = a + b*d + lv*(c + e*d): solve from 4 points, check on the rest
    a, b, c, e = z3.Ints("a b c e")
    s = z3.Solver()
    for (d, lv), v in pts.items():
        s.add(a + b * d + lv * (c + e * d) == v)
    if str(s.check()) != "sat":
        return (False)  # not linear: the model does not apply (harness error surfaces as a violation to be looked at)
    m = s.model()
    A, B, C, E = (m[x].as_long() for x in (a, b, c, e))
    for (d, lv) in ((3, 4), (5, 2)):
        v = measure(fam, d, lv)
        if v is None or A + B * d + lv * (C + E * d) != v:
            return (False)
    env = Env()
    D, LV = z3.Ints("D LV")
    q = z3.Solver()
    q.add(0 <= D, D <= env.block_nesting_limit - 2, 1 <= LV, LV <= env.context_depth_limit + 2)
    q.add(A + B * D + LV * (C + E * D) > sys.getrecursionlimit() - 60)
    r = q.check()
    if str(r) == "unsat":
        return (True)
    if str(r) != "sat":
        return (True)
    # pick the smallest d that exceeds the budget and replay it on the real code
    opt = z3.Optimize()
    opt.add(0 <= D, D <= env.block_nesting_limit - 2, 1 <= LV, LV <= env.context_depth_limit + 2)
    opt.add(A + B * D + LV * (C + E * D) > sys.getrecursionlimit() - 60)
    opt.minimize(D)
    opt.check()
    dmin = opt.model()[D].as_long()
    ok = True
    for d in (dmin, env.block_nesting_limit - 2):
        res = replay_depth(fam, d)
        ok = ok and res.startswith("liquid:")
    return (ok)


CONDITIONS.append({"fn": "c09_frame_budget", "quick": 90, "thorough": 200, "sel_only": True})

# ---- T3 parsing terminates promptly (program-only dimension: selector family; each member is parsed and rendered
# untraced under a wall-clock alarm, so a hang becomes an ordinary, replayable failure) -----------------------------
import signal  # noqa: E402

from liquid import Mode  # noqa: E402

from vf.hx import cint  # noqa: E402

_OPEN = ["{% if x %}", "{% unless x %}", "{% for i in xs %}", "{% tablerow i in xs %}", "{% case x %}", "{% case x %}{% when 1 %}a",
         "{% case x %}{% when 1 %}a{% else %}b", "{% capture c %}", "{% comment %}", "{% raw %}", "{% doc %}", "{% liquid if x", "{% liquid case x\nwhen 1",
         "{% macro m %}", "{% with a: 1 %}", "{% block b %}", "{% translate %}", "{% snippet s %}", "{% ifchanged %}", "{% if x %}{% else %}",
         "{% if x %}{% elsif y %}", "{% for i in xs %}{% else %}", "{% case x %}{% if y %}z{% endif %}"]
_TAIL = ["", "text", "{% endif %}", "{% endfor %}", "{% endcase %}", "{{ x", "{% else %}", "{% when 2 %}", "{% break %}", "{% end"]
_PENV = {}


def _penv(mode):
    if mode not in _PENV:
        e = Environment(extra=True, tolerance=(Mode.STRICT, Mode.WARN, Mode.LAX)[mode])
        try:
            from liquid.extra.tags import SnippetTag
            e.add_tag(SnippetTag)
        except Exception:
            pass
        _PENV[mode] = e
    return _PENV[mode]


class _Hang(BaseException):
    pass


def _alarm(signum, frame):
    raise _Hang()


def _terminates(src, mode):
    """True when parsing (and rendering, and tag analysis) of src ends within 5 s, whatever the outcome."""
    import warnings
    env = _penv(mode)
    old = signal.signal(signal.SIGALRM, _alarm)
    signal.alarm(5)
    try:
        with warnings.catch_warnings():
            warnings.simplefilter("ignore")
            try:
                t = env.from_string(src)
                t.render(x=1, y=2, xs=[1, 2])
            except _Hang:
                return False
            except Exception:
                pass
            try:
                env.analyze_tags_from_string(src)
            except _Hang:
                return False
            except Exception:
                pass
        return True
    finally:
        signal.alarm(0)
        signal.signal(signal.SIGALRM, old)


def _mk_terminates(mode):
    nm = "c09_parse_terminates_" + ("strict", "warn", "lax")[mode]

    def f(o1: int, o2: int, t: int) -> bool:
        """
        pre: 0 <= o1 <= 22 and -1 <= o2 <= 22 and 0 <= t <= 9
        post: _
        """
        # sources made of one or two unterminated / unbalanced openings and a tail
        if excluded(nm, locals()):
            return True
        o1, o2, t = cint(o1, 0, 22), cint(o2, -1, 22), cint(t, 0, 9)
        src = _OPEN[o1] + ("" if o2 < 0 else _OPEN[o2]) + _TAIL[t]
        return finish(untraced(lambda: _terminates(src, mode)))
    f.__name__ = f.__qualname__ = nm
    return nm, f


for _m in (0, 1, 2):
    _nm, _f = _mk_terminates(_m)
    globals()[_nm] = _f
    CONDITIONS.append({"fn": _nm, "quick": 150, "thorough": 400, "sel_only": True})

# ---- T4 deeply nested expressions: the expression parsers recurse per nesting level and are not covered by
# block_nesting_limit; stack exhaustion while parsing must surface as a LiquidError, never as RecursionError ----------
import sys  # noqa: E402

from liquid.exceptions import LiquidError  # noqa: E402

_DEPTHS = (50, 400, 700, 900, 1000, 1200, 1500, 3000)
_NFAM = 11


class _XEnv(Environment):
    logical_not_operator = True
    logical_parentheses = True
    ternary_expressions = True


_XENVS = {}


def _xenv(mode):
    if mode not in _XENVS:
        _XENVS[mode] = _XEnv(extra=True, tolerance=(Mode.STRICT, Mode.WARN, Mode.LAX)[mode])
    return _XENVS[mode]


def deep_source(fam, d):
    if fam == 0:
        return "{{ " + "a[" * d + "a" + "]" * d + " }}"
    if fam == 1:
        return "{{ " + "a[" * d + "a }}"
    if fam == 2:
        return "{{ " + "(1.." * d + "2" + ")" * d + " }}"
    if fam == 3:
        return "{% for i in " + "(1.." * d + "2 %}{% endfor %}"
    if fam == 4:
        return "{% if " + "(" * d + "a" + ")" * d + " %}x{% endif %}"
    if fam == 5:
        return "{% if " + "not " * d + "a %}x{% endif %}"
    if fam == 6:
        return "{{ x | append: " + "a[" * d + "a" + "]" * d + " }}"
    if fam == 7:
        return "{% assign r = " + "(1.." * d + "2" + ")" * d + " %}"
    if fam == 8:
        return "{% if " + "a and " * d + "a %}x{% endif %}"
    if fam == 9:
        return "{% if " + "a or not " * d + "a %}x{% endif %}"
    if fam == 10:
        return "{% render 'p', v: " + "a[" * d + "a" + "]" * d + " %}"
    return "{% case " + "a[" * d + "a" + "]" * d + " %}{% when 1 %}{% endcase %}"


def deep_outcome(fam, d, mode):
    """'ok' / 'liquid' / the name of any other exception class that reached the caller of from_string or render.
    Run with the interpreter's default recursion limit (CrossHair raises it for its own frames)."""
    import warnings
    env = _xenv(mode)
    src = deep_source(fam, d)
    old_limit = sys.getrecursionlimit()
    old = signal.signal(signal.SIGALRM, _alarm)
    signal.alarm(10)
    try:
        sys.setrecursionlimit(1000 + len(__import__("inspect").stack(0)))
        with warnings.catch_warnings():
            warnings.simplefilter("ignore")
            try:
                t = env.from_string(src)
                t.render(a=1, x="s")
            except LiquidError:
                return "liquid"
            except _Hang:
                return "hang"
            except Exception as e:
                return type(e).__name__
        return "ok"
    finally:
        signal.alarm(0)
        signal.signal(signal.SIGALRM, old)
        sys.setrecursionlimit(old_limit)


def c09_deep_expression(fam: int, di: int, mode: int) -> bool:
    """
    pre: 0 <= fam <= 11 and 0 <= di <= 7 and 0 <= mode <= 2
    post: _
    """
    if excluded("c09_deep_expression", locals()):
        return True
    fam, di, mode = cint(fam, 0, _NFAM), cint(di, 0, 7), cint(mode, 0, 2)
    return finish(untraced(lambda: deep_outcome(fam, _DEPTHS[di], mode) in ("ok", "liquid")))


DETAIL = globals().get("DETAIL", {})
DETAIL["c09_extends_cycle"] = lambda n, tail, L, use_async, from_string: {"cycle_length": n, "templates_before_the_cycle": tail, "context_depth_limit": L,
                                                                         "outcome": cycle_outcome(n, tail, L, use_async, from_string)}
DETAIL["c09_deep_expression"] = lambda fam, di, mode: {"source_head": deep_source(fam, 3), "depth": _DEPTHS[di], "mode": mode,
                                                      "outcome": deep_outcome(fam, _DEPTHS[di], mode)}
CONDITIONS.append({"fn": "c09_deep_expression", "quick": 60, "thorough": 120, "sel_only": True})

# ---- T6 recursion through partials in LAX / WARN mode: the cut-off error is suppressed there, and the render must still
# finish (not carry on at every level: 2^depth work) --------------------------------------------------------------------
_T6_P = {"a": "x{% render 'a' %}{% render 'a' %}", "b": "x{% include 'b' %}{% include 'b' %}",
         "c": "x{% for i in (1..2) %}{% render 'c' %}{% endfor %}",
         "e": "{% extends 'e2' %}{% block b %}{% include 'e' %}{% include 'e' %}{% endblock %}", "e2": "[{% block b %}{% endblock %}]",
         "t": "{% if true %}{% render 't' %}{% endif %}{% include 't' %}{% render 't' %}",
         "m": "{% macro f %}{% render 'm' %}{% render 'm' %}{% endmacro %}{% call f %}{% call f %}",
         "w": "{% with q: 1 %}{% include 'w' %}{% endwith %}{% capture z %}{% include 'w' %}{% endcapture %}{% include 'w' %}",
         # the bound-variable forms of render / include (a scalar, an array, an alias, keyword arguments)
         "rw": "x{% render 'rw' with v %}{% render 'rw' with nosuch as q %}", "rf": "x{% render 'rf' for v %}{% render 'rf' for xs as q %}{% render 'rf', a: 1 %}",
         "iw": "x{% include 'iw' with v %}{% include 'iw' for xs %}{% include 'iw', a: 1 %}"}
_T6_NAMES = ["a", "b", "c", "e", "t", "m", "w", "rw", "rf", "iw"]
_T6_ENVS = {}


def tolerant_recursion_outcome(ni, mode, use_async):
    import warnings
    if mode not in _T6_ENVS:
        _T6_ENVS[mode] = Env(extra=True, tolerance=(Mode.STRICT, Mode.WARN, Mode.LAX)[mode], loader=CachingDictLoader(dict(_T6_P), auto_reload=False))
    env = _T6_ENVS[mode]
    old = signal.signal(signal.SIGALRM, _alarm)
    signal.alarm(10)
    try:
        with warnings.catch_warnings():
            warnings.simplefilter("ignore")
            try:
                t = env.get_template(_T6_NAMES[ni])
                if use_async:
                    from vf.hx import drive
                    drive(t.render_async(v=1, xs=[1, 2]))
                else:
                    t.render(v=1, xs=[1, 2])
                return "completed"
            except _Hang:
                return "hang"
            except LiquidError as e:
                return "liquid:" + type(e).__name__
            except Exception as e:
                return type(e).__name__
    finally:
        signal.alarm(0)
        signal.signal(signal.SIGALRM, old)


def c09_recursion_tolerant_modes(ni: int, mode: int, use_async: bool) -> bool:
    """
    pre: 0 <= ni <= 9 and 0 <= mode <= 2
    post: _
    """
    if excluded("c09_recursion_tolerant_modes", locals()):
        return True
    from vf.hx import cbool
    ni, mode, use_async = cint(ni, 0, len(_T6_NAMES) - 1), cint(mode, 0, 2), cbool(use_async)
    r = untraced(lambda: tolerant_recursion_outcome(ni, mode, use_async))
    return finish(r == "completed" or r == "liquid:ContextDepthError")


DETAIL["c09_recursion_tolerant_modes"] = lambda ni, mode, use_async: {"partial": _T6_P[_T6_NAMES[ni]], "mode": ("STRICT", "WARN", "LAX")[mode],
                                                                     "outcome within 10 s at the default limits": tolerant_recursion_outcome(ni, mode, use_async)}
CONDITIONS.append({"fn": "c09_recursion_tolerant_modes", "quick": 60, "thorough": 120, "sel_only": True})

# ---- T6b the same families with the recursive tags at block depth d, loaded by a caching or a plain (re-parsing) loader:
# a non-caching loader parses the partial again at every level, so near the end of the Python stack the parser itself
# meets the RecursionError --------------------------------------------------------------------------------------------
_T6B_BODY = {"a3": "x{% render 'P' %}{% render 'P' %}{% render 'P' %}", "b3": "x{% include 'P' %}{% include 'P' %}{% include 'P' %}",
             "c": "x{% for i in (1..2) %}{% render 'P' %}{% endfor %}", "t": "{% if true %}{% render 'P' %}{% endif %}{% include 'P' %}{% render 'P' %}",
             "m": "{% macro f %}{% render 'P' %}{% render 'P' %}{% endmacro %}{% call f %}{% call f %}",
             "w": "{% with q: 1 %}{% include 'P' %}{% endwith %}{% capture z %}{% include 'P' %}{% endcapture %}{% include 'P' %}",
             "rw": "x{% render 'P' with v %}{% render 'P' with nosuch as q %}{% render 'P' for v %}", "iw": "x{% include 'P' with v %}{% include 'P' for xs %}{% include 'P', a: 1 %}"}
_T6B_NAMES = sorted(_T6B_BODY)
_T6B_DEPTHS = (0, 6, 12, 18, 24, 28)
_T6B_WRAP = (("{% if true %}", "{% endif %}"), ("{% for q_ in (1..1) %}", "{% endfor %}"), ("{% capture cc %}", "{% endcapture %}{{ cc }}"))
_T6B_ENVS = {}


def block_depth_recursion_sweep(ni, mode, use_async, plain):
    """[(depth, wrapper, outcome)] for every outcome other than completion or the documented cut-off."""
    import warnings
    from liquid import DictLoader
    bad = []
    key = (mode, plain)
    if key not in _T6B_ENVS:
        srcs = {}
        for n in _T6B_NAMES:
            for d in _T6B_DEPTHS:
                for wi, (o, c) in enumerate(_T6B_WRAP):
                    nm = "%s_%d_%d" % (n, d, wi)
                    srcs[nm] = o * d + _T6B_BODY[n].replace("'P'", "'%s'" % nm) + c * d
        cls = DictLoader if plain else CachingDictLoader
        _T6B_ENVS[key] = Env(extra=True, tolerance=(Mode.STRICT, Mode.WARN, Mode.LAX)[mode], loader=cls(srcs))
    env = _T6B_ENVS[key]
    for d in _T6B_DEPTHS:
        for wi in range(len(_T6B_WRAP)):
            nm = "%s_%d_%d" % (_T6B_NAMES[ni], d, wi)
            old = signal.signal(signal.SIGALRM, _alarm)
            signal.alarm(10)
            try:
                with warnings.catch_warnings():
                    warnings.simplefilter("ignore")
                    try:
                        t = env.get_template(nm)
                        if use_async:
                            from vf.hx import drive
                            drive(t.render_async(v=1, xs=[1, 2]))
                        else:
                            t.render(v=1, xs=[1, 2])
                        r = "completed"
                    except _Hang:
                        r = "hang"
                    except LiquidError as e:
                        r = "liquid:" + type(e).__name__
                    except Exception as e:
                        r = type(e).__name__
            finally:
                signal.alarm(0)
                signal.signal(signal.SIGALRM, old)
            if r not in ("completed", "liquid:ContextDepthError"):
                bad.append({"block depth": d, "wrapper": _T6B_WRAP[wi][0], "outcome within 10 s": r})
                if r == "hang":
                    return bad
    return bad


def c09_recursion_block_depth(ni: int, mode: int, use_async: bool, plain: bool) -> bool:
    """
    pre: 0 <= ni <= 7 and 0 <= mode <= 2
    post: _
    """
    if excluded("c09_recursion_block_depth", locals()):
        return True
    from vf.hx import cbool
    ni, mode, use_async, plain = cint(ni, 0, len(_T6B_NAMES) - 1), cint(mode, 0, 2), cbool(use_async), cbool(plain)
    return finish(untraced(lambda: not block_depth_recursion_sweep(ni, mode, use_async, plain)))


DETAIL["c09_recursion_block_depth"] = lambda ni, mode, use_async, plain: {"partial body": _T6B_BODY[_T6B_NAMES[ni]], "mode": ("STRICT", "WARN", "LAX")[mode], "async": use_async,
                                                                         "loader": "DictLoader" if plain else "CachingDictLoader", "failing": block_depth_recursion_sweep(ni, mode, use_async, plain)[:3]}
CONDITIONS.append({"fn": "c09_recursion_block_depth", "quick": 120, "thorough": 240, "sel_only": True,
                   "bounds": "8 self-recursive partial bodies x block depths 0,6,..,24,28 x 3 enclosing block kinds x 3 modes x sync/async x caching/plain dict loader; default limits; 10 s alarm"})

# ---- T7 deeply nested blocks under extends (every block is rendered in a block-scoped copy of the context whose globals
# chain onto the enclosing scope): a variable defined outside still resolves promptly at any depth the nesting limit allows
_NB_ENVS = {}


def nested_blocks_outcome(d, override, recursive):
    key = (d, override, recursive)
    if key not in _NB_ENVS:
        inner = "{{ title }}{% include 'page' %}" if recursive else "{{ title }}{{ a.b }}"
        base = "".join("{%% block b%d %%}<" % i for i in range(d)) + inner + "".join(">{% endblock %}" for i in range(d))
        page = "{% extends 'base' %}"
        if override:
            page += "".join("{%% block b%d %%}[{{ block.super }}{{ title }}]{%% endblock %%}" % i for i in range(0, d, 3))
        _NB_ENVS[key] = Env(extra=True, loader=CachingDictLoader({"base": base, "page": page}, auto_reload=False))
    env = _NB_ENVS[key]
    old = signal.signal(signal.SIGALRM, _alarm)
    signal.alarm(10)
    try:
        try:
            out = env.get_template("page").render(title="T", a={"b": "B"})
            return "completed" if ("TB" in out and out.count("<") == d) else "wrong output"
        except _Hang:
            return "hang"
        except LiquidError as e:
            return "liquid:" + type(e).__name__
        except Exception as e:
            return type(e).__name__
    finally:
        signal.alarm(0)
        signal.signal(signal.SIGALRM, old)


def c09_nested_blocks_lookup(di: int, override: bool, recursive: bool) -> bool:
    """
    pre: 0 <= di <= 5
    post: _
    """
    if excluded("c09_nested_blocks_lookup", locals()):
        return True
    from vf.hx import cbool
    di, override, recursive = cint(di, 0, 5), cbool(override), cbool(recursive)
    r = untraced(lambda: nested_blocks_outcome((1, 4, 8, 14, 20, 28)[di], override, recursive))
    return finish(r == "liquid:ContextDepthError" if recursive else r == "completed")


DETAIL["c09_nested_blocks_lookup"] = lambda di, override, recursive: {"nested blocks": (1, 4, 8, 14, 20, 28)[di], "every third overridden with block.super": override,
                                                                    "innermost block includes the page again": recursive,
                                                                    "outcome within 10 s": nested_blocks_outcome((1, 4, 8, 14, 20, 28)[di], override, recursive)}
CONDITIONS.append({"fn": "c09_nested_blocks_lookup", "quick": 60, "thorough": 120, "sel_only": True})

# ---- T5 an opening followed by a long run of filler and no closing delimiter is rejected (or accepted) promptly ----------
_LR_PRE = ["{%", "{{", "{% if", "{#", "{%-", "{% raw %}", "{% comment %}", "{{ x |", "{% liquid", "{{-", "{% doc %}", "{% a b", "{{ a",
           "{% liquid if x" + chr(10), "{% liquid echo", "{% assign x =", "{% for i in", "{{ x | append:", "{% if a ==", "{% include 'a'",
           "{% cycle", "{% translate %}", "{% case x %}{% when", "{{ 'a", "{{ a[", "{{ (1.."]
_LR_FILL = [" ", chr(10), " a", chr(9), ",", " ,", "x:", " |", "-", "%", "}", " -"]
_LR_N = (800, 4000)


class _CEnv(Environment):
    template_comments = True


_LR_ENVS = {}


def long_run_outcome(pi, fi, ni, comments):
    """seconds taken by from_string (5.0 = gave up), whatever it returns or raises"""
    import time
    key = comments
    if key not in _LR_ENVS:
        _LR_ENVS[key] = (_CEnv if comments else Environment)(extra=True)
    src = _LR_PRE[pi] + _LR_FILL[fi] * _LR_N[ni]
    old = signal.signal(signal.SIGALRM, _alarm)
    signal.alarm(5)
    t0 = time.time()
    try:
        try:
            _LR_ENVS[key].from_string(src)
        except _Hang:
            return 5.0
        except Exception:
            pass
        return round(time.time() - t0, 2)
    finally:
        signal.alarm(0)
        signal.signal(signal.SIGALRM, old)


def c09_parse_long_runs(pi: int, fi: int, ni: int, comments: bool) -> bool:
    """
    pre: 0 <= pi <= 25 and 0 <= fi <= 11 and 0 <= ni <= 1
    post: _
    """
    if excluded("c09_parse_long_runs", locals()):
        return True
    from vf.hx import cbool
    pi, fi, ni, comments = cint(pi, 0, 25), cint(fi, 0, 11), cint(ni, 0, 1), cbool(comments)
    return finish(untraced(lambda: long_run_outcome(pi, fi, ni, comments) < 5.0))


DETAIL["c09_parse_long_runs"] = lambda pi, fi, ni, comments: {"source": repr(_LR_PRE[pi]) + " + " + repr(_LR_FILL[fi]) + " * %d" % _LR_N[ni],
                                                             "template_comments": comments, "seconds (5.0 = gave up)": long_run_outcome(pi, fi, ni, comments)}
CONDITIONS.append({"fn": "c09_parse_long_runs", "quick": 90, "thorough": 200, "sel_only": True})

ASSUMPTIONS = [
    "recursion families are the concrete templates of harness/c09.py; the recursive call sits inside d nested {% if %} blocks; context_depth_limit is symbolic in 0..6 (T1)",
    "T2 is a measured cost model: frame depth is measured with sys._getframe at a probe tag for 9 (levels, depth) points, fitted exactly to a + b*d + levels*(c + e*d) and cross-checked on 2 more points; z3 decides whether the default limits admit a depth beyond the interpreter's recursion limit, and the witness is replayed on the real code",
    "T4 runs with sys.setrecursionlimit(1000 + current depth), the interpreter default seen from the caller of from_string",
    "a render that ends in any LiquidError (ContextDepthError, or one raised on stack exhaustion) counts as cut off; RecursionError reaching the caller is the violation",
]
OUTSIDE = ["expression nesting deeper than 3000 levels and nesting shapes other than the 12 families of deep_source (T4)", "termination of parsing for sources outside the generated family of unterminated / unbalanced openings (T3 is solver-steered enumeration)", "'finishes promptly' beyond the 5 s alarm of T3/T5 on this host (sources of <= 48 KB)", "recursion through custom tags or drops", "context_depth_limit above 6 in T1"]


def selftest():
    fails = []
    if len(_T6_NAMES) != 10 or len(_T6B_NAMES) != 8:
        fails.append("recursion family sizes differ from the bounds of c09_recursion_*")
    v1 = measure("self_include", 0, 1)
    v2 = measure("self_include", 0, 2)
    if v1 is None or v2 is None or v2 <= v1:
        fails.append("frame measurement does not grow with recursion level: %r %r" % (v1, v2))
    return fails
