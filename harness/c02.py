"""C02 Only Liquid errors escape parsing and rendering.

F. c02_filter_<name>: `{{ x | name }}`, `{{ x | name: y }}`, `{{ x | name: y, z }}` for every registered
   built-in and extra filter with symbolic x, y, z : None|bool|int|float|str(<=3), and a 'special' selector
   that replaces one slot by a value from a pool (inf, -inf, nan, 10**400, '1e999', 'nan', '%', 'é', 'AA=A',
   '/w==', a list, a dict, a range, a nested list) in STRICT / WARN / LAX mode.
T. c02_tag_<position>: tag argument positions that convert values (for limit/offset, ranges, tablerow cols,
   cycle, include/render for, index paths, comparisons, translate count, ...).
K. conversion kernels called directly (to_int, num_arg, int_arg, decimal_arg, ...).
P. parse side: a selector family of malformed / extreme sources in three modes.
Oracle: the call returns or raises an instance of LiquidError; nothing else.
"""
import math
from typing import Union

from liquid import CachingDictLoader, Environment, Mode
from liquid.exceptions import LiquidError

from vf.hx import cint, excluded, finish, untraced

PROPERTY = "C02"
V = Union[None, bool, int, float, str]

PARTIALS = {"p": "{{ v }}{{ p }}", "q": "{{ q | upcase }}"}
class Env(Environment):
    ternary_expressions = True
    logical_not_operator = True
    logical_parentheses = True


ENVS = {}
for _mode in (Mode.STRICT, Mode.WARN, Mode.LAX):
    _e = Env(extra=True, tolerance=_mode, loader=CachingDictLoader(PARTIALS, auto_reload=False))
    for _p in PARTIALS:
        _e.get_template(_p)
    ENVS[_mode] = _e
ENV = ENVS[Mode.STRICT]
NAMES = sorted(ENV.filters)


def special(i):
    if i == 0:
        return math.inf
    if i == 1:
        return -math.inf
    if i == 2:
        return math.nan
    if i == 3:
        return 10 ** 400
    if i == 4:
        return "1e999"
    if i == 5:
        return "nan"
    if i == 6:
        return "%"
    if i == 7:
        return "é"
    if i == 8:
        return "AA=A"
    if i == 9:
        return "/w=="
    if i == 10:
        return [1, "a", None]
    if i == 11:
        return {"a": 1, "b": [2]}
    if i == 12:
        return range(3)
    if i == 13:
        return [[1, 2], [3]]
    if i == 14:
        return "-0"
    if i == 15:
        return "1_000"
    if i == 16:
        return [{"a": 1}, {"a": None}, 3, "s"]
    if i == 17:
        return "١٢"
    if i == 18:
        return 0.1
    if i == 19:
        return -(2 ** 63) - 1
    if i == 20:
        return {}
    if i == 21:
        return []
    if i == 22:
        return ""
    if i == 23:
        return [[]]
    if i == 24:
        return range(0)
    if i == 25:
        return {"a": {}}
    if i == 26:
        return [None]
    if i == 27:
        return (1, "<b>")
    if i == 28:
        return 10 ** 5000          # beyond sys.get_int_max_str_digits()
    if i == 29:
        return "99999999999999999999"
    if i == 30:
        return chr(0xD800)         # lone surrogate: valid JSON-like text, not encodable as UTF-8
    if i == 31:
        return -1
    if i == 32:
        return "a<![foo[ bar]]>b"  # a marked section html.parser asserts on
    if i == 33:
        return "<![>"
    if i == 34:
        return 10 ** 12            # a timestamp beyond year 9999
    if i == 35:
        return "\u00b2"            # a digit for str.isdigit() that int() rejects
    if i == 36:
        return "1e1000000"         # beyond the decimal context's Emax
    if i == 37:
        return ["9e999999", "9e999999", {"k": "-9e999999"}]   # representable items whose sum overflows
    return "-1E+1000000"


NSPECIAL = 38


def only_liquid(t, data):
    import warnings
    try:
        with warnings.catch_warnings():
            warnings.simplefilter("ignore")
            t.render(**data)
    except LiquidError:
        return True
    except Exception:
        return False
    return True


T1 = {}
T2 = {}
T3 = {}
for _m, _e in ENVS.items():
    for _n in NAMES:
        T1[(_m, _n)] = _e.from_string("{{ x | %s }}" % _n)
        T2[(_m, _n)] = _e.from_string("{{ x | %s: y }}" % _n)
        T3[(_m, _n)] = _e.from_string("{{ x | %s: y, z }}" % _n)


def _mode(i):
    if i == 0:
        return Mode.STRICT
    if i == 1:
        return Mode.WARN
    return Mode.LAX


def _mk_filter(n):
    def f(x: V, y: V, z: V, k: int, slot: int, sp: int, mode: int) -> bool:
        """
        pre: not isinstance(x, str) or len(x) <= 3
        pre: not isinstance(y, str) or len(y) <= 3
        pre: not isinstance(z, str) or len(z) <= 2
        pre: 1 <= k <= 3 and 0 <= slot <= 3 and 0 <= sp <= 38 and sp != 28 and sp != 34 and 0 <= mode <= 2
        post: _
        """
        if excluded("c02_filter_" + n, locals()):
            return True
        m = _mode(mode)
        if slot == 1:
            x = special(sp)
        elif slot == 2:
            y = special(sp)
        elif slot == 3:
            z = special(sp)
        if k == 1:
            return finish(only_liquid(T1[(m, n)], {"x": x}))
        if k == 2:
            return finish(only_liquid(T2[(m, n)], {"x": x, "y": y}))
        return finish(only_liquid(T3[(m, n)], {"x": x, "y": y, "z": z}))
    f.__name__ = f.__qualname__ = "c02_filter_" + n
    return f


CONDITIONS = []
# babel-backed filters and date go through C / locale data: their symbolic dimension is kept, but they are slow
_SLOW = {"currency", "money", "money_with_currency", "money_without_currency", "money_without_trailing_zeros", "datetime", "decimal",
         "unit", "date", "json", "t", "ngettext", "npgettext", "pgettext", "gettext"}
_QUICK_FILTERS = {"base64_decode", "ceil", "compact", "modulo", "floor", "slice", "sum", "truncate", "uniq", "where", "json", "ngettext",
                  "sort_natural", "unit", "datetime", "date"}
for _n in NAMES:
    globals()["c02_filter_" + _n] = _mk_filter(_n)
    CONDITIONS.append({"fn": "c02_filter_" + _n, "quick": 25 if _n in _QUICK_FILTERS else None, "thorough": 150 if _n not in _SLOW else 200,
                       "float": True})

# ---- every registered filter x every special value ------------------------------------------------------------
# The solver picks the filter, the arity and the mode (selectors, 720 paths); on each path the body runs, untraced,
# every combination of the fixed pool of special values in the argument positions.
_SUB = (0, 3, 5, 10, 11, 20, 21, 22)


HUGE = 28   # the int beyond sys.get_int_max_str_digits(): swept by c02_int_beyond_str_digits only (known finding)
_POOL = [i for i in range(NSPECIAL + 1) if i != HUGE]
# 10**12 only as filter input / first tag operand: as a repeat count or indent it asks for a terabyte (MemoryError is
# resource exhaustion, the subject of C06-C08, and must not be provoked on the checking host)
_YPOOL = [i for i in _POOL if i != 34]


def srepr(v):
    try:
        return repr(v)[:60]
    except ValueError:
        return "<int beyond sys.get_int_max_str_digits()>"


def _specials_sweep(n, k, m, pool=None, ypool=None):
    bad = []
    pool = _POOL if pool is None else pool
    ypool = _YPOOL if ypool is None else ypool
    if k == 1:
        for a in pool:
            if not only_liquid(T1[(m, n)], {"x": special(a)}):
                bad.append((a,))
    elif k == 2:
        for a in pool:
            for b in ypool:
                if not only_liquid(T2[(m, n)], {"x": special(a), "y": special(b)}):
                    bad.append((a, b))
    else:
        for a in pool:
            for b in _SUB:
                for c in _SUB:
                    if not only_liquid(T3[(m, n)], {"x": special(a), "y": special(b), "z": special(c)}):
                        bad.append((a, b, c))
    return bad


def _mk_specials(mode):
    def f(fi: int, k: int) -> bool:
        """
        pre: 0 <= fi <= 79 and 1 <= k <= 3
        post: _
        """
        if excluded("c02_filters_specials_m%d" % mode, locals()):
            return True
        fi = cint(fi, 0, len(NAMES) - 1)
        k = cint(k, 1, 3)
        return finish(untraced(lambda: not _specials_sweep(NAMES[fi], k, _mode(mode))))
    f.__name__ = f.__qualname__ = "c02_filters_specials_m%d" % mode
    return f


DETAIL = {}
for _i in range(3):
    globals()["c02_filters_specials_m%d" % _i] = _mk_specials(_i)
    DETAIL["c02_filters_specials_m%d" % _i] = (lambda mode: lambda fi, k: {
        "filter": NAMES[fi], "arity": k, "mode": str(_mode(mode)),
        "escaping": [tuple(srepr(special(j)) for j in t) for t in _specials_sweep(NAMES[fi], k, _mode(mode))[:4]]})(_i)
    CONDITIONS.append({"fn": "c02_filters_specials_m%d" % _i, "quick": 150, "thorough": 300, "sel_only": True})

# ---- tag argument positions ------------------------------------------------------------------------------------
TAGS = {
    "for_limit_offset": "{% for i in xs limit: x offset: y %}{{ i }}{% endfor %}",
    "for_range": "{% for i in (x..y) limit: 3 %}{{ i }}{% endfor %}",
    "range_out": "{{ (x..y) | first }}{% assign r = (1..x) %}{{ r | size }}",
    "tablerow_cols": "{% tablerow i in xs cols: x limit: y %}{{ i }}{% endtablerow %}",
    "tablerow_offset": "{% tablerow i in xs offset: x %}{{ tablerowloop.col }}{% endtablerow %}",
    "cycle_group": "{% cycle x: 'a', y %}{% cycle x: 'a', y %}{% cycle y %}",
    "include_for": "{% include 'p' for x %}{% include 'p' with y as v %}{% include x %}",
    "render_for": "{% render 'p' for x %}{% render 'p' with y as v %}{% render 'p', v: x, p: y %}",
    "index_path": "{{ xs[x] }}{{ d[x] }}{{ d[x][y] }}{{ x[y] }}{{ x.size }}{{ x.first }}{{ x.last }}{{ y.a.b }}",
    "compare": "{% if x < y %}a{% endif %}{% if x >= y %}b{% endif %}{% if x == y %}c{% endif %}{% if x contains y %}d{% endif %}{% if y contains x %}e{% endif %}",
    "case_when": "{% case x %}{% when y %}a{% when 1, 'a' %}b{% else %}c{% endcase %}",
    "translate_count": "{% translate count: x, v: y %}one %(v)s{% plural %}many %(v)s{% endtranslate %}{{ 'a' | t: count: x }}{{ 'a %(v)s' | t: v: y, plural: 'b', count: x }}",
    "assign_capture": "{% assign a = x | plus: y %}{% capture c %}{{ a }}{{ x }}{% endcapture %}{{ c | size }}{% increment x %}{% decrement y %}",
    "ifchanged_echo": "{% ifchanged %}{{ x }}{% endifchanged %}{% echo x | append: y %}{% liquid echo x\n echo y %}",
    "unless_ternary": "{% unless x > y %}a{% endunless %}{{ x if y else 'n' }}{{ x | default: y }}",
    "with_macro": "{% with a: x, b: y %}{{ a }}{{ b }}{% endwith %}{% macro m a, b: x %}{{ a }}{{ b }}{% endmacro %}{% call m y %}{% call m a: y, c: x %}",
    "string_seq": "{% for c in x %}{{ c }}{% endfor %}{{ x | first }}{{ x | last }}{{ x[0] }}{{ x[y] }}",
    "for_hash": "{% for kv in d limit: x %}{{ kv[0] }}{{ kv[y] }}{% endfor %}",
    # the loop helper objects used as values: iterated as hashes, indexed, measured
    "loop_helpers_iterated": ("{% for i in xs %}{% for h in forloop %}{{ h[0] }}{{ h[y] }}{% endfor %}{{ forloop | size }}{{ forloop[x] }}{{ forloop.parentloop[x] }}"
                              "{% for j in xs %}{% for h in forloop.parentloop limit: x %}{{ h }}{% endfor %}{% endfor %}{% endfor %}"
                              "{% tablerow i in xs cols: 2 %}{% for h in tablerowloop limit: x %}{{ h }}{% endfor %}{{ tablerowloop[y] }}{{ tablerowloop | first }}{% endtablerow %}"),
    # the context variables the babel filters read
    "babel_context": ("{% assign locale = x %}{% assign timezone = y %}{{ 1234.5 | decimal }}{{ 3 | currency }}{{ '2020-01-02' | datetime }}{{ 5 | unit: 'length-meter' }}"
                      "{% assign currency_code = x %}{% assign datetime_format = y %}{{ 3 | currency }}{{ '2020-01-02 10:00' | datetime }}{% assign input_locale = y %}{{ '1,5' | decimal }}"
                      "{% assign decimal_format = x %}{% assign currency_format = y %}{{ 2 | decimal }}{{ 2 | money }}{% assign unit_length = x %}{{ 5 | unit: 'length-meter' }}"),
}
TT = {}
for _m, _e in ENVS.items():
    for _k, _src in TAGS.items():
        TT[(_m, _k)] = _e.from_string(_src)


def _mk_tag(kind):
    def f(x: V, y: V, n: int, slot: int, sp: int, mode: int) -> bool:
        """
        pre: not isinstance(x, str) or len(x) <= 3
        pre: not isinstance(y, str) or len(y) <= 3
        pre: 0 <= n <= 3 and 0 <= slot <= 2 and 0 <= sp <= 38 and sp != 28 and sp != 34 and 0 <= mode <= 2
        post: _
        """
        if excluded("c02_tag_" + kind, locals()):
            return True
        if slot == 1:
            x = special(sp)
        elif slot == 2:
            y = special(sp)
        return finish(only_liquid(TT[(_mode(mode), kind)], {"x": x, "y": y, "xs": list(range(n)), "d": {"a": 1, "b": {"c": 2}}}))
    f.__name__ = f.__qualname__ = "c02_tag_" + kind
    return f


for _k in TAGS:
    globals()["c02_tag_" + _k] = _mk_tag(_k)
    CONDITIONS.append({"fn": "c02_tag_" + _k, "quick": 30 if _k in ("for_range", "tablerow_cols", "include_for", "index_path", "translate_count", "string_seq") else None, "thorough": 240, "float": True})

def c02_int_beyond_str_digits(fi: int, k: int, slot: int) -> bool:
    """
    pre: 0 <= fi <= 80 and 1 <= k <= 2 and 0 <= slot <= 1
    post: _
    """
    # an int with more digits than sys.get_int_max_str_digits() in the input (slot 0) or argument (slot 1) position of
    # every filter, and (fi == 80) built by the template itself with `times` and written by an output statement
    if excluded("c02_int_beyond_str_digits", locals()):
        return True
    fi, k, slot = cint(fi, 0, 80), cint(k, 1, 2), cint(slot, 0, 1)
    return finish(untraced(lambda: _huge_case(fi, k, slot)))


_HUGE_T = ENV.from_string("{% assign x = 99999999 %}{% for i in (1..10) %}{% assign x = x | times: x %}{% endfor %}{{ x }}")


def _huge_case(fi, k, slot):
    if fi == 80:
        return only_liquid(_HUGE_T, {})
    if k == 1:
        return only_liquid(T1[(Mode.STRICT, NAMES[fi])], {"x": special(HUGE)})
    data = {"x": special(HUGE), "y": 1} if slot == 0 else {"x": "a", "y": special(HUGE)}
    return only_liquid(T2[(Mode.STRICT, NAMES[fi])], data)


DETAIL["c02_int_beyond_str_digits"] = lambda fi, k, slot: {"filter": "(template only: times in a loop, then output)" if fi == 80 else NAMES[fi],
                                                            "arity": k, "huge int is the": ("input", "argument")[slot]}
CONDITIONS.append({"fn": "c02_int_beyond_str_digits", "quick": 30, "thorough": 60, "sel_only": True})


# every tag template x every pair of special values in the x / y positions (the solver selects template and mode;
# the body sweeps the pool of special values on the plain interpreter)
_TAG_KEYS = sorted(TAGS)


def _tag_sweep(kind, m):
    bad = []
    t = TT[(m, kind)]
    for a in _POOL:
        for b in _YPOOL:
            for n in (0, 2):
                if not only_liquid(t, {"x": special(a), "y": special(b), "xs": list(range(n)), "d": {"a": 1, "b": {"c": 2}}}):
                    bad.append((a, b, n))
    return bad


def c02_tags_specials(ti: int, mode: int) -> bool:
    """
    pre: 0 <= ti <= 19 and 0 <= mode <= 2
    post: _
    """
    if excluded("c02_tags_specials", locals()):
        return True
    ti, mode = cint(ti, 0, len(_TAG_KEYS) - 1), cint(mode, 0, 2)
    return finish(untraced(lambda: not _tag_sweep(_TAG_KEYS[ti], _mode(mode))))


DETAIL["c02_tags_specials"] = lambda ti, mode: {"template": TAGS[_TAG_KEYS[ti]], "mode": str(_mode(mode)),
                                                "escaping": [(srepr(special(a)), srepr(special(b)), n) for a, b, n in _tag_sweep(_TAG_KEYS[ti], _mode(mode))[:4]]}
CONDITIONS.append({"fn": "c02_tags_specials", "quick": 150, "thorough": 300, "sel_only": True})

# ---- a render-time or parse-time error on line k of a multi-line source, for every kind of line break: whatever builds the
# message (WARN mode formats it itself) must not raise anything else, and str() of a raised LiquidError must work ------------
_EOLS = [chr(10), chr(13) + chr(10), chr(13), chr(0x2028), chr(11), chr(12), chr(0x85), chr(10) + chr(13)]
_ERR_LINES = ["{{ x | divided_by: 0 }}", "{{ nosuch | nosuchfilter }}", "{% if %}x{% endif %}", "{% for i in %}{% endfor %}", "{{ x | plus }}",
              "{% include 'nosuch' %}", "{% assign %}", "  {{ 'a' | slice: 'z' }}", "{{x|f}}", "{%a%}"]
_ML_T = {}


_BEFORE = (0, 1, 2, 5, 12, 40, 200)


def multiline_source(bi, ei, eol, trailing):
    return ("ab" + _EOLS[eol]) * _BEFORE[bi] + _ERR_LINES[ei] + (_EOLS[eol] if trailing else "")


def multiline_case(bi, ei, eol, trailing, mode):
    import warnings
    m = _mode(mode)
    src = multiline_source(bi, ei, eol, trailing)
    try:
        with warnings.catch_warnings():
            warnings.simplefilter("ignore")
            t = ENVS[m].from_string(src)
            t.render(x=1)
    except LiquidError as e:
        try:
            str(e)
            e.detailed_message()
        except Exception as e2:
            return "str(error) raised " + type(e2).__name__
        return "liquid"
    except Exception as e:
        return type(e).__name__
    return "ok"


def c02_error_on_line(before: int, ei: int, eol: int, trailing: bool, mode: int) -> bool:
    """
    pre: 0 <= before <= 6 and 0 <= ei <= 9 and 0 <= eol <= 7 and 0 <= mode <= 2
    post: _
    """
    if excluded("c02_error_on_line", locals()):
        return True
    before, ei, eol, mode = cint(before, 0, 6), cint(ei, 0, 9), cint(eol, 0, 7), cint(mode, 0, 2)
    trailing = True if trailing else False
    r = untraced(lambda: multiline_case(before, ei, eol, trailing, mode))
    return finish(r == "ok" or r == "liquid")


DETAIL["c02_error_on_line"] = lambda before, ei, eol, trailing, mode: {
    "lines before": _BEFORE[before], "error line": _ERR_LINES[ei], "line break": repr(_EOLS[eol]), "trailing line break": trailing, "mode": str(_mode(mode)),
    "outcome": multiline_case(before, ei, eol, trailing, mode)}
CONDITIONS.append({"fn": "c02_error_on_line", "quick": 90, "thorough": 200, "sel_only": True})

# ---- kernels -------------------------------------------------------------------------------------------------------
from liquid.filter import decimal_arg, int_arg, num_arg  # noqa: E402
from liquid.limits import to_int  # noqa: E402


def c02_kernel_args(x: V, k: int, slot: bool, sp: int) -> bool:
    """
    pre: not isinstance(x, str) or len(x) <= 4
    pre: 0 <= k <= 3 and 0 <= sp <= 38 and sp != 28 and sp != 34
    post: _
    """
    # the argument helpers used by every numeric filter: return, or raise a LiquidError (to_int: ValueError/TypeError
    # are its documented contract and are converted by callers)
    if excluded("c02_kernel_args", locals()):
        return True
    if slot:
        x = special(sp)
    try:
        if k == 0:
            int_arg(x)
        elif k == 1:
            num_arg(x)
        elif k == 2:
            decimal_arg(x)
        else:
            try:
                to_int(x)
            except ValueError:
                pass
    except (LiquidError, TypeError):
        # TypeError is part of these helpers' contract: every filter decorator converts it to FilterArgumentError
        return finish(True)
    except Exception:
        return finish(False)
    return finish(True)


CONDITIONS.append({"fn": "c02_kernel_args", "quick": 30, "thorough": 200, "float": True})


# ---- parse side ----------------------------------------------------------------------------------------------------------
def psrc(i):
    bad = [
        "{% if %}x{% endif %}", "{% if x %}", "{% endif %}", "{% for %}{% endfor %}", "{% for i in %}{% endfor %}", "{% for i xs %}{% endfor %}",
        "{{ x | }}", "{{ | upcase }}", "{{ x | upcase: }}", "{{ x.[ }}", "{{ x[ }}", "{{ x..y }}", "{{ (1.. }}", "{% assign %}", "{% assign x %}",
        "{% assign x = %}", "{% capture %}{% endcapture %}", "{% case %}{% endcase %}", "{% case x %}{% when %}{% endcase %}", "{% cycle %}",
        "{% cycle x: %}", "{% include %}", "{% include 'p' for %}", "{% render %}", "{% render x %}", "{% render 'p' with %}", "{% tablerow %}{% endtablerow %}",
        "{% unknown %}", "{% else %}", "{% elsif x %}", "{% when x %}", "{% break %}", "{% continue %}", "{% liquid if %}", "{% liquid\nfor\n%}",
        "{% increment %}", "{% decrement 1 %}", "{% echo %}", "{% raw %}", "{% comment %}", "{% doc %}", "{% if x == %}a{% endif %}",
        "{% if x and %}a{% endif %}", "{% if (x %}a{% endif %}", "{% if not %}a{% endif %}", "{{ x if }}", "{{ x if y else }}", "{{ 'abc }}", "{{ \"abc }}",
        "{{ 1" + "0" * 5000 + " }}", "{{ x | plus: 1" + "0" * 5000 + " }}", "{% if true %}" * 40 + "{% endif %}" * 40, "{{ " + "(" * 50 + "x" + ")" * 50 + " }}",
        "{% macro %}{% endmacro %}", "{% call %}", "{% with %}{% endwith %}", "{% extends %}", "{% block %}{% endblock %}", "{% translate x %}a{% endtranslate %}",
        "{% translate %}{% if x %}{% endif %}{% endtranslate %}", "{{ x | t: }}", "{% for i in (1..) %}{% endfor %}", "{% for i in xs limit: %}{% endfor %}",
        "{{ x[1.5] }}", "{{ x.1 }}", "{{ -x }}", "{{ 1.2.3 }}", "{{ x | a.b }}", "{% if x <> y %}{% endif %}", "{% if x = y %}{% endif %}", "{{ x | default: y, allow_false: }}",
    ]
    for j in range(len(bad)):
        if i == j:
            return bad[j]
    return "ok"


NPSRC = 72


def c02_parse(i: int, mode: int) -> bool:
    """
    pre: 0 <= i <= 72 and 0 <= mode <= 2
    post: _
    """
    if excluded("c02_parse", locals()):
        return True
    i, mode = cint(i, 0, 72), cint(mode, 0, 2)
    return finish(untraced(lambda: _parse_case(i, mode)))


def _parse_case(i, mode):
    import warnings
    env = ENVS[_mode(mode)]
    try:
        with warnings.catch_warnings():
            warnings.simplefilter("ignore")
            t = env.from_string(psrc(i))
            t.render(x=1, y="a", xs=[1, 2])
            try:
                env.analyze_tags_from_string(psrc(i))
            except LiquidError:
                pass
    except LiquidError:
        return True
    except Exception:
        return False
    return True


CONDITIONS.append({"fn": "c02_parse", "quick": 90, "thorough": 240, "sel_only": True})

# ---- the shared corpus with the odd-typed data sets, in every mode: only Liquid errors escape ----------------------
from harness import corpus as _corpus  # noqa: E402

_CENVS = {m: _corpus.make_env(Env, tolerance=m) for m in (Mode.STRICT, Mode.WARN, Mode.LAX)}


def _corpus_check(w2, w1, leaf, d):
    import warnings
    bad = {}
    for m, env in _CENVS.items():
        with warnings.catch_warnings():
            warnings.simplefilter("ignore")
            t = _corpus.template(env, w2, w1, leaf)
            if t is None:
                continue
            r = _corpus.outcome(lambda: t.render(**_corpus.data(d)))
        if r[0] == "other":
            bad[str(m)] = r[1]
    return bad or None


c02_corpus, _det = _corpus.mk_condition("c02_corpus", _corpus_check)
DETAIL["c02_corpus"] = _det
CONDITIONS.append({"fn": "c02_corpus", "quick": 90, "thorough": 200, "sel_only": True, "bounds": _corpus.BOUNDS + ", STRICT/WARN/LAX"})

ASSUMPTIONS = [
    "symbolic floats are explored for bug-hunting only (CrossHair's float model is not IEEE-exact): no condition that depends on them is reported confirmed",
    "one argument slot may be replaced by a value from a 20-element pool of awkward values (inf, nan, 10**400, numeric-looking / percent / non-ASCII / invalid base64 strings, list, dict, range, nested and mixed lists)",
    "babel-backed filters run with their default locale data",
]
OUTSIDE = ["MemoryError from arguments that ask for huge allocations (resource exhaustion: C06-C08)", "strings longer than 3 code points (except pool members)", "RecursionError from deep recursion (C09)", "custom filters and drops",
           "Python-only values with no Liquid counterpart whose own methods raise (e.g. range(10**30): len() raises OverflowError)"]


def selftest():
    fails = []
    if not only_liquid(T2[(Mode.STRICT, "plus")], {"x": "a", "y": None}):
        fails.append("plus with junk should only raise LiquidError")
    if only_liquid(ENV.from_string("{{ x }}"), {"x": 1}) is not True:
        fails.append("baseline")
    if len(TAGS) != 20:
        fails.append("c02_tags_specials is bounded to 20 tag templates, found %d" % len(TAGS))
    if len(NAMES) != 80:
        fails.append("c02_filters_specials is bounded to 80 registered filters, found %d" % len(NAMES))
    return fails
