"""C12 Conditions follow Liquid truthiness and operator rules.

K1 kernels called directly: is_truthy, _eq, _lt, _contains of
   liquid/builtin/expressions/logical.py (and through them Empty/Blank/Nil/
   Undefined equality) on symbolic nil/bool/int/str operands and on selector
   pools {undefined, empty, blank, hash, array of ints, range, float, Decimal}.
K2 the same through whole renders of pre-parsed if / unless / elsif / case-when /
   ternary skeletons with symbolic render data (incl. names absent from the data).
K3 generated and/or/not/parenthesis expression sources (every binary tree over
   <= 4 leaves, minimal and explicit parenthesisation, one `not` per node), parsed
   by the real parser, rendered with symbolic leaf values and compared with an
   independent right-associative reference parser/evaluator over the token string.

Oracle = reference table transcribed from the documentation / the property
statement. Rows the documentation leaves open are don't-care (DC): there the
only demand is "a boolean or a LiquidTypeError, never a non-Liquid exception".
"""
from decimal import Decimal
from typing import Union

from liquid import Environment, Undefined
from liquid.builtin.expressions.logical import _contains, _eq, _lt, is_truthy
from liquid.builtin.expressions.primitive import Blank, Empty
from liquid.exceptions import LiquidError, LiquidTypeError
from liquid.token import Token

from vf.hx import excluded, finish

PROPERTY = "C12"

V = Union[None, bool, int, str]
VS = Union[None, bool, int]


class Env(Environment):
    logical_not_operator = True
    logical_parentheses = True
    ternary_expressions = True


STD = Environment()
ENV = Env()

TOK = Token("", "", 0, "")
UNDEF = Undefined("u")
EMPTY = Empty(TOK)
BLANK = Blank(TOK)
FLOATS = (0.0, 1.0, 1.5, -2.5)
DECIMALS = (Decimal("0"), Decimal("1"), Decimal("1.5"), Decimal("-2"))
STRS = ("", " ", "a", "1")
HASHES = ({}, {"a": 1}, {"a": 1, "1": 2})

# ---------------------------------------------------------------------------
# reference table
# ---------------------------------------------------------------------------
DC = "DC"      # documentation leaves the row open
ERR = "ERR"    # LiquidTypeError
WS = " \t\n\r"


def kind(v):
    if isinstance(v, Undefined):
        return "undef"
    if v is None:
        return "nil"
    if isinstance(v, bool):
        return "bool"
    if isinstance(v, (int, float, Decimal)):
        return "num"
    if isinstance(v, str):
        return "str"
    if isinstance(v, list):
        return "list"
    if isinstance(v, dict):
        return "dict"
    if isinstance(v, range):
        return "range"
    if isinstance(v, Empty):
        return "empty"
    if isinstance(v, Blank):
        return "blank"
    return "other"


def is_blank_str(s):
    for c in s:
        if c not in WS:
            return False
    return True


def ref_truthy(v):
    """Only false, nil and undefined are falsy (0, '', [], {} and empty ranges are truthy)."""
    k = kind(v)
    if k == "nil" or k == "undef":
        return False
    if k == "bool":
        return v
    if k == "empty" or k == "blank":
        return DC
    return True


def ref_eq(l, r):
    kl = kind(l)
    kr = kind(r)
    if kl in ("empty", "blank"):
        l, r, kl, kr = r, l, kr, kl
    if kr in ("empty", "blank"):
        if kl == "str":
            return len(l) == 0 if kr == "empty" else is_blank_str(l)
        if kl == "list" or kl == "dict":
            return len(l) == 0
        if kl == "num":
            return False
        return DC  # nil, undefined, booleans, ranges, empty vs blank
    if kl == "undef" or kr == "undef":
        other = kr if kl == "undef" else kl
        if other == "nil" or other == "undef":
            return DC
        return False
    if kl != kr:
        if (kl == "list" and kr == "range") or (kl == "range" and kr == "list"):
            return DC
        return False  # in particular true != 1, false != 0, false != nil, '1' != 1
    if kl == "nil":
        return True
    if kl == "num":
        if l != l or r != r:
            return DC
        return l == r
    if kl == "range":
        if len(l) == 0 and len(r) == 0:
            return DC
        return l.start == r.start and l.stop == r.stop
    return l == r  # bool, str, list of ints, hash


def ref_lt(l, r):
    kl = kind(l)
    kr = kind(r)
    if kl == "num" and kr == "num":
        if l != l or r != r:
            return DC
        return l < r
    if kl == "str" and kr == "str":
        return l < r
    for k in (kl, kr):
        if k in ("bool", "undef", "empty", "blank"):
            return DC
    if kl != kr:
        return ERR  # ordering between incompatible types
    return DC  # nil/nil, array/array, hash/hash, range/range


def ref_le(l, r):
    kl = kind(l)
    kr = kind(r)
    if kl == "num" and kr == "num":
        if l != l or r != r:
            return DC
        return l <= r
    if kl == "str" and kr == "str":
        return l <= r
    # "less than OR EQUAL": operands that are equal by Liquid equality satisfy <= and >= even when they
    # have no ordering (nil/nil, true/true, equal arrays or hashes)
    if ref_eq(l, r) is True:
        return True
    return ref_lt(l, r)


def ref_contains(l, r, strict_bool=False, hash_any=False):
    """contains = substring / membership / key. strict_bool: also fix array/range
    membership of booleans by Liquid equality (true is not 1). hash_any: also fix
    hash contains <unhashable> as False."""
    kl = kind(l)
    kr = kind(r)
    if kl == "nil" or kl == "undef" or (kl == "bool" and not l):
        return False
    if kr == "nil" or kr == "undef":
        return False
    if kr == "bool" and not r:
        return DC
    if kl == "str":
        if kr == "str":
            return r in l
        if kr == "num" and isinstance(r, int):
            return str(r) in l
        return DC
    if kl == "list":
        if kr in ("empty", "blank"):
            return DC
        if kr == "bool" and not strict_bool:
            return DC
        res = False
        for x in l:
            e = ref_eq(x, r)
            if e is DC:
                return DC
            if e:
                res = True
        return res
    if kl == "dict":
        if kr == "str":
            return r in l
        if kr in ("list", "dict", "empty", "blank"):
            return False if hash_any else "SKIP"
        return False  # numbers, true, ranges are never keys of a string-keyed hash
    if kl == "range":
        if kr == "num":
            if isinstance(r, int):
                return r in l
            return DC
        if kr == "bool":
            return False if strict_bool else DC
        if kr in ("empty", "blank"):
            return DC
        return False
    return DC  # numbers, true, empty, blank on the left


def obs(thunk):
    """Observed kernel result: a bool, ERR for LiquidTypeError, or a marker that never agrees."""
    try:
        return thunk()
    except LiquidTypeError:
        return ERR
    except LiquidError as e:
        return "LIQ:" + type(e).__name__
    except Exception as e:
        return "EXC:" + type(e).__name__


def agree(o, e):
    if isinstance(e, str) and e == "SKIP":
        return True
    if isinstance(o, str):
        return o == ERR and isinstance(e, str)  # e is DC or ERR
    if isinstance(e, str):
        return e == DC
    return bool(o) == bool(e)


def pv(k, i, a, b):
    """Operand from the selector pools (no float/Decimal: see c12_k1_float_decimal)."""
    if k == 0:
        return UNDEF
    if k == 1:
        return EMPTY
    if k == 2:
        return BLANK
    if k == 3:
        return dict(HASHES[0] if i == 0 else HASHES[1] if i == 1 else HASHES[2])
    if k == 4:
        return list(range(i))
    if k == 5:
        return range(a, b)
    if k == 6:
        return a
    if k == 7:
        return STRS[0] if i == 0 else STRS[1] if i == 1 else STRS[2] if i == 2 else STRS[3]
    if k == 8:
        return None
    return b > 0


def cv(k, i):
    """Fully concrete operand (for Decimal, whose C implementation rejects symbolic numbers)."""
    i = 0 if i == 0 else 1 if i == 1 else 2 if i == 2 else 3
    if k == 0:
        return (UNDEF, EMPTY, BLANK, None)[i]
    if k == 1:
        return (-2, 0, 1, 2)[i]
    if k == 2:
        return FLOATS[i]
    if k == 3:
        return DECIMALS[i]
    if k == 4:
        return STRS[i]
    if k == 5:
        return (True, False, [], [0, 1])[i]
    return ({}, {"a": 1}, range(0), range(0, 2))[i]


# ---------------------------------------------------------------------------
# K1 kernels
# ---------------------------------------------------------------------------


def c12_k1_truthy_scalar(v: V) -> bool:
    """
    pre: not isinstance(v, str) or len(v) <= 2
    post: _
    """
    if excluded("c12_k1_truthy_scalar", locals()):
        return True
    return finish(agree(obs(lambda: is_truthy(v)), ref_truthy(v)))


def c12_k1_truthy_pool(k: int, i: int, a: int, b: int) -> bool:
    """
    pre: 0 <= k <= 9 and 0 <= i <= 3 and -1 <= a <= 2 and -1 <= b <= 3
    post: _
    """
    if excluded("c12_k1_truthy_pool", locals()):
        return True
    v = pv(k, i, a, b)
    return finish(agree(obs(lambda: is_truthy(v)), ref_truthy(v)))


def c12_k1_eq_scalar(l: V, r: V) -> bool:
    """
    pre: not isinstance(l, str) or (len(l) <= 2 and all(c in " \\ta1" for c in l))
    pre: not isinstance(r, str) or (len(r) <= 2 and all(c in " \\ta1" for c in r))
    post: _
    """
    if excluded("c12_k1_eq_scalar", locals()):
        return True
    e = ref_eq(l, r)
    return finish(agree(obs(lambda: _eq(l, r)), e) and agree(obs(lambda: _eq(r, l)), e))


def c12_k1_eq_pool_scalar(k: int, i: int, a: int, b: int, r: VS) -> bool:
    """
    pre: 0 <= k <= 9 and 0 <= i <= 3 and -1 <= a <= 2 and -1 <= b <= 3
    post: _
    """
    if excluded("c12_k1_eq_pool_scalar", locals()):
        return True
    l = pv(k, i, a, b)
    e = ref_eq(l, r)
    return finish(agree(obs(lambda: _eq(l, r)), e) and agree(obs(lambda: _eq(r, l)), e))


def c12_k1_eq_pool_pool(lk: int, li: int, la: int, lb: int, rk: int, ri: int, ra: int, rb: int) -> bool:
    """
    pre: 0 <= lk <= 9 and 0 <= li <= 3 and 0 <= la <= 2 and 0 <= lb <= 3
    pre: 0 <= rk <= 9 and 0 <= ri <= 3 and 0 <= ra <= 2 and 0 <= rb <= 3
    post: _
    """
    if excluded("c12_k1_eq_pool_pool", locals()):
        return True
    l = pv(lk, li, la, lb)
    r = pv(rk, ri, ra, rb)
    e = ref_eq(l, r)
    return finish(agree(obs(lambda: _eq(l, r)), e) and agree(obs(lambda: _eq(r, l)), e))


def c12_k1_special_str(s: str, k: int, op: int) -> bool:
    """
    pre: len(s) <= 3 and all(c in " \\t\\na1" for c in s)
    pre: 0 <= k <= 2 and 0 <= op <= 2
    post: _
    """
    # empty / blank / undefined against a string of symbolic content, both operand orders
    if excluded("c12_k1_special_str", locals()):
        return True
    x = EMPTY if k == 0 else BLANK if k == 1 else UNDEF
    if op == 0:
        e = ref_eq(x, s)
        return finish(agree(obs(lambda: _eq(x, s)), e) and agree(obs(lambda: _eq(s, x)), e))
    if op == 1:
        return finish(agree(obs(lambda: _lt(TOK, x, s)), ref_lt(x, s)) and agree(obs(lambda: _lt(TOK, s, x)), ref_lt(s, x)))
    return finish(agree(obs(lambda: _contains(TOK, x, s)), ref_contains(x, s))
                  and agree(obs(lambda: _contains(TOK, s, x)), ref_contains(s, x)))


def c12_k1_lt_scalar(l: V, r: V) -> bool:
    """
    pre: not isinstance(l, str) or len(l) <= 2
    pre: not isinstance(r, str) or len(r) <= 2
    post: _
    """
    if excluded("c12_k1_lt_scalar", locals()):
        return True
    return finish(agree(obs(lambda: _lt(TOK, l, r)), ref_lt(l, r)))


def c12_k1_lt_pool_scalar(k: int, i: int, a: int, b: int, r: VS, swap: bool) -> bool:
    """
    pre: 0 <= k <= 9 and 0 <= i <= 3 and -1 <= a <= 2 and -1 <= b <= 3
    post: _
    """
    if excluded("c12_k1_lt_pool_scalar", locals()):
        return True
    l = pv(k, i, a, b)
    if swap:
        return finish(agree(obs(lambda: _lt(TOK, r, l)), ref_lt(r, l)))
    return finish(agree(obs(lambda: _lt(TOK, l, r)), ref_lt(l, r)))


def c12_k1_lt_pool_pool(lk: int, li: int, la: int, lb: int, rk: int, ri: int, ra: int, rb: int) -> bool:
    """
    pre: 0 <= lk <= 9 and 0 <= li <= 3 and 0 <= la <= 2 and 0 <= lb <= 3
    pre: 0 <= rk <= 9 and 0 <= ri <= 3 and 0 <= ra <= 2 and 0 <= rb <= 3
    post: _
    """
    if excluded("c12_k1_lt_pool_pool", locals()):
        return True
    l = pv(lk, li, la, lb)
    r = pv(rk, ri, ra, rb)
    return finish(agree(obs(lambda: _lt(TOK, l, r)), ref_lt(l, r)))


def c12_k1_contains_str(l: str, r: V) -> bool:
    """
    pre: len(l) <= 3 and all(c in "a1-T" for c in l)
    pre: not isinstance(r, str) or (len(r) <= 2 and all(c in "a1-T" for c in r))
    pre: not isinstance(r, int) or -9 <= r <= 99
    post: _
    """
    if excluded("c12_k1_contains_str", locals()):
        return True
    return finish(agree(obs(lambda: _contains(TOK, l, r)), ref_contains(l, r)))


def c12_k1_contains_scalar(l: V, r: V) -> bool:
    """
    pre: not isinstance(l, str) or len(l) <= 2
    pre: not isinstance(r, str) or len(r) <= 2
    pre: not isinstance(r, int) or -9 <= r <= 99
    post: _
    """
    if excluded("c12_k1_contains_scalar", locals()):
        return True
    return finish(agree(obs(lambda: _contains(TOK, l, r)), ref_contains(l, r)))


def c12_k1_contains_pool_scalar(k: int, i: int, a: int, b: int, r: VS, swap: bool) -> bool:
    """
    pre: 0 <= k <= 9 and 0 <= i <= 3 and -1 <= a <= 2 and -1 <= b <= 3
    pre: r is None or -9 <= r <= 99
    post: _
    """
    if excluded("c12_k1_contains_pool_scalar", locals()):
        return True
    l = pv(k, i, a, b)
    if swap:
        return finish(agree(obs(lambda: _contains(TOK, r, l)), ref_contains(r, l)))
    return finish(agree(obs(lambda: _contains(TOK, l, r)), ref_contains(l, r)))


def c12_k1_contains_pool_pool(lk: int, li: int, la: int, lb: int, rk: int, ri: int, ra: int, rb: int) -> bool:
    """
    pre: 0 <= lk <= 9 and 0 <= li <= 3 and 0 <= la <= 2 and 0 <= lb <= 3
    pre: 0 <= rk <= 9 and 0 <= ri <= 3 and 0 <= ra <= 2 and 0 <= rb <= 3
    post: _
    """
    if excluded("c12_k1_contains_pool_pool", locals()):
        return True
    l = pv(lk, li, la, lb)
    r = pv(rk, ri, ra, rb)
    return finish(agree(obs(lambda: _contains(TOK, l, r)), ref_contains(l, r)))


def c12_k1_contains_member_bool(n: int, a: int, b: int, r: bool, rng: bool) -> bool:
    """
    pre: 0 <= n <= 3 and -1 <= a <= 1 and 0 <= b <= 3
    post: _
    """
    # membership in an array / range of integers is decided by Liquid equality: true is not 1
    if excluded("c12_k1_contains_member_bool", locals()):
        return True
    l = range(a, b) if rng else list(range(n))
    return finish(agree(obs(lambda: _contains(TOK, l, r)), ref_contains(l, r, strict_bool=True)))


def c12_k1_contains_hash_any(i: int, rk: int, ri: int) -> bool:
    """
    pre: 0 <= i <= 2 and 0 <= rk <= 3 and 0 <= ri <= 2
    post: _
    """
    # an array, a hash, empty or blank is never a key of a hash: false (or a Liquid error), never a Python TypeError
    if excluded("c12_k1_contains_hash_any", locals()):
        return True
    l = pv(3, i, 0, 0)
    r = pv(4, ri, 0, 0) if rk == 0 else pv(3, ri, 0, 0) if rk == 1 else EMPTY if rk == 2 else BLANK
    return finish(agree(obs(lambda: _contains(TOK, l, r)), ref_contains(l, r, hash_any=True)))


def c12_k1_float_decimal(op: int, fl: bool, i: int, ok: int, oi: int, swap: bool) -> bool:
    """
    pre: 0 <= op <= 2 and 0 <= i <= 3 and 0 <= ok <= 6 and 0 <= oi <= 3
    post: _
    """
    # a float / Decimal from the pool against every concrete pool value (z3 is very slow on mixed
    # int/real terms and the C Decimal rejects symbolic numbers, so both operands are selectors here)
    if excluded("c12_k1_float_decimal", locals()):
        return True
    l = cv(2 if fl else 3, i)
    r = cv(ok, oi)
    if swap:
        l, r = r, l
    if op == 0:
        return finish(agree(obs(lambda: _eq(l, r)), ref_eq(l, r)) and agree(obs(lambda: is_truthy(l)), ref_truthy(l)))
    if op == 1:
        return finish(agree(obs(lambda: _lt(TOK, l, r)), ref_lt(l, r)))
    return finish(agree(obs(lambda: _contains(TOK, l, r)), ref_contains(l, r)))


def c12_k1_num_float(x: float, y: float, n: int, mixed: bool) -> bool:
    """
    pre: -8 <= n <= 8
    post: _
    """
    if excluded("c12_k1_num_float", locals()):
        return True
    r = n if mixed else y
    ok = agree(obs(lambda: _eq(x, r)), ref_eq(x, r)) and agree(obs(lambda: _eq(r, x)), ref_eq(r, x))
    ok = ok and agree(obs(lambda: _lt(TOK, x, r)), ref_lt(x, r)) and agree(obs(lambda: _lt(TOK, r, x)), ref_lt(r, x))
    return finish(ok and agree(obs(lambda: is_truthy(x)), True))


CONDITIONS = [
    {"fn": "c12_k1_truthy_scalar", "quick": 30, "thorough": 60},
    {"fn": "c12_k1_truthy_pool", "quick": 30, "thorough": 60},
    {"fn": "c12_k1_eq_scalar", "quick": 40, "thorough": 120},
    {"fn": "c12_k1_eq_pool_scalar", "quick": 40, "thorough": 120},
    {"fn": "c12_k1_eq_pool_pool", "quick": None, "thorough": 240},
    {"fn": "c12_k1_lt_scalar", "quick": 40, "thorough": 120},
    {"fn": "c12_k1_lt_pool_scalar", "quick": 40, "thorough": 120},
    {"fn": "c12_k1_lt_pool_pool", "quick": None, "thorough": 240},
    {"fn": "c12_k1_contains_str", "quick": 40, "thorough": 120},
    {"fn": "c12_k1_contains_scalar", "quick": 40, "thorough": 120},
    {"fn": "c12_k1_contains_pool_scalar", "quick": 40, "thorough": 120},
    {"fn": "c12_k1_contains_pool_pool", "quick": None, "thorough": 240},
    # c12_k1_contains_member_bool is NOT registered: the documentation does not define array membership of
    # booleans vs numbers ("[0, 1] contains true"); asserting Liquid equality there demanded more than the property.
    {"fn": "c12_k1_contains_hash_any", "quick": 30, "thorough": 60, "sel_only": True},
    {"fn": "c12_k1_float_decimal", "quick": 40, "thorough": 120, "sel_only": True},
    {"fn": "c12_k1_special_str", "quick": 40, "thorough": 120},
    {"fn": "c12_k1_num_float", "quick": 20, "thorough": 90, "float": True},
]

# ---------------------------------------------------------------------------
# K2 through templates
# ---------------------------------------------------------------------------
OPS = {"eq": "==", "ne": "!=", "lg": "<>", "lt": "<", "le": "<=", "gt": ">", "ge": ">=", "contains": "contains"}


def neg(e):
    return e if isinstance(e, str) else (not e)


def ref_op(op, l, r):
    if op == "eq":
        return ref_eq(l, r)
    if op == "ne" or op == "lg":
        return neg(ref_eq(l, r))
    if op == "lt":
        return ref_lt(l, r)
    if op == "gt":
        return ref_lt(r, l)
    if op == "le":
        return ref_le(l, r)
    if op == "ge":
        return ref_le(r, l)
    return ref_contains(l, r)


def rend(t, data):
    try:
        return t.render(**data)
    except LiquidTypeError:
        return ERR
    except LiquidError as e:
        return "LIQ:" + type(e).__name__
    except Exception as e:
        return "EXC:" + type(e).__name__


def agree_out(out, e, t="T", f="F"):
    """Rendered branch against a reference verdict."""
    if isinstance(e, str):
        if e == "SKIP":
            return True
        if e == DC:
            return out == t or out == f or out == ERR
        return out == ERR
    if e:
        return out == t
    return out == f


def cond3(env_std, env_x, expr):
    """The same condition in if, unless and a ternary output (all must select the same branch)."""
    return (env_std.from_string("{% if " + expr + " %}T{% else %}F{% endif %}"),
            env_std.from_string("{% unless " + expr + " %}F{% else %}T{% endunless %}"),
            env_x.from_string("{{ 'T' if " + expr + " else 'F' }}"))


def all_agree(ts, data, e):
    ok = True
    for t in ts:
        ok = ok and agree_out(rend(t, data), e)
    return ok


T_OP = {op: cond3(STD, ENV, "l " + sym + " r") for op, sym in OPS.items()}


def _mk_if_op(op):
    bounded = op == "contains"

    def f(l: V, r: V, lu: bool, ru: bool) -> bool:
        """
        pre: not isinstance(l, str) or len(l) <= 2
        pre: not isinstance(r, str) or len(r) <= 2
        post: _
        """
        if excluded("c12_k2_if_" + op, locals()):
            return True
        if bounded and isinstance(r, int) and not -9 <= r <= 99:
            return True  # str(int) of an unbounded symbolic int is enumerated digit by digit
        data = {}
        if not lu:
            data["l"] = l
        if not ru:
            data["r"] = r
        e = ref_op(op, UNDEF if lu else l, UNDEF if ru else r)
        return finish(all_agree(T_OP[op], data, e))
    f.__name__ = f.__qualname__ = "c12_k2_if_" + op
    return f


for _op in OPS:
    globals()["c12_k2_if_" + _op] = _mk_if_op(_op)
    CONDITIONS.append({"fn": "c12_k2_if_" + _op, "quick": 40, "thorough": 150})

# literal operands: (source text, python value the reference sees)
LITS = [("empty", EMPTY), ("blank", BLANK), ("nil", None), ("null", None), ("true", True), ("false", False),
        ("0", 0), ("1", 1), ("-1", -1), ("'a'", "a"), ("''", ""), ("' '", " "), ('"1"', "1")]


def cond1(expr):
    return (STD.from_string("{% if " + expr + " %}T{% else %}F{% endif %}"),)


LIT_CASES = []  # (templates, op, literal value, literal on the left?)
for _src, _val in LITS:
    for _op in ("eq", "ne"):
        LIT_CASES.append((cond1("x " + OPS[_op] + " " + _src), _op, _val, False))
        LIT_CASES.append((cond1(_src + " " + OPS[_op] + " x"), _op, _val, True))
    if _src in ("1", "'a'", "nil", "true", "empty"):
        for _op in ("lt", "le", "gt", "ge", "contains"):
            LIT_CASES.append((cond1("x " + OPS[_op] + " " + _src), _op, _val, False))
            LIT_CASES.append((cond1(_src + " " + OPS[_op] + " x"), _op, _val, True))
LIT_TRUTH = [(cond3(STD, ENV, _src), _val) for _src, _val in LITS] + [(cond3(STD, ENV, "0.0"), 0.0), (cond3(STD, ENV, "(1..0)"), range(1, 1))]


def lit_cases(xv, data, ops):
    ok = True
    for ts, op, val, left in LIT_CASES:
        if op in ops:
            e = ref_op(op, val, xv) if left else ref_op(op, xv, val)
            ok = ok and all_agree(ts, data, e)
    return ok


def c12_k2_literal_eq(x: V, xu: bool) -> bool:
    """
    pre: not isinstance(x, str) or (len(x) <= 2 and all(c in " \\ta1" for c in x))
    post: _
    """
    # x ==/!= every literal (empty, blank, nil, null, true, false, ints, strings), both operand orders
    if excluded("c12_k2_literal_eq", locals()):
        return True
    data = {} if xu else {"x": x}
    return finish(lit_cases(UNDEF if xu else x, data, ("eq", "ne")))


def c12_k2_literal_order(x: V, xu: bool) -> bool:
    """
    pre: not isinstance(x, str) or len(x) <= 2
    pre: not isinstance(x, int) or -9 <= x <= 99
    post: _
    """
    # x < <= > >= contains literal, both operand orders
    if excluded("c12_k2_literal_order", locals()):
        return True
    data = {} if xu else {"x": x}
    return finish(lit_cases(UNDEF if xu else x, data, ("lt", "le", "gt", "ge", "contains")))


def c12_k2_literal_pool_eq(k: int, i: int, a: int, b: int) -> bool:
    """
    pre: 3 <= k <= 7 and 0 <= i <= 3 and 0 <= a <= 1 and 0 <= b <= 2
    post: _
    """
    # hashes, arrays, ranges, ints and pool strings ==/!= every literal
    if excluded("c12_k2_literal_pool_eq", locals()):
        return True
    x = pv(k, i, a, b)
    return finish(lit_cases(x, {"x": x}, ("eq", "ne")))


def c12_k2_literal_pool_order(k: int, i: int, a: int, b: int) -> bool:
    """
    pre: 3 <= k <= 7 and 0 <= i <= 3 and 0 <= a <= 1 and 0 <= b <= 2
    post: _
    """
    # hashes, arrays, ranges, ints and pool strings < <= > >= contains literal
    if excluded("c12_k2_literal_pool_order", locals()):
        return True
    x = pv(k, i, a, b)
    return finish(lit_cases(x, {"x": x}, ("lt", "le", "gt", "ge", "contains")))


def c12_k2_literal_numpool(fl: bool, i: int) -> bool:
    """
    pre: 0 <= i <= 3
    post: _
    """
    if excluded("c12_k2_literal_numpool", locals()):
        return True
    x = cv(2 if fl else 3, i)
    return finish(lit_cases(x, {"x": x}, ("eq", "ne", "lt", "le", "gt", "ge", "contains")))


def c12_k2_literal_truth() -> bool:
    """
    post: _
    """
    # truthiness of literals in if / unless / ternary (nothing symbolic: a single path)
    if excluded("c12_k2_literal_truth", locals()):
        return True
    ok = True
    for ts, val in LIT_TRUTH:
        ok = ok and all_agree(ts, {}, ref_truthy(val))
    return finish(ok)


T_TRUTH = cond3(STD, ENV, "x")
T_NOT = (ENV.from_string("{% if not x %}T{% else %}F{% endif %}"), ENV.from_string("{% unless not x %}F{% else %}T{% endunless %}"),
         ENV.from_string("{{ 'T' if not x else 'F' }}"), ENV.from_string("{% if not not x %}F{% else %}T{% endif %}"))


def c12_k2_truthy_scalar(x: V, xu: bool) -> bool:
    """
    pre: not isinstance(x, str) or len(x) <= 2
    post: _
    """
    if excluded("c12_k2_truthy_scalar", locals()):
        return True
    data = {} if xu else {"x": x}
    e = ref_truthy(UNDEF if xu else x)
    return finish(all_agree(T_TRUTH, data, e) and all_agree(T_NOT, data, neg(e)))


def c12_k2_truthy_pool(num: bool, k: int, i: int, a: int, b: int) -> bool:
    """
    pre: 3 <= k <= 9 and 0 <= i <= 3 and -1 <= a <= 2 and -1 <= b <= 3
    post: _
    """
    if excluded("c12_k2_truthy_pool", locals()):
        return True
    x = cv(2 if k < 6 else 3, i) if num else pv(k, i, a, b)
    e = ref_truthy(x)
    return finish(all_agree(T_TRUTH, {"x": x}, e) and all_agree(T_NOT, {"x": x}, neg(e)))


T_CHAIN = STD.from_string("{% if a %}A{% elsif b %}B{% elsif c %}C{% else %}D{% endif %}")
T_CHAIN_NOELSE = STD.from_string("{% if a %}A{% elsif b %}B{% endif %}")
T_UCHAIN = STD.from_string("{% unless a %}A{% elsif b %}B{% elsif c %}C{% else %}D{% endunless %}")
T_NESTED = STD.from_string("{% if a %}{% unless b %}1{% else %}2{% endunless %}{% else %}{% if c %}3{% endif %}{% endif %}")


def c12_k2_elsif_chain(a: V, b: V, c: VS, au: bool) -> bool:
    """
    pre: not isinstance(a, str) or len(a) <= 1
    pre: not isinstance(b, str) or len(b) <= 1
    post: _
    """
    if excluded("c12_k2_elsif_chain", locals()):
        return True
    data = {"b": b}
    if not au:
        data["a"] = a
    if c is not None:
        data["c"] = c  # nil c: the name is absent (undefined)
    ta = ref_truthy(UNDEF if au else a)
    tb = ref_truthy(b)
    tc = ref_truthy(c)
    ok = rend(T_CHAIN, data) == ("A" if ta else "B" if tb else "C" if tc else "D")
    ok = ok and rend(T_CHAIN_NOELSE, data) == ("A" if ta else "B" if tb else "")
    ok = ok and rend(T_UCHAIN, data) == ("A" if not ta else "B" if tb else "C" if tc else "D")
    ok = ok and rend(T_NESTED, data) == ((("2" if tb else "1")) if ta else ("3" if tc else ""))
    return finish(ok)


T_CASE2 = STD.from_string("{% case x %}{% when y %}A{% when z %}B{% else %}C{% endcase %}")
T_CASE_COMMA = STD.from_string("{% case x %}{% when y, z %}A{% else %}C{% endcase %}")
T_CASE_OR = STD.from_string("{% case x %}{% when y or z %}A{% else %}C{% endcase %}")
T_CASE_NOELSE = STD.from_string("{% case x %}{% when y %}A{% endcase %}")


def case_ok(out, matches, default):
    """matches: list of (letter, reference verdict). A matching `when` block is rendered (how many
    times is not documented), a non-matching one is not, `else` iff no `when` matched."""
    if not isinstance(out, str) or out.startswith(("ERR", "LIQ:", "EXC:")):
        return False
    ok = True
    any_seen = False
    rest = out
    for letter, e in matches:
        seen = letter in out
        any_seen = any_seen or seen
        rest = rest.replace(letter, "")
        if isinstance(e, str):
            continue
        ok = ok and (seen == bool(e))
    if default:
        ok = ok and ((default in out) == (not any_seen))
        rest = rest.replace(default, "", 1)
    return ok and rest == ""


def c12_k2_case_when(x: V, y: V, z: VS, xu: bool) -> bool:
    """
    pre: not isinstance(x, str) or len(x) <= 1
    pre: not isinstance(y, str) or len(y) <= 1
    post: _
    """
    if excluded("c12_k2_case_when", locals()):
        return True
    data = {"y": y}
    if not xu:
        data["x"] = x
    if z is not None:
        data["z"] = z  # nil z: the name is absent (undefined)
    ey = ref_eq(UNDEF if xu else x, y)
    ez = ref_eq(UNDEF if xu else x, UNDEF if z is None else z)
    eyz = DC if (isinstance(ey, str) or isinstance(ez, str)) else (ey or ez)
    ok = case_ok(rend(T_CASE2, data), [("A", ey), ("B", ez)], "C")
    ok = ok and case_ok(rend(T_CASE_COMMA, data), [("A", eyz)], "C")
    ok = ok and case_ok(rend(T_CASE_OR, data), [("A", eyz)], "C")
    ok = ok and case_ok(rend(T_CASE_NOELSE, data), [("A", ey)], "")
    return finish(ok)


CASE_LITS = [("N", "nil", None), ("T", "true", True), ("F", "false", False), ("0", "0", 0), ("1", "1", 1),
             ("a", "'a'", "a"), ("S", "''", ""), ("E", "empty", EMPTY), ("B", "blank", BLANK)]
T_CASE_LITS = STD.from_string("{% case x %}" + "".join("{% when " + s + " %}" + c for c, s, _ in CASE_LITS) + "{% else %}Z{% endcase %}")
T_CASE_REV = [(STD.from_string("{% case " + s + " %}{% when x %}A{% else %}Z{% endcase %}"), v) for _, s, v in CASE_LITS]


def case_lits(xv, data):
    ok = case_ok(rend(T_CASE_LITS, data), [(c, ref_eq(xv, v)) for c, _, v in CASE_LITS], "Z")
    for t, v in T_CASE_REV:
        ok = ok and case_ok(rend(t, data), [("A", ref_eq(v, xv))], "Z")
    return ok


def c12_k2_case_literals(x: V, xu: bool) -> bool:
    """
    pre: not isinstance(x, str) or (len(x) <= 2 and all(c in " \\ta1" for c in x))
    post: _
    """
    if excluded("c12_k2_case_literals", locals()):
        return True
    return finish(case_lits(UNDEF if xu else x, {} if xu else {"x": x}))


def c12_k2_case_literals_pool(num: bool, k: int, i: int, a: int, b: int) -> bool:
    """
    pre: 3 <= k <= 7 and 0 <= i <= 3 and -1 <= a <= 2 and -1 <= b <= 3
    post: _
    """
    if excluded("c12_k2_case_literals_pool", locals()):
        return True
    x = cv(2 if k < 6 else 3, i) if num else pv(k, i, a, b)
    return finish(case_lits(x, {"x": x}))


T_TERN = ENV.from_string("{{ 'P' if x else 'Q' }}|{{ 'P' if x }}|{% assign v = 'P' if x else 'Q' %}{{ v }}|{% echo 'P' if x else 'Q' %}|{{ 'P' if not x else 'Q' }}|{{ 'P' | downcase if x else 'Q' | append: '!' }}|{{ 'P' if x else 'Q' || append: '?' }}|{{ y if x else z }}")
T_TERN_CMP = ENV.from_string("{{ 'P' if x == y else 'Q' }}|{{ 'P' if x != y else 'Q' }}|{{ 'P' if x and y else 'Q' }}|{{ 'P' if x or y else 'Q' }}|{{ 'P' if x < y else 'Q' }}")


def c12_k2_ternary(x: V, xu: bool) -> bool:
    """
    pre: not isinstance(x, str) or len(x) <= 2
    post: _
    """
    if excluded("c12_k2_ternary", locals()):
        return True
    data = {"y": "Y", "z": "Z"}
    if not xu:
        data["x"] = x
    exp = "P|P|P|P|Q|p|P?|Y" if ref_truthy(UNDEF if xu else x) else "Q||Q|Q|P|Q!|Q?|Z"
    return finish(rend(T_TERN, data) == exp)


def c12_k2_ternary_cmp(x: V, y: V) -> bool:
    """
    pre: not isinstance(x, str) or len(x) <= 2
    pre: not isinstance(y, str) or len(y) <= 2
    post: _
    """
    if excluded("c12_k2_ternary_cmp", locals()):
        return True
    e = ref_eq(x, y)
    tx = ref_truthy(x)
    ty = ref_truthy(y)
    lt = ref_lt(x, y)
    out = rend(T_TERN_CMP, {"x": x, "y": y})
    if isinstance(lt, str):
        if lt == ERR:
            return finish(out == ERR)
        if out == ERR:
            return finish(True)
        out = out[:-1]  # ordering of this pair is not documented: drop the last cell
        exp = "%s|%s|%s|%s|" % ("P" if e else "Q", "Q" if e else "P", "P" if (tx and ty) else "Q", "P" if (tx or ty) else "Q")
        return finish(out == exp)
    exp = "%s|%s|%s|%s|%s" % ("P" if e else "Q", "Q" if e else "P", "P" if (tx and ty) else "Q", "P" if (tx or ty) else "Q", "P" if lt else "Q")
    return finish(out == exp)


T_RANGE = {op: cond1("(a..b) " + sym + " (c..d)") for op, sym in OPS.items()}
T_RANGE_X = {op: cond1("(a..b) " + sym + " x") for op, sym in OPS.items()}
T_X_RANGE = {op: cond1("x " + sym + " (a..b)") for op, sym in OPS.items()}
T_RANGE_TRUTH = cond3(STD, ENV, "(a..b)")
T_RANGE_SPECIAL = [(cond1("(a..b) == empty"), "eq", EMPTY), (cond1("empty != (a..b)"), "ne", EMPTY), (cond1("(a..b) == blank"), "eq", BLANK),
                   (cond1("(a..b) contains empty"), "contains", EMPTY), (cond1("(a..b) < empty"), "lt", EMPTY)]


def rng(a, b):
    return range(a, b + 1) if a <= b else range(0)


def c12_k2_range_range(a: int, b: int, c: int, d: int) -> bool:
    """
    pre: 0 <= a <= 1 and -1 <= b <= 2 and 0 <= c <= 1 and -1 <= d <= 2
    post: _
    """
    # range literals with symbolic bounds against each other, every operator
    if excluded("c12_k2_range_range", locals()):
        return True
    data = {"a": a, "b": b, "c": c, "d": d}
    l = rng(a, b)
    r = rng(c, d)
    ok = True
    for op in OPS:
        ok = ok and all_agree(T_RANGE[op], data, ref_op(op, l, r))
    return finish(ok)


def c12_k2_range_scalar(a: int, b: int, x: VS, xu: bool) -> bool:
    """
    pre: 0 <= a <= 1 and -1 <= b <= 2
    pre: x is None or -9 <= x <= 99
    post: _
    """
    # a range literal (left) against nil / undefined / bool / int (right), and against empty / blank
    if excluded("c12_k2_range_scalar", locals()):
        return True
    data = {"a": a, "b": b}
    if not xu:
        data["x"] = x
    xv = UNDEF if xu else x
    l = rng(a, b)
    ok = all_agree(T_RANGE_TRUTH, data, True)
    for op in OPS:
        e = ref_op(op, l, xv)
        if op == "contains" and isinstance(x, bool):
            e = DC
        ok = ok and all_agree(T_RANGE_X[op], data, e)
    for ts, op, val in T_RANGE_SPECIAL:
        ok = ok and all_agree(ts, data, ref_op(op, l, val))
    return finish(ok)


def c12_k2_scalar_range(a: int, b: int, x: VS, xu: bool) -> bool:
    """
    pre: 0 <= a <= 1 and -1 <= b <= 2
    pre: x is None or -9 <= x <= 99
    post: _
    """
    # nil / undefined / bool / int (left) against a range literal (right)
    if excluded("c12_k2_scalar_range", locals()):
        return True
    data = {"a": a, "b": b}
    if not xu:
        data["x"] = x
    xv = UNDEF if xu else x
    l = rng(a, b)
    ok = True
    for op in OPS:
        ok = ok and all_agree(T_X_RANGE[op], data, ref_op(op, xv, l))
    return finish(ok)


CONDITIONS += [
    {"fn": "c12_k2_literal_eq", "quick": 40, "thorough": 150},
    {"fn": "c12_k2_literal_order", "quick": 40, "thorough": 150},
    {"fn": "c12_k2_literal_pool_eq", "quick": 40, "thorough": 150},
    {"fn": "c12_k2_literal_pool_order", "quick": None, "thorough": 200},
    {"fn": "c12_k2_literal_numpool", "quick": 30, "thorough": 90, "sel_only": True},
    {"fn": "c12_k2_literal_truth", "quick": 20, "thorough": 30, "sel_only": True},
    {"fn": "c12_k2_truthy_scalar", "quick": 30, "thorough": 60},
    {"fn": "c12_k2_truthy_pool", "quick": 30, "thorough": 90},
    {"fn": "c12_k2_elsif_chain", "quick": 40, "thorough": 150},
    {"fn": "c12_k2_case_when", "quick": 40, "thorough": 200},
    {"fn": "c12_k2_case_literals", "quick": 40, "thorough": 150},
    {"fn": "c12_k2_case_literals_pool", "quick": 40, "thorough": 150},
    {"fn": "c12_k2_ternary", "quick": 30, "thorough": 90},
    {"fn": "c12_k2_ternary_cmp", "quick": 40, "thorough": 150},
    {"fn": "c12_k2_range_range", "quick": 40, "thorough": 200},
    {"fn": "c12_k2_range_scalar", "quick": 40, "thorough": 200},
    {"fn": "c12_k2_scalar_range", "quick": 40, "thorough": 200},
]

# ---------------------------------------------------------------------------
# K3 connectives
# ---------------------------------------------------------------------------
# Trees: a leaf name | ("and"|"or", L, R) | ("not", T). Leaves appear once, in the order a, b, c, d.


def trees(names):
    if len(names) == 1:
        yield names[0]
        return
    for i in range(1, len(names)):
        for lt in trees(names[:i]):
            for rt in trees(names[i:]):
                yield ("and", lt, rt)
                yield ("or", lt, rt)


def with_one_not(t):
    """Every way to negate exactly one node of t."""
    yield ("not", t)
    if isinstance(t, tuple) and t[0] != "not":
        for x in with_one_not(t[1]):
            yield (t[0], x, t[2])
        for x in with_one_not(t[2]):
            yield (t[0], t[1], x)


def src(t, explicit=False, leaf=None):
    """Source text of a tree. Minimal: parentheses only where the grammar needs them, i.e. around a
    binary LEFT operand and a binary operand of `not` (a binary RIGHT operand relies on grouping from
    the right, a negated LEFT operand on `not` binding tighter than and/or). explicit: every binary
    or negated operand is parenthesised."""
    if isinstance(t, str):
        return leaf[t] if leaf else t
    if t[0] == "not":
        x = t[1]
        inner = src(x, explicit, leaf)
        if isinstance(x, tuple) and (x[0] != "not" or explicit):
            inner = "(" + inner + ")"
        return "not " + inner
    lt, rt = t[1], t[2]
    ls = src(lt, explicit, leaf)
    rs = src(rt, explicit, leaf)
    if isinstance(lt, tuple) and (lt[0] != "not" or explicit):
        ls = "(" + ls + ")"
    if isinstance(rt, tuple) and explicit:
        rs = "(" + rs + ")"
    return ls + " " + t[0] + " " + rs


def depth(t):
    if isinstance(t, str):
        return 0
    if t[0] == "not":
        return 1 + depth(t[1])
    return 1 + max(depth(t[1]), depth(t[2]))


CMP_TOKENS = ("==", "!=", "<>", "<", ">", "<=", ">=", "contains")


def ref_parse(text):
    """Independent reference parser over the token string:
         expr  := unary [ ("and" | "or") expr ]          equal precedence, grouping from the right
         unary := "not" unary | prim [ CMP prim ]          `not` binds tighter than and/or, looser than comparisons
         prim  := "(" expr ")" | NAME | INT
    """
    toks = text.replace("(", " ( ").replace(")", " ) ").split()
    pos = [0]

    def peek():
        return toks[pos[0]] if pos[0] < len(toks) else None

    def take():
        pos[0] += 1
        return toks[pos[0] - 1]

    def expr():
        left = unary()
        if peek() in ("and", "or"):
            op = take()
            return (op, left, expr())
        return left

    def unary():
        if peek() == "not":
            take()
            return ("not", unary())
        left = prim()
        if peek() in CMP_TOKENS:
            op = take()
            return ("cmp", op, left, prim())
        return left

    def prim():
        t = take()
        if t == "(":
            e = expr()
            if take() != ")":
                raise ValueError("unbalanced")
            return e
        return t

    e = expr()
    if pos[0] != len(toks):
        raise ValueError("trailing tokens")
    return e


CMP_NAMES = {"==": "eq", "!=": "ne", "<>": "lg", "<": "lt", ">": "gt", "<=": "le", ">=": "ge", "contains": "contains"}


def ref_value(t, vals):
    """Operand value of a reference tree (leaf: the variable's value; connectives give booleans)."""
    if isinstance(t, str):
        if t.lstrip("-").isdigit():
            return int(t)
        return vals[t]
    if t[0] == "not":
        return not ref_truth(t[1], vals)
    if t[0] == "and":
        l = ref_truth(t[1], vals)
        r = ref_truth(t[2], vals)
        return l and r
    if t[0] == "or":
        l = ref_truth(t[1], vals)
        r = ref_truth(t[2], vals)
        return l or r
    e = ref_op(CMP_NAMES[t[1]], ref_value(t[2], vals), ref_value(t[3], vals))
    if isinstance(e, str):
        raise ValueError("reference verdict %s inside a connective" % e)
    return e


def ref_truth(t, vals):
    return bool(ref_truthy(ref_value(t, vals)))


def family(names, explicit, negate, maxdepth):
    out = []
    seen = set()
    for n in range(1, len(names) + 1):
        for t in trees(names[:n]):
            cands = with_one_not(t) if negate else [t]
            for c in cands:
                if depth(c) > maxdepth:
                    continue
                text = src(c, explicit)
                if text not in seen:
                    seen.add(text)
                    out.append(text)
    return out


NAMES = ("a", "b", "c", "d")
# and/or with minimal parentheses (every tree over <= 4 leaves); the same with every operand parenthesised
F_ANDOR3 = family(NAMES[:3], False, False, 3)
F_ANDOR4 = [x for x in family(NAMES, False, False, 4) if x not in F_ANDOR3]
F_PAREN3 = [x for x in family(NAMES[:3], True, False, 3) if x not in F_ANDOR3]
F_PAREN4 = [x for x in family(NAMES, True, False, 4) if x not in F_ANDOR3 + F_ANDOR4 + F_PAREN3]
# one `not` on any node. "bare": `not` directly in front of a left operand without parentheses
F_NOT_EXPL3 = family(NAMES[:3], True, True, 3)
F_NOT_EXPL4 = [x for x in family(NAMES, True, True, 4) if x not in F_NOT_EXPL3]
F_NOT_MIN3 = [x for x in family(NAMES[:3], False, True, 3) if x not in F_NOT_EXPL3]
F_NOT_MIN4 = [x for x in family(NAMES, False, True, 4) if x not in F_NOT_EXPL3 + F_NOT_EXPL4 + F_NOT_MIN3]
F_NOT_MORE = ["not not a", "not not not a", "not a and not b", "not a or not b and not c", "not (not a and b)", "(not not a) or b",
              "not (a or not b) and c", "not a and not b or not c and not d", "a and not not b", "not (not (a or b) and not (c and d))"]


def nnot_first(text):
    """True when some `not` operand is followed, inside the same parenthesis level, by and/or: the
    source then relies on `not` binding tighter than and/or."""
    toks = text.replace("(", " ( ").replace(")", " ) ").split()
    lvl = 0
    pending = []  # levels at which a `not` operand is being read
    for tk in toks:
        if tk == "(":
            lvl += 1
        elif tk == ")":
            pending = [p for p in pending if p < lvl]
            lvl -= 1
        elif tk == "not":
            pending.append(lvl)
        elif tk in ("and", "or") and lvl in pending:
            return True
    return False


def compile_family(texts, env=None, tag="if"):
    env = env or ENV
    out = []
    for text in texts:
        if tag == "if":
            t = env.from_string("{% if " + text + " %}T{% else %}F{% endif %}")
        elif tag == "unless":
            t = env.from_string("{% unless " + text + " %}F{% else %}T{% endunless %}")
        elif tag == "elsif":
            t = env.from_string("{% if nosuch %}X{% elsif " + text + " %}T{% else %}F{% endif %}")
        else:
            t = env.from_string("{{ 'T' if " + text + " else 'F' }}")
        out.append((text, t, ref_parse(text)))
    return out


def run_family(fam, data, vals):
    ok = True
    for _text, t, tree in fam:
        exp = "T" if ref_truth(tree, vals) else "F"
        ok = ok and rend(t, data) == exp
    return ok


def family_detail(fam, data, vals):
    bad = []
    for text, t, tree in fam:
        exp = "T" if ref_truth(tree, vals) else "F"
        got = rend(t, data)
        if got != exp:
            bad.append((text, "expected " + exp, "rendered " + got, "liquid parsed it as: " + str(t.nodes[0].condition) if hasattr(t.nodes[0], "condition") else ""))
    return bad[:6]


K3 = {}      # name -> compiled family
DETAIL = {}


def _mk_bool(name, fam):
    K3[name] = fam

    def f(a: bool, b: bool, c: bool, d: bool) -> bool:
        """
        post: _
        """
        if excluded("c12_k3_" + name, locals()):
            return True
        vals = {"a": a, "b": b, "c": c, "d": d}
        return finish(run_family(fam, vals, vals))

    def det(a, b, c, d):
        vals = {"a": a, "b": b, "c": c, "d": d}
        return family_detail(fam, vals, vals)
    f.__name__ = f.__qualname__ = "c12_k3_" + name
    DETAIL["c12_k3_" + name] = det
    return f


def _mk_mixed(name, fam):
    K3[name] = fam

    def f(a: VS, b: VS, c: VS, d: bool, au: bool) -> bool:
        """
        post: _
        """
        # leaves a, b, c are nil / false / true / any integer (0 is truthy); `a` may also be absent from the data
        if excluded("c12_k3_" + name, locals()):
            return True
        vals = {"a": UNDEF if au else a, "b": b, "c": c, "d": d}
        data = {"b": b, "c": c, "d": d}
        if not au:
            data["a"] = a
        return finish(run_family(fam, data, vals))

    def det(a, b, c, d, au):
        vals = {"a": UNDEF if au else a, "b": b, "c": c, "d": d}
        data = dict(vals)
        if au:
            del data["a"]
        return family_detail(fam, data, vals)
    f.__name__ = f.__qualname__ = "c12_k3_" + name
    DETAIL["c12_k3_" + name] = det
    return f


def _add(name, maker, fam, quick, thorough):
    globals()["c12_k3_" + name] = maker(name, fam)
    CONDITIONS.append({"fn": "c12_k3_" + name, "quick": quick, "thorough": thorough})


F_EXTRA = ["(a)", "((a))", "(a and b)", "(a or b and c)", "((a or b) and c)", "((a or b)) and c", "a and (b) or c", "(a) or (b) and (c)",
           "((a and b) or c) and d", "(a or (b and c)) and d", "a and ((b or c) and d)", "(a or b) and (c or d)", "((a or b) and (c or d))"]
F_CHAIN3 = [x for x in F_ANDOR3 if "(" not in x]   # what the default environment accepts: no parentheses, no `not`
F_CHAIN4 = [x for x in F_ANDOR4 if "(" not in x]
F_NOT_SAFE3 = [x for x in F_NOT_MIN3 + F_NOT_MORE if not nnot_first(x)]
F_NOT_SAFE4 = [x for x in F_NOT_MIN4 if not nnot_first(x)]
F_NOT_BARE3 = [x for x in F_NOT_MIN3 + F_NOT_MORE if nnot_first(x)]
F_NOT_BARE4 = [x for x in F_NOT_MIN4 if nnot_first(x)]

_add("andor_d3", _mk_bool, compile_family(F_ANDOR3 + F_PAREN3 + F_EXTRA), 40, 120)
_add("andor_d4", _mk_bool, compile_family(F_ANDOR4 + F_PAREN4), None, 300)
_add("chain_std", _mk_bool, compile_family(F_CHAIN3 + F_CHAIN4, STD), 30, 90)
_add("chain_std_mixed", _mk_mixed, compile_family(F_CHAIN3 + F_CHAIN4, STD), None, 400)
_add("andor_mixed_d3", _mk_mixed, compile_family(F_ANDOR3), 40, 150)
_add("andor_mixed_d4", _mk_mixed, compile_family(F_ANDOR4), None, 400)
_add("andor_tags_d3", _mk_bool, compile_family(F_CHAIN3, STD, "unless") + compile_family(F_CHAIN3, STD, "elsif") + compile_family(F_ANDOR3, ENV, "ternary"), 40, 120)
_add("andor_tags_d4", _mk_bool, compile_family(F_CHAIN4, STD, "unless") + compile_family(F_CHAIN4, STD, "elsif") + compile_family(F_ANDOR4 + F_PAREN3, ENV, "ternary")
     + compile_family(F_ANDOR4, ENV, "unless"), None, 300)
_add("not_explicit_d3", _mk_bool, compile_family(F_NOT_EXPL3), 40, 150)
_add("not_explicit_d4", _mk_bool, compile_family(F_NOT_EXPL4), None, 400)
_add("not_safe_d3", _mk_bool, compile_family(F_NOT_SAFE3), 40, 120)
_add("not_safe_d4", _mk_bool, compile_family(F_NOT_SAFE4), None, 300)
_add("not_mixed", _mk_mixed, compile_family(F_NOT_SAFE3 + F_NOT_EXPL3[:20]), None, 300)
# The precedence of a bare `not` relative to and/or is fixed neither by the property statement nor by the
# documentation ("not a and b"); the families F_NOT_BARE3/4 are therefore not registered (don't-care).
# The str()/re-parse disagreement that this precedence causes is C04's business.

LEAF_CMP = {"a": "a == 1", "b": "b < 2", "c": "c != d", "d": "0 >= d"}
F_CMP = [src(t, False, LEAF_CMP) for n in (1, 2, 3, 4) for t in trees(NAMES[:n])][:19]
F_CMP_MORE = [src(t, False, LEAF_CMP) for t in trees(NAMES)][8:] + [src(t, True, LEAF_CMP) for t in trees(NAMES[:3])][3:]
F_CMP += ["not a == 1", "not (a == 1)", "a == 1 and not b < 2", "c != d and not (a == 1 or b < 2)", "a == 1 or not c != d", "not not 0 >= d"]


def _mk_cmp(name, fam):
    K3[name] = fam

    def f(a: int, b: int, c: int, d: int) -> bool:
        """
        post: _
        """
        # comparisons bind tighter than and/or/not: leaves are comparisons of symbolic integers
        if excluded("c12_k3_" + name, locals()):
            return True
        vals = {"a": a, "b": b, "c": c, "d": d}
        return finish(run_family(fam, vals, vals))

    def det(a, b, c, d):
        vals = {"a": a, "b": b, "c": c, "d": d}
        return family_detail(fam, vals, vals)
    f.__name__ = f.__qualname__ = "c12_k3_" + name
    DETAIL["c12_k3_" + name] = det
    return f


_add("cmp_leaves", _mk_cmp, compile_family(F_CMP), 40, 150)
# every comparison operator in every leaf position of the and/or trees over three leaves (all of them bind tighter than and/or)
for _opn, _ops in (("eq", "=="), ("ne", "!="), ("lg", "<>"), ("lt", "<"), ("gt", ">"), ("le", "<="), ("ge", ">=")):
    _leaf = {"a": "a %s 1" % _ops, "b": "2 %s b" % _ops, "c": "c %s d" % _ops}
    _fam = [src(t, False, _leaf) for n in (2, 3) for t in trees(NAMES[:n])] + ["a %s 1 or not c %s d" % (_ops, _ops), "not (a %s 1 and 2 %s b)" % (_ops, _ops)]
    _add("cmp_op_" + _opn, _mk_cmp, compile_family(_fam), 30, 90)
_add("cmp_leaves_d4", _mk_cmp, compile_family(F_CMP_MORE), None, 300)

# ---------------------------------------------------------------------------
# the two `contains` findings again through templates
# ---------------------------------------------------------------------------
T_CONTAINS = cond3(STD, ENV, "l contains r")


def c12_k2_contains_member_bool(n: int, r: bool) -> bool:
    """
    pre: 0 <= n <= 3
    post: _
    """
    # {% if xs contains true %} for an array of integers: true is not 1 (and false is not 0)
    if excluded("c12_k2_contains_member_bool", locals()):
        return True
    l = list(range(n))
    return finish(all_agree(T_CONTAINS, {"l": l, "r": r}, ref_contains(l, r, strict_bool=True)))


def c12_k2_contains_hash_any(i: int, rk: int, ri: int) -> bool:
    """
    pre: 0 <= i <= 2 and 0 <= rk <= 1 and 0 <= ri <= 2
    post: _
    """
    # {% if hash contains array-or-hash %}: false or a Liquid error, never a Python TypeError
    if excluded("c12_k2_contains_hash_any", locals()):
        return True
    l = pv(3, i, 0, 0)
    r = pv(4, ri, 0, 0) if rk == 0 else pv(3, ri, 0, 0)
    return finish(all_agree(T_CONTAINS, {"l": l, "r": r}, ref_contains(l, r, hash_any=True)))


CONDITIONS += [
    {"fn": "c12_k2_contains_hash_any", "quick": 30, "thorough": 60, "sel_only": True},
]


def _d_member(n, a, b, r, rng):
    l = range(a, b) if rng else list(range(n))
    return {"call": "_contains(token, %r, %r)" % (l, r), "observed": obs(lambda: _contains(TOK, l, r)), "expected": ref_contains(l, r, strict_bool=True)}


def _d_hash(i, rk, ri):
    l = pv(3, i, 0, 0)
    r = pv(4, ri, 0, 0) if rk == 0 else pv(3, ri, 0, 0) if rk == 1 else EMPTY if rk == 2 else BLANK
    return {"call": "_contains(token, %r, %r)" % (l, r), "observed": obs(lambda: _contains(TOK, l, r)), "expected": "False (or LiquidTypeError)"}


DETAIL["c12_k1_contains_member_bool"] = _d_member
DETAIL["c12_k1_contains_hash_any"] = _d_hash
DETAIL["c12_k2_contains_member_bool"] = lambda n, r: {"template": "{% if l contains r %}", "l": list(range(n)), "r": r,
                                                     "rendered": [rend(t, {"l": list(range(n)), "r": r}) for t in T_CONTAINS], "expected": "F"}
DETAIL["c12_k2_contains_hash_any"] = lambda i, rk, ri: {"template": "{% if l contains r %}", "l": pv(3, i, 0, 0), "r": pv(4, ri, 0, 0) if rk == 0 else pv(3, ri, 0, 0),
                                                       "rendered": [rend(t, {"l": pv(3, i, 0, 0), "r": pv(4, ri, 0, 0) if rk == 0 else pv(3, ri, 0, 0)}) for t in T_CONTAINS],
                                                       "expected": "F (or LiquidTypeError)"}


# ---- a parenthesised and/or group used as an operand of a comparison is a boolean like any other: the same comparison with
# the group's value assigned to a variable first gives the same branch --------------------------------------------------------
G_VALUES = [None, False, True, 0, 1, 2, "", "x", "true", [], [1], {}, {"a": 1}, 1.0]
G_OPS = ["==", "!=", "<>", "<", ">", "<=", ">=", "contains"]
G_FORMS = ["(L or r)", "(L and r)", "(r or L)", "(r and L)", "(not r or L)", "(L or (r and r))"]
_G_T = {}


def group_operand_sweep(fi, oi, side):
    bad = []
    for lit in ("false", "true", "nosuch"):
        group = G_FORMS[fi].replace("L", lit)
        inner = group[1:-1]
        cmp_ = ("%s %s v" if side == 0 else "v %s %s").replace("%s %s v", group + " " + G_OPS[oi] + " v") if side == 0 else "v " + G_OPS[oi] + " " + group
        ref = ("g " + G_OPS[oi] + " v") if side == 0 else ("v " + G_OPS[oi] + " g")
        key = (cmp_, ref, inner)
        if key not in _G_T:
            try:
                _G_T[key] = (ENV.from_string("{% if " + cmp_ + " %}T{% else %}F{% endif %}|{% unless " + cmp_ + " %}T{% else %}F{% endunless %}|{{ 'T' if " + cmp_ + " else 'F' }}"),
                             ENV.from_string("{% assign g = false %}{% if " + inner + " %}{% assign g = true %}{% endif %}{% if " + ref + " %}T{% else %}F{% endif %}|"
                                             "{% unless " + ref + " %}T{% else %}F{% endunless %}|{{ 'T' if " + ref + " else 'F' }}"))
            except LiquidError:
                _G_T[key] = None
        if _G_T[key] is None:
            continue
        t, tref = _G_T[key]
        for r in G_VALUES:
            for v in G_VALUES:
                outs = []
                for tt in (t, tref):
                    try:
                        outs.append(tt.render(r=r, v=v))
                    except LiquidError as e:
                        outs.append("ERR:" + type(e).__name__)
                if outs[0] != outs[1]:
                    bad.append({"condition": cmp_, "r": repr(r), "v": repr(v), "observed": outs[0], "with the group's value in a variable": outs[1]})
                    if len(bad) > 2:
                        return bad
    return bad


def c12_group_as_operand(fi: int, oi: int, side: int) -> bool:
    """
    pre: 0 <= fi <= 5 and 0 <= oi <= 7 and 0 <= side <= 1
    post: _
    """
    if excluded("c12_group_as_operand", locals()):
        return True
    from vf.hx import cint, untraced
    fi, oi, side = cint(fi, 0, 5), cint(oi, 0, 7), cint(side, 0, 1)
    return finish(untraced(lambda: not group_operand_sweep(fi, oi, side)))


DETAIL["c12_group_as_operand"] = lambda fi, oi, side: {"failing": group_operand_sweep(fi, oi, side)}
CONDITIONS.append({"fn": "c12_group_as_operand", "quick": 60, "thorough": 120, "sel_only": True,
                   "bounds": "6 group shapes x 3 literals x 8 comparison operators x both sides x 14 x 14 values; if / unless / ternary"})

ASSUMPTIONS = [
    "template sources are concrete skeletons generated at import (operators, literals, and/or/not/parenthesis shapes); operand values and render data are symbolic",
    "reference table: only false/nil/undefined are falsy; == is by value within a kind (nil, bool, number, string, array, hash, range) and false across kinds (true != 1); "
    "empty == ''/[]/{} ; blank == '' / whitespace-only string / [] / {} ; numbers are neither empty nor blank; < > on number/number and string/string, "
    "LiquidTypeError on two different kinds; contains = substring (integers stringified) / array membership by Liquid equality / hash key / integer in range; nil or undefined on either side of contains gives false",
    "rows the documentation does not fix are don't-care but must still yield a boolean or LiquidTypeError: booleans, undefined, empty and blank in ordering comparisons; "
    "ordering of two values of the same non-orderable kind; nil/undefined/bool/range == empty/blank; undefined == nil; array == range; two empty ranges; "
    "contains with a non-collection left operand, with `false`, float/Decimal, empty/blank on the right; truthiness of the empty/blank literals; NaN",
    "case/when: a matching when block is rendered at least once (the number of times is not documented), else iff no when matched",
    "`not` binds tighter than and/or and looser than comparisons (PRECEDENCES table and BooleanExpression.__str__ of logical.py); conditions whose sources depend on this are named c12_k3_not_binds_tighter*",
    "strings of symbolic content have length <= 2-3; blank strings over the alphabet {space, tab, newline, 'a', '1'}; integers that get stringified are bounded to -9..99",
]
OUTSIDE = [
    "float and Decimal operands other than the pools (0.0, 1.0, 1.5, -2.5 / 0, 1, 1.5, -2), except c12_k1_num_float (float-dependent, never reported confirmed)",
    "arrays of non-integers, nested arrays, hashes other than {}, {'a': 1}, {'a': 1, '1': 2}, ranges outside -1..3",
    "drops with __liquid__ / __eq__ / __contains__, StrictUndefined and other Undefined subclasses, markup-safe strings (autoescape)",
    "non-ASCII whitespace in blank comparisons; strings longer than 3",
    "and/or/not trees with more than 4 leaves or more than one `not` per tree (a few hand-written extras aside)",
    "async rendering (property C01 covers sync/async agreement)",
]


def selftest():
    """Oracle against cases fixed by the documentation and the repository's own tests."""
    fails = []
    # docs/tag_reference.md "Operator precedence"
    doc = "true and false and false or true"
    tree = ref_parse(doc.replace("true", "t").replace("false", "f"))
    if tree != ("and", "t", ("and", "f", ("or", "f", "t"))):
        fails.append("reference parser does not group from the right: %r" % (tree,))
    if ref_truth(tree, {"t": True, "f": False}) is not False:
        fails.append("reference evaluator: documented example must be false")
    if STD.from_string("{% if " + doc + " %}T{% else %}F{% endif %}").render() != "F":
        fails.append("real code disagrees with the documented precedence example")
    # the generator and the reference parser are inverse to each other (minimal and explicit sources)
    for n in (1, 2, 3, 4):
        for t in trees(NAMES[:n]):
            for c in [t] + list(with_one_not(t)):
                for ex in (False, True):
                    if ref_parse(src(c, ex)) != c:
                        fails.append("ref_parse(src(t)) != t for %r" % (src(c, ex),))
    if not nnot_first("not a and b") or nnot_first("a and not b") or nnot_first("(not a) and b") or not nnot_first("not (a or b) and c"):
        fails.append("nnot_first classification")
    # tests/test_render_extra.py RenderIfNotTagTestCase, tests/test_undefined.py, docs "only false, nil/null and undefined are falsy"
    cases = [("{% if not false %}foo{% endif %}", {}, "foo"), ("{% if not '' == empty %}foo{% endif %}", {}, ""),
             ("{% if not foo contains 'z' %}bar{% endif %}", {"foo": ["a", "b", "c"]}, "bar"),
             ("{% if not foo != true %}hello{% endif %}", {"foo": True}, "hello"),
             ("{% if nosuchthing contains 'hello' %}hello{% endif %}", {}, ""), ("{{ 'hello' if false else 'goodbye' }}", {}, "goodbye"),
             ("{% if x %}T{% else %}F{% endif %}", {"x": 0}, "T"), ("{% if x %}T{% else %}F{% endif %}", {"x": ""}, "T")]
    for text, data, exp in cases:
        if ENV.from_string(text).render(**data) != exp:
            fails.append("repo-tested case changed: %s" % text)
    rows = [(ref_eq("", EMPTY), True), (ref_eq(" ", BLANK), True), (ref_eq("a", BLANK), False), (ref_eq(True, 1), False), (ref_eq(1, 1.0), True),
            (ref_eq(None, None), True), (ref_eq("1", 1), False), (ref_lt(1, 2), True), (ref_lt("a", "b"), True), (ref_lt(1, "a"), ERR), (ref_lt(None, 1), ERR),
            (ref_le(2, 2), True), (ref_contains("hello", "ell"), True), (ref_contains([0, 1], 1), True), (ref_contains({"a": 1}, "a"), True),
            (ref_contains(None, "a"), False), (ref_contains(range(1, 4), 3), True), (ref_truthy(0), True), (ref_truthy(""), True), (ref_truthy([]), True),
            (ref_truthy(None), False), (ref_truthy(UNDEF), False), (ref_contains([0, 1], True, strict_bool=True), False)]
    for n, (got, exp) in enumerate(rows):
        if got is not exp and got != exp:
            fails.append("reference table row %d: %r != %r" % (n, got, exp))
    return fails

