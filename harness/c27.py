"""C27 Macro calls and with blocks bind arguments as documented.

Real code executed symbolically: whole renders of pre-parsed skeleton templates
through MacroNode.render_to_output, CallNode.render_to_output / macro_args,
RenderContext.copy, WithNode.render_to_output and RenderContext.extend (the
argument parsers Parameter.parse / parse_arguments / KeywordArgument.parse run at
import on the concrete skeleton sources). CallNode.macro_args is also called
directly on the parsed nodes and its BoundArgs compared with the reference.

Skeleton family (generated at import): macro signatures with 0..3 parameters,
each with or without a default, called with 0..4 positional and 0..3 keyword
arguments whose names match a parameter, match none or repeat, in the orders
positional-first, keyword-first and interleaved. Every default, argument and
same-named template global is a distinct render variable bound to a symbolic
int; the macro body prints every parameter, `args` and the `kwargs` entries, and
the caller prints the parameter names after the call. One condition per
signature (and per tier), the call shape is a selector.

Oracle: a reference binder (positional in order, surplus to args; then keywords
by name, surplus to kwargs; then defaults; else undefined, which prints as the
empty string, also when a template global of that name exists). For repeated
keyword names the docs are silent: first-wins and last-wins are both accepted.
"""
import itertools
from typing import Optional

from crosshair.tracers import NoTracing
from liquid import DictLoader, Environment, Mode
from liquid.exceptions import LiquidError
from liquid.extra.tags.macro_tag import CallNode, Macro, MacroNode

from vf.hx import drive, excluded, finish

PROPERTY = "C27"
ENV = Environment(extra=True)
DETAIL = {}
CONDITIONS = []

KW_TAIL = "A:{{ args | join: ',' }}|K:{% for kv in kwargs %}{{ kv[0] }}={{ kv[1] }};{% endfor %}"
AFTER = "#{{ p0 }},{{ p1 }},{{ p2 }}"


def pick(n, i):
    """Concrete int equal to the symbolic selector i in range(n) (bisection)."""
    lo = 0
    hi = n - 1
    while lo < hi:
        mid = (lo + hi) // 2
        if i <= mid:
            hi = mid
        else:
            lo = mid + 1
    return lo


def render(t, data, asy=False):
    try:
        if asy:
            return drive(t.render_async(**data))
        return t.render(**data)
    except LiquidError as e:
        return "ERR:" + type(e).__name__
    except Exception as e:
        return "EXC:" + type(e).__name__


# ---------------------------------------------------------------------------
# reference binder
# ---------------------------------------------------------------------------
def ref_bind(params, defaults, pos, kws, last_wins):
    """params: parameter names in order; defaults: name -> value or None;
    pos: positional values; kws: (name, value) pairs in call order.
    Returns (bound: name -> value or None for undefined, args, kwargs pairs)."""
    bound = {}
    for p in params:
        bound[p] = defaults.get(p)
    extra = []
    for i in range(len(pos)):
        if i < len(params):
            bound[params[i]] = pos[i]
        else:
            extra.append(pos[i])
    kw = {}
    seen = []
    for name, val in kws:
        if name in seen and not last_wins:
            continue
        seen.append(name)
        if name in bound:
            bound[name] = val
        else:
            kw[name] = val
    return bound, extra, list(kw.items())


def ref_output(params, bound, extra, kw, after):
    s = ""
    for p in params:
        s = s + ("" if bound[p] is None else str(bound[p])) + "|"
    s = s + "A:"
    for i in range(len(extra)):
        s = s + ("," if i else "") + str(extra[i])
    s = s + "|K:"
    for name, val in kw:
        s = s + name + "=" + str(val) + ";"
    s = s + "#" + str(after[0]) + "," + str(after[1]) + "," + str(after[2])
    return s


# ---------------------------------------------------------------------------
# skeleton family
# ---------------------------------------------------------------------------
SIGS = []
for _n in range(4):
    for _sig in itertools.product((False, True), repeat=_n):
        SIGS.append(_sig)


def sig_code(sig):
    return "".join("d" if d else "n" for d in sig) or "none"


def kw_lists(nparams, length):
    """Keyword name lists of one length over the parameter names plus the
    non-matching names x, y (y only after an x: x and y are interchangeable)."""
    pool = ["p%d" % i for i in range(nparams)] + ["x", "y"]
    out = []
    for names in itertools.product(pool, repeat=length):
        ok = True
        seen_x = False
        for nm in names:
            if nm == "y" and not seen_x:
                ok = False
            if nm == "x":
                seen_x = True
        if ok:
            out.append(names)
    return out


def arg_list(npos, kwnames, order):
    pos = ["a%d" % i for i in range(npos)]
    kws = ["%s: k%d" % (kwnames[j], j) for j in range(len(kwnames))]
    if order == "pk":
        return pos + kws
    if order == "kp":
        return kws + pos
    out = []  # interleaved, keyword first
    for i in range(max(len(pos), len(kws))):
        if i < len(kws):
            out.append(kws[i])
        if i < len(pos):
            out.append(pos[i])
    return out


def skel_source(sig, npos, kwnames, order):
    params = ", ".join(("p%d: d%d" % (i, i)) if sig[i] else ("p%d" % i) for i in range(len(sig)))
    body = "".join("{{ p%d }}|" % i for i in range(len(sig))) + KW_TAIL
    args = ", ".join(arg_list(npos, kwnames, order))
    return ("{% macro m" + (" " + params if params else "") + " %}" + body + "{% endmacro %}"
            + "{% call m" + (" " + args if args else "") + " %}" + AFTER)


class Skel:
    def __init__(self, sig, npos, kwnames, order):
        self.sig = sig
        self.npos = npos
        self.kwnames = kwnames
        self.order = order
        self.source = skel_source(sig, npos, kwnames, order)
        self.params = ["p%d" % i for i in range(len(sig))]
        self.template = None
        self.macro_node = None
        self.call_node = None

    def parse(self):
        """Parse the concrete source on first use (the family is too large to parse
        at every import); untraced: nothing symbolic is involved."""
        if self.template is None:
            with NoTracing():
                t = ENV.from_string(self.source)
                self.macro_node = [n for n in t.nodes if isinstance(n, MacroNode)][0]
                self.call_node = [n for n in t.nodes if isinstance(n, CallNode)][0]
                self.template = t
        return self


def calls(sig, lengths, orders):
    out = []
    for npos in range(5):
        for ln in lengths:
            for names in kw_lists(len(sig), ln):
                for order in orders:
                    if order != "pk" and (npos == 0 or ln == 0):
                        continue  # same source as "pk"
                    if order == "mix" and npos <= 1 and ln <= 1:
                        continue  # same source as "kp"
                    out.append(Skel(sig, npos, names, order))
    return out


def skel_case(sk, d, a, k, g):
    """(observed, expected last-wins, expected first-wins) for one skeleton."""
    data = {}
    defaults = {}
    for i in range(len(sk.sig)):
        if sk.sig[i]:
            data["d%d" % i] = d[i]
            defaults["p%d" % i] = d[i]
    for i in range(3):
        data["p%d" % i] = g[i]
    pos = []
    for i in range(sk.npos):
        data["a%d" % i] = a[i]
        pos.append(a[i])
    kws = []
    for j in range(len(sk.kwnames)):
        data["k%d" % j] = k[j]
        kws.append((sk.kwnames[j], k[j]))
    out = render(sk.parse().template, data)
    exp = []
    for last in (True, False):
        bound, extra, kw = ref_bind(sk.params, defaults, pos, kws, last)
        exp.append(ref_output(sk.params, bound, extra, kw, g))
    return out, exp[0], exp[1]


def direct_ok(sk):
    """CallNode.macro_args on the parsed nodes against the reference binder, by
    the variable names of the bound expressions (everything concrete)."""
    sk.parse()
    ba = sk.call_node.macro_args(Macro(args=sk.macro_node.args, block=sk.macro_node.block))
    defaults = {"p%d" % i: "d%d" % i for i in range(len(sk.sig)) if sk.sig[i]}
    pos = ["a%d" % i for i in range(sk.npos)]
    kws = [(sk.kwnames[j], "k%d" % j) for j in range(len(sk.kwnames))]
    got_bound = {n: (None if e is None else str(e)) for n, e in ba.args.items()}
    got = (got_bound, [str(e) for e in ba.excess_args], [(n, str(e)) for n, e in ba.excess_kwargs.items()])
    for last in (True, False):
        bound, extra, kw = ref_bind(sk.params, defaults, pos, kws, last)
        if got == (bound, extra, kw) and list(got_bound) == sk.params:
            return True
    return False


def _mk_call(name, skels):
    def f(ci: int, d0: int, d1: int, d2: int, a0: int, a1: int, a2: int, a3: int,
          k0: int, k1: int, k2: int, g0: int, g1: int, g2: int) -> bool:
        """
        pre: 0 <= ci
        pre: 0 <= d0 <= 9 and 0 <= d1 <= 9 and 0 <= d2 <= 9
        pre: 0 <= a0 <= 9 and 0 <= a1 <= 9 and 0 <= a2 <= 9 and 0 <= a3 <= 9
        pre: 0 <= k0 <= 9 and 0 <= k1 <= 9 and 0 <= k2 <= 9
        pre: 0 <= g0 <= 9 and 0 <= g1 <= 9 and 0 <= g2 <= 9
        post: _
        """
        if excluded(name, locals()):
            return True
        if ci >= len(skels):
            return True
        sk = skels[pick(len(skels), ci)]
        out, e_last, e_first = skel_case(sk, (d0, d1, d2), (a0, a1, a2, a3), (k0, k1, k2), (g0, g1, g2))
        return finish((out == e_last or out == e_first) and direct_ok(sk))

    def detail(ci, d0, d1, d2, a0, a1, a2, a3, k0, k1, k2, g0, g1, g2):
        sk = skels[ci]
        out, e_last, e_first = skel_case(sk, (d0, d1, d2), (a0, a1, a2, a3), (k0, k1, k2), (g0, g1, g2))
        return {"template": sk.source, "observed": out, "expected": sorted(set([e_last, e_first])), "macro_args_ok": direct_ok(sk)}
    f.__name__ = f.__qualname__ = name
    DETAIL[name] = detail
    return f


SKELS = {}
for _sig in SIGS:
    _code = sig_code(_sig)
    _n = "c27_call_" + _code
    SKELS[_n] = calls(_sig, (0, 1), ("pk", "kp")) + calls(_sig, (2,), ("pk",))
    globals()[_n] = _mk_call(_n, SKELS[_n])
    CONDITIONS.append({"fn": _n, "quick": 40, "thorough": 120,
                       "bounds": "%d call skeletons: signature %s, 0..4 positional, 0..2 keyword arguments, positional first (also keyword first for <= 1 keyword); values: ints 0..9"
                                 % (len(SKELS[_n]), _code)})
    _n = "c27_call_" + _code + "_k3"
    SKELS[_n] = calls(_sig, (3,), ("pk", "kp", "mix")) + calls(_sig, (1, 2), ("mix",)) + calls(_sig, (2,), ("kp",))
    globals()[_n] = _mk_call(_n, SKELS[_n])
    CONDITIONS.append({"fn": _n, "quick": None, "thorough": 150 + len(SKELS[_n]) // 3,
                       "bounds": "%d call skeletons: signature %s, 0..4 positional, 3 keyword arguments (positional first / keyword first / interleaved), 1..2 interleaved, 2 keyword first; values: ints 0..9"
                                 % (len(SKELS[_n]), _code)})


# ---------------------------------------------------------------------------
# with blocks and macro scope: fixed skeletons, symbolic values
# ---------------------------------------------------------------------------
def S(v):
    """Rendering of an int-or-nil value."""
    return "" if v is None else str(v)


def _digits(lo, hi):
    out = ""
    for i in range(lo, hi + 1):
        out = out + str(i)
    return out


def _exp_for(m, gx):
    out = ""
    for i in range(1, m + 1):
        out = out + str(i) + S(gx) + ";"
    return out + S(gx)


def _exp_break(b, gx, cont):
    out = ""
    for i in range(1, 4):
        if i == b:
            if cont:
                continue
            break
        out = out + str(i)
    return out + "[" + S(gx) + "]"


def _exp_macro_for(m):
    out = ""
    for i in range(1, m + 1):
        out = out + str(i) + ","
    return out


# name -> (source, expected(a, b, c, gx, gy, nn, m))
# render data: a, b, c (ints), x = gx, y = gy (template globals), n = nn (int or nil),
# m (loop length 0..3), o = {"v": a}; z, q, l are never defined globally.
FIXED = {
    "with_basic": ("{{ x }}|{% with x: a %}{{ x }}{% endwith %}|{{ x }}",
                   lambda a, b, c, gx, gy, nn, m: S(gx) + "|" + S(a) + "|" + S(gx)),
    "with_over_assign": ("{% assign x = b %}{% with x: a %}{{ x }}{% endwith %}|{{ x }}",
                         lambda a, b, c, gx, gy, nn, m: S(a) + "|" + S(b)),
    "with_over_capture": ("{% capture x %}{{ b }}{% endcapture %}{% with x: a %}{{ x }}{% endwith %}|{{ x }}",
                          lambda a, b, c, gx, gy, nn, m: S(a) + "|" + S(b)),
    "with_gone_after": ("{% with z: a %}{{ z }}{% endwith %}[{{ z }}]",
                        lambda a, b, c, gx, gy, nn, m: S(a) + "[]"),
    "with_two_args": ("{% with x: a, y: b %}{{ x }},{{ y }}{% endwith %}|{{ x }},{{ y }}",
                      lambda a, b, c, gx, gy, nn, m: S(a) + "," + S(b) + "|" + S(gx) + "," + S(gy)),
    "with_outer_eval": ("{% with x: y, y: x %}{{ x }},{{ y }}{% endwith %}|{{ x }},{{ y }}",
                        lambda a, b, c, gx, gy, nn, m: S(gy) + "," + S(gx) + "|" + S(gx) + "," + S(gy)),
    "with_nested": ("{% with x: a %}{{ x }}{{ y }}/{% with x: b, y: x %}{{ x }}{{ y }}/{% with y: c %}{{ x }}{{ y }}/{% endwith %}"
                    "{{ x }}{{ y }}/{% endwith %}{{ x }}{{ y }}/{% endwith %}{{ x }}{{ y }}",
                    lambda a, b, c, gx, gy, nn, m: S(a) + S(gy) + "/" + S(b) + S(a) + "/" + S(b) + S(c) + "/" + S(b) + S(a) + "/"
                    + S(a) + S(gy) + "/" + S(gx) + S(gy)),
    "with_nil_shadows": ("{% with x: n %}[{{ x }}]{% endwith %}[{{ x }}]",
                         lambda a, b, c, gx, gy, nn, m: "[" + S(nn) + "][" + S(gx) + "]"),
    "with_undefined_shadows": ("{% with x: q %}[{{ x }}]{% endwith %}[{{ x }}]",
                               lambda a, b, c, gx, gy, nn, m: "[][" + S(gx) + "]"),
    "with_in_for": ("{% for i in (1..m) %}{% with x: i %}{{ x }}{% endwith %}{{ x }};{% endfor %}{{ x }}",
                    lambda a, b, c, gx, gy, nn, m: _exp_for(m, gx)),
    "with_break": ("{% for i in (1..3) %}{% with x: i %}{% if i == b %}{% break %}{% endif %}{{ x }}{% endwith %}{% endfor %}[{{ x }}]",
                   lambda a, b, c, gx, gy, nn, m: _exp_break(b, gx, False)),
    "with_continue": ("{% for i in (1..3) %}{% with x: i %}{% if i == b %}{% continue %}{% endif %}{{ x }}{% endwith %}{% endfor %}[{{ x }}]",
                      lambda a, b, c, gx, gy, nn, m: _exp_break(b, gx, True)),
    "with_break_no_leak": ("{% for i in (1..3) %}{% with x: i %}{% if i == b %}{% break %}{% endif %}{{ x }}{% endwith %}{% endfor %}[{{ x }}{{ i }}{{ forloop.index }}]",
                           lambda a, b, c, gx, gy, nn, m: _exp_break(b, gx, False)),
    "with_continue_every": ("{% for i in (1..m) %}{% with x: i %}{{ x }}{% continue %}{{ x }}{% endwith %}{% endfor %}[{{ x }}{{ i }}]",
                            lambda a, b, c, gx, gy, nn, m: "".join(str(i) for i in range(1, m + 1)) + "[" + S(gx) + "]"),
    "with_break_nested": ("{% with x: a %}{% for i in (1..2) %}{% with x: i, y: i %}{% break %}{% endwith %}{% endfor %}{{ x }}{{ y }}{% endwith %}[{{ x }}]",
                          lambda a, b, c, gx, gy, nn, m: S(a) + S(gy) + "[" + S(gx) + "]"),
    "with_lax_error": ("{% with x: a %}{{ x }}{{ x | nosuchfilter }}{{ x }}{% endwith %}[{{ x }}]{% with y: b %}{% include 'nosuchpartial' %}{% endwith %}[{{ y }}]",
                       lambda a, b, c, gx, gy, nn, m: S(a) + "[" + S(gx) + "][" + S(gy) + "]"),
    "macro_unbound_vs_caller_locals": ("{% macro mm p, q, r: c %}[{{ p }}|{{ q }}|{{ r }}]{% endmacro %}{% assign p = a %}{% capture q %}{{ b }}{% endcapture %}{% call mm %}"
                                       "{% for q in (1..1) %}{% call mm q: 7 %}{% for p in (2..2) %}{% call mm %}{% endfor %}{% endfor %}{% with p: b, q: a, r: a %}{% call mm %}{% endwith %}{% increment p %}{% call mm r: p %}",
                                       lambda a, b, c, gx, gy, nn, m: "[||%s][|7|%s][||%s][||%s]0[||%s]" % (S(c), S(c), S(c), S(c), S(a))),
    "nil_bindings": ("{% with x: nil, y: false %}[{{ x }}|{{ y }}]{% endwith %}{% with x: o.none %}[{{ x }}]{% endwith %}{% with x: a %}{% with x: nil %}[{{ x }}]{% endwith %}{% endwith %}"
                     "{% macro mm x: 'd', y: c %}({{ x }}|{{ y }}){% endmacro %}{% call mm nil %}{% call mm y: nil %}{% call mm o.none, o.none %}",
                     lambda a, b, c, gx, gy, nn, m: "[|false][][](|%s)(d|)(|)" % S(c)),
    "macro_redefined_in_loop": ("{% for i in (1..3) %}{% if i == 2 %}{% macro mm p: b, q: 'Q' %}<{{ p }}{{ q }}>{% endmacro %}{% else %}{% macro mm p: a, q: c %}<{{ p }}{{ q }}>{% endmacro %}{% endif %}{% call mm %}{% call mm q: i %}{% endfor %}",
                                lambda a, b, c, gx, gy, nn, m: "<%s%s><%s1><%sQ><%s2><%s%s><%s3>" % (S(a), S(c), S(a), S(b), S(b), S(a), S(c), S(a))),
    "macro_call_in_cached_partial": ("{% macro mm p: a %}<{{ p }}>{% endmacro %}{% include 'callmm' %}{% macro mm p: b %}[{{ p }}]{% endmacro %}{% include 'callmm' %}{% macro mm p %}({{ p }}){% endmacro %}{% include 'callmm' %}",
                                     lambda a, b, c, gx, gy, nn, m: "<%s>[%s]()" % (S(a), S(b))),
    "with_siblings": ("{% with x: a %}{{ x }}{% endwith %}/{% with y: b %}{{ x }}{{ y }}{% endwith %}/{{ x }}{{ y }}",
                      lambda a, b, c, gx, gy, nn, m: S(a) + "/" + S(gx) + S(b) + "/" + S(gx) + S(gy)),
    "with_path_value": ("{% with p: o.v, x: o.w %}{{ p }}[{{ x }}]{% endwith %}[{{ p }}]{{ x }}",
                        lambda a, b, c, gx, gy, nn, m: S(a) + "[][]" + S(gx)),
    "with_literals": ("{% with x: 1, y: 'k', z: true %}{{ x }}{{ y }}{{ z }}{% endwith %}{{ x }}{{ y }}{{ z }}",
                      lambda a, b, c, gx, gy, nn, m: "1ktrue" + S(gx) + S(gy)),
    "with_around_call": ("{% macro mm p %}{{ p }}{{ x }}{% endmacro %}{% with x: a %}{% call mm x %}{% endwith %}",
                         lambda a, b, c, gx, gy, nn, m: S(a) + S(gx)),
    "with_in_macro": ("{% macro mm p %}{% with p: b %}{{ p }}{% endwith %}{{ p }}{% endmacro %}{% call mm a %}",
                      lambda a, b, c, gx, gy, nn, m: S(b) + S(a)),
    "macro_two_calls": ("{% macro mm p0, p1: b %}{{ p0 }}|{{ p1 }};{% endmacro %}{% call mm a, c %}{% call mm %}{% call mm p1: n %}{% call mm x, y, a %}",
                        lambda a, b, c, gx, gy, nn, m: S(a) + "|" + S(c) + ";|" + S(b) + ";|" + S(nn) + ";" + S(gx) + "|" + S(gy) + ";"),
    "macro_late_default": ("{% assign d = a %}{% macro mm p: d %}{{ p }}{% endmacro %}{% assign d = b %}{% call mm %}",
                           lambda a, b, c, gx, gy, nn, m: S(b)),
    "macro_in_for": ("{% macro mm p %}{{ p }},{% endmacro %}{% for i in (1..m) %}{% call mm i %}{% endfor %}",
                     lambda a, b, c, gx, gy, nn, m: _exp_macro_for(m)),
    "macro_literal_defaults": ("{% macro mm p0: 5, p1: 'z' %}{{ p0 }}{{ p1 }};{% endmacro %}{% call mm %}{% call mm a %}{% call mm p1: b %}",
                               lambda a, b, c, gx, gy, nn, m: "5z;" + S(a) + "z;5" + S(b) + ";"),
    "macro_own_scope": ("{% assign l = a %}{% macro mm %}[{{ l }}{{ x }}]{% endmacro %}{% call mm %}{{ l }}",
                        lambda a, b, c, gx, gy, nn, m: "[" + S(gx) + "]" + S(a)),
    "macro_no_leak": ("{% macro mm z %}{% assign q = z %}{{ q }}{% endmacro %}{% call mm a %}[{{ q }}{{ z }}]",
                      lambda a, b, c, gx, gy, nn, m: S(a) + "[]"),
    "macro_quoted_name": ("{% macro 'price' p, s: false %}{{ p }}{{ s }};{% endmacro %}{% call 'price' a, s: true %}{% call 'price' b %}",
                          lambda a, b, c, gx, gy, nn, m: S(a) + "true;" + S(b) + "false;"),
    "macro_nil_argument": ("{% macro mm p0: a, p1 %}[{{ p0 }}|{{ p1 }}]{% endmacro %}{% call mm n, n %}{% call mm p0: n %}",
                           lambda a, b, c, gx, gy, nn, m: "[" + S(nn) + "|" + S(nn) + "][" + S(nn) + "|]"),
    "macro_caller_scope": ("{% macro mm p, q: l %}{{ p }}{{ q }};{% endmacro %}{% assign l = a %}{% call mm l %}{% with l: b %}{% call mm l %}{% endwith %}{% call mm x, q: y %}",
                           lambda a, b, c, gx, gy, nn, m: S(a) + S(a) + ";" + S(b) + S(b) + ";" + S(gx) + S(gy) + ";"),
    "macro_commas": ("{% macro mm, p0, p1: b, %}{{ p0 }}|{{ p1 }};{% endmacro %}{% call mm, a, %}{% call mm, p1: c, a %}",
                     lambda a, b, c, gx, gy, nn, m: S(a) + "|" + S(b) + ";" + S(a) + "|" + S(c) + ";"),
    "macro_docs_variadic": ("{% macro 'foo' %}{% for arg in args %}- {{ arg }} {% endfor %}{% for arg in kwargs %}- {{ arg[0] }} => {{ arg[1] }} {% endfor %}{% endmacro %}"
                            "{% call 'foo' a, 43, b, u: c, v: n %}",
                            lambda a, b, c, gx, gy, nn, m: "- " + S(a) + " - 43 - " + S(b) + " - u => " + S(c) + " - v => " + S(nn) + " "),
}
ENV_LAX = Environment(extra=True, tolerance=Mode.LAX, loader=DictLoader({}))
from liquid import CachingDictLoader  # noqa: E402
ENV_PART = Environment(extra=True, loader=CachingDictLoader({"callmm": "{% call mm %}"}, auto_reload=False))
ENV_PART.get_template("callmm")
T_FIXED = {k: (ENV_LAX if k.endswith("_lax_error") else ENV_PART if k.endswith("_cached_partial") else ENV).from_string(v[0]) for k, v in FIXED.items()}


def fixed_case(key, asy, a, b, c, gx, gy, nn, m):
    data = {"a": a, "b": b, "c": c, "x": gx, "y": gy, "n": nn, "m": m, "o": {"v": a, "none": None}}
    return render(T_FIXED[key], data, asy), FIXED[key][1](a, b, c, gx, gy, nn, m)


GROUPS = {
    "with_shadowing": ("with_basic", "with_over_assign", "with_over_capture", "with_gone_after", "with_nil_shadows", "with_undefined_shadows"),
    "with_scoping": ("with_two_args", "with_outer_eval", "with_nested", "with_siblings", "with_path_value", "with_literals"),
    "with_loops": ("with_in_for", "with_break", "with_continue"),
    "with_left_early": ("with_break_no_leak", "with_continue_every", "with_break_nested", "with_lax_error"),
    "with_and_macro": ("with_around_call", "with_in_macro", "macro_own_scope", "macro_no_leak"),
    "macro_defaults": ("macro_two_calls", "macro_late_default", "macro_literal_defaults", "macro_nil_argument"),
    "macro_redefined": ("nil_bindings", "macro_redefined_in_loop", "macro_call_in_cached_partial", "macro_unbound_vs_caller_locals"),
    "macro_forms": ("macro_in_for", "macro_quoted_name", "macro_docs_variadic", "macro_caller_scope", "macro_commas"),
}


def _mk_fixed(name, keys):
    def f(si: int, asy: bool, a: int, b: int, c: int, gx: int, gy: int, nn: Optional[int], m: int) -> bool:
        """
        pre: 0 <= si
        pre: 0 <= a <= 9 and 0 <= b <= 9 and 0 <= c <= 9 and 0 <= gx <= 9 and 0 <= gy <= 9
        pre: nn is None or 0 <= nn <= 9
        pre: 0 <= m <= 3
        post: _
        """
        if excluded(name, locals()):
            return True
        if si >= len(keys):
            return True
        out, exp = fixed_case(keys[pick(len(keys), si)], asy, a, b, c, gx, gy, nn, m)
        return finish(out == exp)

    def detail(si, asy, a, b, c, gx, gy, nn, m):
        out, exp = fixed_case(keys[si], asy, a, b, c, gx, gy, nn, m)
        return {"skeleton": keys[si], "render": "async" if asy else "sync", "template": FIXED[keys[si]][0], "observed": out, "expected": exp}
    f.__name__ = f.__qualname__ = name
    DETAIL[name] = detail
    return f


for _g, _keys in GROUPS.items():
    _n = "c27_" + _g
    globals()[_n] = _mk_fixed(_n, _keys)
    CONDITIONS.append({"fn": _n, "quick": 30, "thorough": 90,
                       "bounds": "skeletons %s; render and render_async; values: ints 0..9, n: nil or 0..9, loop length 0..3" % ", ".join(_keys)})


ASSUMPTIONS = [
    "call skeletons are the concrete family generated in harness/c27.py (signature x positional count x keyword name list x argument order); every default, argument and same-named global is a distinct render variable",
    "symbolic values are ints 0..9 (one digit: CrossHair's int-to-str forks per digit count) and nil where stated; binding does not depend on the value",
    "reference binder: positional in order, then keywords by name (overriding a positional binding), then defaults, else undefined (prints ''); surplus to args / kwargs in call order; a repeated keyword name may resolve to its first or its last value",
    "with: arguments are evaluated in the enclosing scope before any of them is bound; the block sees them, code after endwith does not; macro bodies see their arguments and template globals only (docs/optional_tags.md)",
]
OUTSIDE = [
    "more than 3 parameters, 4 positional or 3 keyword arguments; parameters named args/kwargs",
    "argument values other than ints / nil (strings, floats, drops); filtered expressions as arguments (not accepted by the parser)",
    "assign/capture inside a with block to a name bound by that with (docs are silent on which binding wins)",
    "redefinition of a macro name, recursive macros, macros across include/render/extends",
    "async rendering of the generated call family (the fixed with/macro skeletons are rendered both ways)",
]


def selftest():
    """The reference binder and the skeleton generator against literal expectations
    (tests/test_macros.py: positional/keyword/default/excess cases; docs/optional_tags.md).
    The real code is only run on cases fixed by the repo's own tests."""
    fails = []
    bound, extra, kw = ref_bind(["foo", "bar"], {"bar": "b"}, [1, 2, 3], [("baz", 4), ("bar", 5)], True)
    if (bound, extra, kw) != ({"foo": 1, "bar": 5}, [3], [("baz", 4)]):
        fails.append("reference binder: positional, keyword override, excess")
    bound, extra, kw = ref_bind(["you", "greeting"], {"greeting": "Hello"}, [], [], True)
    if (bound, extra, kw) != ({"you": None, "greeting": "Hello"}, [], []):
        fails.append("reference binder: defaults and undefined")
    bound, extra, kw = ref_bind(["p0", "p1"], {"p1": 7}, [], [("p1", 1), ("p1", 2), ("x", 3), ("x", 4)], False)
    if (bound, extra, kw) != ({"p0": None, "p1": 1}, [], [("x", 3)]):
        fails.append("reference binder: first-wins policy")
    bound, extra, kw = ref_bind(["p0", "p1"], {"p1": 7}, [], [("p1", 1), ("p1", 2), ("x", 3), ("x", 4)], True)
    if (bound, extra, kw) != ({"p0": None, "p1": 2}, [], [("x", 4)]):
        fails.append("reference binder: last-wins policy")
    if ref_output(["p0", "p1"], {"p0": None, "p1": 2}, [3, 4], [("x", 5)], (7, 8, 9)) != "|2|A:3,4|K:x=5;#7,8,9":
        fails.append("ref_output format")
    sk = Skel((False, True), 3, ("x", "p0"), "kp")
    if sk.source != ("{% macro m p0, p1: d1 %}{{ p0 }}|{{ p1 }}|" + KW_TAIL + "{% endmacro %}{% call m x: k0, p0: k1, a0, a1, a2 %}" + AFTER):
        fails.append("skeleton source: " + sk.source)
    if Skel((True,), 2, ("x", "y"), "mix").source.count("{% call m x: k0, a0, y: k1, a1 %}") != 1:
        fails.append("interleaved order")
    # repo-tested: tests/test_macros.py (excess positional / keyword arguments, default before positional)
    if ENV.from_string("{% macro 'func' %}{{ args | join: '-' }}{% endmacro %}{% call 'func' 1, 2 %}").render() != "1-2":
        fails.append("repo test: excess positional arguments")
    if ENV.from_string("{% macro 'func', foo %}{{ foo }}{% endmacro %}{% call 'func' %}").render() != "":
        fails.append("repo test: missing argument is undefined")
    sizes = [len(v) for v in SKELS.values()]
    if min(sizes) < 20 or sum(sizes) < 10000:
        fails.append("skeleton family unexpectedly small: %r" % (sizes,))
    for g, keys in GROUPS.items():
        for k in keys:
            if k not in FIXED:
                fails.append("unknown skeleton " + k)
    if sorted(k for keys in GROUPS.values() for k in keys) != sorted(FIXED):
        fails.append("fixed skeletons not all grouped")
    return fails
