"""C23 Caching loaders are transparent.

One request (sync or async, symbolic template name / namespace strings, symbolic globals)
against a caching loader whose cache was filled by earlier requests, compared with the
same request against the corresponding non-caching loader on the current sources:
template name, path, rendered output and effective globals must agree.
The cache's OrderedDict is replaced by vf.stubs.ModelOD so that keys stay symbolic
(z3 can construct colliding keys). pathlib.Path in liquid.loader is replaced by a
pure-Python stand-in that only provides .name / str().
"""
from typing import Optional

import liquid.loader as LD
import liquid.utils.lru_cache as LC
from liquid import CachingChoiceLoader, CachingDictLoader, ChoiceLoader, DictLoader, Environment
from liquid.builtin.loaders.mixins import CachingLoaderMixin
from liquid.context import RenderContext
from liquid.exceptions import LiquidError, TemplateNotFoundError
from liquid.loader import BaseLoader, TemplateSource

from vf.hx import cbool, cint, drive, excluded, finish, untraced
from vf.stubs import ModelOD, validate_model_od

PROPERTY = "C23"
LC.OrderedDict = ModelOD
ModelOD.owner = None


class FakePath:
    """Stand-in for pathlib.Path in liquid.loader: only .name and str()."""

    def __init__(self, s):
        self.s = s if isinstance(s, str) else str(s)

    @property
    def name(self):
        s = self.s
        while len(s) > 1 and s.endswith("/"):
            s = s[:-1]
        i = s.rfind("/")
        return s if i < 0 else s[i + 1:]

    def __str__(self):
        return self.s

    def __eq__(self, other):
        return isinstance(other, FakePath) and other.s == self.s

    def __hash__(self):
        return 0


LD.Path = FakePath


class NSLoader(BaseLoader):
    """Source loader selecting by (namespace, name); sources in an association list (no hashing),
    each with a version counter used by the uptodate callable."""

    def __init__(self, items, key="ns"):
        self.items = items  # list of [ns, name, text, version]
        self.key = key

    def _ns(self, context, kwargs):
        if self.key in kwargs:
            return kwargs[self.key]
        if context is not None and self.key in context.globals:
            return context.globals[self.key]
        return ""

    def get_source(self, env, template_name, *, context=None, **kwargs):
        ns = self._ns(context, kwargs)
        for it in self.items:
            if it[0] == ns and it[1] == template_name:
                ver = it[3]
                return TemplateSource(it[2], template_name, lambda: it[3] == ver)
        raise TemplateNotFoundError(template_name)


class CachingNS(CachingLoaderMixin, NSLoader):
    def __init__(self, items, **kw):
        super().__init__(**kw)
        NSLoader.__init__(self, items)


def snapshot(thunk):
    try:
        t = thunk()
    except LiquidError as e:
        return ("err", type(e).__name__)
    try:
        out = t.render()
    except LiquidError as e:
        out = "ERR:" + type(e).__name__
    g = []
    for k in t.globals:
        g.append((k, t.globals[k]))
    return ("ok", t.name, str(t.path), out, g)


def request(env, name, ns, use_async, g, via_context=False):
    kw = {}
    ctx = None
    if via_context:
        ctx = RenderContext(env.from_string(""), globals={"ns": ns})
    elif ns is not None:
        kw["ns"] = ns
    gl = None if g is None else {"g": g}
    if use_async:
        return snapshot(lambda: drive(env.get_template_async(name, globals=gl, context=ctx, **kw)))
    return snapshot(lambda: env.get_template(name, globals=gl, context=ctx, **kw))


def c23_other_key(ns1: str, n1: str, ns2: str, n2: str, use_async: bool, cap: int) -> bool:
    """
    pre: len(ns1) <= 1 and len(n1) <= 2 and len(ns2) <= 1 and len(n2) <= 2
    pre: len(n1) >= 1 and len(n2) >= 1
    pre: (ns1, n1) != (ns2, n2)
    pre: 1 <= cap <= 2
    post: _
    """
    # a template cached under one (namespace, name) is never served for another one
    if excluded("c23_other_key", locals()):
        return True
    items = [[ns1, n1, "ONE{{ g }}", 0], [ns2, n2, "TWO{{ g }}", 0]]
    env_c = Environment(loader=CachingNS(items, namespace_key="ns", capacity=cap))
    env_p = Environment(loader=NSLoader(items))
    request(env_c, n1, ns1, False, None)
    got = request(env_c, n2, ns2, use_async, None)
    ref = request(env_p, n2, ns2, use_async, None)
    return finish(got == ref)


def c23_other_key_small(ns1: str, n1: str, ns2: str, n2: str, use_async: bool, cap: int) -> bool:
    """
    pre: len(ns1) <= 1 and len(n1) <= 1 and len(ns2) <= 1 and len(n2) <= 1
    pre: len(n1) >= 1 and len(n2) >= 1
    pre: (ns1, n1) != (ns2, n2)
    pre: 1 <= cap <= 2
    post: _
    """
    # a template cached under one (namespace, name) is never served for another one
    if excluded("c23_other_key_small", locals()):
        return True
    items = [[ns1, n1, "ONE{{ g }}", 0], [ns2, n2, "TWO{{ g }}", 0]]
    env_c = Environment(loader=CachingNS(items, namespace_key="ns", capacity=cap))
    env_p = Environment(loader=NSLoader(items))
    request(env_c, n1, ns1, False, None)
    got = request(env_c, n2, ns2, use_async, None)
    ref = request(env_p, n2, ns2, use_async, None)
    return finish(got == ref)


def c23_hit(ns: str, n: str, use_async: bool, first_async: bool, g0: Optional[int], g1: Optional[int], envg: Optional[int]) -> bool:
    """
    pre: len(ns) <= 1 and 1 <= len(n) <= 2
    pre: (g0 is None or 0 <= g0 <= 9) and (g1 is None or 0 <= g1 <= 9) and (envg is None or 0 <= envg <= 9)
    post: _
    """
    # the same key twice: name/path/output agree with the plain loader and the SECOND request's
    # globals (none, or {g: g1}) apply to the returned template
    if excluded("c23_hit", locals()):
        return True
    items = [[ns, n, "T{{ g }}", 0]]
    eg = {} if envg is None else {"e": envg}
    env_c = Environment(loader=CachingNS(items, namespace_key="ns", capacity=2), globals=eg)
    env_p = Environment(loader=NSLoader(items), globals=eg)
    a = request(env_c, n, ns, first_async, g0)
    ra = request(env_p, n, ns, first_async, g0)
    b = request(env_c, n, ns, use_async, g1)
    rb = request(env_p, n, ns, use_async, g1)
    return finish(a == ra and b == rb)


def c23_hit_small(ns: str, n: str, use_async: bool, first_async: bool, g0: Optional[int], g1: Optional[int], envg: Optional[int]) -> bool:
    """
    pre: len(ns) <= 1 and len(n) == 1
    pre: (g0 is None or 0 <= g0 <= 9) and (g1 is None or 0 <= g1 <= 9) and (envg is None or 0 <= envg <= 9)
    post: _
    """
    # the same key twice: name/path/output agree with the plain loader and the SECOND request's
    # globals (none, or {g: g1}) apply to the returned template
    if excluded("c23_hit_small", locals()):
        return True
    items = [[ns, n, "T{{ g }}", 0]]
    eg = {} if envg is None else {"e": envg}
    env_c = Environment(loader=CachingNS(items, namespace_key="ns", capacity=2), globals=eg)
    env_p = Environment(loader=NSLoader(items), globals=eg)
    a = request(env_c, n, ns, first_async, g0)
    ra = request(env_p, n, ns, first_async, g0)
    b = request(env_c, n, ns, use_async, g1)
    rb = request(env_p, n, ns, use_async, g1)
    return finish(a == ra and b == rb)


def c23_reload(n: str, auto_reload: bool, edited: bool, use_async: bool, v: int) -> bool:
    """
    pre: 1 <= len(n) <= 2
    pre: 0 <= v <= 9
    post: _
    """
    # a changed source is picked up on the next request when auto-reload is on; an unchanged one
    # is served identically; with auto-reload off only name/path must agree
    if excluded("c23_reload", locals()):
        return True
    items = [["", n, "OLD{{ g }}", 0]]
    env_c = Environment(loader=CachingNS(items, namespace_key="ns", capacity=2, auto_reload=auto_reload))
    env_p = Environment(loader=NSLoader(items))
    request(env_c, n, "", False, None)
    if edited:
        items[0][2] = "NEW" + str(v)
        items[0][3] = 1
    got = request(env_c, n, "", use_async, None)
    ref = request(env_p, n, "", use_async, None)
    if edited and not auto_reload:
        return finish(got[:3] == ref[:3])
    return finish(got == ref)


def c23_reload_small(n: str, auto_reload: bool, edited: bool, use_async: bool, v: int) -> bool:
    """
    pre: len(n) == 1
    pre: 0 <= v <= 9
    post: _
    """
    # a changed source is picked up on the next request when auto-reload is on; an unchanged one
    # is served identically; with auto-reload off only name/path must agree
    if excluded("c23_reload_small", locals()):
        return True
    items = [["", n, "OLD{{ g }}", 0]]
    env_c = Environment(loader=CachingNS(items, namespace_key="ns", capacity=2, auto_reload=auto_reload))
    env_p = Environment(loader=NSLoader(items))
    request(env_c, n, "", False, None)
    if edited:
        items[0][2] = "NEW" + str(v)
        items[0][3] = 1
    got = request(env_c, n, "", use_async, None)
    ref = request(env_p, n, "", use_async, None)
    if edited and not auto_reload:
        return finish(got[:3] == ref[:3])
    return finish(got == ref)


def c23_context_ns(ns_ctx: str, ns_kw: str, n: str, use_kw: bool, use_async: bool) -> bool:
    """
    pre: len(ns_ctx) <= 2 and len(ns_kw) <= 2 and 1 <= len(n) <= 2
    pre: ns_ctx != ns_kw
    post: _
    """
    # namespace selected by a render-context global, overridden by a keyword argument
    if excluded("c23_context_ns", locals()):
        return True
    items = [[ns_ctx, n, "CTX", 0], [ns_kw, n, "KW", 0]]
    env_c = Environment(loader=CachingNS(items, namespace_key="ns", capacity=3))
    env_p = Environment(loader=NSLoader(items))
    # prefill with the other namespace
    request(env_c, n, ns_kw, False, None)
    ctx_c = RenderContext(env_c.from_string(""), globals={"ns": ns_ctx})
    ctx_p = RenderContext(env_p.from_string(""), globals={"ns": ns_ctx})
    kw = {"ns": ns_kw} if use_kw else {}
    if use_async:
        got = snapshot(lambda: drive(env_c.get_template_async(n, context=ctx_c, **kw)))
        ref = snapshot(lambda: drive(env_p.get_template_async(n, context=ctx_p, **kw)))
    else:
        got = snapshot(lambda: env_c.get_template(n, context=ctx_c, **kw))
        ref = snapshot(lambda: env_p.get_template(n, context=ctx_p, **kw))
    return finish(got == ref)


def c23_missing(ns: str, n: str, n2: str, use_async: bool) -> bool:
    """
    pre: len(ns) <= 2 and 1 <= len(n) <= 2 and 1 <= len(n2) <= 2
    pre: n != n2
    post: _
    """
    # a name that does not exist fails identically (and is not satisfied from the cache)
    if excluded("c23_missing", locals()):
        return True
    items = [[ns, n, "ONE", 0]]
    env_c = Environment(loader=CachingNS(items, namespace_key="ns", capacity=2))
    env_p = Environment(loader=NSLoader(items))
    request(env_c, n, ns, False, None)
    got = request(env_c, n2, ns, use_async, None)
    ref = request(env_p, n2, ns, use_async, None)
    return finish(got == ref)


def c23_seq3(n1: str, n2: str, a1: bool, a2: bool, a3: bool, k2: int, k3: int, cap: int, g: Optional[int]) -> bool:
    """
    pre: 1 <= len(n1) <= 2 and 1 <= len(n2) <= 2 and n1 != n2
    pre: 0 <= k2 <= 3 and 0 <= k3 <= 3 and 1 <= cap <= 2
    pre: g is None or 0 <= g <= 9
    post: _
    """
    # three requests over two names x two namespaces with eviction (capacity 1..2), mixing sync/async
    if excluded("c23_seq3", locals()):
        return True
    items = [["x", n1, "x1", 0], ["x", n2, "x2{{ g }}", 0], ["y", n1, "y1", 0], ["y", n2, "y2{{ g }}", 0]]
    env_c = Environment(loader=CachingNS(items, namespace_key="ns", capacity=cap))
    env_p = Environment(loader=NSLoader(items))
    ok = True
    seq = [(0, a1, None), (k2, a2, g), (k3, a3, None)]
    for k, a, gg in seq:
        ns = "x" if k < 2 else "y"
        nm = n1 if k % 2 == 0 else n2
        ok = ok and request(env_c, nm, ns, a, gg) == request(env_p, nm, ns, a, gg)
    return finish(ok)


def c23_seq3_small(n1: str, n2: str, a1: bool, a2: bool, a3: bool, k2: int, k3: int, cap: int, g: Optional[int]) -> bool:
    """
    pre: len(n1) == 1 and len(n2) == 1 and n1 != n2
    pre: 0 <= k2 <= 3 and 0 <= k3 <= 3 and 1 <= cap <= 2
    pre: g is None or 0 <= g <= 9
    post: _
    """
    # three requests over two names x two namespaces with eviction (capacity 1..2), mixing sync/async
    if excluded("c23_seq3_small", locals()):
        return True
    items = [["x", n1, "x1", 0], ["x", n2, "x2{{ g }}", 0], ["y", n1, "y1", 0], ["y", n2, "y2{{ g }}", 0]]
    env_c = Environment(loader=CachingNS(items, namespace_key="ns", capacity=cap))
    env_p = Environment(loader=NSLoader(items))
    ok = True
    seq = [(0, a1, None), (k2, a2, g), (k3, a3, None)]
    for k, a, gg in seq:
        ns = "x" if k < 2 else "y"
        nm = n1 if k % 2 == 0 else n2
        ok = ok and request(env_c, nm, ns, a, gg) == request(env_p, nm, ns, a, gg)
    return finish(ok)


# ---- the shipped caching loaders, names from selector pools -------------------------------------
SRC = {"a": "A{{ g }}", "b.liquid": "B", "sub/c.liquid": "C{{ g }}", "x/a": "XA"}


def nm(i):
    if i == 0:
        return "a"
    if i == 1:
        return "b.liquid"
    if i == 2:
        return "sub/c.liquid"
    if i == 3:
        return "x/a"
    return "nope"


def _dict_case(choice, nskey, a1, i1, i2, a2, g, cap, ns):
    key = "ns" if nskey else ""
    if choice:
        lc = CachingChoiceLoader([DictLoader({"a": "A{{ g }}"}), DictLoader(dict(SRC))], capacity=cap, namespace_key=key)
        lp = ChoiceLoader([DictLoader({"a": "A{{ g }}"}), DictLoader(dict(SRC))])
    else:
        lc = CachingDictLoader(dict(SRC), capacity=cap, namespace_key=key)
        lp = DictLoader(dict(SRC))
    env_c = Environment(loader=lc)
    env_p = Environment(loader=lp)
    nsv = "x" if ns else None
    ok = request(env_c, nm(i1), nsv, a1, None) == request(env_p, nm(i1), nsv, a1, None)
    ok = ok and request(env_c, nm(i2), nsv, a2, g) == request(env_p, nm(i2), nsv, a2, g)
    ok = ok and request(env_c, nm(i1), None, a2, None) == request(env_p, nm(i1), None, a2, None)
    return ok


def _mk_dict(choice, nskey, a1):
    nm_ = "c23_%s_%s_%s" % ("choice" if choice else "dict", "ns" if nskey else "nons", "afirst" if a1 else "sfirst")

    def f(i1: int, i2: int, a2: bool, g: Optional[int], cap: int, ns: bool) -> bool:
        """
        pre: 0 <= i1 <= 4 and 0 <= i2 <= 4 and 1 <= cap <= 2
        pre: g is None or 0 <= g <= 9
        post: _
        """
        if excluded(nm_, locals()):
            return True
        gc = None if g is None else cint(g, 0, 9)
        args = (cint(i1, 0, 4), cint(i2, 0, 4), cbool(a2), gc, cint(cap, 1, 2), cbool(ns))
        # every argument is concrete now: the six requests run on the plain interpreter
        return finish(untraced(lambda: _dict_case(choice, nskey, a1, *args)))
    f.__name__ = f.__qualname__ = nm_
    return nm_, f


CONDITIONS = [
    {"fn": "c23_other_key", "quick": None, "thorough": 500},
    {"fn": "c23_other_key_small", "quick": 90, "thorough": 200},
    {"fn": "c23_hit", "quick": None, "thorough": 400},
    {"fn": "c23_hit_small", "quick": 90, "thorough": 200},
    {"fn": "c23_reload", "quick": None, "thorough": 300},
    {"fn": "c23_reload_small", "quick": 90, "thorough": 200},
    {"fn": "c23_context_ns", "quick": 60, "thorough": 300},
    {"fn": "c23_missing", "quick": 60, "thorough": 200},
    {"fn": "c23_seq3", "quick": None, "thorough": 600},
    {"fn": "c23_seq3_small", "quick": 100, "thorough": 300},
]
for _c in (False, True):
    for _k in (False, True):
        for _a in (False, True):
            _n, _f = _mk_dict(_c, _k, _a)
            globals()[_n] = _f
            CONDITIONS.append({"fn": _n, "quick": 100, "thorough": 400, "sel_only": True})
# ---- caching file system loaders with source edits between requests (real files; selectors only) -------------------
import os  # noqa: E402
import shutil  # noqa: E402
import tempfile  # noqa: E402

import liquid.builtin.loaders.file_system_loader as FS  # noqa: E402
from liquid import CachingFileSystemLoader, FileSystemLoader  # noqa: E402

WORK = os.path.join(os.path.dirname(os.path.dirname(os.path.abspath(__file__))), ".work")
os.makedirs(WORK, exist_ok=True)


class _InlineLoop:
    def run_in_executor(self, ex, fn, *args):
        async def _r():
            return fn(*args)
        return _r()


class _Asyncio:
    def get_running_loop(self):
        return _InlineLoop()


def _fs_case(a1, edit, a2, a3, auto_reload, choice, sub):
    root = tempfile.mkdtemp(prefix="c23-", dir=WORK)
    saved = FS.asyncio
    FS.asyncio = _Asyncio()
    try:
        name = "sub/t.liquid" if sub else "t.liquid"
        path = os.path.join(root, name)
        os.makedirs(os.path.dirname(path), exist_ok=True)
        with open(path, "w") as fd:
            fd.write("version one {{ g }}")
        os.utime(path, (1000, 1000))
        if choice:
            lc = CachingChoiceLoader([DictLoader({"zzz": "z"}), FileSystemLoader(root)], auto_reload=auto_reload)
            lp = ChoiceLoader([DictLoader({"zzz": "z"}), FileSystemLoader(root)])
        else:
            lc = CachingFileSystemLoader(root, auto_reload=auto_reload)
            lp = FileSystemLoader(root)
        env_c = Environment(loader=lc)
        env_p = Environment(loader=lp)
        ok = request(env_c, name, None, a1, None) == request(env_p, name, None, a1, None)
        if edit:
            with open(path, "w") as fd:
                fd.write("version two {{ g }}")
            # 1: modified later; 2: replaced by a file with an OLDER time stamp (restored backup, cp -p, rsync -t); 3: same time stamp
            os.utime(path, {1: (2000, 2000), 2: (500, 500), 3: (1000, 1000)}[edit])
        r2c, r2p = request(env_c, name, None, a2, 5), request(env_p, name, None, a2, 5)
        r3c, r3p = request(env_c, name, None, a3, None), request(env_p, name, None, a3, None)
        if (edit and not auto_reload) or edit == 3:
            # a stale source is by design without auto-reload (and undetectable with an unchanged time stamp): only name and path must agree
            return ok and r2c[:3] == r2p[:3] and r3c[:3] == r3p[:3]
        return ok and r2c == r2p and r3c == r3p
    finally:
        FS.asyncio = saved
        shutil.rmtree(root, ignore_errors=True)


def c23_fs_reload(a1: bool, edit: int, a2: bool, a3: bool, auto_reload: bool, choice: bool, sub: bool) -> bool:
    """
    pre: 0 <= edit <= 3
    post: _
    """
    # request (sync/async), optionally edit the file, request, request: every answer equals the
    # non-caching file system loader's (the changed source is picked up when auto-reload is on)
    if excluded("c23_fs_reload", locals()):
        return True
    args = (cbool(a1), cint(edit, 0, 3), cbool(a2), cbool(a3), cbool(auto_reload), cbool(choice), cbool(sub))
    return finish(untraced(lambda: _fs_case(*args)))


CONDITIONS.append({"fn": "c23_fs_reload", "quick": 60, "thorough": 120, "sel_only": True})

# ---- constructor options: the caching file system loader answers like the plain one built with the same options -------
FSO_NAMES = ["t.liquid", "t", "link.liquid", "out.liquid", "sub/t.liquid", "sub/link.liquid", "latin.liquid", "second.liquid", "second", "../outside.liquid", "nosuch", "linkdir/t.liquid"]


def _request_any(env, name, use_async):
    try:
        return request(env, name, None, use_async, 3)
    except Exception as e:          # e.g. UnicodeDecodeError for a file not in the configured encoding: the same from both loaders
        return ("exc", type(e).__name__)


def _fs_options_sweep(reject, ext_i, enc_i, two_paths, ns):
    """Failing (name, mode, caching answer, plain answer) for every name of the pool, requested twice sync and async."""
    top = tempfile.mkdtemp(prefix="c23o-", dir=WORK)
    saved = FS.asyncio
    FS.asyncio = _Asyncio()
    bad = []
    try:
        root, other, outside = os.path.join(top, "root"), os.path.join(top, "other"), os.path.join(top, "outside")
        for d in (os.path.join(root, "sub"), other, outside):
            os.makedirs(d)
        files = {os.path.join(root, "t.liquid"): b"root t {{ g }}", os.path.join(root, "t.html"): b"root t html", os.path.join(root, "sub", "t.liquid"): b"sub t",
                 os.path.join(root, "latin.liquid"): "caf\u00e9 {{ g }}".encode("latin-1"), os.path.join(other, "second.liquid"): b"second", os.path.join(other, "second.html"): b"second html",
                 os.path.join(other, "t.liquid"): b"other t", os.path.join(outside, "outside.liquid"): b"OUTSIDE", os.path.join(top, "outside.liquid"): b"OUTSIDE2"}
        for path, data in files.items():
            with open(path, "wb") as fd:
                fd.write(data)
        os.symlink(os.path.join(root, "t.liquid"), os.path.join(root, "link.liquid"))
        os.symlink(os.path.join(outside, "outside.liquid"), os.path.join(root, "out.liquid"))
        os.symlink(os.path.join(root, "t.liquid"), os.path.join(root, "sub", "link.liquid"))
        os.symlink(os.path.join(root, "sub"), os.path.join(root, "linkdir"))
        ext = (None, ".liquid", ".html")[ext_i]
        enc = ("utf-8", "latin-1")[enc_i]
        sp = [root, other] if two_paths else root
        kw = {"namespace_key": "ns"} if ns else {}
        env_c = Environment(loader=CachingFileSystemLoader(sp, encoding=enc, ext=ext, reject_symlinks=reject, **kw))
        env_p = Environment(loader=FileSystemLoader(sp, encoding=enc, ext=ext, reject_symlinks=reject))
        for name in FSO_NAMES:
            for use_async in (False, True, False):
                rc, rp = _request_any(env_c, name, use_async), _request_any(env_p, name, use_async)
                if rc != rp:
                    bad.append({"name": name, "async": use_async, "caching": repr(rc)[:200].replace(top, "<tmp>"), "plain": repr(rp)[:200].replace(top, "<tmp>")})
                    break
        return bad
    finally:
        FS.asyncio = saved
        shutil.rmtree(top, ignore_errors=True)


def c23_fs_options(reject: bool, ext_i: int, enc_i: int, two_paths: bool, ns: bool) -> bool:
    """
    pre: 0 <= ext_i <= 2 and 0 <= enc_i <= 1
    post: _
    """
    if excluded("c23_fs_options", locals()):
        return True
    args = (cbool(reject), cint(ext_i, 0, 2), cint(enc_i, 0, 1), cbool(two_paths), cbool(ns))
    return finish(untraced(lambda: not _fs_options_sweep(*args)))


DETAIL = globals().get("DETAIL", {})
DETAIL["c23_fs_options"] = lambda reject, ext_i, enc_i, two_paths, ns: {"reject_symlinks": reject, "ext": (None, ".liquid", ".html")[ext_i], "encoding": ("utf-8", "latin-1")[enc_i],
                                                                          "two search paths": two_paths, "failing": _fs_options_sweep(reject, ext_i, enc_i, two_paths, ns)[:3]}
CONDITIONS.append({"fn": "c23_fs_options", "quick": 60, "thorough": 120, "sel_only": True})

# ---- overlapping asynchronous requests (one event loop, several requests in flight; the solver picks how many times each
# executor call yields, i.e. the order in which the loads complete) ---------------------------------------------------------
import asyncio as _real_asyncio  # noqa: E402


class _YieldingLoop:
    def __init__(self, delays):
        self.delays = list(delays)
        self.calls = 0

    def run_in_executor(self, ex, fn, *args):
        d = self.delays[self.calls % len(self.delays)]
        self.calls += 1

        async def _r():
            for _ in range(d):
                await _real_asyncio.sleep(0)
            return fn(*args)
        return _r()


class _YieldingAsyncio:
    def __init__(self, delays):
        self.loop = _YieldingLoop(delays)

    def get_running_loop(self):
        return self.loop


_OV_REQS = [("a.liquid", "alice"), ("a.liquid", "bob"), ("b.liquid", "carol"), ("a.liquid", None), ("sub/a.liquid", "dave"), ("a.liquid", "erin")]


def _fs_overlap_case(choice, delays, nreq, warm, auto_reload):
    """Failing rounds: the answers (name, text rendered at once) of nreq requests in flight together, from the caching and
    from the plain loader; a second round repeats them on the now warm cache."""
    root = tempfile.mkdtemp(prefix="c23v-", dir=WORK)
    saved = FS.asyncio
    bad = []
    try:
        os.makedirs(os.path.join(root, "sub"))
        for rel, text in (("a.liquid", "A {{ who }}"), ("b.liquid", "B {{ who }}"), ("sub/a.liquid", "SUB {{ who }}")):
            with open(os.path.join(root, rel), "w") as fd:
                fd.write(text)
        if choice:
            lc = CachingChoiceLoader([DictLoader({"zzz": "z"}), FileSystemLoader(root)], auto_reload=auto_reload)
            lp = ChoiceLoader([DictLoader({"zzz": "z"}), FileSystemLoader(root)])
        else:
            lc = CachingFileSystemLoader(root, auto_reload=auto_reload)
            lp = FileSystemLoader(root)
        answers = []
        for env in (Environment(loader=lc), Environment(loader=lp)):
            async def one(name, who, env=env):
                try:
                    t = await env.get_template_async(name, globals=None if who is None else {"who": who})
                    return (t.name, t.render())          # rendered before anything else can run
                except LiquidError as e:
                    return ("err", type(e).__name__)

            async def together(env=env):
                return await _real_asyncio.gather(*[one(n, w) for n, w in _OV_REQS[:nreq]])

            rounds = []
            if warm:
                FS.asyncio = _YieldingAsyncio((0,))
                _real_asyncio.run(one("a.liquid", "zed"))
            for _ in range(2):
                FS.asyncio = _YieldingAsyncio(delays)
                rounds.append(_real_asyncio.run(together()))
            answers.append(rounds)
        if answers[0] != answers[1]:
            bad.append({"caching": answers[0], "plain": answers[1]})
        return bad
    finally:
        FS.asyncio = saved
        shutil.rmtree(root, ignore_errors=True)


def c23_async_overlap(choice: bool, d0: int, d1: int, d2: int, nreq: int, warm: bool, auto_reload: bool) -> bool:
    """
    pre: 0 <= d0 <= 2 and 0 <= d1 <= 2 and 0 <= d2 <= 2 and 2 <= nreq <= 6
    post: _
    """
    if excluded("c23_async_overlap", locals()):
        return True
    args = (cbool(choice), (cint(d0, 0, 2), cint(d1, 0, 2), cint(d2, 0, 2)), cint(nreq, 2, 6), cbool(warm), cbool(auto_reload))
    return finish(untraced(lambda: not _fs_overlap_case(*args)))


DETAIL["c23_async_overlap"] = lambda choice, d0, d1, d2, nreq, warm, auto_reload: {"loader": "choice" if choice else "file system", "yields per executor call (cyclic)": (d0, d1, d2),
                                                                                    "requests in flight": _OV_REQS[:nreq], "warm": warm, "failing": _fs_overlap_case(choice, (d0, d1, d2), nreq, warm, auto_reload)}
CONDITIONS.append({"fn": "c23_async_overlap", "quick": 90, "thorough": 200, "sel_only": True,
                   "bounds": "2..6 get_template_async requests in flight on one event loop (3 names, different globals), every executor call yielding 0..2 times in a cyclic pattern chosen by the solver (27 schedules), cold or warm cache, two rounds; caching file-system and choice loaders"})

# ---- namespaces of every truthiness, given by keyword or through the render context (selector pool) ------------------
class UidLoader(BaseLoader):
    """Per-namespace templates: '<uid>/<name>' when a uid is given (keyword or render context), else '<name>'."""

    SOURCES = {"index": "shared", "0/index": "zero", "/index": "empty", "False/index": "false", "7/index": "seven", "x/index": "x",
               "page": "[{% include 'index' %}]", "0/page": "[0:{% include 'index' %}]"}

    def get_source(self, env, template_name, *, context=None, **kwargs):
        uid = kwargs.get("uid")
        if uid is None and context is not None:
            uid = context.globals.get("uid")
        key = template_name if uid is None else "%s/%s" % (uid, template_name)
        if key not in self.SOURCES:
            raise TemplateNotFoundError(template_name)
        return TemplateSource(self.SOURCES[key], key, None)


def nsval(i):
    if i == 0:
        return None
    if i == 1:
        return ""
    if i == 2:
        return 0
    if i == 3:
        return False
    if i == 4:
        return 7
    return "x"


def _uid_request(env, name, uid, use_async, via_ctx):
    kw = {}
    ctx = None
    if uid is not None:
        if via_ctx:
            ctx = RenderContext(env.from_string(""), globals={"uid": uid})
        else:
            kw["uid"] = uid
    if use_async:
        return snapshot(lambda: drive(env.get_template_async(name, context=ctx, **kw)))
    return snapshot(lambda: env.get_template(name, context=ctx, **kw))


def _uid_case(i1, i2, i3, a1, a2, c1, c2, page, choice):
    if choice:
        lc = CachingChoiceLoader([UidLoader()], namespace_key="uid", capacity=8)
        lp = ChoiceLoader([UidLoader()])
    else:
        class CachingUid(CachingLoaderMixin, UidLoader):
            def __init__(self, **kw):
                super().__init__(**kw)
        lc = CachingUid(namespace_key="uid", capacity=8)
        lp = UidLoader()
    env_c = Environment(loader=lc)
    env_p = Environment(loader=lp)
    name = "page" if page else "index"
    ok = _uid_request(env_c, name, nsval(i1), a1, c1) == _uid_request(env_p, name, nsval(i1), a1, c1)
    ok = ok and _uid_request(env_c, name, nsval(i2), a2, c2) == _uid_request(env_p, name, nsval(i2), a2, c2)
    ok = ok and _uid_request(env_c, "index", nsval(i3), a1, c2) == _uid_request(env_p, "index", nsval(i3), a1, c2)
    return ok


def _mk_uid(choice):
    nm_ = "c23_uid_%s" % ("choice" if choice else "mixin")

    def f(i1: int, i2: int, i3: int, a1: bool, a2: bool, c1: bool, c2: bool, page: bool) -> bool:
        """
        pre: 0 <= i1 <= 5 and 0 <= i2 <= 5 and 0 <= i3 <= 5
        post: _
        """
        # three requests whose namespace is absent / '' / 0 / false / 7 / 'x', passed by keyword or via the render
        # context (also the context of an include inside the requested template)
        if excluded(nm_, locals()):
            return True
        args = (cint(i1, 0, 5), cint(i2, 0, 5), cint(i3, 0, 5), cbool(a1), cbool(a2), cbool(c1), cbool(c2), cbool(page))
        return finish(untraced(lambda: _uid_case(*args, choice)))
    f.__name__ = f.__qualname__ = nm_
    return nm_, f


for _c in (False, True):
    _n, _f = _mk_uid(_c)
    globals()[_n] = _f
    CONDITIONS.append({"fn": _n, "quick": 100, "thorough": 300, "sel_only": True})



# ---- a template-local variable named like the namespace key (assign / for / capture / render argument) must not steer the cache:
# the documented namespace is the render context's *global* ---------------------------------------------------------------------
UidLoader.SOURCES.update({
    "shadow_assign": "{% assign uid = 'x' %}[{% include 'index' %}]",
    "shadow_for": "{% for uid in xs %}[{% include 'index' %}]{% endfor %}",
    "shadow_capture": "{% capture uid %}x{% endcapture %}[{% include 'index' %}]",
    "shadow_render": "[{% render 'index', uid: 'x' %}][{% include 'index', uid: 'x' %}]",
    "shadow_increment": "{% increment uid %}[{% include 'index' %}]",
})
SHADOW_PAGES = ["shadow_assign", "shadow_for", "shadow_capture", "shadow_render", "shadow_increment"]


def _shadow_case(pi, gi, a1, choice):
    if choice:
        lc = CachingChoiceLoader([UidLoader()], namespace_key="uid", capacity=8)
        lp = ChoiceLoader([UidLoader()])
    else:
        class CachingUid(CachingLoaderMixin, UidLoader):
            def __init__(self, **kw):
                super().__init__(**kw)
        lc = CachingUid(namespace_key="uid", capacity=8)
        lp = UidLoader()
    res = []
    for env in (Environment(loader=lc), Environment(loader=lp)):
        g = nsval(gi)
        data = {"xs": ["x"]} if g is None else {"xs": ["x"], "uid": g}
        one = []
        try:
            t = env.get_template(SHADOW_PAGES[pi])
            one.append(drive(t.render_async(**data)) if a1 else t.render(**data))
        except LiquidError as e:
            one.append("ERR:" + type(e).__name__)
        for u in ("x", g, 0):
            one.append(_uid_request(env, "index", u, a1, False))
        res.append(one)
    return res


def c23_uid_shadowed_local(pi: int, gi: int, a1: bool, choice: bool) -> bool:
    """
    pre: 0 <= pi <= 4 and 0 <= gi <= 5
    post: _
    """
    if excluded("c23_uid_shadowed_local", locals()):
        return True
    args = (cint(pi, 0, 4), cint(gi, 0, 5), cbool(a1), cbool(choice))
    r = untraced(lambda: _shadow_case(*args))
    return finish(r[0] == r[1])


DETAIL["c23_uid_shadowed_local"] = lambda pi, gi, a1, choice: {"page": UidLoader.SOURCES[SHADOW_PAGES[pi]], "global uid": repr(nsval(gi)),
                                                               "caching / plain (page output, then index for 'x', the global, 0)": _shadow_case(pi, gi, a1, choice)}
CONDITIONS.append({"fn": "c23_uid_shadowed_local", "quick": 40, "thorough": 80, "sel_only": True})

ASSUMPTIONS = [
    "the cache's collections.OrderedDict is replaced by vf.stubs.ModelOD (validated against the real class by the self-test)",
    "pathlib.Path in liquid.loader is replaced by FakePath (name = text after the last '/', str() = the text)",
    "the source loader for symbolic names is an association-list loader selecting by (namespace, name) with a version-based uptodate callable; the shipped CachingDictLoader / CachingChoiceLoader are exercised with names from a selector pool",
    "coroutines are driven with send(None): none of the exercised awaits suspends",
]
OUTSIDE = ["request sequences longer than 3", "strings longer than 2-3 code points"]


def selftest():
    return validate_model_od(3)
