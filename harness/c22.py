"""C22 Template loaders never read outside their search paths.

A. c22_logic_*: the real FileSystemLoader.resolve_path / PackageLoader._resolve_path run
   against SymPath, a stand-in for pathlib.Path whose answers (has a name, has a suffix,
   contains '..', is absolute, exists, is a file, resolves inside the base) are symbolic
   bools. Oracle: a path is returned only if name and not pardir and not absolute and exists
   and is_file and (reject_symlinks => resolves inside); otherwise TemplateNotFoundError and
   nothing else.
B. c22_real_*: the real loaders (plain, caching, package; sync and async) against a sandbox
   tree with decoys and symlinks; template names are assembled from selector pools of path
   fragments (solver-steered enumeration; sel_only). Oracle: whatever is returned is the
   content of a file lexically inside a search directory (and really inside when symlinks are
   rejected); failures are TemplateNotFoundError only.
"""
import os
import shutil
import sys
import tempfile

import liquid.builtin.loaders.file_system_loader as FS
import liquid.builtin.loaders.package_loader as PK
from liquid import CachingFileSystemLoader, Environment, FileSystemLoader, PackageLoader
from liquid.exceptions import TemplateNotFoundError

from vf.hx import cbool, cint, drive, excluded, finish, untraced

PROPERTY = "C22"
RealPath = FS.Path

# --------------------------------------------------------------------------- A
CUR = [None]


class Flags:
    def __init__(self, has_name, has_suffix, pardir, absolute, exists, is_file, inside):
        self.has_name = has_name
        self.has_suffix = has_suffix
        self.pardir = pardir
        self.absolute = absolute
        self.exists_ = exists
        self.is_file_ = is_file
        self.inside = inside


class SymPath:
    """Stands in for pathlib.Path inside the loader modules; answers from symbolic flags."""

    def __init__(self, x="", role="name"):
        self.role = x.role if isinstance(x, SymPath) else role
        self.f = CUR[0]
        self.suffixed = x.suffixed if isinstance(x, SymPath) else False

    @property
    def name(self):
        return "n" if self.f.has_name else ""

    @property
    def suffix(self):
        return ".s" if (self.f.has_suffix or self.suffixed) else ""

    def with_suffix(self, ext):
        if not self.f.has_name:
            raise ValueError("has an empty name")
        p = SymPath(self)
        p.suffixed = True
        return p

    @property
    def parts(self):
        return ("..", "n") if self.f.pardir else ("n",)

    def is_absolute(self):
        return self.f.absolute

    def joinpath(self, other):
        p = SymPath(other, role="joined")
        return p

    def exists(self):
        return self.f.exists_

    def is_file(self):
        return self.f.is_file_

    def resolve(self, strict=False):
        p = SymPath(self)
        p.role = "resolved:" + self.role
        return p

    def is_relative_to(self, other):
        return self.f.inside

    def __str__(self):
        return "sympath"


class Trav:
    """Stand-in for an importlib Traversable in PackageLoader.paths."""

    def joinpath(self, s):
        return Trav()

    def is_file(self):
        return CUR[0].is_file_


def _with_sympath(thunk):
    FS.Path = SymPath
    PK.Path = SymPath
    try:
        return thunk()
    finally:
        FS.Path = RealPath
        PK.Path = RealPath


def c22_logic_fs(has_name: bool, has_suffix: bool, pardir: bool, absolute: bool, exists: bool, is_file: bool,
                 inside: bool, reject: bool, ext: bool, two: bool) -> bool:
    """
    pre: has_name or not has_suffix
    pre: exists or not is_file
    post: _
    """
    if excluded("c22_logic_fs", locals()):
        return True
    CUR[0] = Flags(has_name, has_suffix, pardir, absolute, exists, is_file, inside)

    def run():
        loader = FS.FileSystemLoader.__new__(FS.FileSystemLoader)
        loader.search_path = [SymPath("base", role="base")] + ([SymPath("base2", role="base")] if two else [])
        loader.encoding = "utf-8"
        loader.ext = ".liquid" if ext else None
        loader.reject_symlinks = reject
        try:
            loader.resolve_path("whatever")
        except TemplateNotFoundError:
            return "nf"
        except Exception as e:
            return "exc:" + type(e).__name__
        return "ok"
    r = _with_sympath(run)
    allowed = has_name and not pardir and not absolute and exists and is_file and (inside or not reject)
    return finish(r == ("ok" if allowed else "nf"))


def c22_logic_pkg(has_name: bool, has_suffix: bool, pardir: bool, absolute: bool, is_file: bool) -> bool:
    """
    pre: has_name or not has_suffix
    post: _
    """
    if excluded("c22_logic_pkg", locals()):
        return True
    CUR[0] = Flags(has_name, has_suffix, pardir, absolute, True, is_file, True)

    def run():
        loader = PK.PackageLoader.__new__(PK.PackageLoader)
        loader.paths = [Trav()]
        loader.encoding = "utf-8"
        loader.ext = ".liquid"
        try:
            loader._resolve_path("whatever")
        except TemplateNotFoundError:
            return "nf"
        except Exception as e:
            return "exc:" + type(e).__name__
        return "ok"
    r = _with_sympath(run)
    allowed = has_name and not pardir and not absolute and is_file
    return finish(r == ("ok" if allowed else "nf"))


# --------------------------------------------------------------------------- B
WORK = os.path.join(os.path.dirname(os.path.dirname(os.path.abspath(__file__))), ".work")
os.makedirs(WORK, exist_ok=True)
ROOT = tempfile.mkdtemp(prefix="c22-", dir=WORK)
import atexit  # noqa: E402
atexit.register(shutil.rmtree, ROOT, True)


def _w(rel, text):
    p = os.path.join(ROOT, rel)
    os.makedirs(os.path.dirname(p), exist_ok=True)
    with open(p, "w", encoding="utf-8") as fd:
        fd.write(text)


_w("search/a.liquid", "INSIDE a")
_w("search/a.txt", "INSIDE a.txt")
_w("search/sub/b.liquid", "INSIDE sub/b")
_w("search/é.liquid", "INSIDE e-acute")
_w("search2/c.liquid", "INSIDE2 c")
_w("search2/a.liquid", "INSIDE2 a")
_w("search_private/secret.liquid", "OUTSIDE sibling whose name has the search directory's name as a prefix")
_w("search_private/a.liquid", "OUTSIDE sibling a")
_w("outside/decoy.liquid", "OUTSIDE decoy")
_w("outside/a.liquid", "OUTSIDE a")
_w("decoy.liquid", "OUTSIDE root decoy")
_w("vfpkg22/__init__.py", "")
_w("vfpkg22/templates/a.liquid", "PKG a")
_w("vfpkg22/templates/sub/b.liquid", "PKG sub/b")
_w("vfpkg22/decoy.liquid", "OUTSIDE pkg decoy")
os.symlink("a.liquid", os.path.join(ROOT, "search/link_in.liquid"))
os.symlink("../outside/decoy.liquid", os.path.join(ROOT, "search/link_out.liquid"))
os.symlink("../search_private", os.path.join(ROOT, "search/linkdir"))
os.symlink("../search_private/secret.liquid", os.path.join(ROOT, "search/link_sib.liquid"))
SEARCH = os.path.join(ROOT, "search")
SEARCH2 = os.path.join(ROOT, "search2")
sys.path.insert(0, ROOT)
PKGDIR = os.path.join(ROOT, "vfpkg22", "templates")
ABS_DECOY = os.path.join(ROOT, "outside", "decoy")


def frag(i):
    if i == 0:
        return ""
    if i == 1:
        return "a"
    if i == 2:
        return ".."
    if i == 3:
        return "."
    if i == 4:
        return "sub"
    if i == 5:
        return "linkdir"
    if i == 6:
        return "link_out"
    if i == 7:
        return "link_sib"
    if i == 8:
        return "n" * 300
    if i == 9:
        return ".." + chr(92) + "decoy"      # a parent reference spelt with a backslash (one path component on POSIX)
    if i == 10:
        return "\x00"
    if i == 11:
        return "é"
    if i == 12:
        return "decoy"
    if i == 13:
        return "search"
    if i == 14:
        return "link_in"
    return "b"


def prefix(i):
    if i == 0:
        return ""
    if i == 1:
        return "/"
    if i == 2:
        return "./"
    if i == 3:
        return "../"
    if i == 4:
        return ROOT + "/outside/"
    if i == 5:
        return "//"
    return SEARCH + "/"


def suffix(i):
    if i == 0:
        return ""
    if i == 1:
        return ".liquid"
    if i == 2:
        return ".txt"
    if i == 3:
        return "."
    return "/"


class InlineLoop:
    def run_in_executor(self, ex, fn, *args):
        async def _r():
            return fn(*args)
        return _r()


class _Asyncio:
    def get_running_loop(self):
        return InlineLoop()


def _inside(path, bases, real):
    p = os.path.realpath(path) if real else os.path.normpath(os.path.abspath(path))
    for b in bases:
        bb = os.path.realpath(b) if real else os.path.normpath(os.path.abspath(b))
        if p == bb or p.startswith(bb + os.sep):
            return True
    return False


def fs_request(loader, name, use_async, bases, reject):
    env = Environment(loader=loader)
    saved = (FS.asyncio, PK.asyncio)
    FS.asyncio = _Asyncio()
    PK.asyncio = _Asyncio()
    try:
        try:
            if use_async:
                src = drive(loader.get_source_async(env, name))
            else:
                src = loader.get_source(env, name)
        except TemplateNotFoundError:
            return True
        except Exception:
            return False
    finally:
        FS.asyncio, PK.asyncio = saved
    path = src.name
    if not _inside(path, bases, False):
        return False
    if reject and not _inside(path, bases, True):
        return False
    try:
        with open(path, encoding="utf-8") as fd:
            content = fd.read()
    except Exception:
        return False
    if src.text != content:
        return False
    if "OUTSIDE" in src.text and (reject or not os.path.islink(path)) and "linkdir" not in path:
        return False
    return True


def _name(p, f1, sep, f2, s):
    n = prefix(p) + frag(f1)
    if sep:
        n = n + "/" + frag(f2)
    return n + suffix(s)


def _req(kind, name, reject, ext, use_async):
    if kind == "fs":
        loader = FileSystemLoader([SEARCH, SEARCH2], ext=".liquid" if ext else None, reject_symlinks=reject)
        return fs_request(loader, name, use_async, [SEARCH, SEARCH2], reject)
    if kind == "pkg":
        return fs_request(PackageLoader("vfpkg22"), name, use_async, [PKGDIR], False)
    loader = CachingFileSystemLoader(SEARCH, ext=".liquid", reject_symlinks=reject)
    ok = fs_request(loader, name, use_async, [SEARCH], reject)
    # the public API: whatever template comes back renders inside content only (or the link target when allowed)
    env = Environment(loader=loader)
    try:
        t = env.get_template(name)
        out = t.render()
        ok = ok and (("OUTSIDE" not in out) or ((not reject) and ("link" in name)))
    except TemplateNotFoundError:
        pass
    except Exception:
        ok = False
    return ok


def _mk_real(kind, p, use_async, wide):
    nm = "c22_%s_%s_p%d_%s" % ("wide" if wide else "real", kind, p, "async" if use_async else "sync")
    if wide:
        def f(f1: int, sep: bool, f2: int, s: int, reject: bool, ext: bool) -> bool:
            """
            pre: 0 <= f1 <= 15 and 0 <= f2 <= 15 and 0 <= s <= 4
            post: _
            """
            if excluded(nm, locals()):
                return True
            if kind == "pkg" and (reject or ext):
                return True
            if kind == "cfs" and ext:
                return True
            name = _name(p, f1, cbool(sep), f2, s)
            reject, ext = cbool(reject), cbool(ext)
            return finish(untraced(lambda: _req(kind, name, reject, ext, use_async)))
    else:
        def f(f1: int, sep: bool, f2: int, s: int, reject: bool, ext: bool) -> bool:
            """
            pre: 0 <= f1 <= 9 and 0 <= f2 <= 9 and 0 <= s <= 2
            post: _
            """
            if excluded(nm, locals()):
                return True
            if kind == "pkg" and (reject or ext):
                return True
            if kind == "cfs" and ext:
                return True
            name = _name(p, f1, cbool(sep), f2, s)
            reject, ext = cbool(reject), cbool(ext)
            return finish(untraced(lambda: _req(kind, name, reject, ext, use_async)))
    f.__name__ = f.__qualname__ = nm
    return nm, f


CONDITIONS = [
    {"fn": "c22_logic_fs", "quick": 40, "thorough": 120},
    {"fn": "c22_logic_pkg", "quick": 30, "thorough": 60},
]
for _kind in ("fs", "cfs", "pkg"):
    for _p in range(7):
        for _a in (False, True):
            _nm, _f = _mk_real(_kind, _p, _a, False)
            globals()[_nm] = _f
            # quick: sync for every prefix, async for the absolute / parent prefixes
            CONDITIONS.append({"fn": _nm, "quick": 90 if ((not _a and _p in (0, 1, 3, 4)) or (_a and _p == 1 and _kind != "cfs") or (_a and _p == 4 and _kind == "pkg")) else None, "thorough": 200, "sel_only": True})
            _nm, _f = _mk_real(_kind, _p, _a, True)
            globals()[_nm] = _f
            CONDITIONS.append({"fn": _nm, "quick": None, "thorough": 500, "sel_only": True})
# ---- a directory that changes between two requests to the same loader: every request is judged against the files as
# they are when it is made (nothing remembered from an earlier request may be served or followed) ------------------------
_MUT_N = [0]


def mutation_case(kind, mut, reject, a1, a2, via_env):
    _MUT_N[0] += 1
    base = os.path.join(ROOT, "mut%d" % _MUT_N[0])
    search = os.path.join(base, "search")
    os.makedirs(search)
    os.makedirs(os.path.join(base, "outside"))
    with open(os.path.join(base, "outside", "decoy.liquid"), "w") as fd:
        fd.write("OUTSIDE decoy")
    with open(os.path.join(search, "other.liquid"), "w") as fd:
        fd.write("INSIDE other")
    target = os.path.join(search, "t.liquid")
    with open(target, "w") as fd:
        fd.write("INSIDE t")
    cls = FileSystemLoader if kind == 0 else CachingFileSystemLoader
    loader = cls(search, reject_symlinks=reject)
    env = Environment(loader=loader)
    saved = (FS.asyncio, PK.asyncio)
    FS.asyncio = _Asyncio()
    PK.asyncio = _Asyncio()

    def request(use_async):
        """('notfound',) / ('text', text) / ('error', class name)"""
        try:
            if via_env:
                t = drive(env.get_template_async("t.liquid")) if use_async else env.get_template("t.liquid")
                return ("text", t.render())
            src = drive(loader.get_source_async(env, "t.liquid")) if use_async else loader.get_source(env, "t.liquid")
            return ("text", src.text)
        except TemplateNotFoundError:
            return ("notfound",)
        except Exception as e:
            return ("error", type(e).__name__)
    try:
        first = request(a1)
        os.remove(target)
        want = ("notfound",)
        if mut == 1:
            os.symlink(os.path.join(base, "outside", "decoy.liquid"), target)
            want = ("notfound",) if reject else ("text", "OUTSIDE decoy")
        elif mut == 2:
            os.makedirs(target)
        elif mut == 3:
            with open(target, "w") as fd:
                fd.write("INSIDE t, edited")
            os.utime(target, (2000000000, 2000000000))
            want = ("text", "INSIDE t, edited")
        elif mut == 4:
            os.symlink("other.liquid", target)
            want = ("text", "INSIDE other")
        second = request(a2)
    finally:
        FS.asyncio, PK.asyncio = saved
        shutil.rmtree(base, True)
    return first, second, want


def c22_directory_changes(kind: int, mut: int, reject: bool, a1: bool, a2: bool, via_env: bool) -> bool:
    """
    pre: 0 <= kind <= 1 and 0 <= mut <= 4
    post: _
    """
    # kind: plain / caching file-system loader; mut: the template file is deleted / replaced by a symlink leading out of the
    # search path / by a directory / edited / replaced by a symlink to another file inside
    if excluded("c22_directory_changes", locals()):
        return True
    kind, mut = cint(kind, 0, 1), cint(mut, 0, 4)
    reject, a1, a2, via_env = cbool(reject), cbool(a1), cbool(a2), cbool(via_env)
    first, second, want = untraced(lambda: mutation_case(kind, mut, reject, a1, a2, via_env))
    return finish(first == ("text", "INSIDE t") and second == want)


DETAIL = globals().get("DETAIL", {})
DETAIL["c22_directory_changes"] = lambda kind, mut, reject, a1, a2, via_env: dict(zip(("first request", "second request", "expected second"),
                                                                                   mutation_case(kind, mut, reject, a1, a2, via_env)))
CONDITIONS.append({"fn": "c22_directory_changes", "quick": 60, "thorough": 120, "sel_only": True})

ASSUMPTIONS = [
    "c22_logic_*: pathlib.Path inside the two loader modules is replaced by SymPath (answers from symbolic flags, consistent under with_suffix/joinpath/resolve); impossible flag combinations (suffix without name, file that does not exist) are excluded by precondition; trusted contract: a relative path without '..' parts joined to base is lexically inside base",
    "c22_real_*: names = prefix x fragment [x '/' fragment] x suffix from selector pools (7 x 15 x 16 x 5); the sandbox tree under /verif/.work has decoys outside, a file symlink and a directory symlink leading out; asyncio's executor is replaced by an inline loop",
]
OUTSIDE = ["pathlib's own parsing for all strings", "Windows drive/UNC names", "names outside the fragment pools"]


def selftest():
    fails = []
    env = Environment(loader=FileSystemLoader(SEARCH, ext=".liquid"))
    if env.get_template("a").render() != "INSIDE a":
        fails.append("sandbox: a not loadable")
    if not fs_request(FileSystemLoader(SEARCH, ext=".liquid"), "sub/b", False, [SEARCH], False):
        fails.append("oracle rejects sub/b")
    if fs_request(FileSystemLoader(ROOT), "outside/decoy.liquid", False, [SEARCH], False):
        fails.append("oracle accepts a decoy served from outside the declared bases")
    return fails
