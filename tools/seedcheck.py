#!/usr/bin/env python3
"""Confirm a seeded breaking change and run checks against it.

  tools/seedcheck.py confirm <dir>             # dir has patch.diff and demo.py
  tools/seedcheck.py run <dir> <ID> [tier] [--only substr]          # against a patched scratch worktree (VF_REPO)
  tools/seedcheck.py run-inplace <dir> <ID> [tier] [--only substr]  # against /repo itself, patched and restored

confirm: in a scratch worktree of /repo HEAD (outside /repo and /verif): demo passes on the clean tree,
         patch applies, the suite still passes (1385), demo fails with the patch. Worktree removed.
run:     git -C /repo apply <patch>; ./check <ID>; git -C /repo checkout -- . (always undone).
"""
import os
import shutil
import subprocess
import sys
import tempfile

PY = "/venv/bin/python"


def sh(cmd, cwd=None, env=None, timeout=3600):
    p = subprocess.run(cmd, cwd=cwd, env=env, capture_output=True, text=True, timeout=timeout)
    return p.returncode, p.stdout + p.stderr


def confirm(d):
    d = os.path.abspath(d)
    patch = os.path.join(d, "patch.diff")
    demo = os.path.join(d, "demo.py")
    wt = tempfile.mkdtemp(prefix="sc-", dir="/tmp")
    os.rmdir(wt)
    rc, out = sh(["git", "-C", "/repo", "worktree", "add", "-q", "--detach", wt, "HEAD"])
    if rc:
        print("worktree failed", out)
        return 2
    res = {}
    try:
        env = dict(os.environ, PYTHONPATH=wt)
        rc, out = sh([PY, demo], cwd=wt, env=env, timeout=600)
        res["demo_clean_rc"] = rc
        rc, out = sh(["git", "apply", patch], cwd=wt)
        res["apply_rc"] = rc
        if rc:
            print("patch does not apply:", out)
            return 2
        rc, out = sh(["git", "diff", "--stat"], cwd=wt)
        res["diffstat"] = out.strip().splitlines()[-1] if out.strip() else ""
        rc, out = sh([PY, "-m", "pytest", "-q", "-p", "no:cacheprovider", "--continue-on-collection-errors", "-n", "8"], cwd=wt, env=env, timeout=1800)
        tail = [l for l in out.splitlines() if " passed" in l or " failed" in l]
        res["suite"] = tail[-1] if tail else out[-300:]
        rc, out = sh([PY, demo], cwd=wt, env=env, timeout=600)
        res["demo_patched_rc"] = rc
        res["demo_patched_out"] = out.strip()[-400:]
    finally:
        sh(["git", "-C", "/repo", "worktree", "remove", "--force", wt])
        shutil.rmtree(wt, ignore_errors=True)
    ok = res["demo_clean_rc"] == 0 and res["demo_patched_rc"] != 0 and "1385 passed" in res["suite"] and "failed" not in res["suite"]
    res["confirmed"] = ok
    for k, v in res.items():
        print("%s: %s" % (k, v))
    return 0 if ok else 1


def run(d, pid, tier="quick", extra=()):
    """Runs ./check against a scratch worktree of /repo HEAD with the patch applied (VF_REPO), results under a scratch
    directory (VF_OUT): /repo, the evidence files and the replays of /verif are not touched, so this can run next to
    other checks. `run-inplace` is the same against /repo itself (git apply / git checkout -- .)."""
    patch = os.path.join(os.path.abspath(d), "patch.diff")
    wt = tempfile.mkdtemp(prefix="sr-", dir="/tmp")
    os.rmdir(wt)
    out_dir = tempfile.mkdtemp(prefix="so-", dir="/tmp")
    rc, out = sh(["git", "-C", "/repo", "worktree", "add", "-q", "--detach", wt, "HEAD"])
    if rc:
        print("worktree failed", out)
        return 2
    try:
        rc, out = sh(["git", "apply", patch], cwd=wt)
        if rc:
            print("patch does not apply:", out)
            return 2
        env = dict(os.environ, VF_REPO=wt, VF_OUT=out_dir)
        rc, out = sh(["./check", pid, "--tier", tier] + list(extra), cwd="/verif", env=env, timeout=7200)
    finally:
        sh(["git", "-C", "/repo", "worktree", "remove", "--force", wt])
        shutil.rmtree(wt, ignore_errors=True)
        shutil.rmtree(out_dir, ignore_errors=True)
    return report(rc, out)


def run_inplace(d, pid, tier="quick", extra=()):
    patch = os.path.join(os.path.abspath(d), "patch.diff")
    rc, out = sh(["git", "-C", "/repo", "status", "--porcelain"])
    if out.strip():
        print("refusing: /repo is not clean:", out)
        return 2
    rc, out = sh(["git", "-C", "/repo", "apply", patch])
    if rc:
        print("patch does not apply to /repo:", out)
        return 2
    try:
        rc, out = sh(["./check", pid, "--tier", tier] + list(extra), cwd="/verif", timeout=7200)
    finally:
        sh(["git", "-C", "/repo", "checkout", "--", "."])
        shutil.rmtree("/repo/.hypothesis/examples", ignore_errors=True)
    return report(rc, out)


def report(rc, out):
    lines = out.splitlines()
    viol = [l for l in lines if l.startswith("VIOLATION")]
    summ = [l for l in lines if " conditions {" in l]
    print("exit=%d violations=%d %s" % (rc, len(viol), summ[-1] if summ else ""))
    for l in lines:
        if l.startswith("VIOLATION") or l.startswith("  condition=") or l.startswith("HARNESS"):
            print(l[:300])
    return rc


if __name__ == "__main__":
    if sys.argv[1] == "confirm":
        sys.exit(confirm(sys.argv[2]))
    tier = "quick"
    extra = []
    rest = sys.argv[4:]
    if rest and not rest[0].startswith("--"):
        tier = rest[0]
        rest = rest[1:]
    sys.exit((run_inplace if sys.argv[1] == "run-inplace" else run)(sys.argv[2], sys.argv[3], tier, rest))
