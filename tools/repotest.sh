#!/bin/bash
# Runs /repo's baseline test suite (guard off; there are no hooks) and removes hypothesis' example DB afterwards.
cd /repo && /venv/bin/python -m pytest -q -p no:cacheprovider --timeout=900 --continue-on-collection-errors -n 12 "$@" 2>&1 | tail -3
rm -rf /repo/.hypothesis/examples /repo/.hypothesis/constants
