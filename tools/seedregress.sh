#!/bin/bash
# tools/seedregress.sh [jobs] : every seeded change must still be reported by the quick tier of its property
# (each run uses a patched scratch worktree, see tools/seedcheck.py run). Prints one line per seed; exit 1 if any is missed.
cd /verif
J=${1:-3}
ls seeded | xargs -P $J -I{} bash -c 'id=$(echo {} | cut -c1-3); out=$(tools/seedcheck.py run seeded/{} $id quick 2>&1 | head -1); echo "{} $out"' | tee /tmp/seedregress.log
if grep -q "violations=0" /tmp/seedregress.log; then echo MISSED; grep "violations=0" /tmp/seedregress.log; exit 1; fi
echo "all $(wc -l < /tmp/seedregress.log) seeded changes reported"
