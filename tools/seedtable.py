#!/usr/bin/env python3
"""Regenerates the table of DESIGN.md section 10 from seeded/*/meta.json (between the markers)."""
import json, os, re
root = os.path.dirname(os.path.dirname(os.path.abspath(__file__)))
rows = []
for d in sorted(os.listdir(os.path.join(root, "seeded"))):
    m = json.load(open(os.path.join(root, "seeded", d, "meta.json")))
    rows.append("| %s | %s | %s | %s |" % (d, m["property"], m["needs_to_manifest"].replace("|", "\\|"), m["caught_by"].replace("|", "\\|")))
missed = sum(1 for r in rows if "missed at first" in r or "was missed" in r)
head = "| seed | property | needs, in order to manifest | caught by (quick tier) |\n|---|---|---|---|\n"
table = "<!-- SEEDTABLE-BEGIN -->\n%d changes; %d were caught by the checks as built, %d were missed at first and led to the strengthening noted in the last column; all are now reported as `VIOLATION` by the quick tier of their property, and every such violation replays on the plain interpreter.\n\n" % (len(rows), len(rows) - missed, missed) + head + "\n".join(rows) + "\n<!-- SEEDTABLE-END -->"
p = os.path.join(root, "DESIGN.md")
s = open(p).read()
if "<!-- SEEDTABLE-BEGIN -->" in s:
    s = re.sub(r"<!-- SEEDTABLE-BEGIN -->.*?<!-- SEEDTABLE-END -->", lambda m: table, s, flags=re.S)
else:
    i = s.index("26 changes, one per claimed property.")
    j = s.index("Lessons that changed the machinery")
    s = s[:i] + table + "\n\n" + s[j:]
open(p, "w").write(s)
print(len(rows), "rows")
