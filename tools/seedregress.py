#!/usr/bin/env python3
"""tools/seedregress.py [jobs] [--full]: every seeded change must still be reported by the quick tier of its property.

Default: only the condition named first in the seed's meta.json `caught_by` is run (--only), which takes seconds per seed;
--full runs the whole quick command of the property. Each run uses a patched scratch worktree (tools/seedcheck.py run).
Prints one line per seed; exit 1 if any seeded change is no longer reported."""
import json, os, re, subprocess, sys
from concurrent.futures import ThreadPoolExecutor

ROOT = os.path.dirname(os.path.dirname(os.path.abspath(__file__)))
full = "--full" in sys.argv
jobs = int(next((a for a in sys.argv[1:] if a.isdigit()), "4"))


def only_of(meta):
    first = re.split(r"[ /(]", meta["caught_by"].strip())[0]
    return first.split("*")[0].rstrip("_")


def one(seed):
    d = os.path.join(ROOT, "seeded", seed)
    meta = json.load(open(os.path.join(d, "meta.json")))
    cmd = [os.path.join(ROOT, "tools", "seedcheck.py"), "run", d, meta["property"], "quick"]
    if not full:
        cmd += ["--only", only_of(meta)]
    p = subprocess.run(cmd, capture_output=True, text=True)
    line = (p.stdout.splitlines() or ["no output"])[0]
    return seed, line


seeds = sorted(os.listdir(os.path.join(ROOT, "seeded")))
missed = []
with ThreadPoolExecutor(jobs) as ex:
    for seed, line in ex.map(one, seeds):
        print(seed, line[:160], flush=True)
        if not re.search(r"violations=[1-9]", line):
            missed.append(seed)
if missed:
    print("NOT REPORTED:", " ".join(missed))
    sys.exit(1)
print("all %d seeded changes are reported" % len(seeds))
