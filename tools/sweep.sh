#!/bin/bash
# tools/sweep.sh [quick|thorough] [ids...] : run every registered check once, print one summary line each
cd /verif
TIER=${1:-quick}; shift
IDS=${@:-$(python3 -c "import json; print(' '.join(c['property_id'] for c in json.load(open('MANIFEST.json'))['checks']))")}
for id in $IDS; do
  s=$(date +%s)
  out=$(./check $id --tier $TIER 2>&1); rc=$?
  e=$(date +%s)
  echo "$id rc=$rc wall=$((e-s))s $(echo "$out" | grep ' conditions {' | tail -1 | sed 's/^[^{]*//; s/paths=.*//')"
  echo "$out" | grep "^VIOLATION\|^HARNESS\|^SELFTEST" | head -5
  echo "$out" | grep " inconclusive \| vacuous " | head -12
done
