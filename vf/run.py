"""Per-property orchestration.

  python -m vf.run <ID> [--tier quick|thorough] [--replay path] [--only substr] [--jobs n]

For every condition of harness/<id>.py (one OS process each, up to 16 at once):
  1. listed known findings of the condition are replayed on the plain
     interpreter; those that still fail are printed as KNOWN-FINDING and their
     region is excluded from the search (an assumption, recorded in evidence);
  2. the vacuity twin (final result forced to False) must be refuted;
  3. CrossHair/z3 explore the condition; a counterexample is replayed on the
     plain interpreter and reported only if it fails again, otherwise it is
     excluded as spurious and the search resumes (<= 3 rounds).
Exit 0: nothing violated. Exit 1: VIOLATION line(s). Exit 3: harness error.
"""
import argparse
import concurrent.futures as cf
import hashlib
import importlib
import inspect
import json
import os
import random
import re
import subprocess
import sys
import time

ROOT = os.path.dirname(os.path.dirname(os.path.abspath(__file__)))
# The registered commands run with neither variable set: the code under test is /repo and the results go to /verif.
# tools/seedcheck.py sets both to run the same checks against a patched scratch worktree without touching /repo or
# the committed evidence.
REPO = os.environ.get("VF_REPO", "/repo")
OUT = os.environ.get("VF_OUT", ROOT)
PY = sys.executable
FAIL_STATES = ("POST_FAIL", "EXEC_ERR", "POST_ERR")


def _worker(args, env_extra, wall):
    env = dict(os.environ)
    env.update(env_extra)
    env["PYTHONPATH"] = ROOT + os.pathsep + (REPO + os.pathsep if REPO != "/repo" else "") + env.get("PYTHONPATH", "")
    env["PYTHONHASHSEED"] = "0"
    t0 = time.time()
    try:
        p = subprocess.run([PY, "-m", "vf.worker"] + [str(a) for a in args], cwd=ROOT, env=env,
                           capture_output=True, text=True, timeout=wall)
        out = p.stdout
        err = p.stderr
    except subprocess.TimeoutExpired as e:
        return {"crash": "wall timeout %ss" % wall, "wall_total": time.time() - t0}
    for line in reversed(out.splitlines()):
        if line.startswith("@@RESULT "):
            d = json.loads(line[9:])
            d["wall_total"] = round(time.time() - t0, 2)
            return d
    return {"crash": "no result; rc=%s stderr=%s" % (p.returncode, err[-1500:]), "wall_total": time.time() - t0}


def sym(mod, fn, timeout, seed, excl, twin=False):
    env = {"VF_EXCL": json.dumps({fn: excl})}
    if twin:
        env["VF_TWIN"] = "1"
    else:
        env["VF_TWIN"] = "0"
    return _worker(["sym", mod, fn, timeout, seed], env, wall=timeout * 3 + 90)


def replay(mod, fn, call):
    return _worker(["replay", mod, fn, call], {"VF_TWIN": "0", "VF_EXCL": "{}"}, wall=300)


def first_failure(res):
    for m in res.get("messages", []):
        if m["state"] in FAIL_STATES and m.get("call"):
            return m
    return None


def states(res):
    return [m["state"] for m in res.get("messages", [])]


def exact_exclusion(modname, fn, call):
    """Predicate that excludes exactly the argument tuple of a spurious point."""
    r = _worker(["bind", modname, fn, call], {"VF_TWIN": "0"}, wall=120)
    return r.get("predicate")


def run_condition(modname, cond, tier, seed, known):
    fn = cond["fn"]
    timeout = cond[tier]
    rec = {"condition": fn, "timeout_s": timeout, "bounds": cond.get("bounds", ""),
           "sel_only": bool(cond.get("sel_only")), "known": [], "spurious": [], "rounds": 0,
           "paths": 0, "reached_oracle": 0, "solver_checks": 0, "solver_s": 0.0, "solver_unknown": 0,
           "functions": [], "notes": []}
    t0 = time.time()
    excl = []
    # 1. known findings
    for kf in known:
        r = replay(modname, fn, kf["witness"])
        if r.get("crash"):
            rec["notes"].append("known-finding replay crashed: " + r["crash"][-300:])
            continue
        if r.get("reproduced"):
            rec["known"].append({"what": kf["what"], "witness": kf["witness"], "exclude": kf["exclude"]})
            excl.append(kf["exclude"])
        else:
            rec["notes"].append("listed finding no longer reproduces (not excluded): " + kf["witness"])
    if any(e.strip() == "True" for e in excl):
        # the whole condition is a listed finding: nothing is left to search
        rec.update({"twin": "n/a", "verdict": "known", "violation": None, "excluded": excl, "wall_s": round(time.time() - t0, 2)})
        return rec
    # 2. twin
    tw = sym(modname, fn, min(timeout, cond.get("twin", 40)), seed, excl, twin=True)
    rec["twin"] = "unreached"
    if tw.get("crash"):
        rec["twin"] = "crash"
        rec["notes"].append("twin crashed: " + tw["crash"][-400:])
    else:
        f = first_failure(tw)
        if f:
            rec["twin"] = "refuted"
            rec["twin_witness"] = f["call"]
            rp = replay(modname, fn, f["call"])
            rec["functions"] = rp.get("functions", [])
            rec["witness_replay_ok"] = (rp.get("reproduced") is False)
        elif "CONFIRMED" in states(tw) or "PRE_UNSAT" in states(tw):
            rec["twin"] = "vacuous"
        else:
            rec["twin"] = "timeout"
    # 3. search
    verdict = "inconclusive"
    violation = None
    max_rounds = 2 if tier == "quick" else 4
    for rnd in range(max_rounds):
        rec["rounds"] = rnd + 1
        r = sym(modname, fn, timeout, seed + rnd, excl)
        for k in ("paths", "reached_oracle", "solver_checks", "solver_unknown"):
            rec[k] += int(r.get(k, 0) or 0)
        rec["solver_s"] = round(rec["solver_s"] + float(r.get("solver_s", 0) or 0), 3)
        if r.get("crash"):
            rec["notes"].append("search crashed: " + r["crash"][-400:])
            verdict = "inconclusive"
            break
        f = first_failure(r)
        if f:
            rp = replay(modname, fn, f["call"])
            if rp.get("reproduced"):
                verdict = "refuted"
                violation = {"call": f["call"], "message": f["message"], "value": rp.get("value"),
                             "exc": rp.get("exc"), "detail": rp.get("detail"), "trace": rp.get("trace")}
                break
            pred = exact_exclusion(modname, fn, f["call"])
            rec["spurious"].append({"call": f["call"], "message": f["message"][:200]})
            if not pred or rnd == max_rounds - 1:
                verdict = "inconclusive"
                break
            excl.append(pred)
            continue
        st = states(r)
        if "CONFIRMED" in st:
            verdict = "confirmed"
        else:
            verdict = "inconclusive"
            rec["notes"].append("states: " + ",".join(st) + " " + "; ".join(m["message"][:120] for m in r.get("messages", []))[:300])
        break
    if verdict == "confirmed" and (rec["spurious"] or cond.get("float") or rec["solver_unknown"]):
        rec["notes"].append("capped at inconclusive (spurious points / float-dependent / solver unknown)")
        verdict = "inconclusive"
    if verdict == "confirmed" and rec["twin"] != "refuted":
        verdict = "inconclusive" if rec["twin"] in ("timeout", "crash") else "vacuous"
    if rec["twin"] == "vacuous":
        verdict = "vacuous" if verdict != "refuted" else verdict
    rec["verdict"] = verdict
    rec["violation"] = violation
    rec["excluded"] = excl
    rec["wall_s"] = round(time.time() - t0, 2)
    return rec


def source_hashes(funcs):
    out = []
    cache = {}
    for fnm, qual, line in funcs:
        path = os.path.join(REPO, fnm)
        if path not in cache:
            try:
                cache[path] = open(path, encoding="utf-8").read().splitlines()
            except OSError:
                cache[path] = []
        lines = cache[path]
        # hash the def block: from first line until next line with indentation <= def's
        if not lines or line > len(lines):
            continue
        start = line - 1
        ind = len(lines[start]) - len(lines[start].lstrip())
        end = start + 1
        while end < len(lines):
            s = lines[end]
            if s.strip() and (len(s) - len(s.lstrip())) <= ind and not s.lstrip().startswith((")", "]")):
                break
            end += 1
        h = hashlib.sha1("\n".join(lines[start:end]).encode()).hexdigest()[:10]
        out.append("%s:%s@%s" % (fnm, qual, h))
    return out


def main():
    ap = argparse.ArgumentParser()
    ap.add_argument("pid")
    ap.add_argument("--tier", default=os.environ.get("VERIF_TIER", "quick"))
    ap.add_argument("--replay")
    ap.add_argument("--only")
    ap.add_argument("--jobs", type=int, default=int(os.environ.get("VERIF_JOBS", "16")))
    a = ap.parse_args()
    pid = a.pid.upper()
    tier = a.tier if a.tier in ("quick", "thorough") else "quick"
    seed = int(os.environ.get("VERIF_SEED", "0") or 0)
    modname = "harness." + pid.lower()

    if a.replay:
        d = json.load(open(a.replay))
        r = replay(d["module"], d["condition"], d["call"])
        print(json.dumps({k: r.get(k) for k in ("reproduced", "value", "exc", "detail")}, indent=1))
        if r.get("reproduced"):
            print("VIOLATION property=%s replay=%s" % (pid, a.replay))
            sys.exit(1)
        sys.exit(0)

    t0 = time.time()
    # metadata is read in a subprocess so that the runner never imports liquid
    meta = _worker(["meta", modname], {"VF_TWIN": "0"}, wall=300)
    if meta.get("crash"):
        print("HARNESS-ERROR property=%s cannot import harness: %s" % (pid, meta["crash"][-2000:]))
        sys.exit(3)
    selftest_failed = bool(meta.get("selftest_failures"))
    if selftest_failed:
        # Do not stop: if the code under test is what broke the self-test, the conditions below will
        # produce a replayed VIOLATION. Without one, the run ends as a harness error (exit 3).
        print("SELFTEST-FAILED property=%s %s" % (pid, json.dumps(meta["selftest_failures"])[:1500]))
    conds = [c for c in meta["conditions"] if c.get(tier)]
    if a.only:
        conds = [c for c in conds if a.only in c["fn"]]
    rng = random.Random(seed)
    rng.shuffle(conds)
    conds.sort(key=lambda c: -c[tier])  # longest first for packing; seed breaks ties

    kf_path = os.path.join(ROOT, "known_findings.json")
    known_all = json.load(open(kf_path)).get("findings", []) if os.path.exists(kf_path) else []
    known_by = {}
    for kf in known_all:
        if kf["property"] == pid:
            known_by.setdefault(kf["harness"], []).append(kf)

    recs = []
    with cf.ThreadPoolExecutor(max_workers=a.jobs) as ex:
        futs = {ex.submit(run_condition, modname, c, tier, seed, known_by.get(c["fn"], [])): c for c in conds}
        for fu in cf.as_completed(futs):
            recs.append(fu.result())
    recs.sort(key=lambda r: r["condition"])

    # report
    os.makedirs(os.path.join(OUT, "evidence"), exist_ok=True)
    rdir = os.path.join(OUT, "replays", pid)
    os.makedirs(rdir, exist_ok=True)
    violations = 0
    harness_err = []
    printed = set()
    for r in recs:
        for k in r["known"]:
            line = "KNOWN-FINDING: property=%s %s [%s]" % (pid, k["what"], k["witness"])
            if line not in printed:
                print(line)
                printed.add(line)
        if r["verdict"] == "refuted":
            violations += 1
            path = os.path.join(rdir, "%s.json" % r["condition"])
            json.dump({"property": pid, "module": modname, "condition": r["condition"],
                       "call": r["violation"]["call"], "observed": r["violation"]}, open(path, "w"), indent=1)
            print("VIOLATION property=%s replay=%s" % (pid, path))
            print("  condition=%s call=%s %s" % (r["condition"], r["violation"]["call"],
                                                (r["violation"].get("exc") or r["violation"].get("detail") or "")[:300]))
        if r["verdict"] == "vacuous":
            harness_err.append(r["condition"])

    counts = {}
    for r in recs:
        counts[r["verdict"]] = counts.get(r["verdict"], 0) + 1
    funcs = set()
    for r in recs:
        for f in r["functions"]:
            funcs.add(tuple(f))
    paths = sum(r["paths"] for r in recs)
    reached = sum(r["reached_oracle"] for r in recs)
    samples = []
    for r in recs[:]:
        if r.get("twin_witness") and len(samples) < 8:
            samples.append({"condition": r["condition"], "reachable_instance": r["twin_witness"], "verdict": r["verdict"]})
    if not samples:
        samples = [{"condition": r["condition"], "verdict": r["verdict"]} for r in recs[:3]] or [{"none": True}]
    cov = {
        "states": max(paths, 1), "transitions": max(sum(r["solver_checks"] for r in recs), 1),
        "traces_validated_against_impl": sum(1 for r in recs if r.get("witness_replay_ok")) + sum(len(r["known"]) for r in recs),
        "samples": samples,
        "evaluations": max(paths, 1), "distinct_nontrivial": reached,
        "rule": "one evaluation = one symbolic execution path of a harness condition through the real liquid code (each path is a distinct branch-decision sequence and stands for all inputs satisfying its path condition); non-trivial = the path reached the oracle at the end of the harness body (counted in-process).",
        "conditions": len(recs), "verdicts": counts,
        "solver_queries": sum(r["solver_checks"] for r in recs), "solver_s": round(sum(r["solver_s"] for r in recs), 2),
        "solver_unknown": sum(r["solver_unknown"] for r in recs),
        "functions_encoded": source_hashes(sorted(funcs)),
        "bounds": {r["condition"]: r["bounds"] for r in recs},
        "per_condition": [{k: r[k] for k in ("condition", "verdict", "timeout_s", "paths", "reached_oracle", "solver_checks",
                                             "solver_s", "twin", "rounds", "sel_only", "wall_s", "known", "spurious", "excluded", "notes")} for r in recs],
        "sel_only_conditions": [r["condition"] for r in recs if r["sel_only"]],
        "outside": meta.get("outside", []),
        "explanation": "Bounded symbolic execution (CrossHair 0.0.110 + z3) of the real functions of /repo/liquid, re-imported from the working tree on every run. 'confirmed' = path tree exhausted with every path satisfying the oracle inside the bounds; 'inconclusive' = not exhausted in the time budget (bug-hunting only); nothing is claimed outside the bounds.",
        "exhaustive": False,
    }
    ev = {"property_id": pid, "tier": tier, "seed": seed, "level": "model_checking", "coverage": cov,
          "assumptions": meta.get("assumptions", []) + ["CrossHair's models of int/bool/str/list/dict/tuple and z3 are trusted",
                                                       "regions of listed known findings are excluded from the search (see per_condition[].excluded)"],
          "wall_s": round(time.time() - t0, 2), "violations": violations}
    # a partial run (--only) must not overwrite the evidence of the registered command
    evname = pid + (".partial.json" if a.only else ".json")
    json.dump(ev, open(os.path.join(OUT, "evidence", evname), "w"), indent=1)
    print("%s %s: %d conditions %s paths=%d solver_queries=%d solver_s=%.1f wall=%.0fs" % (
        pid, tier, len(recs), counts, paths, cov["solver_queries"], cov["solver_s"], time.time() - t0))
    for r in recs:
        print("  %-40s %-12s paths=%-5d q=%-6d %5.1fs twin=%s %s" % (r["condition"], r["verdict"], r["paths"], r["solver_checks"], r["wall_s"], r["twin"],
                                                                  ("spurious=%d" % len(r["spurious"])) if r["spurious"] else ""))
    if violations:
        sys.exit(1)
    if selftest_failed:
        print("HARNESS-ERROR property=%s oracle self-test failed and no condition was refuted" % pid)
        sys.exit(3)
    if harness_err:
        print("HARNESS-ERROR property=%s vacuous conditions: %s" % (pid, harness_err))
        sys.exit(3)
    sys.exit(0)


if __name__ == "__main__":
    main()
