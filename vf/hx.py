"""Helpers imported by harness modules. None of these carries a PEP-316 contract
(CrossHair enforces the contracts of callees)."""
import json
import os

_TWIN = os.environ.get("VF_TWIN") == "1"
_EXCL = {}
for _name, _exprs in json.loads(os.environ.get("VF_EXCL", "{}")).items():
    _EXCL[_name] = [compile(e, "<exclude:%s>" % _name, "eval") for e in _exprs]

# number of times an explored path reached the oracle (end of a harness body)
REACHED = [0]

_ENV = {"isinstance": isinstance, "len": len, "str": str, "int": int, "bool": bool,
        "float": float, "abs": abs, "type": type, "tuple": tuple, "list": list,
        "any": any, "all": all, "min": min, "max": max}


def excluded(name, args):
    """True when the arguments fall inside a region excluded for this run: a
    listed known finding or a spurious point found earlier in the same run.
    Evaluated on the symbolic arguments - an assumption like a precondition."""
    for c in _EXCL.get(name, ()):
        try:
            if eval(c, _ENV, dict(args)):
                return True
        except Exception:
            pass
    return False


def finish(ok):
    """Last statement of every harness body. In twin mode the result is forced
    to False: the twin must be refuted, proving that the end of the body is
    reachable under the assumptions."""
    REACHED[0] += 1
    if _TWIN:
        return False
    return bool(ok)


def drive(coro):
    """Run a coroutine that must not suspend (no event loop)."""
    try:
        coro.send(None)
    except StopIteration as e:
        return e.value
    coro.close()
    raise RuntimeError("coroutine suspended")


def outcome(thunk, errbase=Exception):
    """Map a call to ('ok', value) / ('err', class name). Only Exception is
    caught: CrossHair's path-steering exceptions derive from BaseException."""
    try:
        return ("ok", thunk())
    except errbase as e:
        return ("err", type(e).__name__)


def untraced(thunk):
    """Run thunk on the plain interpreter even inside a CrossHair run (for bodies whose inputs have
    already been made concrete by selector comparisons and that CrossHair would only slow down or,
    for functools.lru_cache, bypass)."""
    try:
        from crosshair.tracers import NoTracing, is_tracing
    except ImportError:
        return thunk()
    if is_tracing():
        with NoTracing():
            return thunk()
    return thunk()


def cbool(b):
    """The concrete bool equal to a symbolic one (forks)."""
    return True if b else False


def cint(k, lo, hi):
    """The concrete int equal to symbolic k in lo..hi, decided by comparisons (forks; bisection, so
    about log2(hi-lo) solver decisions per path)."""
    if k <= lo:
        return lo
    while lo < hi:
        mid = (lo + hi) // 2
        if k <= mid:
            hi = mid
        else:
            lo = mid + 1
    return lo
