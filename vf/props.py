"""Per-property claims used to generate MANIFEST.json."""
CLAIMED = {
    "C13": {
        "text": "Bounded model checking by symbolic execution: whole renders of 25 pre-parsed for/tablerow skeleton templates run on the real LoopExpression/ForNode/TablerowNode code with symbolic limit, offset, cols, break/continue indices (unbounded ints) and collection lengths 0..4; z3 decides on every path that the output equals the Ruby-Liquid reference slicing incl. all forloop/tablerowloop helpers. Conditions whose path tree is exhausted are 'confirmed' for all values in the bounds; others are reported inconclusive.",
        "note": "Trusted: CrossHair's int/str/list models, z3, the 12-line reference oracle (self-tested against the real code on fixed cases). Template sources are a finite skeleton family, collections <= 4-5 items, nil limit/offset is don't-care.",
    },
}
CLAIMED["C06"] = {
    "text": "Inductive bounded model checking: from any render context whose tracked product (carry x loop-stack lengths) equals the true product P <= N (symbolic carry, 0..2 symbolic enclosing loops), ONE real repeating construct (for, tablerow, include/render with array, plain render/include/call/with/if/case, liquid) runs around a probe tag over a collection of symbolic length with a symbolic limit N; z3 decides on every path that it raises LoopIterationLimitError iff P*len > N before the block runs, else the block runs len times seeing P*len and the caller's product is restored. Whole-render nests of depth 2-3 (20 skeletons) cross-check the composition. All conditions exhaust their path tree.",
    "note": "Trusted: CrossHair/z3; the probe tag registered in the harness environment; induction argument (post-state of a step has the pre-state's shape). Bounds: carry and lengths 1..6 (1..12 thorough), n <= 4 (8), N <= 200; skeleton family listed in harness/c06.py.",
}
CLAIMED["C24"] = {
    "text": "Inductive bounded model checking: ONE public operation (set/get/getitem/del/contains/len/keys/values/items/iter, symbolic op selector, key and value) of the real LRUCache and ThreadSafeLRUCache from an arbitrary valid state (n <= capacity <= 4 distinct unbounded symbolic int keys, arbitrary recency order; also string keys) against a list model; the post-state has the pre-state's shape so histories of any length follow. Thread-safety: a lock monitor in the dict stub shows every dict access (incl. each iterator step) is made under the lock, and a listing interleaved with a symbolic write at a symbolic point never fails and is a snapshot. All conditions exhaust their path tree.",
    "note": "Trusted: CrossHair/z3; ModelOD stub for collections.OrderedDict (differentially validated against the real class on every run); threads modelled at lock/iterator-step granularity, not real preemption.",
}
CLAIMED["C10"] = {
    "text": "Bounded model checking of the template lexer's whitespace-control logic: (A) the real liquid.lex._tokenize_template is driven by stub regex-match objects so that text fragments are symbolic strings (<= 2 code points over space/newline/letter) and all hyphen flags symbolic; tokens go through the real parser and renderer and z3 decides on every path that the output equals 'text verbatim, left-stripped iff the previous closing delimiter has a hyphen, right-stripped iff the next opening delimiter has one; raw body verbatim; comment/doc bodies absent', for single markups and ordered pairs of markups (output, tag, echo, inline comment, raw, doc, comment). (B) the same oracle on the whole real pipeline incl. the compiled regular expression, with text from an 8-element pool and symbolic flags (solver-steered enumeration, labelled sel_only) for 9 markup kinds, shorthand comments and all 81 ordered pairs.",
    "note": "Trusted: CrossHair/z3; in (A) the stub match generator (conformance-checked against the real compiled pattern on every run). The regular expressions themselves are exercised only on pool texts (B). Custom delimiters are out (C11).",
}
CLAIMED["C22"] = {
    "text": "Bounded model checking of the path-resolution logic: the real FileSystemLoader.resolve_path and PackageLoader._resolve_path run against SymPath, a stand-in for pathlib.Path answering from 7-10 symbolic booleans (name, suffix, '..' part, absolute, exists, is_file, resolves-inside, reject_symlinks, ext, 1-2 search paths); z3 decides on every path that a path is returned only for relative, '..'-free, existing files that resolve inside when symlinks are rejected, and that only TemplateNotFoundError is raised otherwise (path tree exhausted). Complemented by solver-steered enumeration (sel_only) of the real plain / caching / package loaders, sync and async, on template names assembled from fragment pools (7 prefixes x 15 x 16 x 5) against a sandbox tree with decoys and symlinks.",
    "note": "Trusted: CrossHair/z3; the SymPath contract (a relative path without '..' joined to base is lexically inside base); pathlib and the OS for the enumerated names; an inline stand-in for asyncio's executor.",
}
CLAIMED["C23"] = {
    "text": "Bounded model checking of one request against a caching loader whose cache was filled by earlier requests: symbolic template-name and namespace strings (<= 1-2 code points, so z3 can construct colliding cache keys), symbolic sync/async choice, globals, capacity 1..2, auto-reload flag and 'source edited' flag; the real CachingLoaderMixin (load, load_async, _check_cache*, cache_key) and LRUCache run on ModelOD; the oracle is relational: name, path, rendered output and effective globals equal those of the non-caching loader for the same request. Sequences of 3 requests with eviction, namespace from render context vs keyword, missing names; the shipped CachingDictLoader/CachingChoiceLoader with names from a pool (sel_only).",
    "note": "Trusted: CrossHair/z3; ModelOD stub for OrderedDict (validated every run); FakePath stand-in for pathlib.Path in liquid.loader; coroutines driven without an event loop. One listed known finding (non-injective cache key) is excluded by a predicate over the arguments.",
}
CLAIMED["C07"] = {
    "text": "Bounded model checking: (O1) one write / three writes on the real LimitedStringIO from an arbitrary (size, limit) state with multi-byte strings; (O2) whole renders of 14 skeleton templates (output, loops, capture, nested capture, ifchanged, include, render, cycle, tablerow, block.super, liquid/echo, non-ASCII literals) with a symbolic output limit L in 0..60, symbolic loop lengths and multi-byte contents from a pool: completed => output equals the unlimited output and is <= L bytes; unlimited > L => OutputStreamLimitError; for skeletons without side buffers the limit is exact (raises iff > L). (N1) local namespace limit with sys.getsizeof replaced by symbolic per-kind sizes and an assign monitor: in a completed strict render every measured size (incl. sizes carried into rendered partials, nested partials, macros) is <= M and carries are monotone.",
    "note": "Trusted: CrossHair/z3; the getsizeof stub (any size function); contents from a 6-element pool; skeleton family listed in harness/c07.py.",
}
NOT_APPLICABLE = {
    "C11": "delimiters flow only into re.escape/re.compile and functools.lru_cache keys (C code needing concrete values): no dimension is left for a solver to decide; enumerating delimiter sets would be bounded testing, a different technique (DESIGN.md §6)",
}
# properties not yet wired are listed as not applicable with the reason 'not built yet' until their harness lands
PENDING = ["C01", "C02", "C03", "C04", "C05", "C06", "C07", "C08", "C09", "C10", "C12", "C14", "C15", "C16", "C17", "C18",
           "C19", "C20", "C21", "C22", "C23", "C24", "C25", "C26", "C27"]
for _p in PENDING:
    if _p not in CLAIMED:
        NOT_APPLICABLE[_p] = "no check registered yet in this revision (harness under construction; see DESIGN.md §5)"
