"""Stubs that replace C-level environment in harnesses. Each is part of the claim
of the conditions that use it and is validated by a self-test against the real
thing on concrete inputs."""
import itertools


class ModelOD:
    """List-based stand-in for collections.OrderedDict: equality scans instead of
    hashing (keys stay symbolic), live views/iterators that raise RuntimeError
    when the dict changed size/order between two next() calls, and a monitor
    that records accesses made while the owning cache's lock is not held."""
    owner = None
    violations = 0

    def __init__(self, *a):
        self.k = []
        self.v = []
        self.ver = 0

    def _acc(self):
        o = ModelOD.owner
        if o is not None and hasattr(o, "_lock") and not o._lock.locked():
            ModelOD.violations += 1

    def _idx(self, key):
        for i in range(len(self.k)):
            if self.k[i] == key:
                return i
        return -1

    def __getitem__(self, key):
        self._acc()
        i = self._idx(key)
        if i < 0:
            raise KeyError(key)
        return self.v[i]

    def __setitem__(self, key, value):
        self._acc()
        i = self._idx(key)
        if i < 0:
            self.k.append(key)
            self.v.append(value)
            self.ver += 1
        else:
            self.v[i] = value

    def __delitem__(self, key):
        self._acc()
        i = self._idx(key)
        if i < 0:
            raise KeyError(key)
        del self.k[i]
        del self.v[i]
        self.ver += 1

    def __len__(self):
        self._acc()
        return len(self.k)

    def __contains__(self, key):
        self._acc()
        return self._idx(key) >= 0

    def get(self, key, default=None):
        self._acc()
        i = self._idx(key)
        return default if i < 0 else self.v[i]

    def pop(self, key, *default):
        self._acc()
        i = self._idx(key)
        if i < 0:
            if default:
                return default[0]
            raise KeyError(key)
        self.k.pop(i)
        self.ver += 1
        return self.v.pop(i)

    def clear(self):
        self._acc()
        del self.k[:]
        del self.v[:]
        self.ver += 1

    def move_to_end(self, key, last=True):
        self._acc()
        i = self._idx(key)
        if i < 0:
            raise KeyError(key)
        k = self.k.pop(i)
        v = self.v.pop(i)
        if last:
            self.k.append(k)
            self.v.append(v)
        else:
            self.k.insert(0, k)
            self.v.insert(0, v)
        if (last and i != len(self.k) - 1) or (not last and i != 0):
            self.ver += 1

    def popitem(self, last=True):
        self._acc()
        if not self.k:
            raise KeyError("dictionary is empty")
        self.ver += 1
        if last:
            return (self.k.pop(), self.v.pop())
        return (self.k.pop(0), self.v.pop(0))

    def _gen(self, what, rev):
        self._acc()
        ver = self.ver
        n = len(self.k)
        i = n - 1 if rev else 0
        while 0 <= i < n:
            self._acc()
            if self.ver != ver:
                raise RuntimeError("OrderedDict mutated during iteration")
            yield (self.k[i] if what == 0 else self.v[i] if what == 1 else (self.k[i], self.v[i]))
            i += -1 if rev else 1

    def __iter__(self):
        return self._gen(0, False)

    def __reversed__(self):
        return self._gen(0, True)

    def keys(self):
        return _View(self, 0)

    def values(self):
        return _View(self, 1)

    def items(self):
        return _View(self, 2)


class _View:
    def __init__(self, d, w):
        self.d, self.w = d, w

    def __iter__(self):
        return self.d._gen(self.w, False)

    def __reversed__(self):
        return self.d._gen(self.w, True)

    def __len__(self):
        return len(self.d.k)


def validate_model_od(max_ops=4, keys=(1, 2, 3)):
    """Differential execution of ModelOD against collections.OrderedDict on all
    operation sequences up to max_ops over a small key set. Returns failures."""
    from collections import OrderedDict
    ops = []
    for k in keys:
        ops += [("set", k), ("del", k), ("mte", k), ("mtb", k), ("get", k), ("in", k)]
    ops += [("popf",), ("popl",), ("len",), ("keys",), ("rkeys",), ("ritems",), ("rvalues",)]
    fails = []
    cnt = 0
    for n in range(1, max_ops + 1):
        for seq in itertools.product(ops, repeat=n):
            a, b = OrderedDict(), ModelOD()
            for step, op in enumerate(seq):
                ra = rb = None
                for d, which in ((a, 0), (b, 1)):
                    try:
                        if op[0] == "set":
                            d[op[1]] = step
                            r = None
                        elif op[0] == "del":
                            del d[op[1]]
                            r = None
                        elif op[0] == "mte":
                            r = d.move_to_end(op[1])
                        elif op[0] == "mtb":
                            r = d.move_to_end(op[1], last=False)
                        elif op[0] == "get":
                            r = d[op[1]]
                        elif op[0] == "in":
                            r = op[1] in d
                        elif op[0] == "popf":
                            r = d.popitem(last=False)
                        elif op[0] == "popl":
                            r = d.popitem()
                        elif op[0] == "len":
                            r = len(d)
                        elif op[0] == "keys":
                            r = list(d.keys())
                        elif op[0] == "rkeys":
                            r = list(reversed(d))
                        elif op[0] == "ritems":
                            r = list(reversed(d.items()))
                        else:
                            r = list(reversed(d.values()))
                    except KeyError:
                        r = "KeyError"
                    if which == 0:
                        ra = r
                    else:
                        rb = r
                if ra != rb:
                    fails.append("ModelOD differs from OrderedDict on %r: %r vs %r" % (seq, ra, rb))
                    break
            cnt += 1
            if len(fails) > 3:
                return fails
    # mutation during iteration
    for mut in ("set_new", "del", "popitem"):
        a, b = OrderedDict(), ModelOD()
        res = []
        for d in (a, b):
            d[1] = 1
            d[2] = 2
            it = reversed(d.keys())
            next(it)
            try:
                if mut == "set_new":
                    d[3] = 3
                elif mut == "del":
                    del d[1]
                else:
                    d.popitem(last=False)
                next(it)
                res.append("no error")
            except RuntimeError:
                res.append("RuntimeError")
            except StopIteration:
                res.append("stop")
        if res[0] != res[1]:
            fails.append("ModelOD live iterator differs on %s: %r" % (mut, res))
    return fails
