"""One OS process per harness condition.

  python -m vf.worker sym    <module> <fn> <timeout_s> [seed]
  python -m vf.worker replay <module> <fn> <call-expression>

sym    : bounded symbolic execution of the harness function with CrossHair/z3;
         prints one line '@@RESULT {json}'.
replay : plain interpreter, no tracing; evaluates the counterexample call.
"""
import importlib
import json
import math
import os
import re
import sys
import time
import traceback


def _emit(d):
    sys.stdout.write("\n@@RESULT " + json.dumps(d, default=str) + "\n")
    sys.stdout.flush()


CALL_RE = re.compile(r"when calling (.*?)(?: \(which (?:returns|raises)|$)", re.S)


def sym(modname, fnname, timeout, seed):
    import z3
    stat = {"n": 0, "s": 0.0, "unknown": 0}
    _orig = z3.Solver.check

    def _check(self, *a):
        t = time.perf_counter()
        r = None
        try:
            r = _orig(self, *a)
            return r
        finally:
            stat["n"] += 1
            stat["s"] += time.perf_counter() - t
            if r is not None and str(r) == "unknown":
                stat["unknown"] += 1
    z3.Solver.check = _check
    import collections
    import random
    from crosshair.core_and_libs import analyze_function, run_checkables
    from crosshair.options import AnalysisOptionSet
    from vf import chpatch
    chpatch.apply()
    random.seed(seed)
    t0 = time.time()
    mod = importlib.import_module(modname)
    fn = getattr(mod, fnname)
    from vf import hx
    stats = collections.Counter()
    opts = AnalysisOptionSet(per_condition_timeout=float(timeout),
                             per_path_timeout=max(5.0, float(timeout) / 4),
                             max_uninteresting_iterations=10 ** 9,
                             report_all=True, stats=stats)
    t1 = time.time()
    msgs = run_checkables(analyze_function(fn, opts))
    out = []
    for m in msgs:
        call = None
        mm = CALL_RE.search(m.message)
        if mm:
            call = mm.group(1).strip()
        out.append({"state": m.state.name, "message": m.message[:600], "call": call})
    _emit({"messages": out, "solver_checks": stat["n"], "solver_s": round(stat["s"], 3),
           "solver_unknown": stat["unknown"], "paths": int(stats.get("num_paths", 0)),
           "reached_oracle": hx.REACHED[0], "import_s": round(t1 - t0, 2),
           "wall_s": round(time.time() - t1, 2)})


def replay(modname, fnname, call):
    """Returns reproduced=True when the call returns a false value or raises."""
    funcs = set()
    repo = os.path.realpath(os.environ.get("VF_REPO", "/repo")) + os.sep

    def prof(frame, event, arg):
        if event == "call":
            co = frame.f_code
            fnm = co.co_filename
            if fnm.startswith(repo):
                funcs.add((fnm[len(repo):], co.co_qualname, co.co_firstlineno))
    mod = importlib.import_module(modname)
    ns = dict(vars(mod))
    ns.update({"nan": math.nan, "inf": math.inf, "math": math, "float": float})
    res = {"reproduced": None, "value": None, "exc": None}
    sys.setprofile(prof)
    try:
        try:
            v = eval(call, ns)
            res["value"] = repr(v)[:300]
            res["reproduced"] = not bool(v)
        except Exception as e:
            res["exc"] = "%s: %s" % (type(e).__name__, str(e)[:300])
            res["trace"] = traceback.format_exc()[-1500:]
            res["reproduced"] = True
    finally:
        sys.setprofile(None)
    detail = getattr(mod, "DETAIL", None)
    if detail is not None and fnname in detail:
        try:
            res["detail"] = repr(eval(call.replace(fnname + "(", "DETAIL[%r](" % fnname, 1), ns))[:800]
        except Exception as e:
            res["detail"] = "detail failed: %r" % (e,)
    res["functions"] = sorted(funcs)
    _emit(res)


def meta(modname):
    mod = importlib.import_module(modname)
    conds = []
    for c in mod.CONDITIONS:
        c = dict(c)
        fn = getattr(mod, c["fn"])
        doc = fn.__doc__ or ""
        pres = [l.strip()[4:].strip() for l in doc.splitlines() if l.strip().startswith("pre:")]
        c.setdefault("bounds", "; ".join(pres))
        conds.append(c)
    fails = []
    st = getattr(mod, "selftest", None)
    if st is not None:
        try:
            fails = list(st() or [])
        except Exception:
            fails = ["selftest raised: " + traceback.format_exc()[-800:]]
    _emit({"conditions": conds, "assumptions": list(getattr(mod, "ASSUMPTIONS", [])),
           "outside": list(getattr(mod, "OUTSIDE", [])), "selftest_failures": fails[:20]})


def bind(modname, fnname, call):
    import ast
    import inspect
    mod = importlib.import_module(modname)
    fn = getattr(mod, fnname)
    ns = dict(vars(mod))
    ns.update({"nan": math.nan, "inf": math.inf, "math": math, "float": float})
    tree = ast.parse(call, mode="eval").body
    args = [eval(compile(ast.Expression(a), "<a>", "eval"), ns) for a in tree.args]
    kwargs = {k.arg: eval(compile(ast.Expression(k.value), "<a>", "eval"), ns) for k in tree.keywords}
    ba = inspect.signature(fn).bind(*args, **kwargs)
    ba.apply_defaults()
    parts = []
    for k, v in ba.arguments.items():
        if isinstance(v, float) and v != v:
            parts.append("(isinstance(%s, float) and %s != %s)" % (k, k, k))
        elif v is None or isinstance(v, bool):
            parts.append("(%s is %r)" % (k, v))
        else:
            parts.append("(isinstance(%s, %s) and %s == %r)" % (k, type(v).__name__, k, v))
    _emit({"predicate": " and ".join(parts) or "True"})


if __name__ == "__main__":
    mode = sys.argv[1]
    try:
        if mode == "meta":
            meta(sys.argv[2])
        elif mode == "bind":
            bind(sys.argv[2], sys.argv[3], sys.argv[4])
        elif mode == "sym":
            sym(sys.argv[2], sys.argv[3], float(sys.argv[4]), int(sys.argv[5]) if len(sys.argv) > 5 else 0)
        else:
            replay(sys.argv[2], sys.argv[3], sys.argv[4])
    except Exception:
        _emit({"crash": traceback.format_exc()[-3000:]})
        sys.exit(0)
