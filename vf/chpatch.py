"""Adjustments to CrossHair 0.0.110 applied by the worker before a symbolic run.

1. getattr(): CrossHair's interceptor runs the real getattr with tracing off,
   so a Python-level @property getter that touches a symbolic value crashes
   ('Numeric operation on symbolic while not tracing'). liquid's loop helpers
   (ForLoop.rindex, TableRow.col_last, ...) are properties reached through
   getattr(self, key). The replacement runs property getters with tracing on.
2. optional short-circuiting: CrossHair may replace a call to a function that carries a
   contract (its own repr() stand-in has `post[]: True`) by a fresh unconstrained symbolic
   result. That over-approximates (spurious counterexamples) and doubles the path count at
   every repr() - liquid builds f"{root!r} is undefined" on every undefined lookup. Optional
   short-circuits are never taken; the function is always executed.
3. construction: under enforcement CrossHair replaces Cls(*a) by a manual constructor that
   looks __init__ up on the INSTANCE; classes that override __getattribute__ (liquid's
   StrictUndefined family) reject that lookup. Python looks __init__ up on the type; so do we.
"""
from crosshair import core as _core
from crosshair.libimpl import builtinslib as _bl
from crosshair.tracers import NoTracing, ResumedTracing

_MISSING = _bl._MISSING
_builtin_getattr = getattr


def _getattr(obj, name, default=_MISSING):
    with NoTracing():
        if isinstance(name, _bl.AnySymbolicStr):
            _bl.fork_on_useful_attr_names(obj, name)
            name = _bl.realize(name)
        prop = None
        try:
            for k in type(obj).__mro__:
                d = k.__dict__
                if name in d:
                    prop = d[name]
                    break
        except Exception:
            prop = None
        if isinstance(prop, property) and prop.fget is not None:
            with ResumedTracing():
                return prop.fget(obj)
        if default is _MISSING:
            return _builtin_getattr(obj, name)
        return _builtin_getattr(obj, name, default)


_orig_consider = _core.consider_shortcircuit


def _consider_shortcircuit(fn, sig, bound, subconditions, allow_interpretation):
    if allow_interpretation:
        return None
    return _orig_consider(fn, sig, bound, subconditions, allow_interpretation)


from crosshair import enforce as _enf


def _manual_constructor(typ):
    def manually_construct(*a, **kw):
        obj = _enf.WithEnforcement(typ.__new__)(typ, *a, **kw)
        with NoTracing():
            if isinstance(obj, typ):
                init = type(obj).__init__
                with ResumedTracing():
                    _enf.WithEnforcement(init)(obj, *a, **kw)
        return obj
    return manually_construct


def apply():
    _enf.manual_constructor = _manual_constructor
    _core._PATCH_REGISTRATIONS[_builtin_getattr] = _getattr
    _core.consider_shortcircuit = _consider_shortcircuit
