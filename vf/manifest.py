"""Regenerates MANIFEST.json from vf/props.py (python3 vf/manifest.py)."""
import json
import os
import sys
sys.path.insert(0, os.path.dirname(os.path.dirname(os.path.abspath(__file__))))
from vf.props import CLAIMED, NOT_APPLICABLE

BASE = "cd /repo && /venv/bin/python -m pytest -ra -q -p no:cacheprovider --timeout=900 --continue-on-collection-errors"
m = {
    "version": 1,
    "setup_cmd": "./setup.sh",
    "hooks": {
        "guard": "LIQUID_VERIF",
        "enable": "no source hooks exist: harnesses install stubs/monitors by assignment at import time inside the check process; LIQUID_VERIF is reserved and unused",
        "baseline_off_cmd": BASE,
        "source_commits": [],
        "add_only": True,
    },
    "engines": [{
        "name": "crosshair-z3",
        "path": "vf/worker.py",
        "serves_properties": sorted(CLAIMED),
        "kind_free_text": "bounded symbolic execution of the real Python functions of /repo/liquid (CrossHair 0.0.110) with z3 deciding every path condition; one OS process per harness condition; counterexamples replayed on the plain interpreter before reporting",
    }],
    "checks": [],
    "not_applicable": [{"property_id": k, "reason": v} for k, v in sorted(NOT_APPLICABLE.items())],
    "notes": "See DESIGN.md. Verdicts per condition: confirmed (path tree exhausted inside the stated bounds), inconclusive (bug-hunting only), refuted (replayed). Exit 3 is reserved for harness errors.",
}
for pid in sorted(CLAIMED):
    c = CLAIMED[pid]
    m["checks"].append({
        "property_id": pid,
        "quick_cmd": "./check %s --tier quick" % pid,
        "thorough_cmd": "./check %s --tier thorough" % pid,
        "evidence_file": "/verif/evidence/%s.json" % pid,
        "replay_cmd_template": "./check %s --replay {path}" % pid,
        "engine": "crosshair-z3",
        "level_claimed": {"category": "model_checking", "text": c["text"], "design_ref": c.get("ref", "DESIGN.md §5 " + pid)},
        "level_note": c["note"],
        "technique": c.get("technique", "bounded symbolic execution of the real code (CrossHair) with z3 deciding each path; counterexamples replayed concretely"),
    })
json.dump(m, open(os.path.join(os.path.dirname(os.path.dirname(os.path.abspath(__file__))), "MANIFEST.json"), "w"), indent=1)
print("checks:", len(m["checks"]), "n/a:", len(m["not_applicable"]))
